(* Byte strings in generated case files are written as [hex "0aff"] : list N. *)
From Coq Require Import List Bool NArith Ascii.
From Coq Require Export String.
Import ListNotations.
Open Scope bool_scope.
Open Scope N_scope.

Definition hexval (c : ascii) : N :=
  let n := N_of_ascii c in
  if (48 <=? n) && (n <=? 57) then n - 48
  else if (97 <=? n) && (n <=? 102) then n - 87
  else if (65 <=? n) && (n <=? 70) then n - 55
  else 0.

Fixpoint hex (s : string) : list N :=
  match s with
  | String a (String b rest) => (16 * hexval a + hexval b) :: hex rest
  | _ => []
  end.

Example hex_ex : hex "0aff10" = [10; 255; 16].
Proof. reflexivity. Qed.
