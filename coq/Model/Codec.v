(* Model of the binary frame codecs (raw = byte-bodied variants):
     swimos_utilities/swimos_encoding/src/codec.rs          WithLengthBytesCodec
     api/swimos_agent_protocol/src/map/mod.rs               RawMapOperation*, RawMapMessage*
     api/swimos_agent_protocol/src/lane/mod.rs              Lane{Request,Response}{Encoder,Decoder}<Inner>
     api/swimos_agent_protocol/src/store/mod.rs             StoreInitMessage*, StoreInitializedCodec, StoreResponse*
     api/swimos_agent_protocol/src/downlink/mod.rs          DownlinkOperationDecoder (frames of WithLenReconEncoder)
     api/swimos_agent_protocol/src/command/mod.rs           RawCommandMessage{Encoder,Decoder}
     runtime/swimos_messages/src/protocol/mod.rs            Raw{Request,Response}Message{Encoder,Decoder}
   A decoder is [dstep : codec -> dstate -> bytes -> dstate * bytes * dres]: the Rust `decode`
   applied to the buffer, returning the new decoder state, what is left in the buffer and
   Ok(None) / Ok(Some) / Err / panic.  `usize` is 64 bits; additions that exceed it panic (the
   harness is built with overflow checks, as debug builds are). *)
From Coq Require Export List Bool Arith NArith Lia.
Export ListNotations.
Open Scope N_scope.

Definition bytes := list N.

(* ---- big-endian integers ---- *)
Fixpoint be (n : nat) (v : N) : bytes :=
  match n with
  | O => []
  | S k => (v / 256 ^ N.of_nat k) mod 256 :: be k v
  end.

Fixpoint unbe (b : bytes) : N :=
  match b with
  | [] => 0
  | x :: t => x * 256 ^ N.of_nat (length t) + unbe t
  end.

Definition len (b : bytes) : N := N.of_nat (length b).
Definition take (n : N) (b : bytes) : bytes := firstn (N.to_nat n) b.
Definition drop (n : N) (b : bytes) : bytes := skipn (N.to_nat n) b.

Definition USIZE_MAX : N := 18446744073709551615.
(* checked usize addition: None = arithmetic overflow panic *)
Definition uadd (a b : N) : option N := if a + b <=? USIZE_MAX then Some (a + b) else None.

Fixpoint bytes_eqb (a b : bytes) : bool :=
  match a, b with
  | [], [] => true
  | x :: a', y :: b' => (x =? y) && bytes_eqb a' b'
  | _, _ => false
  end.

(* ---- messages ---- *)
Inductive mapop :=
| MUpdate (k v : bytes) | MRemove (k : bytes) | MClear | MTake (n : N) | MDrop (n : N).

Inductive reqop := OpLink | OpSync | OpUnlink | OpCommand (body : bytes).
Inductive respop := NLinked | NSynced | NUnlinked (body : option bytes) | NEvent (body : bytes).

Inductive msg :=
| WL (b : bytes)                                  (* a length-prefixed byte body *)
| MO (o : mapop)                                  (* MapOperation (update / remove / clear) *)
| MM (o : mapop)                                  (* MapMessage *)
| LReqCommand (m : msg) | LReqSync (id : N) | LReqInitComplete
| LRespEvent (m : msg) | LRespInitialized | LRespSyncEvent (id : N) (m : msg) | LRespSynced (id : N)
| SInitCommand (m : msg) | SInitComplete
| SInitialized
| SResp (m : msg)
| CRegister (host : option bytes) (node lane : bytes) (id : N)
| CAddressed (host : option bytes) (node lane : bytes) (body : bytes) (ow : bool)
| CRegistered (id : N) (body : bytes) (ow : bool)
| Req (origin : N) (node lane : bytes) (op : reqop)
| Resp (origin : N) (node lane : bytes) (op : respop).

Inductive inner := IWL | IMO | IMM.

Inductive codec :=
| CWL | CMO | CMM
| CLaneReq (i : inner) | CLaneResp (i : inner)
| CStoreInit (i : inner) | CStoreInitialized | CStoreResp (i : inner)
| CDlOp
| CCmd
| CReq | CResp.

(* ---- tags ---- *)
Definition T_COMMAND : N := 0.  Definition T_SYNC : N := 1.  Definition T_SYNC_COMPLETE : N := 2.
Definition T_EVENT : N := 3.    Definition T_INIT_DONE : N := 4.  Definition T_INITIALIZED : N := 5.
Definition M_UPDATE : N := 0.   Definition M_REMOVE : N := 1.  Definition M_CLEAR : N := 2.
Definition M_TAKE : N := 3.     Definition M_DROP : N := 4.
Definition F_REGISTRATION : N := 1.  Definition F_REGISTERED : N := 2.
Definition F_HAS_HOST : N := 4.      Definition F_OVERWRITE : N := 8.
Definition OP_SHIFT : N := 61.
Definition P_LINK : N := 0.   Definition P_SYNC : N := 1.   Definition P_UNLINK : N := 2.
Definition P_COMMAND : N := 3. Definition P_LINKED : N := 4. Definition P_SYNCED : N := 5.
Definition P_UNLINKED : N := 6. Definition P_EVENT : N := 7.

(* ------------------------------------------------------------------------------------------ *)
(* encoders *)

Definition enc_wl (b : bytes) : bytes := be 8 (len b) ++ b.

Definition enc_mapop (o : mapop) : option bytes :=
  match o with
  | MUpdate k v => Some (be 8 (len k + len v + 9) ++ [M_UPDATE] ++ be 8 (len k) ++ k ++ v)
  | MRemove k => Some (be 8 (len k + 1) ++ [M_REMOVE] ++ k)
  | MClear => Some (be 8 1 ++ [M_CLEAR])
  | _ => None
  end.

Definition enc_mapmsg (o : mapop) : bytes :=
  match o with
  | MTake n => be 8 9 ++ [M_TAKE] ++ be 8 n
  | MDrop n => be 8 9 ++ [M_DROP] ++ be 8 n
  | other => match enc_mapop other with Some b => b | None => [] end
  end.

Definition enc_inner (i : inner) (m : msg) : option bytes :=
  match i, m with
  | IWL, WL b => Some (enc_wl b)
  | IMO, MO o => enc_mapop o
  | IMM, MM o => Some (enc_mapmsg o)
  | _, _ => None
  end.

Definition enc_address (host : option bytes) (node lane : bytes) : bytes :=
  match host with
  | Some h => be 8 (len h) ++ be 8 (len node) ++ be 8 (len lane) ++ h ++ node ++ lane
  | None => be 8 (len node) ++ be 8 (len lane) ++ node ++ lane
  end.

Definition flag_if (b : bool) (f : N) : N := if b then f else 0.

Definition encode (c : codec) (m : msg) : option bytes :=
  match c, m with
  | CWL, WL b => Some (enc_wl b)
  | CMO, MO o => enc_mapop o
  | CMM, MM o => Some (enc_mapmsg o)
  | CLaneReq i, LReqCommand x => option_map (fun b => T_COMMAND :: b) (enc_inner i x)
  | CLaneReq _, LReqSync id => Some (T_SYNC :: be 16 id)
  | CLaneReq _, LReqInitComplete => Some [T_INIT_DONE]
  | CLaneResp i, LRespEvent x => option_map (fun b => T_EVENT :: b) (enc_inner i x)
  | CLaneResp _, LRespInitialized => Some [T_INITIALIZED]
  | CLaneResp i, LRespSyncEvent id x => option_map (fun b => T_SYNC :: be 16 id ++ b) (enc_inner i x)
  | CLaneResp _, LRespSynced id => Some (T_SYNC_COMPLETE :: be 16 id)
  | CStoreInit i, SInitCommand x => option_map (fun b => T_COMMAND :: b) (enc_inner i x)
  | CStoreInit _, SInitComplete => Some [T_INIT_DONE]
  | CStoreInitialized, SInitialized => Some [T_INITIALIZED]
  | CStoreResp i, SResp x => option_map (fun b => T_EVENT :: b) (enc_inner i x)
  | CDlOp, WL b => Some (enc_wl b)
  | CCmd, CRegister host node lane id =>
      Some ((F_REGISTRATION + flag_if (match host with Some _ => true | None => false end) F_HAS_HOST)
              :: enc_address host node lane ++ be 2 id)
  | CCmd, CAddressed host node lane body ow =>
      Some ((flag_if (match host with Some _ => true | None => false end) F_HAS_HOST + flag_if ow F_OVERWRITE)
              :: enc_address host node lane ++ enc_wl body)
  | CCmd, CRegistered id body ow =>
      Some ((F_REGISTERED + flag_if ow F_OVERWRITE) :: be 2 id ++ enc_wl body)
  | CReq, Req origin node lane op =>
      let hdr tagged := be 16 origin ++ be 4 (len node) ++ be 4 (len lane) ++ be 8 tagged ++ node ++ lane in
      Some match op with
           | OpLink => hdr (N.shiftl P_LINK OP_SHIFT)
           | OpSync => hdr (N.shiftl P_SYNC OP_SHIFT)
           | OpUnlink => hdr (N.shiftl P_UNLINK OP_SHIFT)
           | OpCommand body => hdr (len body + N.shiftl P_COMMAND OP_SHIFT) ++ body
           end
  | CResp, Resp origin node lane op =>
      let hdr tagged := be 16 origin ++ be 4 (len node) ++ be 4 (len lane) ++ be 8 tagged ++ node ++ lane in
      Some match op with
           | NLinked => hdr (N.shiftl P_LINKED OP_SHIFT)
           | NSynced => hdr (N.shiftl P_SYNCED OP_SHIFT)
           | NUnlinked None => hdr (N.shiftl P_UNLINKED OP_SHIFT)
           | NUnlinked (Some body) => hdr (len body + N.shiftl P_UNLINKED OP_SHIFT) ++ body
           | NEvent body => hdr (len body + N.shiftl P_EVENT OP_SHIFT) ++ body
           end
  | _, _ => None
  end.

(* ------------------------------------------------------------------------------------------ *)
(* decoders *)

Inductive dres := DNone | DSome (m : msg) | DErr | DPanic.

(* stateless inner decoders: (rest of buffer, result) *)
Definition dec_wl (b : bytes) : bytes * dres :=
  if len b <? 8 then (b, DNone)
  else
    let l := unbe (take 8 b) in
    match uadd 8 l with
    | None => (b, DErr)                       (* checked_add: InvalidData *)
    | Some need =>
        if need <=? len b then (drop need b, DSome (WL (take l (drop 8 b)))) else (b, DNone)
    end.

Definition dec_mapop (b : bytes) : bytes * dres :=
  if len b <? 9 then (b, DNone)
  else
    let total := unbe (take 8 b) in
    let tag := nth 8 b 0 in
    if tag =? M_UPDATE then
      if total <? 9 then (b, DErr)
      else match uadd 8 total with
           | None => (b, DErr)
           | Some need =>
               if len b <? need then (b, DNone)
               else
                 let frame := take total (drop 8 b) in
                 let rest := drop need b in
                 let klen := unbe (take 8 (drop 1 frame)) in
                 match uadd klen 9 with
                 | None => (rest, DErr)
                 | Some kk =>
                     if total <? kk then (rest, DErr)
                     else (rest, DSome (MO (MUpdate (take klen (drop 9 frame)) (drop (9 + klen) frame))))
                 end
           end
    else if tag =? M_REMOVE then
      if total <? 1 then (b, DErr)
      else match uadd 8 total with
           | None => (b, DErr)
           | Some need =>
               if len b <? need then (b, DNone)
               else (drop need b, DSome (MO (MRemove (drop 1 (take total (drop 8 b))))))
           end
    else if tag =? M_CLEAR then
      if total =? 1 then (drop 9 b, DSome (MO MClear)) else (b, DErr)
    else (b, DErr).

Definition dec_mapmsg (b : bytes) : bytes * dres :=
  if len b <? 9 then (b, DNone)
  else
    let total := unbe (take 8 b) in
    let tag := nth 8 b 0 in
    if (tag =? M_TAKE) || (tag =? M_DROP) then
      if negb (total =? 9) then (b, DErr)
      else if len b <? 17 then (b, DNone)
      else let n := unbe (take 8 (drop 9 b)) in
           (drop 17 b, DSome (MM (if tag =? M_TAKE then MTake n else MDrop n)))
    else
      match dec_mapop b with
      | (r, DSome (MO o)) => (r, DSome (MM o))
      | other => other
      end.

Definition dec_inner (i : inner) (b : bytes) : bytes * dres :=
  match i with IWL => dec_wl b | IMO => dec_mapop b | IMM => dec_mapmsg b end.

Inductive dstate :=
| SHeader                          (* initial / ReadingHeader / Header / Init *)
| SBody                            (* ReadingBody / Std / Message *)
| SSyncBody (id : N)               (* LaneResponseDecoderState::Sync(id) *)
| SCmdRegistration (flags : N)
| SCmdRegisteredHeader (flags : N)
| SCmdAddressedHeader (flags : N)
| SCmdAddressedBody (host : option bytes) (node lane : bytes) (ow : bool)
| SCmdRegisteredBody (id : N) (ow : bool).

Definition has_flag (flags f : N) : bool := negb (N.land flags f =? 0).

(* bytes of a str are accepted only if valid UTF-8: the harness uses ASCII names, and a byte
   >= 128 standing alone is invalid *)
Definition ascii (b : bytes) : bool := forallb (fun x => x <? 128) b.

(* wrap an inner result *)
Definition lift_inner (i : inner) (b : bytes) (wrap : msg -> msg) (st_none : dstate)
  : dstate * bytes * dres :=
  match dec_inner i b with
  | (r, DSome x) => (SHeader, r, DSome (wrap x))
  | (r, DNone) => (st_none, r, DNone)
  | (r, DErr) => (SHeader, r, DErr)
  | (r, DPanic) => (SHeader, r, DPanic)
  end.

(* the command decoder loops over its states inside one call: fuel bounds the loop *)
Fixpoint cmd_step (fuel : nat) (s : dstate) (b : bytes) : dstate * bytes * dres :=
  match fuel with
  | O => (s, b, DPanic)
  | S f =>
      match s with
      | SHeader =>
          match b with
          | [] => (SHeader, b, DNone)
          | fl :: rest =>
              let flags := N.land fl 15 in
              if has_flag flags F_REGISTRATION then cmd_step f (SCmdRegistration flags) rest
              else if has_flag flags F_REGISTERED then cmd_step f (SCmdRegisteredHeader flags) rest
              else cmd_step f (SCmdAddressedHeader flags) rest
          end
      | SCmdRegistration flags =>
          let hh := has_flag flags F_HAS_HOST in
          let req := if hh then 24 else 16 in
          if len b <? req then (SCmdRegistration flags, b, DNone)
          else
            let hl := if hh then unbe (take 8 b) else 0 in
            let nl := unbe (take 8 (drop (if hh then 8 else 0) b)) in
            let ll := unbe (take 8 (drop (if hh then 16 else 8) b)) in
            match uadd hl nl with
            | None => (SHeader, b, DErr)
            | Some a1 =>
                match uadd a1 ll with
                | None => (SHeader, b, DErr)
                | Some a2 =>
                    match uadd a2 2 with
                    | None => (SHeader, b, DErr)
                    | Some need =>
                        if len b - req <? need then (SCmdRegistration flags, b, DNone)
                        else
                          let b1 := drop req b in
                          let h := take hl b1 in let n := take nl (drop hl b1) in
                          let l := take ll (drop (hl + nl) b1) in
                          (* try_extract_utf8 consumes each part before validating it *)
                          if hh && negb (ascii h) then (SHeader, drop hl b1, DErr)
                          else if negb (ascii n) then (SHeader, drop (hl + nl) b1, DErr)
                          else if negb (ascii l) then (SHeader, drop (hl + nl + ll) b1, DErr)
                          else
                            let b2 := drop (hl + nl + ll) b1 in
                            (SHeader, drop 2 b2,
                             DSome (CRegister (if hh then Some h else None) n l (unbe (take 2 b2))))
                    end
                end
            end
      | SCmdRegisteredHeader flags =>
          if len b <? 2 then (SCmdRegisteredHeader flags, b, DNone)
          else cmd_step f (SCmdRegisteredBody (unbe (take 2 b)) (has_flag flags F_OVERWRITE)) (drop 2 b)
      | SCmdAddressedHeader flags =>
          let hh := has_flag flags F_HAS_HOST in
          if len b <? 16 then (SCmdAddressedHeader flags, b, DNone)
          else if hh && (len b <? 24) then (SCmdAddressedHeader flags, b, DNone)
          else
            let req := if hh then 24 else 16 in
            let hl := if hh then unbe (take 8 b) else 0 in
            let nl := unbe (take 8 (drop (if hh then 8 else 0) b)) in
            let ll := unbe (take 8 (drop (if hh then 16 else 8) b)) in
            match uadd hl nl with
            | None => (SHeader, b, DErr)
            | Some a1 =>
                match uadd a1 ll with
                | None => (SHeader, b, DErr)
                | Some need =>
                    if len b - req <? need then (SCmdAddressedHeader flags, b, DNone)
                    else
                      let b1 := drop req b in
                      let h := take hl b1 in let n := take nl (drop hl b1) in
                      let l := take ll (drop (hl + nl) b1) in
                      if hh && negb (ascii h) then (SHeader, drop hl b1, DErr)
                      else if negb (ascii n) then (SHeader, drop (hl + nl) b1, DErr)
                      else if negb (ascii l) then (SHeader, drop (hl + nl + ll) b1, DErr)
                      else cmd_step f (SCmdAddressedBody (if hh then Some h else None) n l
                                                        (has_flag flags F_OVERWRITE))
                                    (drop (hl + nl + ll) b1)
                end
            end
      | SCmdAddressedBody host node lane ow =>
          match dec_wl b with
          | (r, DSome (WL body)) => (SHeader, r, DSome (CAddressed host node lane body ow))
          | (r, DNone) => (SCmdAddressedBody host node lane ow, r, DNone)
          | (r, x) => (SHeader, r, x)
          end
      | SCmdRegisteredBody id ow =>
          match dec_wl b with
          | (r, DSome (WL body)) => (SHeader, r, DSome (CRegistered id body ow))
          | (r, DNone) => (SCmdRegisteredBody id ow, r, DNone)
          | (r, x) => (SHeader, r, x)
          end
      | other => (other, b, DPanic)
      end
  end.

Definition dec_proto (is_req : bool) (b : bytes) : bytes * dres :=
  if len b <? 32 then (b, DNone)
  else
    let origin := unbe (take 16 b) in
    let nl := unbe (take 4 (drop 16 b)) in
    let ll := unbe (take 4 (drop 20 b)) in
    let tagged := unbe (take 8 (drop 24 b)) in
    let body_len := tagged mod 2 ^ OP_SHIFT in
    let tag := tagged / 2 ^ OP_SHIFT in
    let required := 32 + nl + ll + body_len in
    if len b <? required then (b, DNone)
    else
      let b1 := drop 32 b in
      let node := take nl b1 in
      if negb (ascii node) then (drop nl b1, DErr)
      else
        let lane := take ll (drop nl b1) in
        let b2 := drop (nl + ll) b1 in
        if negb (ascii lane) then (b2, DErr)
        else if is_req then
          if tag =? P_LINK then (b2, DSome (Req origin node lane OpLink))
          else if tag =? P_SYNC then (b2, DSome (Req origin node lane OpSync))
          else if tag =? P_UNLINK then (b2, DSome (Req origin node lane OpUnlink))
          else if tag =? P_COMMAND then
            (drop body_len b2, DSome (Req origin node lane (OpCommand (take body_len b2))))
          else (b2, DErr)
        else
          if tag =? P_LINKED then (b2, DSome (Resp origin node lane NLinked))
          else if tag =? P_SYNCED then (b2, DSome (Resp origin node lane NSynced))
          else if tag =? P_UNLINKED then
            (drop body_len b2,
             DSome (Resp origin node lane (NUnlinked (if body_len =? 0 then None else Some (take body_len b2)))))
          else if tag =? P_EVENT then
            (drop body_len b2, DSome (Resp origin node lane (NEvent (take body_len b2))))
          else (b2, DErr).

Definition stateless (r : bytes * dres) : dstate * bytes * dres := (SHeader, fst r, snd r).

Definition dstep (c : codec) (s : dstate) (b : bytes) : dstate * bytes * dres :=
  match c with
  | CWL | CDlOp => stateless (dec_wl b)
  | CMO => stateless (dec_mapop b)
  | CMM => stateless (dec_mapmsg b)
  | CLaneReq i =>
      match s with
      | SBody => lift_inner i b LReqCommand SBody
      | _ =>
          match b with
          | [] => (SHeader, b, DNone)
          | tag :: rest =>
              if tag =? T_COMMAND then lift_inner i rest LReqCommand SBody
              else if tag =? T_SYNC then
                if len b <? 17 then (SHeader, b, DNone)
                else (SHeader, drop 17 b, DSome (LReqSync (unbe (take 16 rest))))
              else if tag =? T_INIT_DONE then (SHeader, rest, DSome LReqInitComplete)
              else (SHeader, rest, DErr)
          end
      end
  | CLaneResp i =>
      match s with
      | SBody => lift_inner i b LRespEvent SBody
      | SSyncBody id => lift_inner i b (LRespSyncEvent id) (SSyncBody id)
      | _ =>
          match b with
          | [] => (SHeader, b, DNone)
          | tag :: rest =>
              if tag =? T_EVENT then lift_inner i rest LRespEvent SBody
              else if tag =? T_INITIALIZED then (SHeader, rest, DSome LRespInitialized)
              else if tag =? T_SYNC then
                if len rest <? 16 then (SHeader, b, DNone)
                else let id := unbe (take 16 rest) in
                     lift_inner i (drop 16 rest) (LRespSyncEvent id) (SSyncBody id)
              else if tag =? T_SYNC_COMPLETE then
                if len rest <? 16 then (SHeader, b, DNone)
                else (SHeader, drop 16 rest, DSome (LRespSynced (unbe (take 16 rest))))
              else (SHeader, b, DErr)
          end
      end
  | CStoreInit i =>
      match s with
      | SBody => lift_inner i b SInitCommand SBody
      | _ =>
          match b with
          | [] => (SHeader, b, DNone)
          | tag :: rest =>
              if tag =? T_COMMAND then lift_inner i rest SInitCommand SBody
              else if tag =? T_INIT_DONE then (SHeader, rest, DSome SInitComplete)
              else (SHeader, rest, DErr)
          end
      end
  | CStoreInitialized =>
      match b with
      | [] => (SHeader, b, DNone)
      | tag :: rest => if tag =? T_INITIALIZED then (SHeader, rest, DSome SInitialized) else (SHeader, rest, DErr)
      end
  | CStoreResp i =>
      match s with
      | SBody => lift_inner i b SResp SBody
      | _ =>
          if len b <=? 1 then (SHeader, b, DNone)
          else match b with
               | tag :: rest =>
                   if tag =? T_EVENT then lift_inner i rest SResp SBody else (SHeader, rest, DErr)
               | [] => (SHeader, b, DNone)
               end
      end
  | CCmd => cmd_step 6 s b
  | CReq => stateless (dec_proto true b)
  | CResp => stateless (dec_proto false b)
  end.

(* ------------------------------------------------------------------------------------------ *)
(* FramedRead-style driving: append a chunk, decode until Ok(None) or an error *)

Definition trace_entry := (dres * N)%type.     (* result, bytes left in the buffer *)

Fixpoint drain (fuel : nat) (c : codec) (s : dstate) (b : bytes) (acc : list trace_entry)
  : dstate * bytes * list trace_entry * bool :=
  match fuel with
  | O => (s, b, acc, false)
  | S f =>
      match dstep c s b with
      | (s', b', DNone) => (s', b', acc ++ [(DNone, len b')], true)
      | (s', b', DSome m) => drain f c s' b' (acc ++ [(DSome m, len b')])
      | (s', b', e) => (s', b', acc ++ [(e, len b')], false)
      end
  end.

Fixpoint feed (c : codec) (s : dstate) (buf : bytes) (chunks : list bytes) (acc : list trace_entry)
  : list trace_entry :=
  match chunks with
  | [] => acc
  | ch :: rest =>
      let b := buf ++ ch in
      match drain (S (length b)) c s b acc with
      | (s', b', acc', true) => feed c s' b' rest acc'
      | (_, _, acc', false) => acc'
      end
  end.

(* ---- comparison of traces ---- *)
Definition opt_bytes_eqb (a b : option bytes) : bool :=
  match a, b with None, None => true | Some x, Some y => bytes_eqb x y | _, _ => false end.

Definition mapop_eqb (a b : mapop) : bool :=
  match a, b with
  | MUpdate k v, MUpdate k' v' => bytes_eqb k k' && bytes_eqb v v'
  | MRemove k, MRemove k' => bytes_eqb k k'
  | MClear, MClear => true
  | MTake n, MTake n' | MDrop n, MDrop n' => n =? n'
  | _, _ => false
  end.

Fixpoint msg_eqb (a b : msg) : bool :=
  match a, b with
  | WL x, WL y => bytes_eqb x y
  | MO x, MO y | MM x, MM y => mapop_eqb x y
  | LReqCommand x, LReqCommand y | LRespEvent x, LRespEvent y | SInitCommand x, SInitCommand y
  | SResp x, SResp y => msg_eqb x y
  | LReqSync i, LReqSync j | LRespSynced i, LRespSynced j => i =? j
  | LRespSyncEvent i x, LRespSyncEvent j y => (i =? j) && msg_eqb x y
  | LReqInitComplete, LReqInitComplete | LRespInitialized, LRespInitialized
  | SInitComplete, SInitComplete | SInitialized, SInitialized => true
  | CRegister h n l i, CRegister h' n' l' i' =>
      opt_bytes_eqb h h' && bytes_eqb n n' && bytes_eqb l l' && (i =? i')
  | CAddressed h n l b o, CAddressed h' n' l' b' o' =>
      opt_bytes_eqb h h' && bytes_eqb n n' && bytes_eqb l l' && bytes_eqb b b' && Bool.eqb o o'
  | CRegistered i b o, CRegistered i' b' o' => (i =? i') && bytes_eqb b b' && Bool.eqb o o'
  | Req o n l op, Req o' n' l' op' =>
      (o =? o') && bytes_eqb n n' && bytes_eqb l l' &&
      match op, op' with
      | OpLink, OpLink | OpSync, OpSync | OpUnlink, OpUnlink => true
      | OpCommand x, OpCommand y => bytes_eqb x y
      | _, _ => false
      end
  | Resp o n l op, Resp o' n' l' op' =>
      (o =? o') && bytes_eqb n n' && bytes_eqb l l' &&
      match op, op' with
      | NLinked, NLinked | NSynced, NSynced => true
      | NUnlinked x, NUnlinked y => opt_bytes_eqb x y
      | NEvent x, NEvent y => bytes_eqb x y
      | _, _ => false
      end
  | _, _ => false
  end.

Definition dres_eqb (a b : dres) : bool :=
  match a, b with
  | DNone, DNone | DErr, DErr | DPanic, DPanic => true
  | DSome x, DSome y => msg_eqb x y
  | _, _ => false
  end.

Fixpoint trace_eqb (a b : list trace_entry) : bool :=
  match a, b with
  | [], [] => true
  | (r, n) :: a', (r', n') :: b' => dres_eqb r r' && (n =? n') && trace_eqb a' b'
  | _, _ => false
  end.

(* A case: codec, the messages, the bytes the real encoder produced (None when the case is a
   mutated / hand-made stream), the chunks fed, and the real decoder's trace. *)
Record ccase := {
  cc_codec : codec; cc_msgs : list msg; cc_encoded : option bytes;
  cc_chunks : list bytes; cc_trace : list trace_entry
}.

Fixpoint encode_all (c : codec) (ms : list msg) : option bytes :=
  match ms with
  | [] => Some []
  | m :: t => match encode c m, encode_all c t with
              | Some a, Some b => Some (a ++ b)
              | _, _ => None
              end
  end.

Definition case_ok (x : ccase) : bool :=
  match cc_encoded x with
  | Some e => match encode_all (cc_codec x) (cc_msgs x) with Some e' => bytes_eqb e e' | None => false end
  | None => true
  end
  && trace_eqb (feed (cc_codec x) SHeader [] (cc_chunks x) []) (cc_trace x).

Definition corr_bad (cs : list (N * ccase)) : list N :=
  map fst (filter (fun c => negb (case_ok (snd c))) cs).

(* Property oracle on the implementation's trace: for an encoder-produced stream, whatever the
   chunking, the decoded items are exactly the encoded messages, in order, nothing is left over and
   no error or panic occurs; for any stream no panic occurs. *)
Definition items_of (t : list trace_entry) : list msg :=
  flat_map (fun e => match fst e with DSome m => [m] | _ => [] end) t.
Definition has_bad (t : list trace_entry) (panic_only : bool) : bool :=
  existsb (fun e => match fst e with DPanic => true | DErr => negb panic_only | _ => false end) t.

Fixpoint msgs_eqb (a b : list msg) : bool :=
  match a, b with
  | [], [] => true
  | x :: a', y :: b' => msg_eqb x y && msgs_eqb a' b'
  | _, _ => false
  end.

Definition oracle_ok (x : ccase) : bool :=
  match cc_encoded x with
  | Some _ =>
      negb (has_bad (cc_trace x) false) && msgs_eqb (items_of (cc_trace x)) (cc_msgs x)
      && match last (cc_trace x) (DNone, 0) with (_, n) => n =? 0 end
  | None => negb (has_bad (cc_trace x) true)
  end.

Definition oracle_bad (cs : list (N * ccase)) : list N :=
  map fst (filter (fun c => negb (oracle_ok (snd c))) cs).
