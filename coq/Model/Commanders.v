(* C14, the agent's side of the command channel: commanders and the identifiers they stand for.

     server/swimos_agent/src/agent_model/mod.rs       CommanderIds::get_request (one table for the agent's whole life:
                                                       filled during initialisation, carried into the run loop)
     server/swimos_agent/src/event_handler/mod.rs     ActionContext::register_commander (writes a Register message for
                                                       every request, new identifier or not)
     server/swimos_agent/src/commander/mod.rs         RegisterCommander, SendCommandById; event_handler/command: SendCommand
     runtime/swimos_runtime/src/agent/task/external_links.rs   CommanderIds::set_id (the runtime's table: id -> address)

   Addresses and bodies are numbers.  Definitions only; proofs in Proofs/CommandersProofs.v. *)
From Coq Require Export List Bool NArith ZArith Lia.
Export ListNotations.
Open Scope N_scope.

Definition ID_LIMIT : N := 65535.       (* u16::MAX: checked_add fails on it *)

Fixpoint alookup (k : N) (m : list (N * N)) : option N :=
  match m with [] => None | (k', v) :: t => if k =? k' then Some v else alookup k t end.

(* the agent's table *)
Record cids := { next_id : N; assigned : list (N * N) }.         (* address -> id *)
Definition cids0 : cids := {| next_id := 0; assigned := [] |}.

Definition get_request (c : cids) (addr : N) : option (cids * N) :=
  match alookup addr (assigned c) with
  | Some id => Some (c, id)
  | None =>
      if next_id c =? ID_LIMIT then None
      else Some ({| next_id := next_id c + 1; assigned := (addr, next_id c) :: assigned c |}, next_id c)
  end.

(* what the agent's handlers do *)
Inductive aop :=
| ACreate (addr : N)                         (* create_commander: the lifecycle keeps the handle it is given *)
| ASend (addr : N) (body : Z) (ow : bool)    (* send through the handle kept for addr (one must have been created) *)
| AAdHoc (addr : N) (body : Z).              (* send_command: always overwritable *)

(* what goes onto the command channel *)
Inductive cmsg :=
| MRegister (addr id : N)
| MRegistered (id : N) (body : Z) (ow : bool)
| MAddressed (addr : N) (body : Z) (ow : bool).

(* the agent: its table and the handles its lifecycle holds (address -> id as it was given) *)
Record agent := { a_ids : cids; a_handles : list (N * N) }.
Definition agent0 : agent := {| a_ids := cids0; a_handles := [] |}.

Inductive ares := ROk (a : agent) (ms : list cmsg) | RFailed.      (* a failed handler stops the agent *)

Definition astep (a : agent) (o : aop) : ares :=
  match o with
  | ACreate addr =>
      match get_request (a_ids a) addr with
      | Some (c, id) => ROk {| a_ids := c; a_handles := (addr, id) :: a_handles a |} [MRegister addr id]
      | None => RFailed
      end
  | ASend addr body ow =>
      match alookup addr (a_handles a) with
      | Some id => ROk a [MRegistered id body ow]
      | None => RFailed                          (* excluded: the harness sends only through handles it holds *)
      end
  | AAdHoc addr body => ROk a [MAddressed addr body true]
  end.

Fixpoint arun (a : agent) (ops : list aop) : option (list cmsg) :=
  match ops with
  | [] => Some []
  | o :: t =>
      match astep a o with
      | ROk a' ms => option_map (app ms) (arun a' t)
      | RFailed => None
      end
  end.

(* the runtime's end: a Register (re)binds an identifier, a Registered message goes where its identifier points *)
Fixpoint resolve (table : list (N * N)) (ms : list cmsg) : option (list (N * Z * bool)) :=
  match ms with
  | [] => Some []
  | MRegister addr id :: t => resolve ((id, addr) :: table) t
  | MRegistered id body ow :: t =>
      match alookup id table with
      | Some addr => option_map (cons (addr, body, ow)) (resolve table t)
      | None => None
      end
  | MAddressed addr body ow :: t => option_map (cons (addr, body, ow)) (resolve table t)
  end.

(* what the agent meant to send *)
Definition intended (ops : list aop) : list (N * Z * bool) :=
  flat_map (fun o => match o with
                     | ACreate _ => []
                     | ASend addr body ow => [(addr, body, ow)]
                     | AAdHoc addr body => [(addr, body, true)]
                     end) ops.

(* ---- correspondence ---- *)
Definition cmsg_eqb (a b : cmsg) : bool :=
  match a, b with
  | MRegister x i, MRegister y j => (x =? y) && (i =? j)
  | MRegistered i b1 o1, MRegistered j b2 o2 => (i =? j) && (b1 =? b2)%Z && Bool.eqb o1 o2
  | MAddressed x b1 o1, MAddressed y b2 o2 => (x =? y) && (b1 =? b2)%Z && Bool.eqb o1 o2
  | _, _ => false
  end.
Fixpoint list_eqb {A} (eqb : A -> A -> bool) (a b : list A) : bool :=
  match a, b with [], [] => true | x :: a', y :: b' => eqb x y && list_eqb eqb a' b' | _, _ => false end.
Definition deliv_eqb (a b : N * Z * bool) : bool :=
  let '(x, b1, o1) := a in let '(y, b2, o2) := b in (x =? y) && (b1 =? b2)%Z && Bool.eqb o1 o2.

(* operations of the agent and the messages read from its command channel *)
Definition ccase := (list aop * list cmsg)%type.

Definition cmd_corr_bad (cs : list (N * ccase)) : list N :=
  map fst (filter (fun c => let '(ops, ms) := snd c in
                            match arun agent0 ops with
                            | Some expected => negb (list_eqb cmsg_eqb expected ms)
                            | None => true
                            end) cs).

(* the oracle, on the implementation's messages alone: resolved as the runtime resolves them they are, in order, each
   command to the lane it was meant for *)
Definition cmd_oracle_bad (cs : list (N * ccase)) : list N :=
  map fst (filter (fun c => let '(ops, ms) := snd c in
                            match resolve [] ms with
                            | Some ds => negb (list_eqb deliv_eqb ds (intended ops))
                            | None => true
                            end) cs).
