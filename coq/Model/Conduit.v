(* Model of swimos_utilities/swimos_byte_channel: channel/mod.rs (Conduit, ByteReader, ByteWriter)
   with the coop layer (coop/mod.rs: consume_budget / track_progress, thread-local budget).
   One poll = one atomic step (the Conduit sits behind a mutex).  Definitions only. *)
From Coq Require Export List Bool Arith NArith Lia.
Export ListNotations.

Inductive side := Rd | Wr.

Definition side_eqb (a b : side) : bool :=
  match a, b with Rd, Rd | Wr, Wr => true | _, _ => false end.

Record chan := {
  data : list N;            (* Conduit.data, oldest first *)
  cap : nat;                (* Conduit.capacity *)
  waker : option side;      (* Conduit.waker: whose waker sits in the single slot *)
  closed : bool;            (* Conduit.closed *)
  budget : option N;        (* coop::TASK_BUDGET (thread local) *)
  rd_alive : bool; wr_alive : bool;
  (* ghost state, never read by the transitions *)
  written : list N; readlog : list N;
  rd_parked : bool; wr_parked : bool
}.

Definition init (c : nat) : chan :=
  {| data := []; cap := c; waker := None; closed := false; budget := None;
     rd_alive := true; wr_alive := true; written := []; readlog := [];
     rd_parked := false; wr_parked := false |}.

Inductive op :=
| PollRead (n : nat)          (* poll_read with buf.remaining() = n *)
| PollWrite (bs : list N)
| Flush | Shutdown
| DropReader | DropWriter
| SetBudget (b : N).          (* RunWithBudget::with_budget(b, ..) polled once *)

Inductive res :=
| RRead (bs : list N)         (* Ready(Ok(())) having put bs into the buffer; [] = EOF / nothing *)
| RWrote (k : nat)            (* Ready(Ok(k)) *)
| RBroken                     (* Ready(Err(BrokenPipe)) *)
| ROk                         (* Ready(Ok(())) of flush / shutdown, or unit *)
| RPending
| RSkip.                      (* op on an endpoint that no longer exists *)

Definition DEFAULT_START_BUDGET : N := 64.

(* Conduit::wake: take the waker out of the slot and wake it *)
Definition take_wake (w : option side) : list side :=
  match w with Some s => [s] | None => [] end.

Definition unpark (c : chan) (ws : list side) (r w : bool) : bool * bool :=
  (r && negb (existsb (side_eqb Rd) ws), w && negb (existsb (side_eqb Wr) ws)).

(* consume_budget: returns (new budget, yielded?) *)
Definition consume (b : option N) : option N * bool :=
  match b with
  | Some b => let b' := N.pred b in if N.eqb b' 0 then (None, true) else (Some b', false)
  | None => (Some DEFAULT_START_BUDGET, false)
  end.

(* track_progress on a Pending result *)
Definition refund (b : option N) : option N :=
  match b with Some b => Some (N.succ b) | None => None end.

Definition step (c : chan) (o : op) : chan * (res * list side) :=
  match o with
  | PollRead n =>
      if negb (rd_alive c) then (c, (RSkip, [])) else
      let (b1, yielded) := consume (budget c) in
      if yielded then
        (* forced yield: self-wake, inner channel untouched *)
        ({| data := data c; cap := cap c; waker := waker c; closed := closed c; budget := b1;
            rd_alive := rd_alive c; wr_alive := wr_alive c; written := written c;
            readlog := readlog c; rd_parked := false; wr_parked := wr_parked c |},
         (RPending, [Rd]))
      else
      match data c with
      | _ :: _ =>
          let count := Nat.min (length (data c)) n in
          if Nat.eqb count 0 then
            ({| data := data c; cap := cap c; waker := waker c; closed := closed c; budget := b1;
                rd_alive := rd_alive c; wr_alive := wr_alive c; written := written c;
                readlog := readlog c; rd_parked := false; wr_parked := wr_parked c |},
             (RRead [], []))
          else
            let ws := take_wake (waker c) in
            let (rp, wp) := unpark c ws false (wr_parked c) in
            ({| data := skipn count (data c); cap := cap c; waker := None; closed := closed c;
                budget := b1; rd_alive := rd_alive c; wr_alive := wr_alive c;
                written := written c; readlog := readlog c ++ firstn count (data c);
                rd_parked := rp; wr_parked := wp |},
             (RRead (firstn count (data c)), ws))
      | [] =>
          if closed c then
            ({| data := data c; cap := cap c; waker := waker c; closed := closed c; budget := b1;
                rd_alive := rd_alive c; wr_alive := wr_alive c; written := written c;
                readlog := readlog c; rd_parked := false; wr_parked := wr_parked c |},
             (RRead [], []))
          else
            ({| data := data c; cap := cap c; waker := Some Rd; closed := closed c;
                budget := refund b1;
                rd_alive := rd_alive c; wr_alive := wr_alive c; written := written c;
                readlog := readlog c; rd_parked := true;
                (* overwriting the slot un-parks nobody by itself; see the invariant *)
                wr_parked := wr_parked c |},
             (RPending, []))
      end
  | PollWrite bs =>
      if negb (wr_alive c) then (c, (RSkip, [])) else
      let (b1, yielded) := consume (budget c) in
      if yielded then
        ({| data := data c; cap := cap c; waker := waker c; closed := closed c; budget := b1;
            rd_alive := rd_alive c; wr_alive := wr_alive c; written := written c;
            readlog := readlog c; rd_parked := rd_parked c; wr_parked := false |},
         (RPending, [Wr]))
      else
      if closed c then
        ({| data := data c; cap := cap c; waker := waker c; closed := closed c; budget := b1;
            rd_alive := rd_alive c; wr_alive := wr_alive c; written := written c;
            readlog := readlog c; rd_parked := rd_parked c; wr_parked := false |},
         (RBroken, []))
      else
      match bs with
      | [] =>
        ({| data := data c; cap := cap c; waker := waker c; closed := closed c; budget := b1;
            rd_alive := rd_alive c; wr_alive := wr_alive c; written := written c;
            readlog := readlog c; rd_parked := rd_parked c; wr_parked := false |},
         (RWrote 0, []))
      | _ :: _ =>
        let avail := cap c - length (data c) in
        if Nat.eqb avail 0 then
          ({| data := data c; cap := cap c; waker := Some Wr; closed := closed c;
              budget := refund b1;
              rd_alive := rd_alive c; wr_alive := wr_alive c; written := written c;
              readlog := readlog c; rd_parked := rd_parked c; wr_parked := true |},
           (RPending, []))
        else
          let len := Nat.min (length bs) avail in
          let ws := take_wake (waker c) in
          let (rp, wp) := unpark c ws (rd_parked c) false in
          ({| data := data c ++ firstn len bs; cap := cap c; waker := None; closed := closed c;
              budget := b1; rd_alive := rd_alive c; wr_alive := wr_alive c;
              written := written c ++ firstn len bs; readlog := readlog c;
              rd_parked := rp; wr_parked := wp |},
           (RWrote len, ws))
      end
  | Flush =>
      if negb (wr_alive c) then (c, (RSkip, [])) else
      let (b1, yielded) := consume (budget c) in
      ({| data := data c; cap := cap c; waker := waker c; closed := closed c; budget := b1;
          rd_alive := rd_alive c; wr_alive := wr_alive c; written := written c;
          readlog := readlog c; rd_parked := rd_parked c; wr_parked := false |},
       if yielded then (RPending, [Wr]) else (ROk, []))
  | Shutdown =>
      if negb (wr_alive c) then (c, (RSkip, [])) else
      let (b1, yielded) := consume (budget c) in
      if yielded then
        ({| data := data c; cap := cap c; waker := waker c; closed := closed c; budget := b1;
            rd_alive := rd_alive c; wr_alive := wr_alive c; written := written c;
            readlog := readlog c; rd_parked := rd_parked c; wr_parked := false |},
         (RPending, [Wr]))
      else
        let ws := take_wake (waker c) in
        let (rp, wp) := unpark c ws (rd_parked c) false in
        ({| data := data c; cap := cap c; waker := None; closed := true; budget := b1;
            rd_alive := rd_alive c; wr_alive := wr_alive c; written := written c;
            readlog := readlog c; rd_parked := rp; wr_parked := wp |},
         (ROk, ws))
  | DropReader =>
      if negb (rd_alive c) then (c, (RSkip, [])) else
      let ws := take_wake (waker c) in
      let (rp, wp) := unpark c ws false (wr_parked c) in
      ({| data := data c; cap := cap c; waker := None; closed := true; budget := budget c;
          rd_alive := false; wr_alive := wr_alive c; written := written c;
          readlog := readlog c; rd_parked := rp; wr_parked := wp |},
       (ROk, ws))
  | DropWriter =>
      if negb (wr_alive c) then (c, (RSkip, [])) else
      let ws := take_wake (waker c) in
      let (rp, wp) := unpark c ws (rd_parked c) false in
      ({| data := data c; cap := cap c; waker := None; closed := true; budget := budget c;
          rd_alive := rd_alive c; wr_alive := false; written := written c;
          readlog := readlog c; rd_parked := rp; wr_parked := wp |},
       (ROk, ws))
  | SetBudget b =>
      ({| data := data c; cap := cap c; waker := waker c; closed := closed c; budget := Some b;
          rd_alive := rd_alive c; wr_alive := wr_alive c; written := written c;
          readlog := readlog c; rd_parked := rd_parked c; wr_parked := wr_parked c |},
       (ROk, []))
  end.

Fixpoint run (c : chan) (ops : list op) : list (res * list side) :=
  match ops with
  | [] => []
  | o :: rest => let (c', r) := step c o in r :: run c' rest
  end.

Fixpoint run_state (c : chan) (ops : list op) : chan :=
  match ops with
  | [] => c
  | o :: rest => run_state (fst (step c o)) rest
  end.

(* ------------------------------------------------------------------------------------------ *)
(* Observations made by the harness on the implementation: result, number of wakes delivered to
   the reader's waker and to the writer's waker during that op. *)

Definition obs := (res * N * N)%type.

Definition count_side (s : side) (ws : list side) : N :=
  N.of_nat (length (filter (side_eqb s) ws)).

Definition observe (r : res * list side) : obs :=
  (fst r, count_side Rd (snd r), count_side Wr (snd r)).

Fixpoint list_N_eqb (a b : list N) : bool :=
  match a, b with
  | [], [] => true
  | x :: a', y :: b' => N.eqb x y && list_N_eqb a' b'
  | _, _ => false
  end.

Definition res_eqb (a b : res) : bool :=
  match a, b with
  | RRead x, RRead y => list_N_eqb x y
  | RWrote x, RWrote y => Nat.eqb x y
  | RBroken, RBroken | ROk, ROk | RPending, RPending | RSkip, RSkip => true
  | _, _ => false
  end.

Definition obs_eqb (a b : obs) : bool :=
  match a, b with (r1, x1, y1), (r2, x2, y2) => res_eqb r1 r2 && N.eqb x1 x2 && N.eqb y1 y2 end.

Fixpoint obss_eqb (a b : list obs) : bool :=
  match a, b with
  | [], [] => true
  | x :: a', y :: b' => obs_eqb x y && obss_eqb a' b'
  | _, _ => false
  end.

(* ------------------------------------------------------------------------------------------ *)
(* Property oracle on an implementation trace, independent of [step]: a reference FIFO plus
   "who is waiting" bookkeeping.  Budget-forced yields are recognised by their self-wake. *)

Record oref := { o_buf : list N; o_cap : nat; o_closed : bool; o_rwait : bool; o_wwait : bool;
                 o_ralive : bool; o_walive : bool }.

Definition oref_init (c : nat) : oref :=
  {| o_buf := []; o_cap := c; o_closed := false; o_rwait := false; o_wwait := false;
     o_ralive := true; o_walive := true |}.

Definition is_prefix (p l : list N) : bool := list_N_eqb p (firstn (length p) l).

(* returns None if the observation contradicts the property *)
Definition oref_step (r : oref) (o : op) (x : obs) : option oref :=
  match x with (rs, nr, nw) =>
  let woke_r := negb (N.eqb nr 0) in
  let woke_w := negb (N.eqb nw 0) in
  match o, rs with
  | _, RSkip => Some r
  | PollRead n, RPending =>
      (* either a forced yield (self-wake) or genuinely nothing to read on an open channel *)
      if woke_r then Some {| o_buf := o_buf r; o_cap := o_cap r; o_closed := o_closed r;
                             o_rwait := false; o_wwait := o_wwait r && negb woke_w;
                             o_ralive := o_ralive r; o_walive := o_walive r |}
      else match o_buf r with
           | [] => if o_closed r then None
                   else Some {| o_buf := o_buf r; o_cap := o_cap r; o_closed := o_closed r;
                                o_rwait := true; o_wwait := o_wwait r && negb woke_w;
                                o_ralive := o_ralive r; o_walive := o_walive r |}
           | _ => None
           end
  | PollRead n, RRead bs =>
      (* bytes come off the front of the FIFO, in order, at most n; nothing only if n = 0,
         or EOF after close *)
      if negb (is_prefix bs (o_buf r)) then None
      else if Nat.ltb n (length bs) then None
      else if (Nat.eqb (length bs) 0) && negb (Nat.eqb n 0) &&
              negb ((Nat.eqb (length (o_buf r)) 0) && o_closed r) then None
      else
        let freed := negb (Nat.eqb (length bs) 0) in
        (* a waiting writer must be woken when room appears *)
        if o_wwait r && freed && negb woke_w then None
        else Some {| o_buf := skipn (length bs) (o_buf r); o_cap := o_cap r; o_closed := o_closed r;
                     o_rwait := false; o_wwait := o_wwait r && negb woke_w;
                     o_ralive := o_ralive r; o_walive := o_walive r |}
  | PollWrite bs, RPending =>
      if woke_w then Some {| o_buf := o_buf r; o_cap := o_cap r; o_closed := o_closed r;
                             o_rwait := o_rwait r && negb woke_r; o_wwait := false;
                             o_ralive := o_ralive r; o_walive := o_walive r |}
      else if o_closed r then None
      else if Nat.ltb (length (o_buf r)) (o_cap r) then None   (* room available: must not wait *)
      else Some {| o_buf := o_buf r; o_cap := o_cap r; o_closed := o_closed r;
                   o_rwait := o_rwait r && negb woke_r; o_wwait := true;
                   o_ralive := o_ralive r; o_walive := o_walive r |}
  | PollWrite bs, RWrote k =>
      if o_closed r then None
      else if Nat.ltb (length bs) k then None
      else if Nat.ltb (o_cap r) (length (o_buf r) + k) then None     (* never above capacity *)
      else if (Nat.eqb k 0) && negb (Nat.eqb (length bs) 0) then None
      else if o_rwait r && negb (Nat.eqb k 0) && negb woke_r then None  (* waiting reader woken *)
      else Some {| o_buf := o_buf r ++ firstn k bs; o_cap := o_cap r; o_closed := o_closed r;
                   o_rwait := o_rwait r && negb woke_r; o_wwait := false;
                   o_ralive := o_ralive r; o_walive := o_walive r |}
  | PollWrite bs, RBroken =>
      if o_closed r then Some {| o_buf := o_buf r; o_cap := o_cap r; o_closed := o_closed r;
                                 o_rwait := o_rwait r; o_wwait := false;
                                 o_ralive := o_ralive r; o_walive := o_walive r |}
      else None
  | Flush, ROk => Some r
  | Flush, RPending => if woke_w then Some r else None
  | Shutdown, RPending => if woke_w then Some r else None
  | Shutdown, ROk | DropWriter, ROk | DropReader, ROk =>
      if o_rwait r && negb woke_r &&
         match o with DropReader => false | _ => true end then None
      else if o_wwait r && negb woke_w &&
         match o with DropReader => true | _ => false end then None
      else Some {| o_buf := o_buf r; o_cap := o_cap r; o_closed := true;
                   o_rwait := o_rwait r && negb woke_r; o_wwait := o_wwait r && negb woke_w;
                   o_ralive := match o with DropReader => false | _ => o_ralive r end;
                   o_walive := match o with DropWriter => false | _ => o_walive r end |}
  | SetBudget _, ROk => Some r
  | _, _ => None
  end end.

Fixpoint oref_ok (r : oref) (ops : list op) (xs : list obs) : bool :=
  match ops, xs with
  | [], [] => true
  | o :: ops', x :: xs' =>
      match oref_step r o x with
      | Some r' => oref_ok r' ops' xs'
      | None => false
      end
  | _, _ => false
  end.

Definition case := (nat * list op * list obs)%type.

Definition corr_bad (cs : list (N * case)) : list N :=
  map fst (filter (fun c => match snd c with (cp, ops, xs) =>
                     negb (obss_eqb (map observe (run (init cp) ops)) xs) end) cs).

Definition oracle_bad (cs : list (N * case)) : list N :=
  map fst (filter (fun c => match snd c with (cp, ops, xs) =>
                     negb (oref_ok (oref_init cp) ops xs) end) cs).
