(* Model of the event / command counters of agent/reporting/mod.rs at atomic granularity:
   saturating_add = AtomicU64::fetch_update (load, then compare_exchange, retried) and
   snapshot_value = load + compare_exchange_weak(count, 0) (may fail spuriously), from any
   number of threads on ONE atomic location. *)
From Coq Require Export List Bool Arith NArith Lia.
Export ListNotations.
Open Scope N_scope.

Definition U64MAX : N := 18446744073709551615.
Definition sat_add (a b : N) : N := N.min (a + b) U64MAX.

Inductive pc :=
| Idle
| AddLoaded (cur n : N)      (* inside fetch_update: value read, CAS not yet attempted *)
| SnapLoaded (cur : N).      (* inside snapshot_value: value read, CAS not yet attempted *)

Record state := {
  value : N;                  (* the AtomicU64 *)
  pcs : list pc;              (* per thread *)
  (* ghost *)
  added : N;                  (* sum of the amounts of all completed count_* calls *)
  snapped : N                 (* sum of all values returned by completed snapshot_value calls *)
}.

Definition init (threads : nat) : state :=
  {| value := 0; pcs := repeat Idle threads; added := 0; snapped := 0 |}.

Fixpoint set_nth {A} (i : nat) (x : A) (l : list A) : list A :=
  match l, i with
  | [], _ => []
  | _ :: t, O => x :: t
  | h :: t, S j => h :: set_nth j x t
  end.

Inductive micro :=
| MAddLoad (n : N)            (* start count_events(n): load *)
| MAddCas                     (* compare_exchange(cur, sat(cur+n)) *)
| MSnapLoad
| MSnapCas (spurious : bool). (* compare_exchange_weak(cur, 0), possibly failing spuriously *)

Definition mstep (s : state) (t : nat) (m : micro) : state :=
  match nth_error (pcs s) t, m with
  | Some Idle, MAddLoad n =>
      {| value := value s; pcs := set_nth t (AddLoaded (value s) n) (pcs s);
         added := added s; snapped := snapped s |}
  | Some (AddLoaded cur n), MAddCas =>
      if value s =? cur then
        {| value := sat_add cur n; pcs := set_nth t Idle (pcs s);
           added := added s + n; snapped := snapped s |}
      else
        (* fetch_update retries with the value the failed CAS observed *)
        {| value := value s; pcs := set_nth t (AddLoaded (value s) n) (pcs s);
           added := added s; snapped := snapped s |}
  | Some Idle, MSnapLoad =>
      {| value := value s; pcs := set_nth t (SnapLoaded (value s)) (pcs s);
         added := added s; snapped := snapped s |}
  | Some (SnapLoaded cur), MSnapCas spurious =>
      if (value s =? cur) && negb spurious then
        {| value := 0; pcs := set_nth t Idle (pcs s);
           added := added s; snapped := snapped s + cur |}
      else
        {| value := value s; pcs := set_nth t Idle (pcs s);   (* loop: must load again *)
           added := added s; snapped := snapped s |}
  | _, _ => s
  end.

Fixpoint exec (s : state) (sc : list (nat * micro)) : state :=
  match sc with
  | [] => s
  | (t, m) :: rest => exec (mstep s t m) rest
  end.
