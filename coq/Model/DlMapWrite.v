(* The write task of the downlink runtime for map downlinks (C07): the same state machine as for value
   downlinks (Model/DlRuntime.v) with the map backpressure of the runtime - the MapOperationQueue of C02
   (Model/MapQueue.v) - in place of the latest value:
     runtime/swimos_runtime/src/downlink/mod.rs        write_task::<MapBackpressure>
     runtime/swimos_runtime/src/backpressure/mod.rs    MapBackpressure: write_direct / push_operation /
                                                       has_data / prepare_write over MapOperationQueue *)
From SwimV Require Export Model.MapQueue.
Open Scope N_scope.

Inductive mframe := MFLink | MFSync | MFOp (e : entry).
Inductive mwev :=
| MProducer (sync : bool)          (* a new consumer's command channel *)
| MCommand (e : entry)             (* a map operation read from some consumer *)
| MWritten.                        (* the pending write completes *)

Record mwstate := { mw_pending : option mframe; mw_needs_sync : bool; mw_queue : queue; mw_sent : list mframe }.

Definition mwstate0 (h : N) : mwstate :=
  {| mw_pending := None; mw_needs_sync := false; mw_queue := empty_at h; mw_sent := [MFLink] |}.

Definition mwstep (s : mwstate) (e : mwev) : mwstate :=
  match mw_pending s, e with
  | None, MProducer true => {| mw_pending := Some MFSync; mw_needs_sync := false; mw_queue := mw_queue s; mw_sent := mw_sent s |}
  | None, MProducer false => s
  | None, MCommand op => {| mw_pending := Some (MFOp op); mw_needs_sync := mw_needs_sync s; mw_queue := mw_queue s; mw_sent := mw_sent s |}
  | None, MWritten => s
  | Some f, MProducer sync => {| mw_pending := Some f; mw_needs_sync := mw_needs_sync s || sync; mw_queue := mw_queue s; mw_sent := mw_sent s |}
  | Some f, MCommand op => {| mw_pending := Some f; mw_needs_sync := mw_needs_sync s; mw_queue := push (mw_queue s) op false; mw_sent := mw_sent s |}
  | Some f, MWritten =>
      let sent := mw_sent s ++ [f] in
      if mw_needs_sync s then {| mw_pending := Some MFSync; mw_needs_sync := false; mw_queue := mw_queue s; mw_sent := sent |}
      else match pop (mw_queue s) with
           | (q', Some op) => {| mw_pending := Some (MFOp op); mw_needs_sync := false; mw_queue := q'; mw_sent := sent |}
           | (q', None) => {| mw_pending := None; mw_needs_sync := false; mw_queue := q'; mw_sent := sent |}
           end
  end.

Definition mwrun (h : N) (es : list mwev) : mwstate := fold_left mwstep es (mwstate0 h).

Definition ops_of (fs : list mframe) : list entry := flat_map (fun f => match f with MFOp e => [e] | _ => [] end) fs.
Definition ops_given (es : list mwev) : list entry := flat_map (fun e => match e with MCommand op => [op] | _ => [] end) es.
Definition pending_op (s : mwstate) : list entry := match mw_pending s with Some (MFOp e) => [e] | _ => [] end.
