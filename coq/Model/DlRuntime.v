(* Model of the downlink runtime shared by the consumers of one downlink connection (C07):
     runtime/swimos_runtime/src/downlink/mod.rs       read_task (dl_state, awaiting_linked, awaiting_synced,
                                                      registered, current, sync_event; link / sync_current /
                                                      sync_only / send_current / unlink), write_task (Idle /
                                                      Writing, FLUSHED / NEEDS_SYNC, backpressure)
     runtime/swimos_runtime/src/backpressure/mod.rs   ValueBackpressure (the latest value), MapBackpressure
                                                      (the map queue of C02)
   Consumers are numbered; a body is a number (value downlinks) - for map downlinks the read task treats
   event bodies as opaque too, only [single_frame] differs. *)
From Coq Require Export List Bool Arith NArith ZArith Lia.
Export ListNotations.
Open Scope N_scope.

(* ---- the read task ---- *)
Inductive note := NLinked | NSynced | NEvent (b : Z) | NUnlinked.
Inductive rmsg := RLinked | RSynced | REvent (b : Z) | RUnlinked.

Inductive rev :=
| RMessage (m : rmsg)                         (* an envelope from the remote lane *)
| RConsumer (c : N) (sync : bool).            (* a new consumer is passed to the read task *)

Inductive dlstate := DInit | DLinked | DSynced.

Record consumer := { c_id : N; c_sync : bool }.

Record rstate := {
  r_dl : dlstate;
  r_current : Z;                               (* the last event body (0: the empty buffer) *)
  r_sync_event : bool;                         (* an event has been received *)
  r_awaiting_linked : list consumer;
  r_awaiting_synced : list consumer;
  r_registered : list consumer;
  r_stopped : bool
}.

Definition rstate0 : rstate :=
  {| r_dl := DInit; r_current := 0%Z; r_sync_event := false; r_awaiting_linked := []; r_awaiting_synced := [];
     r_registered := []; r_stopped := false |}.

(* what is written to consumers, in order: (consumer, notification) *)
Definition out := list (N * note).

Definition to_all (cs : list consumer) (n : note) : out := map (fun c => (c_id c, n)) cs.

Definition rstep (single_frame : bool) (s : rstate) (e : rev) : rstate * out :=
  if r_stopped s then (s, []) else
  match e with
  | RMessage RLinked =>
      (* link: every waiting consumer is told; those that asked to be synced wait for synced *)
      let waiting := r_awaiting_linked s in
      ({| r_dl := DLinked; r_current := r_current s; r_sync_event := r_sync_event s;
          r_awaiting_linked := [];
          r_awaiting_synced := r_awaiting_synced s ++ filter c_sync waiting;
          r_registered := r_registered s ++ filter (fun c => negb (c_sync c)) waiting;
          r_stopped := false |},
       to_all waiting NLinked)
  | RMessage RSynced =>
      let waiting := r_awaiting_synced s in
      ({| r_dl := DSynced; r_current := r_current s; r_sync_event := r_sync_event s;
          r_awaiting_linked := r_awaiting_linked s; r_awaiting_synced := [];
          r_registered := r_registered s ++ waiting; r_stopped := false |},
       if single_frame && r_sync_event s
       then flat_map (fun c => [(c_id c, NEvent (r_current s)); (c_id c, NSynced)]) waiting   (* sync_current *)
       else to_all waiting NSynced)                                                             (* sync_only *)
  | RMessage (REvent b) =>
      ({| r_dl := r_dl s; r_current := b; r_sync_event := true;
          r_awaiting_linked := r_awaiting_linked s; r_awaiting_synced := r_awaiting_synced s;
          r_registered := r_registered s; r_stopped := false |},
       to_all (r_registered s) (NEvent b) ++ (if single_frame then [] else to_all (r_awaiting_synced s) (NEvent b)))
  | RMessage RUnlinked =>
      ({| r_dl := r_dl s; r_current := r_current s; r_sync_event := r_sync_event s;
          r_awaiting_linked := []; r_awaiting_synced := []; r_registered := []; r_stopped := true |},
       to_all (r_awaiting_linked s) NUnlinked ++ to_all (r_awaiting_synced s) NUnlinked ++ to_all (r_registered s) NUnlinked)
  | RConsumer c sync =>
      let k := {| c_id := c; c_sync := sync |} in
      match r_dl s with
      | DInit =>
          ({| r_dl := DInit; r_current := r_current s; r_sync_event := r_sync_event s;
              r_awaiting_linked := r_awaiting_linked s ++ [k]; r_awaiting_synced := r_awaiting_synced s;
              r_registered := r_registered s; r_stopped := false |}, [])
      | _ =>
          (* the link is already up: the consumer is told so and, if it asked for it, waits to be synced *)
          ({| r_dl := r_dl s; r_current := r_current s; r_sync_event := r_sync_event s;
              r_awaiting_linked := r_awaiting_linked s;
              r_awaiting_synced := if sync then r_awaiting_synced s ++ [k] else r_awaiting_synced s;
              r_registered := if sync then r_registered s else r_registered s ++ [k];
              r_stopped := false |}, [(c, NLinked)])
      end
  end.

Fixpoint rrun (single_frame : bool) (s : rstate) (es : list rev) : rstate * out :=
  match es with
  | [] => (s, [])
  | e :: t => let (s1, o1) := rstep single_frame s e in let (s2, o2) := rrun single_frame s1 t in (s2, o1 ++ o2)
  end.

Definition seen_by (c : N) (o : out) : list note :=
  flat_map (fun x => if fst x =? c then [snd x] else []) o.

(* ---- the write task (value downlinks: backpressure keeps the latest command) ---- *)
Inductive frame := FLink | FSync | FCommand (b : Z).

Inductive wev :=
| WProducer (sync : bool)                     (* a new consumer's command channel is passed to the write task *)
| WCommand (b : Z)                            (* a command read from some consumer *)
| WWritten.                                   (* the pending write (and flush) to the socket completes *)

(* pending: Some f while a write of f is in flight *)
Record wstate := { w_pending : option frame; w_needs_sync : bool; w_latest : option Z; w_sent : list frame }.

Definition wstate0 : wstate := {| w_pending := None; w_needs_sync := false; w_latest := None; w_sent := [FLink] |}.

Definition wstep (s : wstate) (e : wev) : wstate :=
  match w_pending s, e with
  | None, WProducer true => {| w_pending := Some FSync; w_needs_sync := false; w_latest := w_latest s; w_sent := w_sent s |}
  | None, WProducer false => s
  | None, WCommand b => {| w_pending := Some (FCommand b); w_needs_sync := w_needs_sync s; w_latest := None; w_sent := w_sent s |}
  | None, WWritten => s
  | Some f, WProducer sync => {| w_pending := Some f; w_needs_sync := w_needs_sync s || sync; w_latest := w_latest s; w_sent := w_sent s |}
  | Some f, WCommand b => {| w_pending := Some f; w_needs_sync := w_needs_sync s; w_latest := Some b; w_sent := w_sent s |}
  | Some f, WWritten =>
      let sent := w_sent s ++ [f] in
      if w_needs_sync s then {| w_pending := Some FSync; w_needs_sync := false; w_latest := w_latest s; w_sent := sent |}
      else match w_latest s with
           | Some b => {| w_pending := Some (FCommand b); w_needs_sync := false; w_latest := None; w_sent := sent |}
           | None => {| w_pending := None; w_needs_sync := false; w_latest := None; w_sent := sent |}
           end
  end.

Definition wrun (es : list wev) : wstate := fold_left wstep es wstate0.

(* everything the task will have sent once the socket has taken all it is owed *)
Fixpoint wdrain (fuel : nat) (s : wstate) : wstate :=
  match fuel with
  | O => s
  | S f => match w_pending s with Some _ => wdrain f (wstep s WWritten) | None => s end
  end.

Definition commands_of (fs : list frame) : list Z := flat_map (fun f => match f with FCommand b => [b] | _ => [] end) fs.
Definition commands_in (es : list wev) : list Z := flat_map (fun e => match e with WCommand b => [b] | _ => [] end) es.

(* ---- correspondence ---- *)
Definition note_eqb (a b : note) : bool :=
  match a, b with
  | NLinked, NLinked | NSynced, NSynced | NUnlinked, NUnlinked => true
  | NEvent x, NEvent y => (x =? y)%Z
  | _, _ => false
  end.
Fixpoint notes_eqb (a b : list note) : bool :=
  match a, b with [], [] => true | x :: a', y :: b' => note_eqb x y && notes_eqb a' b' | _, _ => false end.
Definition frame_eqb (a b : frame) : bool :=
  match a, b with
  | FLink, FLink | FSync, FSync => true
  | FCommand x, FCommand y => (x =? y)%Z
  | _, _ => false
  end.
Fixpoint frames_eqb (a b : list frame) : bool :=
  match a, b with [], [] => true | x :: a', y :: b' => frame_eqb x y && frames_eqb a' b' | _, _ => false end.

(* a case: the events given to the read task in order, what each consumer received; the events of the write
   task in order and the frames the remote received *)
Record dcase := {
  dc_single : bool;
  dc_revs : list rev;
  dc_seen : list (N * list note);
  dc_dropped : list N;              (* consumers that went away during the case: what they saw until then is a prefix of their session *)
  dc_wevs : list wev;
  dc_frames : list frame;
  dc_check_frames : bool;           (* false: the socket was slow, the write side is checked by the oracle only *)
  dc_drained : bool                 (* the remote read everything in the end and never sent unlinked *)
}.

Fixpoint notes_prefix (a b : list note) : bool :=       (* a is a prefix of b *)
  match a, b with
  | [], _ => true
  | x :: a', y :: b' => note_eqb x y && notes_prefix a' b'
  | _, _ => false
  end.
Definition gone (c : dcase) (k : N) : bool := existsb (N.eqb k) (dc_dropped c).

Definition dl_case_ok (c : dcase) : bool :=
  let (_, o) := rrun (dc_single c) rstate0 (dc_revs c) in
  forallb (fun cs => if gone c (fst cs) then notes_prefix (snd cs) (seen_by (fst cs) o)
                     else notes_eqb (seen_by (fst cs) o) (snd cs)) (dc_seen c)
  && (negb (dc_check_frames c) || frames_eqb (w_sent (wrun (dc_wevs c))) (dc_frames c)).

(* oracle on the implementation's outputs alone *)
Fixpoint is_subseq (a b : list Z) : bool :=          (* a is a subsequence of b *)
  match a, b with
  | [], _ => true
  | _ :: _, [] => false
  | x :: a', y :: b' => if (x =? y)%Z then is_subseq a' b' else is_subseq a b'
  end.

Fixpoint count_synced (l : list note) : nat :=
  match l with [] => O | NSynced :: t => S (count_synced t) | _ :: t => count_synced t end.
Fixpoint unlinked_only_last (l : list note) : bool :=
  match l with
  | [] => true
  | NUnlinked :: t => match t with [] => true | _ => false end
  | _ :: t => unlinked_only_last t
  end.
Definition is_linked (n : note) : bool := match n with NLinked => true | _ => false end.

(* what one consumer may be told: linked first and once, synced at most once, unlinked only as the last thing *)
Definition session_ok (l : list note) : bool :=
  match l with
  | [] => true
  | NLinked :: t => (count_synced t <=? 1)%nat && unlinked_only_last t && negb (existsb is_linked t)
  | _ => false
  end.

Definition events_of (l : list note) : list Z := flat_map (fun n => match n with NEvent b => [b] | _ => [] end) l.
Definition remote_events (es : list rev) : list Z :=
  flat_map (fun e => match e with RMessage (REvent b) => [b] | _ => [] end) es.

(* ---- the session one consumer is owed, whatever the others do (the specification) ----
   Before it attaches the consumer sees nothing; once attached it is told linked as soon as the link is up;
   without SYNC it then gets every later event; with SYNC it is told synced at the next synced of the remote -
   for a single-frame (value) downlink together with the latest event, for a map downlink after all the
   events since it attached - and every later event after that; unlinked ends the session. *)
Inductive phase := PAbsent | PWaitLinked | PWaitSynced | PRegistered | PDone.

Record sess := { s_phase : phase; s_link_up : bool; s_last : option Z }.

Definition sess_step (single_frame : bool) (c : N) (sync : bool) (s : sess) (e : rev) : sess * list note :=
  let after_linked := if sync then PWaitSynced else PRegistered in
  match s_phase s, e with
  | PDone, _ => (s, [])
  | ph, RMessage RUnlinked =>
      ({| s_phase := PDone; s_link_up := s_link_up s; s_last := s_last s |},
       match ph with PAbsent => [] | _ => [NUnlinked] end)
  | ph, RMessage RLinked =>
      match ph with
      | PWaitLinked => ({| s_phase := after_linked; s_link_up := true; s_last := s_last s |}, [NLinked])
      | _ => ({| s_phase := ph; s_link_up := true; s_last := s_last s |}, [])
      end
  | ph, RMessage (REvent b) =>
      ({| s_phase := ph; s_link_up := s_link_up s; s_last := Some b |},
       match ph with
       | PRegistered => [NEvent b]
       | PWaitSynced => if single_frame then [] else [NEvent b]
       | _ => []
       end)
  | ph, RMessage RSynced =>
      match ph with
      | PWaitSynced =>
          ({| s_phase := PRegistered; s_link_up := true; s_last := s_last s |},
           if single_frame then match s_last s with Some b => [NEvent b; NSynced] | None => [NSynced] end else [NSynced])
      | _ => ({| s_phase := ph; s_link_up := true; s_last := s_last s |}, [])      (* a synced lane is a linked lane *)
      end
  | PAbsent, RConsumer c' _ =>
      if c' =? c then
        if s_link_up s
        then ({| s_phase := after_linked; s_link_up := true; s_last := s_last s |}, [NLinked])
        else ({| s_phase := PWaitLinked; s_link_up := false; s_last := s_last s |}, [])
      else (s, [])
  | _, RConsumer _ _ => (s, [])
  end.

Fixpoint session (single_frame : bool) (c : N) (sync : bool) (s : sess) (es : list rev) : list note :=
  match es with
  | [] => []
  | e :: t => let (s1, o) := sess_step single_frame c sync s e in o ++ session single_frame c sync s1 t
  end.

Definition sess0 : sess := {| s_phase := PAbsent; s_link_up := false; s_last := None |}.

Fixpoint sync_flag (c : N) (es : list rev) : bool :=
  match es with
  | [] => false
  | RConsumer c' sync :: t => if c' =? c then sync else sync_flag c t
  | _ :: t => sync_flag c t
  end.

(* a consumer that needs a sync and stays has a sync request reach the remote after it joined; [WWritten] marks
   the moments at which the remote read one more frame.  The k-th [WProducer] is consumer k; one that went away
   is owed nothing (write_task forgets NEEDS_SYNC once no producer is left). *)
Definition is_sync_frame (f : frame) : bool := match f with FSync => true | _ => false end.
Fixpoint syncs_ok (dropped : list N) (k : N) (es : list wev) (fs : list frame) : bool :=
  match es with
  | [] => true
  | WWritten :: t => syncs_ok dropped k t (tl fs)
  | WProducer true :: t => (existsb (N.eqb k) dropped || existsb is_sync_frame fs) && syncs_ok dropped (k + 1) t fs
  | WProducer false :: t => syncs_ok dropped (k + 1) t fs
  | _ :: t => syncs_ok dropped k t fs
  end.

(* map downlinks: a command number n given by a consumer stands for an operation on one of three keys: clear when
   n mod 8 = 7, remove of key n mod 3 when n mod 8 = 6, otherwise update of key n mod 3 to n.  On the wire a clear is
   read back as -100, a remove of key k as -(200 + k), an update as its value.  Per key, and across clears, the
   operations sent are in order operations given; once everything has been read the remote's replica is the one all
   the operations given produce *)
Inductive mop := OClear | ORemove (k : Z) | OUpdate (k v : Z).
Definition op_given (n : Z) : mop :=
  if (n mod 8 =? 7)%Z then OClear else if (n mod 8 =? 6)%Z then ORemove (n mod 3) else OUpdate (n mod 3) n.
Definition op_sent (z : Z) : mop :=
  if (z =? -100)%Z then OClear else if (z <=? -200)%Z then ORemove (- z - 200) else OUpdate (z mod 3) z.
Definition mop_eqb (a b : mop) : bool :=
  match a, b with
  | OClear, OClear => true
  | ORemove k, ORemove k' => (k =? k')%Z
  | OUpdate k v, OUpdate k' v' => (k =? k')%Z && (v =? v')%Z
  | _, _ => false
  end.
Definition touches (k : Z) (o : mop) : bool :=
  match o with OClear => true | ORemove k' | OUpdate k' _ => (k' =? k)%Z end.
Fixpoint mop_subseq (a b : list mop) : bool :=
  match a, b with
  | [], _ => true
  | _ :: _, [] => false
  | x :: a', y :: b' => if mop_eqb x y then mop_subseq a' b' else mop_subseq a b'
  end.
(* the value of key k after the operations *)
Definition key_after (k : Z) (ops : list mop) : option Z :=
  fold_left (fun acc o => match o with
                          | OClear => None
                          | ORemove k' => if (k' =? k)%Z then None else acc
                          | OUpdate k' v => if (k' =? k)%Z then Some v else acc
                          end) ops None.
Definition opt_eqb (a b : option Z) : bool :=
  match a, b with None, None => true | Some x, Some y => (x =? y)%Z | _, _ => false end.
Definition last_opt (l : list Z) : option Z := match List.rev l with [] => None | x :: _ => Some x end.
Definition per_key_ok (drained : bool) (sent given : list Z) : bool :=
  let s := map op_sent sent in
  let g := map op_given given in
  forallb (fun k => mop_subseq (filter (touches k) s) (filter (touches k) g)
                    && (negb drained || opt_eqb (key_after k s) (key_after k g)))
          [0; 1; 2]%Z.

Definition dl_oracle_ok (c : dcase) : bool :=
  let sent := commands_of (dc_frames c) in
  let given := commands_in (dc_wevs c) in
  (* commands: never reordered, only dropped; the link request comes first *)
  (if dc_single c then is_subseq sent given && (negb (dc_drained c) || opt_eqb (last_opt sent) (last_opt given))
   else per_key_ok (dc_drained c) sent given)
  && (match dc_frames c with FLink :: _ | [] => true | _ => false end)
  && (negb (dc_drained c) || syncs_ok (dc_dropped c) 0 (dc_wevs c) (dc_frames c))
  (* every consumer gets the session it is owed *)
  && forallb (fun cs => session_ok (snd cs)
                        && (if gone c (fst cs)
                            then notes_prefix (snd cs) (session (dc_single c) (fst cs) (sync_flag (fst cs) (dc_revs c)) sess0 (dc_revs c))
                            else notes_eqb (session (dc_single c) (fst cs) (sync_flag (fst cs) (dc_revs c)) sess0 (dc_revs c)) (snd cs)))
             (dc_seen c).

Definition dl_corr_bad (cs : list (N * dcase)) : list N := map fst (filter (fun c => negb (dl_case_ok (snd c))) cs).
Definition dl_oracle_bad (cs : list (N * dcase)) : list N := map fst (filter (fun c => negb (dl_oracle_ok (snd c))) cs).
