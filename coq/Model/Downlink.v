(* Models for C08: the local state and lifecycle callbacks of value and map downlinks.
     swimos_downlink/src/task/map.rs, value.rs                            stand-alone client downlinks
     server/swimos_agent/src/agent_model/downlink/hosted/map/mod.rs       agent-hosted map downlink
     server/swimos_agent/src/agent_model/downlink/hosted/value/mod.rs     agent-hosted value downlink
   Keys and values are numbers; a map is an association list kept sorted by key (the BTreeMap of
   the client; the hosted downlink's HashMap is compared through its sorted view and its take/drop
   sort the keys by their Recon order, which for the harness' integer keys is the numeric order). *)
From Coq Require Export List Bool Arith NArith Lia.
Export ListNotations.
Open Scope N_scope.

Definition kv := list (N * N).

Fixpoint kv_get (k : N) (m : kv) : option N :=
  match m with [] => None | (k', v) :: t => if k =? k' then Some v else kv_get k t end.

Fixpoint kv_insert (k v : N) (m : kv) : kv :=
  match m with
  | [] => [(k, v)]
  | (k', v') :: t => if k <? k' then (k, v) :: m else if k =? k' then (k, v) :: t else (k', v') :: kv_insert k v t
  end.

Fixpoint kv_remove (k : N) (m : kv) : kv :=
  match m with [] => [] | (k', v') :: t => if k =? k' then t else (k', v') :: kv_remove k t end.

Inductive msg := MUpdate (k v : N) | MRemove (k : N) | MClear | MTake (n : N) | MDrop (n : N).
(* NLocal: an operation written through the downlink's own handle (sent to the lane; it reaches the
   local state only when the lane's event comes back) *)
Inductive note := NLinked | NSynced | NEvent (m : msg) | NUnlinked | NLocal (m : msg).

Inductive cb :=
| CLinked | CSynced (m : kv)
| CUpdate (k : N) (m : kv) (old : option N) (new : N)
| CRemove (k : N) (m : kv) (old : N)
| CClear (m : kv)
| CUnlinked.

Record config := { events_when_not_synced : bool; terminate_on_unlinked : bool }.

(* removing keys one at a time: each on_remove sees the map after its own removal *)
Fixpoint remove_each (ks : list N) (m : kv) (dispatch : bool) : kv * list cb :=
  match ks with
  | [] => (m, [])
  | k :: r =>
      match kv_get k m with
      | Some v =>
          let m1 := kv_remove k m in
          let (m2, cs) := remove_each r m1 dispatch in
          (m2, if dispatch then CRemove k m1 v :: cs else cs)
      | None => remove_each r m dispatch
      end
  end.

(* ------------------------------------------------------------------------------------------ *)
(* client map downlink *)
Inductive cstate := CsUnlinked | CsLinked (m : kv) | CsSynced (m : kv).

Definition c_on_event (m : kv) (e : msg) (dispatch : bool) : kv * list cb :=
  match e with
  | MUpdate k v =>
      let old := kv_get k m in
      let m' := kv_insert k v m in
      (m', if dispatch then [CUpdate k m' old v] else [])
  | MRemove k =>
      match kv_get k m with
      | Some v => let m' := kv_remove k m in (m', if dispatch then [CRemove k m' v] else [])
      | None => (m, [])
      end
  | MClear => ([], if dispatch then [CClear m] else [])
  | MTake n => remove_each (skipn (N.to_nat n) (map fst m)) m dispatch
  | MDrop n => remove_each (firstn (N.to_nat n) (map fst m)) m dispatch
  end.

(* returns the new state, the callbacks, and whether the task goes on *)
Definition c_on_read (cfg : config) (s : cstate) (n : note) : cstate * list cb * bool :=
  match n with
  | NLinked =>
      match s with
      | CsUnlinked => (CsLinked [], [CLinked], true)
      | _ => (s, [], true)
      end
  | NSynced =>
      match s with
      | CsLinked m => (CsSynced m, [CSynced m], true)
      | _ => (s, [], true)
      end
  | NEvent e =>
      match s with
      | CsUnlinked => (s, [], true)
      | CsLinked m => let (m', cs) := c_on_event m e (events_when_not_synced cfg) in (CsLinked m', cs, true)
      | CsSynced m => let (m', cs) := c_on_event m e true in (CsSynced m', cs, true)
      end
  | NUnlinked =>
      if terminate_on_unlinked cfg then (s, [CUnlinked], false) else (CsUnlinked, [CUnlinked], true)
  | NLocal _ => (s, [], true)
  end.

Fixpoint c_run (cfg : config) (s : cstate) (ns : list note) : list (list cb) :=
  match ns with
  | [] => []
  | n :: t =>
      let '(s', cs, go) := c_on_read cfg s n in
      cs :: (if go then c_run cfg s' t else map (fun _ => []) t)
  end.

(* ------------------------------------------------------------------------------------------ *)
(* hosted map downlink *)
Inductive dlstate := DlUnlinked | DlLinked | DlSynced | DlStopped.
Record hstate := { h_dl : dlstate; h_map : kv }.
Definition h0 : hstate := {| h_dl := DlUnlinked; h_map := [] |}.

Definition dl_is_synced (d : dlstate) : bool := match d with DlSynced => true | _ => false end.

Definition h_drop (m : kv) (n : nat) (lc : bool) : kv * list cb :=
  if Nat.leb (length m) n then ([], if lc then [CClear m] else [])
  else remove_each (firstn n (map fst m)) m lc.

Definition h_take (m : kv) (n : nat) (lc : bool) : kv * list cb :=
  if Nat.ltb 0 (length m - n) then remove_each (skipn n (map fst m)) m lc else (m, []).

Definition h_on_event (m : kv) (e : msg) (lc : bool) : kv * list cb :=
  match e with
  | MUpdate k v =>
      let old := kv_get k m in
      let m' := kv_insert k v m in
      (m', if lc then [CUpdate k m' old v] else [])
  | MRemove k =>
      match kv_get k m with
      | Some v => let m' := kv_remove k m in (m', if lc then [CRemove k m' v] else [])
      | None => (m, [])
      end
  | MClear => ([], if lc then [CClear m] else [])
  | MTake n => h_take m (N.to_nat n) lc
  | MDrop n => h_drop m (N.to_nat n) lc
  end.

Definition h_next (cfg : config) (s : hstate) (n : note) : hstate * list cb * bool :=
  match n with
  | NLinked =>
      ({| h_dl := match h_dl s with DlUnlinked => DlLinked | d => d end; h_map := h_map s |}, [CLinked], true)
  | NSynced => ({| h_dl := DlSynced; h_map := h_map s |}, [CSynced (h_map s)], true)
  | NEvent e =>
      let lc := dl_is_synced (h_dl s) || events_when_not_synced cfg in
      let (m', cs) := h_on_event (h_map s) e lc in
      ({| h_dl := h_dl s; h_map := m' |}, cs, true)
  | NUnlinked =>
      if terminate_on_unlinked cfg then ({| h_dl := DlStopped; h_map := [] |}, [CUnlinked], false)
      else ({| h_dl := DlUnlinked; h_map := [] |}, [CUnlinked], true)
  | NLocal _ => (s, [], true)
  end.

Fixpoint h_run (cfg : config) (s : hstate) (ns : list note) : list (list cb) :=
  match ns with
  | [] => []
  | n :: t =>
      let '(s', cs, go) := h_next cfg s n in
      cs :: (if go then h_run cfg s' t else map (fun _ => []) t)
  end.

(* ------------------------------------------------------------------------------------------ *)
(* value downlinks *)
Inductive vnote := VLinked | VSynced | VEvent (v : N) | VUnlinked.
Inductive vcb := VCLinked | VCSynced (v : N) | VCEvent (v : N) | VCSet (old : option N) (new : N) | VCUnlinked.
(* how a run ends: still running / stopped on unlinked / failed (client: synced with no value) *)
Inductive vend := VGo | VStop | VFail.

Inductive cvstate := CvUnlinked | CvLinked (v : option N) | CvSynced (v : N).

Definition cv_on_read (cfg : config) (s : cvstate) (n : vnote) : cvstate * list vcb * vend :=
  match n with
  | VLinked => match s with CvUnlinked => (CvLinked None, [VCLinked], VGo) | _ => (s, [], VGo) end
  | VSynced =>
      match s with
      | CvLinked (Some v) => (CvSynced v, [VCSynced v], VGo)
      | _ => (s, [], VFail)
      end
  | VEvent b =>
      match s with
      | CvLinked v =>
          (CvLinked (Some b), if events_when_not_synced cfg then [VCEvent b; VCSet v b] else [], VGo)
      | CvSynced v => (CvSynced b, [VCEvent b; VCSet (Some v) b], VGo)
      | CvUnlinked => (s, [], VGo)
      end
  | VUnlinked =>
      if terminate_on_unlinked cfg then (s, [VCUnlinked], VStop) else (CvUnlinked, [VCUnlinked], VGo)
  end.

Fixpoint cv_run (cfg : config) (s : cvstate) (ns : list vnote) : list (list vcb) :=
  match ns with
  | [] => []
  | n :: t =>
      let '(s', cs, e) := cv_on_read cfg s n in
      cs :: (match e with VGo => cv_run cfg s' t | _ => map (fun _ => []) t end)
  end.

Record hvstate := { hv_dl : dlstate; hv_val : option N }.
Definition hv0 : hvstate := {| hv_dl := DlUnlinked; hv_val := None |}.

Definition hv_next (cfg : config) (s : hvstate) (n : vnote) : hvstate * list vcb * vend :=
  match n with
  | VLinked =>
      ({| hv_dl := match hv_dl s with DlUnlinked => DlLinked | d => d end; hv_val := hv_val s |}, [VCLinked], VGo)
  | VSynced =>
      ({| hv_dl := DlSynced; hv_val := hv_val s |},
       match hv_val s with Some v => [VCSynced v] | None => [] end, VGo)
  | VEvent b =>
      ({| hv_dl := hv_dl s; hv_val := Some b |},
       if dl_is_synced (hv_dl s) || events_when_not_synced cfg then [VCEvent b; VCSet (hv_val s) b] else [], VGo)
  | VUnlinked =>
      if terminate_on_unlinked cfg then ({| hv_dl := DlStopped; hv_val := None |}, [VCUnlinked], VStop)
      else ({| hv_dl := DlUnlinked; hv_val := None |}, [VCUnlinked], VGo)
  end.

Fixpoint hv_run (cfg : config) (s : hvstate) (ns : list vnote) : list (list vcb) :=
  match ns with
  | [] => []
  | n :: t =>
      let '(s', cs, e) := hv_next cfg s n in
      cs :: (match e with VGo => hv_run cfg s' t | _ => map (fun _ => []) t end)
  end.

(* ------------------------------------------------------------------------------------------ *)
(* The specification: the fold of the notifications received since the link was established *)
Definition apply_msg (m : kv) (e : msg) : kv :=
  match e with
  | MUpdate k v => kv_insert k v m
  | MRemove k => kv_remove k m
  | MClear => []
  | MTake n => fold_left (fun acc k => kv_remove k acc) (skipn (N.to_nat n) (map fst m)) m
  | MDrop n => fold_left (fun acc k => kv_remove k acc) (firstn (N.to_nat n) (map fst m)) m
  end.

(* None: not linked; Some (synced, map) *)
Definition sstate := option (bool * kv).

Definition spec_cbs (m : kv) (e : msg) : list cb :=
  match e with
  | MUpdate k v => [CUpdate k (kv_insert k v m) (kv_get k m) v]
  | MRemove k => match kv_get k m with Some v => [CRemove k (kv_remove k m) v] | None => [] end
  | MClear => [CClear m]
  | MTake n => snd (remove_each (skipn (N.to_nat n) (map fst m)) m true)
  | MDrop n => snd (remove_each (firstn (N.to_nat n) (map fst m)) m true)
  end.

Definition spec_step (cfg : config) (s : sstate) (n : note) : sstate * list cb :=
  match n, s with
  | NLinked, None => (Some (false, []), [CLinked])
  | NSynced, Some (false, m) => (Some (true, m), [CSynced m])
  | NEvent e, Some (synced, m) =>
      (Some (synced, apply_msg m e), if synced || events_when_not_synced cfg then spec_cbs m e else [])
  | NUnlinked, Some _ => (None, [CUnlinked])
  | _, _ => (s, [])          (* not produced by a well-behaved link *)
  end.

(* a well-behaved link: linked, events, at most one synced, events, unlinked, and again *)
Fixpoint legal (s : sstate) (ns : list note) : bool :=
  match ns with
  | [] => true
  | n :: t =>
      match n, s with
      | NLinked, None => legal (Some (false, [])) t
      | NSynced, Some (false, m) => legal (Some (true, m)) t
      | NEvent e, Some (b, m) => legal (Some (b, apply_msg m e)) t
      | NUnlinked, Some _ => legal None t
      | NLocal _, _ => legal s t
      | _, _ => false
      end
  end.

Fixpoint spec_run (cfg : config) (s : sstate) (ns : list note) : list (list cb) :=
  match ns with
  | [] => []
  | n :: t =>
      let (s', cs) := spec_step cfg s n in
      cs :: (match n with
             | NUnlinked => if terminate_on_unlinked cfg then map (fun _ => []) t else spec_run cfg s' t
             | _ => spec_run cfg s' t
             end)
  end.

(* value specification *)
Definition svstate := option (bool * option N).
Definition vspec_step (cfg : config) (s : svstate) (n : vnote) : svstate * list vcb :=
  match n, s with
  | VLinked, None => (Some (false, None), [VCLinked])
  | VSynced, Some (false, Some v) => (Some (true, Some v), [VCSynced v])
  | VEvent b, Some (synced, v) =>
      (Some (synced, Some b), if synced || events_when_not_synced cfg then [VCEvent b; VCSet v b] else [])
  | VUnlinked, Some _ => (None, [VCUnlinked])
  | _, _ => (s, [])
  end.

Fixpoint vlegal (s : svstate) (ns : list vnote) : bool :=
  match ns with
  | [] => true
  | n :: t =>
      match n, s with
      | VLinked, None => vlegal (Some (false, None)) t
      | VSynced, Some (false, Some v) => vlegal (Some (true, Some v)) t
      | VEvent b, Some (s0, _) => vlegal (Some (s0, Some b)) t
      | VUnlinked, Some _ => vlegal None t
      | _, _ => false
      end
  end.

Fixpoint vspec_run (cfg : config) (s : svstate) (ns : list vnote) : list (list vcb) :=
  match ns with
  | [] => []
  | n :: t =>
      let (s', cs) := vspec_step cfg s n in
      cs :: (match n with
             | VUnlinked => if terminate_on_unlinked cfg then map (fun _ => []) t else vspec_run cfg s' t
             | _ => vspec_run cfg s' t
             end)
  end.

(* ------------------------------------------------------------------------------------------ *)
(* Correspondence *)
Fixpoint kv_eqb (a b : kv) : bool :=
  match a, b with
  | [], [] => true
  | (k, v) :: a', (k', v') :: b' => (k =? k') && (v =? v') && kv_eqb a' b'
  | _, _ => false
  end.
Definition optN_eqb (a b : option N) : bool :=
  match a, b with None, None => true | Some x, Some y => x =? y | _, _ => false end.
Definition cb_eqb (a b : cb) : bool :=
  match a, b with
  | CLinked, CLinked => true
  | CSynced m, CSynced m' => kv_eqb m m'
  | CUpdate k m o n, CUpdate k' m' o' n' => (k =? k') && kv_eqb m m' && optN_eqb o o' && (n =? n')
  | CRemove k m o, CRemove k' m' o' => (k =? k') && kv_eqb m m' && (o =? o')
  | CClear m, CClear m' => kv_eqb m m'
  | CUnlinked, CUnlinked => true
  | _, _ => false
  end.
Definition vcb_eqb (a b : vcb) : bool :=
  match a, b with
  | VCLinked, VCLinked => true
  | VCSynced v, VCSynced v' => v =? v'
  | VCEvent v, VCEvent v' => v =? v'
  | VCSet o n, VCSet o' n' => optN_eqb o o' && (n =? n')
  | VCUnlinked, VCUnlinked => true
  | _, _ => false
  end.
Fixpoint leqb {A} (eqb : A -> A -> bool) (a b : list A) : bool :=
  match a, b with
  | [], [] => true
  | x :: a', y :: b' => eqb x y && leqb eqb a' b'
  | _, _ => false
  end.

Inductive which := Client | Hosted.

Inductive dcase :=
| CaseMap (w : which) (cfg : config) (ns : list note) (cbs : list (list cb))
| CaseValue (w : which) (cfg : config) (ns : list vnote) (cbs : list (list vcb)).

Definition dl_corr_bad (cs : list (N * dcase)) : list N :=
  map fst (filter (fun c => match snd c with
                            | CaseMap Client cfg ns cbs => negb (leqb (leqb cb_eqb) (c_run cfg CsUnlinked ns) cbs)
                            | CaseMap Hosted cfg ns cbs => negb (leqb (leqb cb_eqb) (h_run cfg h0 ns) cbs)
                            | CaseValue Client cfg ns cbs => negb (leqb (leqb vcb_eqb) (cv_run cfg CvUnlinked ns) cbs)
                            | CaseValue Hosted cfg ns cbs => negb (leqb (leqb vcb_eqb) (hv_run cfg hv0 ns) cbs)
                            end) cs).

(* the hosted downlink reports a drop of the whole map as one on_clear (known finding C08-F1): a
   notification sequence is in that class if it contains a Drop n with n >= the size the map has then *)
Fixpoint has_whole_drop (s : sstate) (ns : list note) : bool :=
  match ns with
  | [] => false
  | n :: t =>
      match n, s with
      | NEvent (MDrop k), Some (_, m) => Nat.leb (length m) (N.to_nat k) || has_whole_drop (fst (spec_step {| events_when_not_synced := true; terminate_on_unlinked := false |} s n)) t
      | _, _ => has_whole_drop (fst (spec_step {| events_when_not_synced := true; terminate_on_unlinked := false |} s n)) t
      end
  end.

(* oracle: on a legal sequence the implementation's callbacks are the specification's *)
Definition dl_oracle_bad (cs : list (N * dcase)) : list N :=
  map fst (filter (fun c => match snd c with
                            | CaseMap w cfg ns cbs =>
                                legal None ns &&
                                negb (match w with Hosted => has_whole_drop None ns | Client => false end) &&
                                negb (leqb (leqb cb_eqb) (spec_run cfg None ns) cbs)
                            | CaseValue w cfg ns cbs =>
                                vlegal None ns && negb (leqb (leqb vcb_eqb) (vspec_run cfg None ns) cbs)
                            end) cs).

Definition dl_known (cs : list (N * dcase)) : list N :=
  map fst (filter (fun c => match snd c with
                            | CaseMap Hosted cfg ns cbs =>
                                legal None ns && has_whole_drop None ns &&
                                negb (leqb (leqb cb_eqb) (spec_run cfg None ns) cbs)
                            | _ => false
                            end) cs).
