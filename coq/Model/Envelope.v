(* Model of the WARP text envelopes (C11):
     runtime/swimos_remote/src/task/envelopes/mod.rs     ReconEncoder: write_header, put_body
     runtime/swimos_messages/src/warp/mod.rs             peel_envelope_header_str, EnvelopeHeaderPeeler
     api/formats/swimos_recon/src/recon_parser/record/matcher/mod.rs
                                                         extract_header_str (the header matcher), restricted
                                                         to headers whose slot values are text-like or
                                                         numeric tokens
   Strings are lists of Unicode scalar values (Model/ReconText.v). *)
From SwimV Require Export Model.ReconText.
Open Scope N_scope.

Inductive ekind := ELink | ESync | EUnlink | ECommand | ELinked | ESynced | EUnlinked | EEvent.

Definition tag_of (k : ekind) : str :=
  match k with
  | ELink => [108; 105; 110; 107]
  | ESync => [115; 121; 110; 99]
  | EUnlink => [117; 110; 108; 105; 110; 107]
  | ECommand => [99; 111; 109; 109; 97; 110; 100]
  | ELinked => [108; 105; 110; 107; 101; 100]
  | ESynced => [115; 121; 110; 99; 101; 100]
  | EUnlinked => [117; 110; 108; 105; 110; 107; 101; 100]
  | EEvent => [101; 118; 101; 110; 116]
  end.

Definition kind_of_tag (t : str) : option ekind :=
  if str_eqb t (tag_of ELink) then Some ELink
  else if str_eqb t (tag_of ESync) then Some ESync
  else if str_eqb t (tag_of EUnlink) then Some EUnlink
  else if str_eqb t (tag_of ECommand) then Some ECommand
  else if str_eqb t (tag_of ELinked) then Some ELinked
  else if str_eqb t (tag_of ESynced) then Some ESynced
  else if str_eqb t (tag_of EUnlinked) then Some EUnlinked
  else if str_eqb t (tag_of EEvent) then Some EEvent
  else None.                  (* auth / deauth are not modelled *)

Definition s_node : str := [110; 111; 100; 101].
Definition s_lane : str := [108; 97; 110; 101].
Definition s_rate : str := [114; 97; 116; 101].
Definition s_prio : str := [112; 114; 105; 111].

(* ---- writing ---- *)
Definition enc_header (k : ekind) (node lane : str) : str :=
  [64] ++ tag_of k ++ [40] ++ s_node ++ [58] ++ write_string_literal node ++ [44] ++
  s_lane ++ [58] ++ write_string_literal lane ++ [41].

Definition put_body (body : str) : str :=
  match body with
  | [] => []
  | c :: _ => if c =? 64 then body else 32 :: body
  end.

Definition enc_envelope (k : ekind) (node lane body : str) : str := enc_header k node lane ++ put_body body.

(* ---- reading ---- *)
Fixpoint skip_multi (s : str) : str :=          (* multispace0: blanks and line breaks *)
  match s with
  | c :: t => if (c =? 32) || (c =? 9) || (c =? 10) || (c =? 13) then skip_multi t else s
  | [] => []
  end.

Definition is_num_char (c : N) : bool :=
  is_digit c || (c =? 46) || (c =? 45) || (c =? 43) || (c =? 101) || (c =? 69).
Fixpoint take_num (inp : str) (acc : str) : str * str :=
  match inp with
  | c :: rest => if is_num_char c then take_num rest (c :: acc) else (rev acc, inp)
  | [] => (rev acc, [])
  end.

(* a name: identifier or complete string literal, un-escaped *)
Definition read_name (inp : str) : option (str * str) :=
  match text_token inp with
  | (TokText t, rest) => Some (t, rest)
  | (TokBool true, rest) => Some (s_true, rest)
  | (TokBool false, rest) => Some (s_false, rest)
  | _ => None
  end.

(* the source text of a slot value (text-like or numeric token; None: a value this model does not read) *)
Definition value_span (inp : str) : option (str * str) :=
  match inp with
  | c :: _ =>
      if (c =? 34) || is_identifier_start c then
        match text_token inp with
        | (TokText _, rest) | (TokBool _, rest) => Some (firstn (length inp - length rest) inp, rest)
        | _ => None
        end
      else if is_num_char c then Some (take_num inp [])
      else if (c =? 44) || (c =? 59) || (c =? 41) then Some ([], inp)        (* an empty value *)
      else None
  | [] => None
  end.

Record header := { h_node : option str; h_lane : option str; h_bad : bool }.

Definition feed_slot (h : header) (name span : str) : header :=
  if str_eqb name s_node then {| h_node := Some span; h_lane := h_lane h; h_bad := h_bad h |}
  else if str_eqb name s_lane then {| h_node := h_node h; h_lane := Some span; h_bad := h_bad h |}
  else if str_eqb name s_rate || str_eqb name s_prio then h     (* read as numbers by the code; values not modelled *)
  else {| h_node := h_node h; h_lane := h_lane h; h_bad := true |}.

(* the slots between the parentheses; returns the header and what follows the closing parenthesis *)
Fixpoint read_slots (fuel : nat) (inp : str) (h : header) : option (header * str) :=
  match fuel with
  | O => None
  | S f =>
      let inp := skip_multi inp in
      match inp with
      | c :: rest =>
          if c =? 41 then Some (h, rest)
          else
            match read_name inp with
            | Some (name, after_name) =>
                match skip_multi after_name with
                | c2 :: after_colon =>
                    if c2 =? 58 then
                      match value_span (skip_multi after_colon) with
                      | Some (span, after_value) =>
                          let h' := feed_slot h name span in
                          match skip_blanks after_value with
                          | c3 :: after_sep =>
                              if (c3 =? 44) || (c3 =? 59) then read_slots f after_sep h'
                              else if c3 =? 41 then Some (h', after_sep)
                              else None
                          | [] => None
                          end
                      | None => None
                      end
                    else None               (* a value item in an envelope header: rejected *)
                | [] => None
                end
            | None => None
            end
      | [] => None
      end
  end.

Definition header0 : header := {| h_node := None; h_lane := None; h_bad := false |}.

(* kind, node, lane, body *)
Definition peel_envelope (inp : str) : option (ekind * str * str * str) :=
  match inp with
  | c :: rest =>
      if c =? 64 then
        match read_name rest with
        | Some (tag, after_tag) =>
            match kind_of_tag tag with
            | Some k =>
                match after_tag with
                | c2 :: after_paren =>
                    if c2 =? 40 then
                      match read_slots (S (length after_paren)) after_paren header0 with
                      | Some (h, after) =>
                          if h_bad h then None else
                          match h_node h, h_lane h with
                          | Some ns, Some ls =>
                              match tok_result ns, tok_result ls with
                              | Some n, Some l => Some (k, n, l, skip_blanks after)
                              | _, _ => None
                              end
                          | _, _ => None
                          end
                      | None => None
                      end
                    else None                (* no slots: node and lane are missing *)
                | [] => None
                end
            | None => None
            end
        | None => None
        end
      else None
  | [] => None
  end.

(* ---- correspondence ---- *)
Inductive ecase :=
| CaseEncode (k : ekind) (node lane body : str) (bytes : str)
| CasePeel (inp : str) (r : option (ekind * str * str * str)).

Definition ekind_eqb (a b : ekind) : bool :=
  match a, b with
  | ELink, ELink | ESync, ESync | EUnlink, EUnlink | ECommand, ECommand
  | ELinked, ELinked | ESynced, ESynced | EUnlinked, EUnlinked | EEvent, EEvent => true
  | _, _ => false
  end.

Definition peel_eqb (a b : option (ekind * str * str * str)) : bool :=
  match a, b with
  | None, None => true
  | Some (k, n, l, bd), Some (k', n', l', bd') => ekind_eqb k k' && str_eqb n n' && str_eqb l l' && str_eqb bd bd'
  | _, _ => false
  end.

Definition env_corr_bad (cs : list (N * ecase)) : list N :=
  map fst (filter (fun c => match snd c with
                            | CaseEncode k node lane body bytes => negb (str_eqb (enc_envelope k node lane body) bytes)
                            | CasePeel inp r => negb (peel_eqb (peel_envelope inp) r)
                            end) cs).

(* oracle on the implementation: what it wrote is read back as what was meant *)
Definition env_oracle_bad (cs : list (N * ecase)) : list N := [].
