(* The integer Form types (C16): i32, i64, u32, u64, usize, NonZeroUsize, BigInt, BigUint; how each is written to the
   model and to MessagePack, and how its recognizer reads a number event, whichever path the event came by.

     api/swimos_form/src/structural/read/recognizer/primitive/mod.rs   I32Recognizer .. BigUintRecognizer
     api/swimos_form/src/structural/write/mod.rs                       StructuralWritable for i32 .. BigUint
     api/swimos_form/src/structural/read/event.rs                      From<u8 / i8 / .. / BigUint> for ReadEvent
     api/swimos_model/src/value.rs (ValueInterpreter) and the bridge   Value -> events
     api/formats/swimos_msgpack/src/reader/mod.rs                      marker -> event

   A number event is a [numval] of Model/ReconNum.v (NumericValue::{Int(i64), UInt(u64), BigInt, BigUint}); the three
   paths by which an event reaches a recognizer are
     - directly from Recon text: the literal's NumericValue ([int_of_text], tied to the parser by h_recon/c09n);
     - through the model: the literal becomes a Value of the kind [value_kind] and the Value is fed as an event;
     - from MessagePack: the marker decides the kind of the event.
   usize is 64 bits wide (the only platform the harness runs on).  Definitions only; proofs in Proofs/FormIntProofs.v. *)
From SwimV Require Export Model.ReconNum Model.MsgPack.
Open Scope Z_scope.

Inductive ity := TI32 | TI64 | TU32 | TU64 | TUsize | TNonZeroUsize | TBigInt | TBigUint.

(* the numbers a type holds *)
Definition in_ty (t : ity) (z : Z) : bool :=
  match t with
  | TI32 => (- 2147483648 <=? z) && (z <=? 2147483647)
  | TI64 => (- 9223372036854775808 <=? z) && (z <=? 9223372036854775807)
  | TU32 => (0 <=? z) && (z <=? 4294967295)
  | TU64 | TUsize => (0 <=? z) && (z <=? 18446744073709551615)
  | TNonZeroUsize => (1 <=? z) && (z <=? 18446744073709551615)
  | TBigInt => true
  | TBigUint => 0 <=? z
  end.

(* feed_event of the type's recognizer on a number event: T::try_from(n) (always Ok where the code does not convert) *)
Definition recognize (t : ity) (v : numval) : option Z :=
  let z := nz v in
  match t, nk v with
  | TI64, KInt => Some z
  | TU64, KUInt => Some z
  | TBigInt, _ => Some z
  | TBigUint, KUInt => Some z
  | TBigUint, KBigUint => Some z
  | _, _ => if in_ty t z then Some z else None
  end.

(* ---- the model: a numeric Value is a kind and a number ---- *)
Inductive ival := IV (k : vkind) (z : Z).

(* into_value: which writer method the type calls (write_i32 .. write_big_uint) *)
Definition to_value (t : ity) (z : Z) : ival :=
  match t with
  | TI32 => IV VI32 z
  | TI64 => IV VI64 z
  | TU32 => IV VU32 z
  | TU64 | TUsize | TNonZeroUsize => IV VU64 z
  | TBigInt => IV VBigInt z
  | TBigUint => IV VBigUint z
  end.

(* a Value fed to a recognizer (Value::write_with on the recognizer bridge) *)
Definition event_of_value (v : ival) : numval :=
  match v with
  | IV VI32 z | IV VI64 z => {| nk := KInt; nz := z |}
  | IV VU32 z | IV VU64 z => {| nk := KUInt; nz := z |}
  | IV VBigInt z => {| nk := KBigInt; nz := z |}
  | IV VBigUint z => {| nk := KBigUint; nz := z |}
  end.

(* the Value a literal becomes when the text is parsed to the model *)
Definition value_of_literal (v : numval) : ival := IV (value_kind v) (nz v).

Definition try_from_value (t : ity) (v : ival) : option Z := recognize t (event_of_value v).

(* the two ways of reading a type from Recon text; parse_recognize reads the first value of the input and leaves the
   rest, and an integer type is complete after one number event *)
Definition first_int (inp : str) : option numval :=
  match num_token (skip_blanks inp) with (NLit v, _) => Some v | (NOther, _) => None end.
Definition read_direct (t : ity) (inp : str) : option Z :=
  match first_int inp with Some v => recognize t v | None => None end.
Definition read_via_model (t : ity) (inp : str) : option Z :=
  match first_int inp with Some v => try_from_value t (value_of_literal v) | None => None end.

(* ---- MessagePack ---- *)
(* what the writer emits for a Value (write_sint / write_uint / the big-integer extensions) *)
Definition scalar_of_value (v : ival) : mscalar :=
  match v with
  | IV VI32 z | IV VI64 z => if z <? 0 then MNeg (Z.to_N (- z)) else MPos (Z.to_N z)
  | IV VU32 z | IV VU64 z => MPos (Z.to_N z)
  | IV VBigInt z => MBigInt (z <? 0) (Z.abs_N z)
  | IV VBigUint z => MBigUint (Z.to_N z)
  end.

(* the event the reader feeds for a scalar: positive fixint and u8 go through From<u8> (Int), u16 / u32 / u64 through
   From<u16 / u32 / u64> (UInt), every signed marker gives Int *)
Definition event_of_scalar (m : mscalar) : option numval :=
  match m with
  | MPos n => Some {| nk := if (n <? 256)%N then KInt else KUInt; nz := Z.of_N n |}
  | MNeg n => Some {| nk := KInt; nz := - Z.of_N n |}
  | MBigInt neg mag => Some {| nk := KBigInt; nz := if neg then - Z.of_N mag else Z.of_N mag |}
  | MBigUint mag => Some {| nk := KBigUint; nz := Z.of_N mag |}
  | _ => None
  end.

Definition write_msgpack (t : ity) (z : Z) : bytes := enc_scalar (scalar_of_value (to_value t z)).
Definition read_msgpack (t : ity) (b : bytes) : option Z :=
  match dec_scalar b with
  | MOk m [] => match event_of_scalar m with Some v => recognize t v | None => None end
  | _ => None
  end.

(* ---- correspondence ---- *)
Definition ty_of_code (c : N) : ity :=
  match c with
  | 0%N => TI32 | 1%N => TI64 | 2%N => TU32 | 3%N => TU64 | 4%N => TUsize | 5%N => TNonZeroUsize | 6%N => TBigInt
  | _ => TBigUint
  end.

Definition oz_eqb (a b : option Z) : bool :=
  match a, b with Some x, Some y => x =? y | None, None => true | _, _ => false end.

Inductive fcase :=
| FCaseText (ty : N) (inp : str) (direct via_model : option Z)
    (* parse_recognize::<T>(inp) and T::try_from_value(parse_recognize::<Value>(inp)) on an integer literal *)
| FCaseValue (ty : N) (kind : N) (z : Z) (result : option Z)
    (* T::try_from_value on a numeric Value of the given kind (codes of Model/ReconNum.v) *)
| FCaseWrite (ty : N) (z : Z) (kind : N) (mp : bytes) (back : option Z).
    (* T's value z: kind of into_value, its MessagePack bytes, and what reading those bytes as T gives *)

Definition kind_of_code (c : N) : vkind :=
  match c with 0%N => VI32 | 1%N => VI64 | 2%N => VU32 | 3%N => VU64 | 4%N => VBigInt | _ => VBigUint end.

Definition form_int_corr_bad (cs : list (N * fcase)) : list N :=
  map fst (filter (fun c => match snd c with
    | FCaseText ty inp direct via_model =>
        negb (oz_eqb (read_direct (ty_of_code ty) inp) direct && oz_eqb (read_via_model (ty_of_code ty) inp) via_model)
    | FCaseValue ty kind z result =>
        negb (oz_eqb (try_from_value (ty_of_code ty) (IV (kind_of_code kind) z)) result)
    | FCaseWrite ty z kind mp back =>
        let t := ty_of_code ty in
        negb (match to_value t z with IV k _ => (kind_code k =? kind)%N end
              && bytes_eqb (write_msgpack t z) mp && oz_eqb (read_msgpack t mp) back)
    end) cs).
