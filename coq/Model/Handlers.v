(* Model of event handler execution inside one agent (C06):
     server/swimos_agent/src/event_handler/mod.rs          StepResult, Modification, FollowedBy, AndThen,
                                                           SideEffect, UnitHandler
     server/swimos_agent/src/lanes/value/mod.rs            ValueLaneSet / ValueLaneGet
     server/swimos_agent/src/lanes/map/mod.rs              MapLaneUpdate / Remove / Clear / Get
     server/swimos_agent/src/stores/value/mod.rs           Inner { content, previous }, set, read_with_prev
     server/swimos_agent/src/map_storage/mod.rs            MapStoreInner { content, previous }, update, remove,
                                                           clear, read_with_prev
     server/swimos_agent/src/agent_lifecycle/item_event/{value,map}/mod.rs
                                                           item_event: on_event.followed_by(on_set), map_handler
     server/swimos_agent/src/agent_model/mod.rs            run_handler (the recursion on modifications)
   Handlers are the state machines of the Rust combinators ([hstate], [step]); [run] is run_handler;
   [eval] is the reference semantics of docs/event_handler.md: a direct depth-first interpreter. *)
From Coq Require Export List Bool Arith NArith ZArith Lia.
Export ListNotations.
Open Scope N_scope.

(* ---- what a handler program is ---- *)
Inductive mapev := MUpd (k : Z) (old : option Z) | MRem (k : Z) (old : Z) | MClr (old : list (Z * Z)).

Inductive event :=
| EEff (tag : N)                                   (* a side effect of the program *)
| EGot (l : N) (v : Z)                             (* a value lane was read *)
| EGotM (l : N) (k : Z) (v : option Z)             (* a map lane entry was read *)
| EOnEvent (l : N) (v : Z)                         (* value lane lifecycle: on_event(new) *)
| EOnSet (l : N) (v : Z) (prev : option Z)         (* on_set(new, previous) *)
| EOnUpdate (l : N) (k : Z) (prev : option Z) (v : Z)  (* map lane: on_update(key, previous, new) *)
| EOnRemove (l : N) (k : Z) (prev : Z)
| EOnClear (l : N) (before : list (Z * Z)).

Inductive handler :=
| HUnit
| HRecord (e : event)                  (* SideEffect pushing a trace entry *)
| HFail                                (* a handler whose step fails *)
| HSetV (l : N) (v : Z)                (* ValueLaneSet *)
| HGetV (l : N)                        (* get(l).and_then(|v| effect(record (EGot l v))) *)
| HCopy (src dst : N) (delta : Z)      (* get(src).and_then(|v| set(dst, v + delta)) *)
| HUpdM (l : N) (k v : Z)
| HRemM (l : N) (k : Z)
| HClrM (l : N)
| HTrnM (l : N) (k d : Z)              (* transform_entry(l, k, |v| Some(v.unwrap_or(0) + d)): an update with a computed value *)
| HGetM (l : N) (k : Z)                (* get(l, k).and_then(|v| effect(record (EGotM l k v))) *)
| HSeq (a b : handler)                 (* a.followed_by(b) *)
| HThen (a b : handler)                (* a.and_then(|()| b): the AndThen machine over an arbitrary first half *)
| HWrap (a : handler).                 (* a.discard(), Some(a).discard(), a.map(|_| ()): a result transformer around a *)

(* the lifecycle of the agent: the bodies run after the lifecycle event itself has been recorded *)
Record lifecycle := {
  lc_event : N -> handler;     (* value lane l: on_event *)
  lc_set : N -> handler;       (* on_set *)
  lc_update : N -> handler;    (* map lane l: on_update *)
  lc_remove : N -> handler;
  lc_clear : N -> handler
}.

(* ---- the stores ---- *)
Record vstore := { v_content : Z; v_prev : option Z }.
Record mstore := { m_content : list (Z * Z); m_prev : option mapev }.
Record store := { vals : list (N * vstore); maps : list (N * mstore) }.

Fixpoint lookup {A} (l : N) (xs : list (N * A)) : option A :=
  match xs with [] => None | (k, v) :: t => if k =? l then Some v else lookup l t end.
Fixpoint update {A} (l : N) (x : A) (xs : list (N * A)) : list (N * A) :=
  match xs with
  | [] => [(l, x)]
  | (k, v) :: t => if k =? l then (k, x) :: t else (k, v) :: update l x t
  end.

Definition vget (st : store) (l : N) : vstore :=
  match lookup l (vals st) with Some v => v | None => {| v_content := 0%Z; v_prev := None |} end.
Definition mget (st : store) (l : N) : mstore :=
  match lookup l (maps st) with Some m => m | None => {| m_content := []; m_prev := None |} end.
Definition vput (st : store) (l : N) (v : vstore) : store := {| vals := update l v (vals st); maps := maps st |}.
Definition mput (st : store) (l : N) (m : mstore) : store := {| vals := vals st; maps := update l m (maps st) |}.

(* maps are kept sorted by key (the harness uses a BTreeMap so that on_clear's argument is canonical) *)
Fixpoint zlookup (k : Z) (m : list (Z * Z)) : option Z :=
  match m with [] => None | (k', v) :: t => if (k' =? k)%Z then Some v else zlookup k t end.
Fixpoint zinsert (k v : Z) (m : list (Z * Z)) : list (Z * Z) :=
  match m with
  | [] => [(k, v)]
  | (k', v') :: t => if (k' =? k)%Z then (k, v) :: t else if (k <? k')%Z then (k, v) :: (k', v') :: t else (k', v') :: zinsert k v t
  end.
Fixpoint zremove (k : Z) (m : list (Z * Z)) : list (Z * Z) :=
  match m with [] => [] | (k', v') :: t => if (k' =? k)%Z then t else (k', v') :: zremove k t end.

(* ValueStore::set *)
Definition do_set (st : store) (l : N) (v : Z) : store :=
  vput st l {| v_content := v; v_prev := Some (v_content (vget st l)) |}.
(* MapStoreInner::update / remove / clear *)
Definition do_update (st : store) (l : N) (k v : Z) : store :=
  let m := mget st l in
  mput st l {| m_content := zinsert k v (m_content m); m_prev := Some (MUpd k (zlookup k (m_content m))) |}.
Definition do_remove (st : store) (l : N) (k : Z) : store :=
  let m := mget st l in
  match zlookup k (m_content m) with
  | Some old => mput st l {| m_content := zremove k (m_content m); m_prev := Some (MRem k old) |}
  | None => st
  end.
(* transform_entry with a closure that always produces a value: the entry becomes old + d (d if it was absent) *)
Definition do_transform (st : store) (l : N) (k d : Z) : store :=
  do_update st l k (match zlookup k (m_content (mget st l)) with Some v => v + d | None => d end)%Z.
Definition do_clear (st : store) (l : N) : store :=
  let m := mget st l in mput st l {| m_content := []; m_prev := Some (MClr (m_content m)) |}.

(* ---- item_event: the handler a modification of an item triggers (takes `previous`) ---- *)
Inductive item := IVal (l : N) | IMap (l : N).

Definition item_event (lc : lifecycle) (st : store) (it : item) : option handler * store :=
  match it with
  | IVal l =>
      let v := vget st l in
      (Some (HSeq (HSeq (HRecord (EOnEvent l (v_content v))) (lc_event lc l))
                  (HSeq (HRecord (EOnSet l (v_content v) (v_prev v))) (lc_set lc l))),
       vput st l {| v_content := v_content v; v_prev := None |})
  | IMap l =>
      let m := mget st l in
      match m_prev m with
      | None => (None, st)
      | Some ev =>
          let st' := mput st l {| m_content := m_content m; m_prev := None |} in
          (Some (match ev with
                 | MUpd k old =>
                     HSeq (HRecord (EOnUpdate l k old (match zlookup k (m_content m) with Some x => x | None => 0%Z end)))
                          (lc_update lc l)
                 | MRem k old => HSeq (HRecord (EOnRemove l k old)) (lc_remove lc l)
                 | MClr old => HSeq (HRecord (EOnClear l old)) (lc_clear lc l)
                 end), st')
      end
  end.

(* ---- the combinators as state machines ---- *)
Inductive hstate :=
| SLeaf (h : handler)                   (* a primitive that has not been stepped *)
| SDone                                 (* stepping again is an error *)
| SBindSet (dst : N) (v : Z)            (* AndThen::Second of HCopy *)
| SBindRec (e : event)                  (* AndThen::Second of HGetV / HGetM *)
| SFirst (a : hstate) (b : handler)     (* FollowedBy::First / AndThen::First: the two machines step alike *)
| SSecond (b : hstate).                 (* FollowedBy::Second / AndThen::Second *)

Fixpoint init (h : handler) : hstate :=
  match h with
  | HSeq a b | HThen a b => SFirst (init a) b
  | HWrap a => SSecond (init a)           (* Discard / Option / Map step their inner handler and pass on what it
                                             reports, as FollowedBy::Second does *)
  | _ => SLeaf h
  end.

Inductive sres := RCont | RDone | RFail.

(* one call of step: result kind, the item modified (every modification here is DIRTY | TRIGGER_HANDLER),
   the new handler state, store and trace *)
Fixpoint step (h : hstate) (st : store) (tr : list event)
  : sres * option item * hstate * store * list event :=
  match h with
  | SLeaf HUnit => (RDone, None, SDone, st, tr)
  | SLeaf (HRecord e) => (RDone, None, SDone, st, tr ++ [e])
  | SLeaf HFail => (RFail, None, SDone, st, tr)
  | SLeaf (HSetV l v) => (RDone, Some (IVal l), SDone, do_set st l v, tr)
  | SLeaf (HGetV l) => (RCont, None, SBindRec (EGot l (v_content (vget st l))), st, tr)
  | SLeaf (HCopy src dst d) => (RCont, None, SBindSet dst (v_content (vget st src) + d)%Z, st, tr)
  | SLeaf (HUpdM l k v) => (RDone, Some (IMap l), SDone, do_update st l k v, tr)
  | SLeaf (HRemM l k) => (RDone, Some (IMap l), SDone, do_remove st l k, tr)
  | SLeaf (HClrM l) => (RDone, Some (IMap l), SDone, do_clear st l, tr)
  | SLeaf (HTrnM l k d) => (RDone, Some (IMap l), SDone, do_transform st l k d, tr)
  | SLeaf (HGetM l k) => (RCont, None, SBindRec (EGotM l k (zlookup k (m_content (mget st l)))), st, tr)
  | SLeaf (HSeq a b) | SLeaf (HThen a b) => (RFail, None, SDone, st, tr)           (* not produced by [init] *)
  | SLeaf (HWrap a) => (RFail, None, SDone, st, tr)
  | SDone => (RFail, None, SDone, st, tr)
  | SBindSet dst v => (RDone, Some (IVal dst), SDone, do_set st dst v, tr)
  | SBindRec e => (RDone, None, SDone, st, tr ++ [e])
  | SFirst a b =>
      match step a st tr with
      | (RFail, m, _, st', tr') => (RFail, m, SDone, st', tr')
      | (RDone, m, _, st', tr') => (RCont, m, SSecond (init b), st', tr')
      | (RCont, m, a', st', tr') => (RCont, m, SFirst a' b, st', tr')
      end
  | SSecond b =>
      match step b st tr with
      | (RCont, m, b', st', tr') => (RCont, m, SSecond b', st', tr')
      | (r, m, _, st', tr') => (r, m, SDone, st', tr')
      end
  end.

(* ---- run_handler ---- *)
Inductive outcome := Ok | Failed.

(* what a modification brings about: the item's lifecycle handler, run by [k]; nothing for no modification *)
Definition conseq (k : handler -> store -> list event -> option (outcome * store * list event))
  (lc : lifecycle) (m : option item) (st : store) (tr : list event) : option (outcome * store * list event) :=
  match m with
  | None => Some (Ok, st, tr)
  | Some it =>
      match item_event lc st it with
      | (Some c, st2) => k c st2 tr
      | (None, st2) => Some (Ok, st2, tr)
      end
  end.

Fixpoint run (fuel : nat) (lc : lifecycle) (h : hstate) (st : store) (tr : list event)
  : option (outcome * store * list event) :=
  match fuel with
  | O => None
  | S f =>
      match step h st tr with
      | (RFail, _, _, st1, tr1) => Some (Failed, st1, tr1)
      | (r, m, h', st1, tr1) =>
          (* the consequence of the modification runs to completion first *)
          match conseq (fun c => run f lc (init c)) lc m st1 tr1 with
          | None => None
          | Some (Failed, st3, tr3) => Some (Failed, st3, tr3)
          | Some (Ok, st3, tr3) =>
              match r with
              | RCont => run f lc h' st3 tr3
              | _ => Some (Ok, st3, tr3)
              end
          end
      end
  end.

(* ---- the reference semantics: a depth-first interpreter of the program ---- *)
Fixpoint eval (fuel : nat) (lc : lifecycle) (h : handler) (st : store) (tr : list event)
  : option (outcome * store * list event) :=
  match fuel with
  | O => None
  | S f =>
      match h with
      | HUnit => Some (Ok, st, tr)
      | HRecord e => Some (Ok, st, tr ++ [e])
      | HFail => Some (Failed, st, tr)
      | HSetV l v => conseq (eval f lc) lc (Some (IVal l)) (do_set st l v) tr
      | HGetV l => Some (Ok, st, tr ++ [EGot l (v_content (vget st l))])
      | HCopy src dst d => conseq (eval f lc) lc (Some (IVal dst)) (do_set st dst (v_content (vget st src) + d)%Z) tr
      | HUpdM l k v => conseq (eval f lc) lc (Some (IMap l)) (do_update st l k v) tr
      | HRemM l k => conseq (eval f lc) lc (Some (IMap l)) (do_remove st l k) tr
      | HClrM l => conseq (eval f lc) lc (Some (IMap l)) (do_clear st l) tr
      | HTrnM l k d => conseq (eval f lc) lc (Some (IMap l)) (do_transform st l k d) tr
      | HGetM l k => Some (Ok, st, tr ++ [EGotM l k (zlookup k (m_content (mget st l)))])
      | HSeq a b | HThen a b =>
          match eval f lc a st tr with
          | Some (Ok, st1, tr1) => eval f lc b st1 tr1
          | ow => ow
          end
      | HWrap a => eval f lc a st tr
      end
  end.

(* ---- the agent: on_start, then the top-level handlers in the order the runtime picked, then on_stop ----
   A handler run for a lane command that fails (with an error other than a runtime error) is abandoned and
   the agent carries on ("Incoming frame was rejected by the item"); a failure of on_start, on_stop or of a
   suspended handler ends the agent. *)
Inductive top := TMain (h : handler) | TCmd (h : handler).

Fixpoint run_all (fuel : nat) (lc : lifecycle) (hs : list top) (st : store) (tr : list event)
  : option (outcome * store * list event) :=
  match hs with
  | [] => Some (Ok, st, tr)
  | TMain h :: t =>
      match run fuel lc (init h) st tr with
      | Some (Ok, st1, tr1) => run_all fuel lc t st1 tr1
      | ow => ow                              (* nothing further runs *)
      end
  | TCmd h :: t =>
      match run fuel lc (init h) st tr with
      | Some (_, st1, tr1) => run_all fuel lc t st1 tr1
      | None => None
      end
  end.

(* ---- correspondence ---- *)
Definition oz_eqb (a b : option Z) : bool :=
  match a, b with None, None => true | Some x, Some y => (x =? y)%Z | _, _ => false end.
Fixpoint zz_eqb (a b : list (Z * Z)) : bool :=
  match a, b with
  | [], [] => true
  | (k, v) :: a', (k', v') :: b' => (k =? k')%Z && (v =? v')%Z && zz_eqb a' b'
  | _, _ => false
  end.
Definition event_eqb (a b : event) : bool :=
  match a, b with
  | EEff x, EEff y => x =? y
  | EGot l v, EGot l' v' => (l =? l') && (v =? v')%Z
  | EGotM l k v, EGotM l' k' v' => (l =? l') && (k =? k')%Z && oz_eqb v v'
  | EOnEvent l v, EOnEvent l' v' => (l =? l') && (v =? v')%Z
  | EOnSet l v p, EOnSet l' v' p' => (l =? l') && (v =? v')%Z && oz_eqb p p'
  | EOnUpdate l k p v, EOnUpdate l' k' p' v' => (l =? l') && (k =? k')%Z && oz_eqb p p' && (v =? v')%Z
  | EOnRemove l k p, EOnRemove l' k' p' => (l =? l') && (k =? k')%Z && (p =? p')%Z
  | EOnClear l m, EOnClear l' m' => (l =? l') && zz_eqb m m'
  | _, _ => false
  end.
Fixpoint trace_eqb (a b : list event) : bool :=
  match a, b with
  | [], [] => true
  | x :: a', y :: b' => event_eqb x y && trace_eqb a' b'
  | _, _ => false
  end.

(* a lifecycle given as tables; lanes without an entry do nothing *)
Definition table (t : list (N * handler)) (l : N) : handler :=
  match lookup l t with Some h => h | None => HUnit end.
Definition mk_lc (ev se up re cl : list (N * handler)) : lifecycle :=
  {| lc_event := table ev; lc_set := table se; lc_update := table up; lc_remove := table re; lc_clear := table cl |}.

Definition store0 : store := {| vals := []; maps := [] |}.

(* a case: the lifecycle tables, the top-level handlers in the order the agent ran them (on_start first,
   on_stop last), whether the agent failed, and the trace it produced *)
Record hcase := {
  hc_lc : lifecycle;
  hc_tops : list top;
  hc_failed : bool;
  hc_trace : list event;
  hc_values_after : N;                   (* the lane values below were observed after this many top-level handlers *)
  hc_values : list (N * Z);
}.

Definition FUEL : nat := 4000.

Definition case_ok (c : hcase) : bool :=
  match run_all FUEL (hc_lc c) (hc_tops c) store0 [] with
  | Some (o, st, tr) =>
      Bool.eqb (match o with Failed => true | Ok => false end) (hc_failed c)
      && trace_eqb tr (hc_trace c)
      && match run_all FUEL (hc_lc c) (firstn (N.to_nat (hc_values_after c)) (hc_tops c)) store0 [] with
         | Some (_, st', _) => forallb (fun lv => (v_content (vget st' (fst lv)) =? snd lv)%Z) (hc_values c)
         | None => false
         end
  | None => false
  end.

(* the same through the reference interpreter *)
Fixpoint eval_all (fuel : nat) (lc : lifecycle) (hs : list top) (st : store) (tr : list event) :=
  match hs with
  | [] => Some (Ok, st, tr)
  | TMain h :: t =>
      match eval fuel lc h st tr with
      | Some (Ok, st1, tr1) => eval_all fuel lc t st1 tr1
      | ow => ow
      end
  | TCmd h :: t =>
      match eval fuel lc h st tr with
      | Some (_, st1, tr1) => eval_all fuel lc t st1 tr1
      | None => None
      end
  end.
Definition case_ok_ref (c : hcase) : bool :=
  match eval_all FUEL (hc_lc c) (hc_tops c) store0 [] with
  | Some (o, _, tr) => Bool.eqb (match o with Failed => true | Ok => false end) (hc_failed c) && trace_eqb tr (hc_trace c)
  | None => false
  end.

Definition h_corr_bad (cs : list (N * hcase)) : list N := map fst (filter (fun c => negb (case_ok (snd c))) cs).
Definition h_oracle_bad (cs : list (N * hcase)) : list N := map fst (filter (fun c => negb (case_ok_ref (snd c))) cs).
