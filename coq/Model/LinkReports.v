(* C20 at the level of the write task: what the uplink reporters of the lanes and of the agent show after every
   operation of the write task's state (link / unlink requests, lane events, write completions, lane removal,
   unlink-all, remote removal), against the link set of Model/Uplinks.v.

     runtime/swimos_runtime/src/agent/task/mod.rs     WriteTaskState::{handle_task_message, handle_event, remove_lane,
                                                       unlink_all, remove_remote}
     runtime/swimos_runtime/src/agent/task/links.rs   Links (count_single / count_broadcast, the reporters)

   Definitions only; proofs in Proofs/LinkReportsProofs.v. *)
From SwimV Require Export Model.Uplinks.
Open Scope N_scope.

Definition lane_links (w : wstate) (l : N) : N := N.of_nat (length (filter (fun p => fst p =? l) (w_links w))).
Definition all_links (w : wstate) : N := N.of_nat (length (w_links w)).

(* the links whose remote exists: the remotes `actually linked' *)
Definition live_links (w : wstate) : list (N * N) := filter (fun p => has_remote w (snd p)) (w_links w).
Definition live_lane_links (w : wstate) (l : N) : N := N.of_nat (length (filter (fun p => fst p =? l) (live_links w))).

Fixpoint lanes_upto (n : nat) (i : N) : list N := match n with O => [] | S k => i :: lanes_upto k (N.succ i) end.
Definition lanes_of (w : wstate) : list N := lanes_upto (N.to_nat (w_nlanes w)) 0.

(* what the reporters show: the link count of every lane and of the agent *)
Definition report (w : wstate) : list N * N := (map (lane_links w) (lanes_of w), all_links w).
(* what they ought to show *)
Definition true_report (w : wstate) : list N * N :=
  (map (live_lane_links w) (lanes_of w), N.of_nat (length (live_links w))).

(* events sent to links by an operation: (lane, count) *)
Definition events_of (w : wstate) (o : wop) : option (N * N) :=
  match o with
  | OEvent lane (Some r) _ => if (lane <? w_nlanes w) && has_remote w r then Some (lane, 1) else None
  | OEvent lane None _ => if lane <? w_nlanes w then Some (lane, lane_links w lane) else None
  | _ => None
  end.

Fixpoint wrun_reports (w : wstate) (ops : list wop) : list ((list N * N) * option (N * N)) :=
  match ops with
  | [] => []
  | o :: t => let w' := fst (wstep w o) in (report w', events_of w o) :: wrun_reports w' t
  end.
Fixpoint wrun_true (w : wstate) (ops : list wop) : list (list N * N) :=
  match ops with
  | [] => []
  | o :: t => let w' := fst (wstep w o) in true_report w' :: wrun_true w' t
  end.

(* ---- correspondence ---- *)
(* per operation: the link counts shown for the lanes and the agent afterwards, and the event counts consumed from
   the lanes' and the agent's reporters by a snapshot taken after the operation *)
Definition rcase := (N * list wop * list (list N * N) * list (list N * N))%type.

Fixpoint nlist_eqb (a b : list N) : bool :=
  match a, b with [], [] => true | x :: a', y :: b' => (x =? y) && nlist_eqb a' b' | _, _ => false end.
Definition rep_eqb (a b : list N * N) : bool := nlist_eqb (fst a) (fst b) && (snd a =? snd b).

Definition events_row (w : wstate) (e : option (N * N)) : list N * N :=
  match e with
  | Some (lane, n) => (map (fun l => if l =? lane then n else 0) (lanes_of w), n)
  | None => (map (fun _ => 0) (lanes_of w), 0)
  end.

Fixpoint all2 {A B} (f : A -> B -> bool) (a : list A) (b : list B) : bool :=
  match a, b with [], [] => true | x :: a', y :: b' => f x y && all2 f a' b' | _, _ => false end.

Definition rep_corr_bad (cs : list (N * rcase)) : list N :=
  map fst (filter (fun c => let '(nl, ops, reps, evs) := snd c in
                            let m := wrun_reports (wstate0 nl) ops in
                            negb (all2 (fun x y => rep_eqb (fst x) y) m reps
                                  && all2 (fun x y => rep_eqb (events_row (wstate0 nl) (snd x)) y) m evs)) cs).

(* the oracle: what is shown is the number of remotes actually linked *)
Definition rep_oracle_bad (cs : list (N * rcase)) : list N :=
  map fst (filter (fun c => let '(nl, ops, reps, _) := snd c in
                            negb (all2 rep_eqb (wrun_true (wstate0 nl) ops) reps)) cs).
