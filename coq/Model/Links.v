(* Model of runtime/swimos_runtime/src/agent/task/links.rs (Links, LaneLinks) together with the
   reporter cells of agent/reporting/mod.rs (UplinkReporter / UplinkReportReader, sequential part).
   HashMap / HashSet become association lists / sorted duplicate-free lists (iteration order is
   canonicalised on both sides of the correspondence).  u64 arithmetic: [checked_add].expect
   cannot be reached below 2^64 links and is not modelled; saturation of the event counters is. *)
From Coq Require Export List Bool Arith NArith Lia.
Export ListNotations.
Open Scope N_scope.

(* ---- sorted duplicate-free sets of N ---- *)
Fixpoint set_insert (x : N) (s : list N) : list N :=
  match s with
  | [] => [x]
  | y :: t => if x <? y then x :: s else if x =? y then s else y :: set_insert x t
  end.

Fixpoint set_remove (x : N) (s : list N) : list N :=
  match s with
  | [] => []
  | y :: t => if x =? y then t else y :: set_remove x t
  end.

Fixpoint set_mem (x : N) (s : list N) : bool :=
  match s with
  | [] => false
  | y :: t => (x =? y) || set_mem x t
  end.

Definition len (s : list N) : N := N.of_nat (length s).

(* ---- association lists keyed by N ---- *)
Fixpoint alookup {A} (k : N) (m : list (N * A)) : option A :=
  match m with
  | [] => None
  | (k', v) :: t => if k =? k' then Some v else alookup k t
  end.

Fixpoint aset {A} (k : N) (v : A) (m : list (N * A)) : list (N * A) :=
  match m with
  | [] => [(k, v)]
  | (k', v') :: t => if k =? k' then (k, v) :: t else (k', v') :: aset k v t
  end.

Fixpoint aremove {A} (k : N) (m : list (N * A)) : list (N * A) :=
  match m with
  | [] => []
  | (k', v') :: t => if k =? k' then t else (k', v') :: aremove k t
  end.

(* ---- reporter cells ----
   Every UplinkReporter is an Arc around three counters.  A lane's reporter is owned by that lane's
   entry (the reader and the read task only hold further handles to the same cell), so the cell is
   modelled inside the entry; the aggregate reporter's cell belongs to the registry.  [rep] is the
   index under which the harness keeps its reader for the cell (0 = aggregate). *)
Record cell := { c_links : N; c_events : N; c_commands : N }.

Definition U64MAX : N := 18446744073709551615.
Definition sat_add (a b : N) : N := N.min (a + b) U64MAX.

Definition cell0 : cell := {| c_links := 0; c_events := 0; c_commands := 0 |}.

Definition set_uplinks (n : N) (c : cell) : cell :=
  {| c_links := n; c_events := c_events c; c_commands := c_commands c |}.
Definition add_events (n : N) (c : cell) : cell :=
  {| c_links := c_links c; c_events := sat_add (c_events c) n; c_commands := c_commands c |}.
Definition add_commands (n : N) (c : cell) : cell :=
  {| c_links := c_links c; c_events := c_events c; c_commands := sat_add (c_commands c) n |}.
Definition take_counts (c : cell) : cell :=
  {| c_links := c_links c; c_events := 0; c_commands := 0 |}.

(* LaneLinks: the set of remotes and the optional reporter (index, cell) *)
Record lanelinks := { ll_remotes : list N; ll_reporter : option (nat * cell) }.
Definition ll_default : lanelinks := {| ll_remotes := []; ll_reporter := None |}.

Definition ll_report (f : cell -> cell) (ll : lanelinks) : option (nat * cell) :=
  match ll_reporter ll with Some (k, c) => Some (k, f c) | None => None end.

Record links := {
  forward : list (N * lanelinks);
  backwards : list (N * list N);
  total : N;
  agg : option cell;               (* aggregate reporter (reader index 0) *)
  next_rep : nat                   (* number of reporters created so far *)
}.

Definition init (with_agg : bool) : links :=
  {| forward := []; backwards := []; total := 0;
     agg := if with_agg then Some cell0 else None;
     next_rep := if with_agg then 1%nat else 0%nat |}.

Definition agg_report (f : cell -> cell) (a : option cell) : option cell :=
  match a with Some c => Some (f c) | None => None end.

Definition fwd_get (l : links) (lane : N) : lanelinks :=
  match alookup lane (forward l) with Some x => x | None => ll_default end.

Inductive op :=
| RegisterLane (lane : N) (with_reporter : bool)   (* register_lane: fresh lane id *)
| Insert (lane remote : N)
| Remove (lane remote : N)
| RemoveRemote (remote : N)
| RemoveLane (lane : N)
| RemoveAll
| CountSingle (lane : N)
| CountBroadcast (lane : N)
| CountCommands (rep : nat) (n : N)               (* reporter.count_commands(n) on reporter #rep *)
| Snapshot (rep : nat)                            (* reader.snapshot() of reporter #rep *)
| LinkedFrom (lane : N) | LinkedTo (remote : N) | IsLinked (remote lane : N).

Inductive out :=
| OUnit
| OReg (rep : option nat)                         (* index of the reporter created, if any *)
| OTrigger (remote : N) (prune : bool)
| OTriggers (ts : list (N * bool))                (* sorted by remote *)
| OPairs (ps : list (N * N))                      (* sorted (lane, remote) *)
| OSnap (s : option (N * N * N))
| OSet (s : option (list N))
| OBool (b : bool).

(* the backwards-side bookkeeping shared by remove and remove_lane *)
Definition bwd_drop (b : list (N * list N)) (remote lane : N) : list (N * list N) * bool :=
  match alookup remote b with
  | Some ls =>
      let ls' := set_remove lane ls in
      match ls' with
      | [] => (aremove remote b, true)
      | _ => (aset remote ls' b, false)
      end
  | None => (b, false)
  end.

Fixpoint remove_lane_loop (b : list (N * list N)) (lane : N) (rs : list N)
  : list (N * list N) * list (N * bool) :=
  match rs with
  | [] => (b, [])
  | r :: t =>
      let (b1, prune) := bwd_drop b r lane in
      let (b2, outs) := remove_lane_loop b1 lane t in
      (b2, (r, prune) :: outs)
  end.

(* LaneLinks::remove applied to one entry: (new entry, new total) *)
Definition ll_remove (ll : lanelinks) (remote : N) (tot : N) : lanelinks * N :=
  if set_mem remote (ll_remotes ll) then
    let rs := set_remove remote (ll_remotes ll) in
    ({| ll_remotes := rs; ll_reporter := ll_report (set_uplinks (len rs)) ll |}, N.pred tot)
  else (ll, tot).

(* one pass of remove_remote over the lanes of the removed remote *)
Fixpoint remove_remote_loop (f : list (N * lanelinks)) (tot : N)
         (remote : N) (lanes : list N) : list (N * lanelinks) * N :=
  match lanes with
  | [] => (f, tot)
  | lane :: t =>
      match alookup lane f with
      | Some ll =>
          let (ll', tot1) := ll_remove ll remote tot in
          (* the entry of an emptied lane is dropped only if it carries no reporter *)
          let f1 := match ll_remotes ll', ll_reporter ll' with
                    | [], None => aremove lane f
                    | _, _ => aset lane ll' f
                    end in
          remove_remote_loop f1 tot1 remote t
      | None => remove_remote_loop f tot remote t
      end
  end.

Fixpoint take_all (f : list (N * lanelinks)) : list (N * lanelinks) * list (N * N) :=
  match f with
  | [] => ([], [])
  | (lane, ll) :: t =>
      let (t', ps) := take_all t in
      ((lane, {| ll_remotes := []; ll_reporter := ll_report (set_uplinks 0) ll |}) :: t',
       map (fun r => (lane, r)) (ll_remotes ll) ++ ps)
  end.

Fixpoint insert_pair (p : N * N) (l : list (N * N)) : list (N * N) :=
  match l with
  | [] => [p]
  | q :: t =>
      if (fst p <? fst q) || ((fst p =? fst q) && (snd p <? snd q)) then p :: l
      else q :: insert_pair p t
  end.
Definition sort_pairs (l : list (N * N)) : list (N * N) := fold_right insert_pair [] l.

(* apply f to the cell of reporter #rep wherever it lives *)
Fixpoint fwd_upd_rep (rep : nat) (g : cell -> cell) (f : list (N * lanelinks)) : list (N * lanelinks) :=
  match f with
  | [] => []
  | (lane, ll) :: t =>
      match ll_reporter ll with
      | Some (k, c) =>
          if Nat.eqb k rep then (lane, {| ll_remotes := ll_remotes ll; ll_reporter := Some (k, g c) |}) :: t
          else (lane, ll) :: fwd_upd_rep rep g t
      | None => (lane, ll) :: fwd_upd_rep rep g t
      end
  end.

Fixpoint fwd_find_rep (rep : nat) (f : list (N * lanelinks)) : option cell :=
  match f with
  | [] => None
  | (lane, ll) :: t =>
      match ll_reporter ll with
      | Some (k, c) => if Nat.eqb k rep then Some c else fwd_find_rep rep t
      | None => fwd_find_rep rep t
      end
  end.

Definition with_fwd_agg (l : links) f a : links :=
  {| forward := f; backwards := backwards l; total := total l; agg := a; next_rep := next_rep l |}.

Definition step (l : links) (o : op) : links * out :=
  match o with
  | RegisterLane lane with_reporter =>
      if with_reporter then
        let k := next_rep l in
        let ll := fwd_get l lane in
        ({| forward := aset lane {| ll_remotes := ll_remotes ll; ll_reporter := Some (k, cell0) |} (forward l);
            backwards := backwards l; total := total l; agg := agg l; next_rep := S k |},
         OReg (Some k))
      else (l, OReg None)
  | Insert lane remote =>
      let ll := fwd_get l lane in
      let fresh := negb (set_mem remote (ll_remotes ll)) in
      let rs := set_insert remote (ll_remotes ll) in
      let rep := if fresh then ll_report (set_uplinks (len rs)) ll else ll_reporter ll in
      let tot := if fresh then total l + 1 else total l in
      let ls := match alookup remote (backwards l) with Some x => x | None => [] end in
      ({| forward := aset lane {| ll_remotes := rs; ll_reporter := rep |} (forward l);
          backwards := aset remote (set_insert lane ls) (backwards l);
          total := tot; agg := agg_report (set_uplinks tot) (agg l); next_rep := next_rep l |}, OUnit)
  | Remove lane remote =>
      let '(f1, a1, tot) :=
        match alookup lane (forward l) with
        | Some ll =>
            let (ll', tot) := ll_remove ll remote (total l) in
            (aset lane ll' (forward l), agg_report (set_uplinks tot) (agg l), tot)
        | None => (forward l, agg l, total l)
        end in
      let (b1, prune) := bwd_drop (backwards l) remote lane in
      ({| forward := f1; backwards := b1; total := tot; agg := a1; next_rep := next_rep l |},
       OTrigger remote prune)
  | RemoveRemote remote =>
      let lanes := match alookup remote (backwards l) with Some x => x | None => [] end in
      let (f1, tot) := remove_remote_loop (forward l) (total l) remote lanes in
      ({| forward := f1; backwards := aremove remote (backwards l); total := tot;
          agg := agg_report (set_uplinks tot) (agg l); next_rep := next_rep l |}, OUnit)
  | RemoveLane lane =>
      match alookup lane (forward l) with
      | Some ll =>
          let tot := total l - len (ll_remotes ll) in
          (* the LaneLinks value (and its reporter) is dropped with the entry *)
          let (b1, outs) := remove_lane_loop (backwards l) lane (ll_remotes ll) in
          ({| forward := aremove lane (forward l); backwards := b1; total := tot;
              agg := agg_report (set_uplinks tot) (agg l); next_rep := next_rep l |}, OTriggers outs)
      | None => (l, OTriggers [])
      end
  | RemoveAll =>
      let (f1, ps) := take_all (forward l) in
      ({| forward := f1; backwards := []; total := total l - len (map fst ps);
          agg := agg_report (set_uplinks 0) (agg l); next_rep := next_rep l |}, OPairs (sort_pairs ps))
  | CountSingle lane =>
      match agg l, alookup lane (forward l) with
      | Some a, Some ll =>
          (with_fwd_agg l
             (aset lane {| ll_remotes := ll_remotes ll; ll_reporter := ll_report (add_events 1) ll |} (forward l))
             (Some (add_events 1 a)), OUnit)
      | _, _ => (l, OUnit)
      end
  | CountBroadcast lane =>
      match agg l, alookup lane (forward l) with
      | Some a, Some ll =>
          let n := len (ll_remotes ll) in
          (with_fwd_agg l
             (aset lane {| ll_remotes := ll_remotes ll; ll_reporter := ll_report (add_events n) ll |} (forward l))
             (Some (add_events n a)), OUnit)
      | _, _ => (l, OUnit)
      end
  | CountCommands rep n =>
      match rep, agg l with
      | O, Some a => (with_fwd_agg l (forward l) (Some (add_commands n a)), OUnit)
      | _, _ => (with_fwd_agg l (fwd_upd_rep rep (add_commands n) (forward l)) (agg l), OUnit)
      end
  | Snapshot rep =>
      match rep, agg l with
      | O, Some a =>
          (with_fwd_agg l (forward l) (Some (take_counts a)),
           OSnap (Some (c_links a, c_events a, c_commands a)))
      | _, _ =>
          match fwd_find_rep rep (forward l) with
          | Some c =>
              (with_fwd_agg l (fwd_upd_rep rep take_counts (forward l)) (agg l),
               OSnap (Some (c_links c, c_events c, c_commands c)))
          | None => (l, OSnap None)
          end
      end
  | LinkedFrom lane =>
      (l, OSet match alookup lane (forward l) with
               | Some ll => match ll_remotes ll with [] => None | rs => Some rs end
               | None => None
               end)
  | LinkedTo remote => (l, OSet (alookup remote (backwards l)))
  | IsLinked remote lane =>
      (l, OBool match alookup lane (forward l) with
                | Some ll => set_mem remote (ll_remotes ll)
                | None => false
                end)
  end.

Fixpoint run (l : links) (ops : list op) : list out :=
  match ops with
  | [] => []
  | o :: rest => let (l', r) := step l o in r :: run l' rest
  end.

Fixpoint run_state (l : links) (ops : list op) : links :=
  match ops with
  | [] => l
  | o :: rest => run_state (fst (step l o)) rest
  end.

(* ------------------------------------------------------------------------------------------ *)
(* equality on outputs *)
Fixpoint list_eqb {A} (eqb : A -> A -> bool) (a b : list A) : bool :=
  match a, b with
  | [], [] => true
  | x :: a', y :: b' => eqb x y && list_eqb eqb a' b'
  | _, _ => false
  end.

Definition opt_eqb {A} (eqb : A -> A -> bool) (a b : option A) : bool :=
  match a, b with
  | None, None => true
  | Some x, Some y => eqb x y
  | _, _ => false
  end.

Definition out_eqb (a b : out) : bool :=
  match a, b with
  | OUnit, OUnit => true
  | OReg x, OReg y => opt_eqb Nat.eqb x y
  | OTrigger r p, OTrigger r' p' => (r =? r') && Bool.eqb p p'
  | OTriggers x, OTriggers y =>
      list_eqb (fun a b => (fst a =? fst b) && Bool.eqb (snd a) (snd b)) x y
  | OPairs x, OPairs y => list_eqb (fun a b => (fst a =? fst b) && (snd a =? snd b)) x y
  | OSnap x, OSnap y =>
      opt_eqb (fun a b => match a, b with (a1, a2, a3), (b1, b2, b3) =>
                            (a1 =? b1) && (a2 =? b2) && (a3 =? b3) end) x y
  | OSet x, OSet y => opt_eqb (list_eqb N.eqb) x y
  | OBool x, OBool y => Bool.eqb x y
  | _, _ => false
  end.

(* ------------------------------------------------------------------------------------------ *)
(* Property oracle on an implementation trace: a reference relation of (lane, remote) pairs and
   per-reporter expected event totals, independent of [step]. *)

Record oref := {
  o_rel : list (N * N);                 (* the links that exist *)
  o_lane_rep : list (N * nat);          (* live lane -> its reporter index *)
  o_agg : bool;
  o_next_rep : nat;
  o_known : list N;                     (* lanes with a forward entry (registered or ever linked) *)
  o_owed_events : list (nat * N);       (* reporter -> events counted since its last snapshot *)
  o_owed_cmds : list (nat * N)
}.

Definition oref_init (with_agg : bool) : oref :=
  {| o_rel := []; o_lane_rep := []; o_agg := with_agg; o_next_rep := if with_agg then 1%nat else 0%nat;
     o_known := []; o_owed_events := []; o_owed_cmds := [] |}.

Definition pair_eqb (a b : N * N) : bool := (fst a =? fst b) && (snd a =? snd b).
Definition rel_mem (p : N * N) (r : list (N * N)) : bool := existsb (pair_eqb p) r.
Definition rel_remove (p : N * N) (r : list (N * N)) : list (N * N) :=
  filter (fun q => negb (pair_eqb p q)) r.
Definition count_lane (lane : N) (r : list (N * N)) : N :=
  len (map snd (filter (fun q => fst q =? lane) r)).
Definition lanes_of (remote : N) (r : list (N * N)) : list N :=
  fold_right set_insert [] (map fst (filter (fun q => snd q =? remote) r)).
Definition remotes_of (lane : N) (r : list (N * N)) : list N :=
  fold_right set_insert [] (map snd (filter (fun q => fst q =? lane) r)).

Fixpoint nlookup {A} (k : nat) (m : list (nat * A)) : option A :=
  match m with
  | [] => None
  | (k', v) :: t => if Nat.eqb k k' then Some v else nlookup k t
  end.
Fixpoint nset {A} (k : nat) (v : A) (m : list (nat * A)) : list (nat * A) :=
  match m with
  | [] => [(k, v)]
  | (k', v') :: t => if Nat.eqb k k' then (k, v) :: t else (k', v') :: nset k v t
  end.
Definition owed (k : nat) (m : list (nat * N)) : N := match nlookup k m with Some v => v | None => 0 end.
Fixpoint nrev_lookup (k : nat) (m : list (N * nat)) : option N :=
  match m with
  | [] => None
  | (lane, k') :: t => if Nat.eqb k k' then Some lane else nrev_lookup k t
  end.

Definition oref_with (r : oref) rel lane_rep next known ev cm : oref :=
  {| o_rel := rel; o_lane_rep := lane_rep; o_agg := o_agg r; o_next_rep := next;
     o_known := known; o_owed_events := ev; o_owed_cmds := cm |}.

Definition bump (k : option nat) (n : N) (m : list (nat * N)) : list (nat * N) :=
  match k with Some k => nset k (sat_add (owed k m) n) m | None => m end.

Definition oref_step (r : oref) (o : op) (x : out) : option oref :=
  match o, x with
  | RegisterLane lane true, OReg (Some k) =>
      if Nat.eqb k (o_next_rep r) then
        Some (oref_with r (o_rel r) (aset lane k (o_lane_rep r)) (S (o_next_rep r))
                        (set_insert lane (o_known r)) (o_owed_events r) (o_owed_cmds r))
      else None
  | RegisterLane lane false, OReg None => Some r
  | Insert lane remote, OUnit =>
      Some (oref_with r (if rel_mem (lane, remote) (o_rel r) then o_rel r else (lane, remote) :: o_rel r)
                      (o_lane_rep r) (o_next_rep r) (set_insert lane (o_known r))
                      (o_owed_events r) (o_owed_cmds r))
  | Remove lane remote, OTrigger rm prune =>
      let rel' := rel_remove (lane, remote) (o_rel r) in
      let had := negb (Nat.eqb (length (lanes_of remote (o_rel r))) 0) in
      if (rm =? remote) && Bool.eqb prune (had && Nat.eqb (length (lanes_of remote rel')) 0)
      then Some (oref_with r rel' (o_lane_rep r) (o_next_rep r) (o_known r)
                           (o_owed_events r) (o_owed_cmds r))
      else None
  | RemoveRemote remote, OUnit =>
      Some (oref_with r (filter (fun q => negb (snd q =? remote)) (o_rel r)) (o_lane_rep r)
                      (o_next_rep r) (o_known r) (o_owed_events r) (o_owed_cmds r))
  | RemoveLane lane, OTriggers ts =>
      let rel' := filter (fun q => negb (fst q =? lane)) (o_rel r) in
      let expect := map (fun rm => (rm, Nat.eqb (length (lanes_of rm rel')) 0)) (remotes_of lane (o_rel r)) in
      if list_eqb (fun a b => (fst a =? fst b) && Bool.eqb (snd a) (snd b)) ts expect
      then Some (oref_with r rel' (aremove lane (o_lane_rep r)) (o_next_rep r)
                           (set_remove lane (o_known r)) (o_owed_events r) (o_owed_cmds r))
      else None
  | RemoveAll, OPairs ps =>
      if list_eqb pair_eqb ps (sort_pairs (o_rel r))
      then Some (oref_with r [] (o_lane_rep r) (o_next_rep r) (o_known r)
                           (o_owed_events r) (o_owed_cmds r))
      else None
  | CountSingle lane, OUnit =>
      (* one event sent to one link of this lane: counted for the lane and for the agent *)
      if o_agg r then
        match alookup lane (o_lane_rep r) with
        | Some k =>
            Some (oref_with r (o_rel r) (o_lane_rep r) (o_next_rep r) (o_known r)
                            (bump (Some O) 1 (bump (Some k) 1 (o_owed_events r))) (o_owed_cmds r))
        | None => None      (* the harness only counts on live, registered lanes *)
        end
      else Some r
  | CountBroadcast lane, OUnit =>
      if o_agg r then
        match alookup lane (o_lane_rep r) with
        | Some k =>
            let n := count_lane lane (o_rel r) in
            Some (oref_with r (o_rel r) (o_lane_rep r) (o_next_rep r) (o_known r)
                            (bump (Some O) n (bump (Some k) n (o_owed_events r))) (o_owed_cmds r))
        | None => None
        end
      else Some r
  | CountCommands rep n, OUnit =>
      Some (oref_with r (o_rel r) (o_lane_rep r) (o_next_rep r) (o_known r) (o_owed_events r)
                      (bump (Some rep) n (o_owed_cmds r)))
  | Snapshot rep, OSnap s =>
      let is_agg := o_agg r && Nat.eqb rep 0 in
      match nrev_lookup rep (o_lane_rep r), is_agg, s with
      | Some lane, _, Some (lc, ec, cc) =>
          (* a live lane's reader reports exactly the number of remotes linked to it *)
          if (lc =? count_lane lane (o_rel r)) && (ec =? owed rep (o_owed_events r))
             && (cc =? owed rep (o_owed_cmds r))
          then Some (oref_with r (o_rel r) (o_lane_rep r) (o_next_rep r) (o_known r)
                               (nset rep 0 (o_owed_events r)) (nset rep 0 (o_owed_cmds r)))
          else None
      | Some lane, _, None => None        (* the lane still exists: its statistics must too *)
      | None, true, Some (lc, ec, cc) =>
          if (lc =? len (map fst (o_rel r))) && (ec =? owed rep (o_owed_events r))
             && (cc =? owed rep (o_owed_cmds r))
          then Some (oref_with r (o_rel r) (o_lane_rep r) (o_next_rep r) (o_known r)
                               (nset rep 0 (o_owed_events r)) (nset rep 0 (o_owed_cmds r)))
          else None
      | None, true, None => None
      | None, false, _ => Some r          (* reader of a removed lane / replaced reporter *)
      end
  | LinkedFrom lane, OSet s =>
      let e := remotes_of lane (o_rel r) in
      if opt_eqb (list_eqb N.eqb) s (match e with [] => None | _ => Some e end) then Some r else None
  | LinkedTo remote, OSet s =>
      let e := lanes_of remote (o_rel r) in
      if opt_eqb (list_eqb N.eqb) s (match e with [] => None | _ => Some e end) then Some r else None
  | IsLinked remote lane, OBool b =>
      if Bool.eqb b (rel_mem (lane, remote) (o_rel r)) then Some r else None
  | _, _ => None
  end.

Fixpoint oref_ok (r : oref) (ops : list op) (xs : list out) : bool :=
  match ops, xs with
  | [], [] => true
  | o :: ops', x :: xs' =>
      match oref_step r o x with
      | Some r' => oref_ok r' ops' xs'
      | None => false
      end
  | _, _ => false
  end.

Definition case := (bool * list op * list out)%type.

Definition corr_bad (cs : list (N * case)) : list N :=
  map fst (filter (fun c => match snd c with (a, ops, xs) =>
                     negb (list_eqb out_eqb (run (init a) ops) xs) end) cs).

Definition oracle_bad (cs : list (N * case)) : list N :=
  map fst (filter (fun c => match snd c with (a, ops, xs) =>
                     negb (oref_ok (oref_init a) ops xs) end) cs).
