(* Model of runtime/swimos_runtime/src/agent/task/links.rs (Links, LaneLinks) together with the
   reporter cells of agent/reporting/mod.rs (UplinkReporter / UplinkReportReader, sequential part).
   HashMap / HashSet become association lists / sorted duplicate-free lists (iteration order is
   canonicalised on both sides of the correspondence).  u64 arithmetic: [checked_add].expect
   cannot be reached below 2^64 links and is not modelled; saturation of the event counters is. *)
From Coq Require Export List Bool Arith NArith Lia.
Export ListNotations.
Open Scope N_scope.

(* ---- sorted duplicate-free sets of N ---- *)
Fixpoint set_insert (x : N) (s : list N) : list N :=
  match s with
  | [] => [x]
  | y :: t => if x <? y then x :: s else if x =? y then s else y :: set_insert x t
  end.

Fixpoint set_remove (x : N) (s : list N) : list N :=
  match s with
  | [] => []
  | y :: t => if x =? y then t else y :: set_remove x t
  end.

Fixpoint set_mem (x : N) (s : list N) : bool :=
  match s with
  | [] => false
  | y :: t => (x =? y) || set_mem x t
  end.

Definition len (s : list N) : N := N.of_nat (length s).

(* ---- association lists keyed by N ---- *)
Fixpoint alookup {A} (k : N) (m : list (N * A)) : option A :=
  match m with
  | [] => None
  | (k', v) :: t => if k =? k' then Some v else alookup k t
  end.

Fixpoint aset {A} (k : N) (v : A) (m : list (N * A)) : list (N * A) :=
  match m with
  | [] => [(k, v)]
  | (k', v') :: t => if k =? k' then (k, v) :: t else (k', v') :: aset k v t
  end.

Fixpoint aremove {A} (k : N) (m : list (N * A)) : list (N * A) :=
  match m with
  | [] => []
  | (k', v') :: t => if k =? k' then t else (k', v') :: aremove k t
  end.

(* ---- reporter cells ---- *)
Record cell := { c_links : N; c_events : N; c_commands : N; c_alive : bool }.

Definition U64MAX : N := 18446744073709551615.
Definition sat_add (a b : N) : N := N.min (a + b) U64MAX.

Definition cell0 : cell := {| c_links := 0; c_events := 0; c_commands := 0; c_alive := true |}.

Fixpoint upd_nth {A} (i : nat) (f : A -> A) (l : list A) : list A :=
  match l, i with
  | [], _ => []
  | x :: t, O => f x :: t
  | x :: t, S j => x :: upd_nth j f t
  end.

Definition set_uplinks (n : N) (c : cell) : cell :=
  {| c_links := n; c_events := c_events c; c_commands := c_commands c; c_alive := c_alive c |}.
Definition add_events (n : N) (c : cell) : cell :=
  {| c_links := c_links c; c_events := sat_add (c_events c) n; c_commands := c_commands c;
     c_alive := c_alive c |}.
Definition add_commands (n : N) (c : cell) : cell :=
  {| c_links := c_links c; c_events := c_events c; c_commands := sat_add (c_commands c) n;
     c_alive := c_alive c |}.
Definition take_counts (c : cell) : cell :=
  {| c_links := c_links c; c_events := 0; c_commands := 0; c_alive := c_alive c |}.
Definition kill (c : cell) : cell :=
  {| c_links := c_links c; c_events := c_events c; c_commands := c_commands c; c_alive := false |}.

Record lanelinks := { ll_remotes : list N; ll_reporter : option nat }.
Definition ll_default : lanelinks := {| ll_remotes := []; ll_reporter := None |}.

Record links := {
  forward : list (N * lanelinks);
  backwards : list (N * list N);
  total : N;
  agg : option nat;
  cells : list cell
}.

(* Links::new(aggregate_reporter): cell 0 is the aggregate reporter when present *)
Definition init (with_agg : bool) : links :=
  {| forward := []; backwards := []; total := 0;
     agg := if with_agg then Some O else None;
     cells := if with_agg then [cell0] else [] |}.

Definition with_cells (l : links) (cs : list cell) : links :=
  {| forward := forward l; backwards := backwards l; total := total l; agg := agg l; cells := cs |}.

Definition report (r : option nat) (f : cell -> cell) (cs : list cell) : list cell :=
  match r with Some k => upd_nth k f cs | None => cs end.

Definition fwd_get (l : links) (lane : N) : lanelinks :=
  match alookup lane (forward l) with Some x => x | None => ll_default end.

Inductive op :=
| RegisterLane (lane : N) (with_reporter : bool)   (* register_lane: fresh lane id *)
| Insert (lane remote : N)
| Remove (lane remote : N)
| RemoveRemote (remote : N)
| RemoveLane (lane : N)
| RemoveAll
| CountSingle (lane : N)
| CountBroadcast (lane : N)
| CountCommands (rep : nat) (n : N)               (* reporter.count_commands(n) on reporter #rep *)
| Snapshot (rep : nat)                            (* reader.snapshot() of reporter #rep *)
| LinkedFrom (lane : N) | LinkedTo (remote : N) | IsLinked (remote lane : N).

Inductive out :=
| OUnit
| OReg (rep : option nat)                         (* index of the reporter created, if any *)
| OTrigger (remote : N) (prune : bool)
| OTriggers (ts : list (N * bool))                (* sorted by remote *)
| OPairs (ps : list (N * N))                      (* sorted (lane, remote) *)
| OSnap (s : option (N * N * N))
| OSet (s : option (list N))
| OBool (b : bool).

(* the backwards-side bookkeeping shared by remove and remove_lane *)
Definition bwd_drop (b : list (N * list N)) (remote lane : N) : list (N * list N) * bool :=
  match alookup remote b with
  | Some ls =>
      let ls' := set_remove lane ls in
      match ls' with
      | [] => (aremove remote b, true)
      | _ => (aset remote ls' b, false)
      end
  | None => (b, false)
  end.

Fixpoint remove_lane_loop (b : list (N * list N)) (lane : N) (rs : list N)
  : list (N * list N) * list (N * bool) :=
  match rs with
  | [] => (b, [])
  | r :: t =>
      let (b1, prune) := bwd_drop b r lane in
      let (b2, outs) := remove_lane_loop b1 lane t in
      (b2, (r, prune) :: outs)
  end.

(* one pass of remove_remote over the lanes of the removed remote *)
Fixpoint remove_remote_loop (f : list (N * lanelinks)) (cs : list cell) (tot : N)
         (remote : N) (lanes : list N) : list (N * lanelinks) * list cell * N :=
  match lanes with
  | [] => (f, cs, tot)
  | lane :: t =>
      match alookup lane f with
      | Some ll =>
          if set_mem remote (ll_remotes ll) then
            let rs := set_remove remote (ll_remotes ll) in
            let cs1 := report (ll_reporter ll) (set_uplinks (len rs)) cs in
            let tot1 := N.pred tot in
            let ll' := {| ll_remotes := rs; ll_reporter := ll_reporter ll |} in
            (* the entry of an emptied lane is dropped only if it carries no reporter *)
            let f1 := match rs, ll_reporter ll with
                      | [], None => aremove lane f
                      | _, _ => aset lane ll' f
                      end in
            remove_remote_loop f1 cs1 tot1 remote t
          else remove_remote_loop f cs tot remote t
      | None => remove_remote_loop f cs tot remote t
      end
  end.

Fixpoint take_all (f : list (N * lanelinks)) (cs : list cell)
  : list (N * lanelinks) * list cell * list (N * N) :=
  match f with
  | [] => ([], cs, [])
  | (lane, ll) :: t =>
      let cs1 := report (ll_reporter ll) (set_uplinks 0) cs in
      let '(t', cs2, ps) := take_all t cs1 in
      ((lane, {| ll_remotes := []; ll_reporter := ll_reporter ll |}) :: t', cs2,
       map (fun r => (lane, r)) (ll_remotes ll) ++ ps)
  end.

Fixpoint insert_pair (p : N * N) (l : list (N * N)) : list (N * N) :=
  match l with
  | [] => [p]
  | q :: t =>
      if (fst p <? fst q) || ((fst p =? fst q) && (snd p <? snd q)) then p :: l
      else q :: insert_pair p t
  end.
Definition sort_pairs (l : list (N * N)) : list (N * N) := fold_right insert_pair [] l.

Definition step (l : links) (o : op) : links * out :=
  match o with
  | RegisterLane lane with_reporter =>
      if with_reporter then
        let k := length (cells l) in
        let ll := fwd_get l lane in
        (* replacing a reporter drops the old one *)
        let cs0 := report (ll_reporter ll) kill (cells l) in
        ({| forward := aset lane {| ll_remotes := ll_remotes ll; ll_reporter := Some k |} (forward l);
            backwards := backwards l; total := total l; agg := agg l;
            cells := cs0 ++ [cell0] |}, OReg (Some k))
      else (l, OReg None)
  | Insert lane remote =>
      let ll := fwd_get l lane in
      let fresh := negb (set_mem remote (ll_remotes ll)) in
      let rs := set_insert remote (ll_remotes ll) in
      let cs1 := if fresh then report (ll_reporter ll) (set_uplinks (len rs)) (cells l) else cells l in
      let tot := if fresh then total l + 1 else total l in
      let cs2 := report (agg l) (set_uplinks tot) cs1 in
      let ls := match alookup remote (backwards l) with Some x => x | None => [] end in
      ({| forward := aset lane {| ll_remotes := rs; ll_reporter := ll_reporter ll |} (forward l);
          backwards := aset remote (set_insert lane ls) (backwards l);
          total := tot; agg := agg l; cells := cs2 |}, OUnit)
  | Remove lane remote =>
      let '(f1, cs1, tot) :=
        match alookup lane (forward l) with
        | Some ll =>
            let present := set_mem remote (ll_remotes ll) in
            let rs := set_remove remote (ll_remotes ll) in
            let cs1 := if present then report (ll_reporter ll) (set_uplinks (len rs)) (cells l)
                       else cells l in
            let tot := if present then N.pred (total l) else total l in
            (aset lane {| ll_remotes := rs; ll_reporter := ll_reporter ll |} (forward l),
             report (agg l) (set_uplinks tot) cs1, tot)
        | None => (forward l, cells l, total l)
        end in
      let (b1, prune) := bwd_drop (backwards l) remote lane in
      ({| forward := f1; backwards := b1; total := tot; agg := agg l; cells := cs1 |},
       OTrigger remote prune)
  | RemoveRemote remote =>
      let lanes := match alookup remote (backwards l) with Some x => x | None => [] end in
      let '(f1, cs1, tot) := remove_remote_loop (forward l) (cells l) (total l) remote lanes in
      ({| forward := f1; backwards := aremove remote (backwards l); total := tot; agg := agg l;
          cells := report (agg l) (set_uplinks tot) cs1 |}, OUnit)
  | RemoveLane lane =>
      match alookup lane (forward l) with
      | Some ll =>
          let tot := total l - len (ll_remotes ll) in
          let cs1 := report (ll_reporter ll) (set_uplinks 0) (cells l) in
          let cs2 := report (agg l) (set_uplinks tot) cs1 in
          (* the LaneLinks value (and its reporter) is dropped *)
          let cs3 := report (ll_reporter ll) kill cs2 in
          let (b1, outs) := remove_lane_loop (backwards l) lane (ll_remotes ll) in
          ({| forward := aremove lane (forward l); backwards := b1; total := tot; agg := agg l;
              cells := cs3 |}, OTriggers outs)
      | None => (l, OTriggers [])
      end
  | RemoveAll =>
      let cs0 := report (agg l) (set_uplinks 0) (cells l) in
      let '(f1, cs1, ps) := take_all (forward l) cs0 in
      ({| forward := f1; backwards := []; total := total l - len (map fst ps); agg := agg l;
          cells := cs1 |}, OPairs (sort_pairs ps))
  | CountSingle lane =>
      match agg l, alookup lane (forward l) with
      | Some a, Some ll =>
          (with_cells l (upd_nth a (add_events 1) (report (ll_reporter ll) (add_events 1) (cells l))),
           OUnit)
      | _, _ => (l, OUnit)
      end
  | CountBroadcast lane =>
      match agg l, alookup lane (forward l) with
      | Some a, Some ll =>
          let n := len (ll_remotes ll) in
          (with_cells l (upd_nth a (add_events n) (report (ll_reporter ll) (add_events n) (cells l))),
           OUnit)
      | _, _ => (l, OUnit)
      end
  | CountCommands rep n => (with_cells l (upd_nth rep (add_commands n) (cells l)), OUnit)
  | Snapshot rep =>
      match nth_error (cells l) rep with
      | Some c =>
          if c_alive c then
            (with_cells l (upd_nth rep take_counts (cells l)),
             OSnap (Some (c_links c, c_events c, c_commands c)))
          else (l, OSnap None)
      | None => (l, OSnap None)
      end
  | LinkedFrom lane =>
      (l, OSet match alookup lane (forward l) with
               | Some ll => match ll_remotes ll with [] => None | rs => Some rs end
               | None => None
               end)
  | LinkedTo remote => (l, OSet (alookup remote (backwards l)))
  | IsLinked remote lane =>
      (l, OBool match alookup lane (forward l) with
                | Some ll => set_mem remote (ll_remotes ll)
                | None => false
                end)
  end.

Fixpoint run (l : links) (ops : list op) : list out :=
  match ops with
  | [] => []
  | o :: rest => let (l', r) := step l o in r :: run l' rest
  end.

Fixpoint run_state (l : links) (ops : list op) : links :=
  match ops with
  | [] => l
  | o :: rest => run_state (fst (step l o)) rest
  end.

(* ------------------------------------------------------------------------------------------ *)
(* equality on outputs *)
Fixpoint list_eqb {A} (eqb : A -> A -> bool) (a b : list A) : bool :=
  match a, b with
  | [], [] => true
  | x :: a', y :: b' => eqb x y && list_eqb eqb a' b'
  | _, _ => false
  end.

Definition opt_eqb {A} (eqb : A -> A -> bool) (a b : option A) : bool :=
  match a, b with
  | None, None => true
  | Some x, Some y => eqb x y
  | _, _ => false
  end.

Definition out_eqb (a b : out) : bool :=
  match a, b with
  | OUnit, OUnit => true
  | OReg x, OReg y => opt_eqb Nat.eqb x y
  | OTrigger r p, OTrigger r' p' => (r =? r') && Bool.eqb p p'
  | OTriggers x, OTriggers y =>
      list_eqb (fun a b => (fst a =? fst b) && Bool.eqb (snd a) (snd b)) x y
  | OPairs x, OPairs y => list_eqb (fun a b => (fst a =? fst b) && (snd a =? snd b)) x y
  | OSnap x, OSnap y =>
      opt_eqb (fun a b => match a, b with (a1, a2, a3), (b1, b2, b3) =>
                            (a1 =? b1) && (a2 =? b2) && (a3 =? b3) end) x y
  | OSet x, OSet y => opt_eqb (list_eqb N.eqb) x y
  | OBool x, OBool y => Bool.eqb x y
  | _, _ => false
  end.

(* ------------------------------------------------------------------------------------------ *)
(* Property oracle on an implementation trace: a reference relation of (lane, remote) pairs and
   per-reporter expected event totals, independent of [step]. *)

Record oref := {
  o_rel : list (N * N);                 (* the links that exist *)
  o_lane_rep : list (N * nat);          (* live lane -> its reporter index *)
  o_agg : bool;
  o_next_rep : nat;
  o_known : list N;                     (* lanes with a forward entry (registered or ever linked) *)
  o_owed_events : list (nat * N);       (* reporter -> events counted since its last snapshot *)
  o_owed_cmds : list (nat * N)
}.

Definition oref_init (with_agg : bool) : oref :=
  {| o_rel := []; o_lane_rep := []; o_agg := with_agg; o_next_rep := if with_agg then 1%nat else 0%nat;
     o_known := []; o_owed_events := []; o_owed_cmds := [] |}.

Definition pair_eqb (a b : N * N) : bool := (fst a =? fst b) && (snd a =? snd b).
Definition rel_mem (p : N * N) (r : list (N * N)) : bool := existsb (pair_eqb p) r.
Definition rel_remove (p : N * N) (r : list (N * N)) : list (N * N) :=
  filter (fun q => negb (pair_eqb p q)) r.
Definition count_lane (lane : N) (r : list (N * N)) : N :=
  len (map snd (filter (fun q => fst q =? lane) r)).
Definition lanes_of (remote : N) (r : list (N * N)) : list N :=
  fold_right set_insert [] (map fst (filter (fun q => snd q =? remote) r)).
Definition remotes_of (lane : N) (r : list (N * N)) : list N :=
  fold_right set_insert [] (map snd (filter (fun q => fst q =? lane) r)).

Fixpoint nlookup {A} (k : nat) (m : list (nat * A)) : option A :=
  match m with
  | [] => None
  | (k', v) :: t => if Nat.eqb k k' then Some v else nlookup k t
  end.
Fixpoint nset {A} (k : nat) (v : A) (m : list (nat * A)) : list (nat * A) :=
  match m with
  | [] => [(k, v)]
  | (k', v') :: t => if Nat.eqb k k' then (k, v) :: t else (k', v') :: nset k v t
  end.
Definition owed (k : nat) (m : list (nat * N)) : N := match nlookup k m with Some v => v | None => 0 end.
Fixpoint nrev_lookup (k : nat) (m : list (N * nat)) : option N :=
  match m with
  | [] => None
  | (lane, k') :: t => if Nat.eqb k k' then Some lane else nrev_lookup k t
  end.

Definition oref_with (r : oref) rel lane_rep next known ev cm : oref :=
  {| o_rel := rel; o_lane_rep := lane_rep; o_agg := o_agg r; o_next_rep := next;
     o_known := known; o_owed_events := ev; o_owed_cmds := cm |}.

Definition bump (k : option nat) (n : N) (m : list (nat * N)) : list (nat * N) :=
  match k with Some k => nset k (sat_add (owed k m) n) m | None => m end.

Definition oref_step (r : oref) (o : op) (x : out) : option oref :=
  match o, x with
  | RegisterLane lane true, OReg (Some k) =>
      if Nat.eqb k (o_next_rep r) then
        Some (oref_with r (o_rel r) (aset lane k (o_lane_rep r)) (S (o_next_rep r))
                        (set_insert lane (o_known r)) (o_owed_events r) (o_owed_cmds r))
      else None
  | RegisterLane lane false, OReg None => Some r
  | Insert lane remote, OUnit =>
      Some (oref_with r (if rel_mem (lane, remote) (o_rel r) then o_rel r else (lane, remote) :: o_rel r)
                      (o_lane_rep r) (o_next_rep r) (set_insert lane (o_known r))
                      (o_owed_events r) (o_owed_cmds r))
  | Remove lane remote, OTrigger rm prune =>
      let rel' := rel_remove (lane, remote) (o_rel r) in
      let had := negb (Nat.eqb (length (lanes_of remote (o_rel r))) 0) in
      if (rm =? remote) && Bool.eqb prune (had && Nat.eqb (length (lanes_of remote rel')) 0)
      then Some (oref_with r rel' (o_lane_rep r) (o_next_rep r) (o_known r)
                           (o_owed_events r) (o_owed_cmds r))
      else None
  | RemoveRemote remote, OUnit =>
      Some (oref_with r (filter (fun q => negb (snd q =? remote)) (o_rel r)) (o_lane_rep r)
                      (o_next_rep r) (o_known r) (o_owed_events r) (o_owed_cmds r))
  | RemoveLane lane, OTriggers ts =>
      let rel' := filter (fun q => negb (fst q =? lane)) (o_rel r) in
      let expect := map (fun rm => (rm, Nat.eqb (length (lanes_of rm rel')) 0)) (remotes_of lane (o_rel r)) in
      if list_eqb (fun a b => (fst a =? fst b) && Bool.eqb (snd a) (snd b)) ts expect
      then Some (oref_with r rel' (aremove lane (o_lane_rep r)) (o_next_rep r)
                           (set_remove lane (o_known r)) (o_owed_events r) (o_owed_cmds r))
      else None
  | RemoveAll, OPairs ps =>
      if list_eqb pair_eqb ps (sort_pairs (o_rel r))
      then Some (oref_with r [] (o_lane_rep r) (o_next_rep r) (o_known r)
                           (o_owed_events r) (o_owed_cmds r))
      else None
  | CountSingle lane, OUnit =>
      (* one event sent to one link of this lane *)
      if o_agg r && set_mem lane (o_known r) then
        Some (oref_with r (o_rel r) (o_lane_rep r) (o_next_rep r) (o_known r)
                        (bump (Some O) 1 (bump (alookup lane (o_lane_rep r)) 1 (o_owed_events r)))
                        (o_owed_cmds r))
      else Some r
  | CountBroadcast lane, OUnit =>
      if o_agg r && set_mem lane (o_known r) then
        let n := count_lane lane (o_rel r) in
        Some (oref_with r (o_rel r) (o_lane_rep r) (o_next_rep r) (o_known r)
                        (bump (Some O) n (bump (alookup lane (o_lane_rep r)) n (o_owed_events r)))
                        (o_owed_cmds r))
      else Some r
  | CountCommands rep n, OUnit =>
      Some (oref_with r (o_rel r) (o_lane_rep r) (o_next_rep r) (o_known r) (o_owed_events r)
                      (bump (Some rep) n (o_owed_cmds r)))
  | Snapshot rep, OSnap s =>
      let is_agg := o_agg r && Nat.eqb rep 0 in
      match nrev_lookup rep (o_lane_rep r), is_agg, s with
      | Some lane, _, Some (lc, ec, cc) =>
          (* a live lane's reader reports exactly the number of remotes linked to it *)
          if (lc =? count_lane lane (o_rel r)) && (ec =? owed rep (o_owed_events r))
             && (cc =? owed rep (o_owed_cmds r))
          then Some (oref_with r (o_rel r) (o_lane_rep r) (o_next_rep r) (o_known r)
                               (nset rep 0 (o_owed_events r)) (nset rep 0 (o_owed_cmds r)))
          else None
      | Some lane, _, None => None        (* the lane still exists: its statistics must too *)
      | None, true, Some (lc, ec, cc) =>
          if (lc =? len (map fst (o_rel r))) && (ec =? owed rep (o_owed_events r))
             && (cc =? owed rep (o_owed_cmds r))
          then Some (oref_with r (o_rel r) (o_lane_rep r) (o_next_rep r) (o_known r)
                               (nset rep 0 (o_owed_events r)) (nset rep 0 (o_owed_cmds r)))
          else None
      | None, true, None => None
      | None, false, _ => Some r          (* reader of a removed lane / replaced reporter *)
      end
  | LinkedFrom lane, OSet s =>
      let e := remotes_of lane (o_rel r) in
      if opt_eqb (list_eqb N.eqb) s (match e with [] => None | _ => Some e end) then Some r else None
  | LinkedTo remote, OSet s =>
      let e := lanes_of remote (o_rel r) in
      if opt_eqb (list_eqb N.eqb) s (match e with [] => None | _ => Some e end) then Some r else None
  | IsLinked remote lane, OBool b =>
      if Bool.eqb b (rel_mem (lane, remote) (o_rel r)) then Some r else None
  | _, _ => None
  end.

Fixpoint oref_ok (r : oref) (ops : list op) (xs : list out) : bool :=
  match ops, xs with
  | [], [] => true
  | o :: ops', x :: xs' =>
      match oref_step r o x with
      | Some r' => oref_ok r' ops' xs'
      | None => false
      end
  | _, _ => false
  end.

Definition case := (bool * list op * list out)%type.

Definition corr_bad (cs : list (N * case)) : list N :=
  map fst (filter (fun c => match snd c with (a, ops, xs) =>
                     negb (list_eqb out_eqb (run (init a) ops) xs) end) cs).

Definition oracle_bad (cs : list (N * case)) : list N :=
  map fst (filter (fun c => match snd c with (a, ops, xs) =>
                     negb (oref_ok (oref_init a) ops xs) end) cs).
