(* Model of a map lane as the agent sees it:
     server/swimos_agent/src/map_storage/mod.rs     MapStoreInner {content, queue}: update / remove /
                                                    clear, drop_or_take, to_operation (value read at
                                                    pop time)
     server/swimos_agent/src/lanes/map/mod.rs       the command handlers (MapMessage::Update / Remove /
                                                    Clear / Drop / Take), MapLaneSync, write_to_buffer
     server/swimos_agent/src/lanes/queues/mod.rs    WriteQueues as MapEventQueue (pop loop)
   The content map is an association list whose key objects are the ones first inserted
   (HashMap::insert / BTreeMap::insert keep the existing key); keys are compared by class. The order
   of two keys is the order of their classes (the harness builds its key pool so that this is the
   order of the Recon model values, and asserts it against the real comparator). *)
From SwimV Require Export Model.MapQueue.
Open Scope N_scope.

Definition lt_key (a b : key) : bool := fst a <? fst b.

(* a stable insertion sort: what slice::sort_by computes (any stable sort gives the same list) *)
Fixpoint insert_key (x : key) (l : list key) : list key :=
  match l with
  | [] => [x]
  | y :: t => if lt_key y x then y :: insert_key x t else x :: l
  end.
Definition sort_keys (ks : list key) : list key := fold_right insert_key [] ks.

Inductive dt_kind := KDrop | KTake.

(* the keys a drop / take removes, given the keys in the map's iteration order *)
Definition drop_or_take (ks : list key) (kind : dt_kind) (n : nat) : list key :=
  match kind with
  | KDrop => firstn n (sort_keys ks)
  | KTake => skipn n (sort_keys ks)
  end.

Record lane := { l_map : list (key * N); l_wq : wqueues }.
Definition lane0 : lane := {| l_map := []; l_wq := wq0 |}.

Definition wq_push (w : wqueues) (e : entry) : wqueues :=
  {| wq_events := push (wq_events w) e false; wq_syncs := wq_syncs w; wq_index := wq_index w;
     wq_next_event := wq_next_event w |}.

(* the real queue entry is Update { key, value: () }; the model lets the entry remember the value as a
   ghost: it is never observed (an event's value is read from the map when it is written), and
   MapLaneProofs.queued_value_is_current shows that it always equals the map's value *)
Definition lane_update (l : lane) (k : key) (v : N) : lane :=
  {| l_map := r_put k v (l_map l); l_wq := wq_push (l_wq l) (EUpdate k v) |}.

(* removing an absent key changes nothing and queues nothing *)
Definition lane_remove (l : lane) (k : key) : lane :=
  match em_get k (l_map l) with
  | Some _ => {| l_map := em_remove k (l_map l); l_wq := wq_push (l_wq l) (ERemove k) |}
  | None => l
  end.

Definition lane_clear (l : lane) : lane := {| l_map := []; l_wq := wq_push (l_wq l) EClear |}.

Definition lane_drop_take (l : lane) (kind : dt_kind) (n : nat) : lane :=
  fold_left lane_remove (drop_or_take (map fst (l_map l)) kind n) l.

(* sync: the keys currently in the map, in the map's iteration order (ordered backing: key order) *)
Definition lane_sync (l : lane) (id : N) : lane :=
  {| l_map := l_map l;
     l_wq := {| wq_events := wq_events (l_wq l);
                wq_syncs := wq_syncs (l_wq l) ++ [{| sq_id := id; sq_keys := sort_keys (map fst (l_map l)) |}];
                wq_index := wq_index (l_wq l); wq_next_event := wq_next_event (l_wq l) |} |}.

Inductive lresp :=
| LStd (e : entry)                       (* StandardEvent: an Update carries the value read now *)
| LSyncEv (id : N) (k : key) (v : N)
| LSyncedR (id : N).

(* MapEventQueue::pop for WriteQueues: entries whose key has vanished from the map are skipped *)
Fixpoint lane_pop (fuel : nat) (m : list (key * N)) (w : wqueues) : wqueues * option lresp :=
  match fuel with
  | O => (w, None)
  | S f =>
      match wq_pop w with
      | (w', None) => (w', None)
      | (w', Some (WEvent (EUpdate k _))) =>
          match em_get k m with
          | Some v => (w', Some (LStd (EUpdate k v)))
          | None => lane_pop f m w'
          end
      | (w', Some (WEvent e)) => (w', Some (LStd e))
      | (w', Some (WSyncEvent id k)) =>
          match em_get k m with
          | Some v => (w', Some (LSyncEv id k v))
          | None => lane_pop f m w'
          end
      | (w', Some (WSynced id)) => (w', Some (LSyncedR id))
      end
  end.

Definition wq_size (w : wqueues) : nat :=
  length (events (wq_events w)) + fold_right (fun q a => S (length (sq_keys q)) + a)%nat O (wq_syncs w).

Definition wq_is_empty (w : wqueues) : bool :=
  match events (wq_events w), wq_syncs w with [], [] => true | _, _ => false end.

Inductive lop :=
| LUpdate (k : key) (v : N) | LRemove (k : key) | LClear | LDropTake (kind : dt_kind) (n : N)
| LSync (id : N) | LWrite | LGetMap.

Inductive lout :=
| LOUnit
| LOWrite (r : option lresp) (now_empty : bool)
| LOMap (m : list (key * N)).            (* sorted by key class *)

Fixpoint insert_kv (x : key * N) (l : list (key * N)) : list (key * N) :=
  match l with
  | [] => [x]
  | y :: t => if lt_key (fst y) (fst x) then y :: insert_kv x t else x :: l
  end.
Definition sort_map (m : list (key * N)) : list (key * N) := fold_right insert_kv [] m.

Definition lstep (l : lane) (o : lop) : lane * lout :=
  match o with
  | LUpdate k v => (lane_update l k v, LOUnit)
  | LRemove k => (lane_remove l k, LOUnit)
  | LClear => (lane_clear l, LOUnit)
  | LDropTake kind n => (lane_drop_take l kind (N.to_nat n), LOUnit)
  | LSync id => (lane_sync l id, LOUnit)
  | LWrite =>
      let (w', r) := lane_pop (S (wq_size (l_wq l))) (l_map l) (l_wq l) in
      ({| l_map := l_map l; l_wq := w' |}, LOWrite r (wq_is_empty w'))
  | LGetMap => (l, LOMap (sort_map (l_map l)))
  end.

Fixpoint lrun (l : lane) (ops : list lop) : list lout :=
  match ops with [] => [] | o :: t => let (l', r) := lstep l o in r :: lrun l' t end.

(* on the wire a key is its Recon text: the different representations of one class print alike, so
   events are compared by key class (the map dump below compares the key objects exactly) *)
Definition entry_ceqb (a b : entry) : bool :=
  match a, b with
  | EUpdate k v, EUpdate k' v' => keq k k' && (v =? v')
  | ERemove k, ERemove k' => keq k k'
  | EClear, EClear => true
  | _, _ => false
  end.

Definition lresp_eqb (a b : lresp) : bool :=
  match a, b with
  | LStd x, LStd y => entry_ceqb x y
  | LSyncEv i k v, LSyncEv j k' v' => (i =? j) && keq k k' && (v =? v')
  | LSyncedR i, LSyncedR j => i =? j
  | _, _ => false
  end.

Fixpoint kvs_eqb (a b : list (key * N)) : bool :=
  match a, b with
  | [], [] => true
  | (k, v) :: a', (k', v') :: b' => key_eqb k k' && (v =? v') && kvs_eqb a' b'
  | _, _ => false
  end.

Definition lout_eqb (a b : lout) : bool :=
  match a, b with
  | LOUnit, LOUnit => true
  | LOWrite None e, LOWrite None e' => Bool.eqb e e'
  | LOWrite (Some x) e, LOWrite (Some y) e' => lresp_eqb x y && Bool.eqb e e'
  | LOMap m, LOMap m' => kvs_eqb m m'
  | _, _ => false
  end.

(* a case: the operations, and what the real lane answered *)
Definition lcase := (list lop * list lout)%type.

Definition lane_corr_bad (cs : list (N * lcase)) : list N :=
  map fst (filter (fun c => let '(ops, outs) := snd c in negb (outs_eqb lout_eqb (lrun lane0 ops) outs)) cs).

(* ---- oracle on the implementation's trace: independent of the queue model ----
   src: the lane's map according to the commands alone; rep0: a consumer linked from the start that
   applies every standard event; reps: one replica per sync id, started empty at the sync request,
   applying its own sync events and every standard event from then on.  Whenever the lane says
   "no data" every replica that has been told it is synced, and rep0, equal src class by class; a
   reported map equals src. *)
Definition spec_apply (src : list (key * N)) (o : lop) : list (key * N) :=
  match o with
  | LUpdate k v => r_put k v src
  | LRemove k => em_remove k src
  | LClear => []
  | LDropTake kind n => fold_left (fun m k => em_remove k m) (drop_or_take (map fst src) kind (N.to_nat n)) src
  | _ => src
  end.

Definition same_view (a b : list (key * N)) : bool :=
  let strip := map (fun p => (fst (fst p), snd p)) in
  let fix eq (x y : list (N * N)) :=
    match x, y with
    | [], [] => true
    | (c, v) :: x', (c', v') :: y' => (c =? c') && (v =? v') && eq x' y'
    | _, _ => false
    end in
  eq (strip (sort_map a)) (strip (sort_map b)).

Record rep := { rp_id : N; rp_synced : bool; rp_map : list (key * N) }.

Definition reps_apply (rs : list rep) (e : entry) : list rep :=
  map (fun r => {| rp_id := rp_id r; rp_synced := rp_synced r; rp_map := apply_op (rp_map r) e |}) rs.

Fixpoint lane_oracle (src rep0 : list (key * N)) (rs : list rep) (ops : list lop) (outs : list lout) : bool :=
  match ops, outs with
  | [], [] => true
  | LSync id :: ops', LOUnit :: outs' =>
      lane_oracle src rep0 (rs ++ [{| rp_id := id; rp_synced := false; rp_map := [] |}]) ops' outs'
  | LWrite :: ops', LOWrite r _ :: outs' =>
      match r with
      | None =>
          same_view src rep0 && forallb (fun r => negb (rp_synced r) || same_view src (rp_map r)) rs
          && lane_oracle src rep0 rs ops' outs'
      | Some (LStd e) => lane_oracle src (apply_op rep0 e) (reps_apply rs e) ops' outs'
      | Some (LSyncEv id k v) =>
          lane_oracle src rep0
            (map (fun r => if rp_id r =? id
                           then {| rp_id := id; rp_synced := rp_synced r; rp_map := r_put k v (rp_map r) |}
                           else r) rs) ops' outs'
      | Some (LSyncedR id) =>
          lane_oracle src rep0
            (map (fun r => if rp_id r =? id
                           then {| rp_id := id; rp_synced := true; rp_map := rp_map r |} else r) rs) ops' outs'
      end
  | LGetMap :: ops', LOMap m :: outs' => same_view src m && lane_oracle src rep0 rs ops' outs'
  | o :: ops', LOUnit :: outs' => lane_oracle (spec_apply src o) rep0 rs ops' outs'
  | _, _ => false
  end.

Definition lane_oracle_bad (cs : list (N * lcase)) : list N :=
  map fst (filter (fun c => let '(ops, outs) := snd c in negb (lane_oracle [] [] [] ops outs)) cs).
