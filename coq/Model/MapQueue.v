(* Model of the coalescing operation queues of map lanes:
     server/swimos_agent/src/event_queue/mod.rs              EventQueue<K, V>
     server/swimos_agent/src/lanes/queues/mod.rs             WriteQueues<K> (event queue + per-remote
                                                             sync queues, alternating NextWrite)
     runtime/swimos_runtime/src/backpressure/map_queue/mod.rs MapOperationQueue (keys compared as Recon)
   A key is (class, spelling): two keys are "the same key" (Eq / Recon equality) iff their classes
   are equal; the spelling is the text that travels with the entry.  Epochs are usize counters with
   wrapping arithmetic, written out as mod 2^64. *)
From Coq Require Export List Bool Arith NArith Lia.
Export ListNotations.
Open Scope N_scope.

Definition key := (N * N)%type.
Definition keq (a b : key) : bool := fst a =? fst b.

Inductive entry := EUpdate (k : key) (v : N) | ERemove (k : key) | EClear.

Definition entry_key (e : entry) : option key :=
  match e with EUpdate k _ | ERemove k => Some k | EClear => None end.

Definition W : N := 2 ^ 64.

Record queue := { events : list entry; head_epoch : N; epoch_map : list (key * N) }.

Definition empty_at (h : N) : queue := {| events := []; head_epoch := h mod W; epoch_map := [] |}.

Fixpoint em_get (k : key) (m : list (key * N)) : option N :=
  match m with [] => None | (k', e) :: t => if keq k k' then Some e else em_get k t end.
Fixpoint em_remove (k : key) (m : list (key * N)) : list (key * N) :=
  match m with [] => [] | (k', e) :: t => if keq k k' then t else (k', e) :: em_remove k t end.
(* HashMap::insert keeps the key object already in the map and replaces the value *)
Fixpoint em_insert (k : key) (e : N) (m : list (key * N)) : list (key * N) :=
  match m with
  | [] => [(k, e)]
  | (k', e') :: t => if keq k k' then (k', e) :: t else (k', e') :: em_insert k e t
  end.

Fixpoint set_nth {A} (i : nat) (x : A) (l : list A) : list A :=
  match l, i with
  | [], _ => []
  | _ :: t, O => x :: t
  | h :: t, S j => h :: set_nth j x t
  end.

Definition len {A} (l : list A) : N := N.of_nat (length l).

(* [keep_old_key]: MapOperationQueue overwrites only the value of a queued Update when the old
   buffer's capacity suffices (the queued key text stays); EventQueue replaces the whole entry.
   The flag is supplied by the harness from the real run for MapOperationQueue and is false for
   EventQueue. *)
Definition push (q : queue) (e : entry) (keep_old_key : bool) : queue :=
  match e with
  | EClear => {| events := [EClear]; head_epoch := 0; epoch_map := [] |}
  | EUpdate k _ | ERemove k =>
      let slot :=
        match em_get k (epoch_map q) with
        | Some epoch =>
            let index := (epoch + W - head_epoch q) mod W in
            if index <? len (events q) then Some (N.to_nat index) else None
        | None => None
        end in
      match slot with
      | Some i =>
          let e' :=
            match e, nth i (events q) EClear with
            | EUpdate _ v, EUpdate k0 _ => if keep_old_key then EUpdate k0 v else e
            | _, _ => e
            end in
          {| events := set_nth i e' (events q); head_epoch := head_epoch q; epoch_map := epoch_map q |}
      | None =>
          let epoch := (head_epoch q + len (events q)) mod W in
          {| events := events q ++ [e]; head_epoch := head_epoch q;
             epoch_map := em_insert k epoch (epoch_map q) |}
      end
  end.

Definition pop (q : queue) : queue * option entry :=
  match events q with
  | [] => (q, None)
  | e :: rest =>
      ({| events := rest; head_epoch := (head_epoch q + 1) mod W;
          epoch_map := match entry_key e with Some k => em_remove k (epoch_map q) | None => epoch_map q end |},
       Some e)
  end.

(* ---- the replica a remote keeps: keys compared by class ---- *)
Fixpoint r_put (k : key) (v : N) (m : list (key * N)) : list (key * N) :=
  match m with
  | [] => [(k, v)]
  | (k', v') :: t => if keq k k' then (k', v) :: t else (k', v') :: r_put k v t
  end.
Definition r_del (k : key) (m : list (key * N)) := em_remove k m.

Definition apply_op (m : list (key * N)) (e : entry) : list (key * N) :=
  match e with
  | EUpdate k v => r_put k v m
  | ERemove k => r_del k m
  | EClear => []
  end.

Definition apply_all (m : list (key * N)) (es : list entry) : list (key * N) := fold_left apply_op es m.

(* what the map says about one key class *)
Definition lookup (c : N) (m : list (key * N)) : option N := em_get (c, 0) m.

(* ------------------------------------------------------------------------------------------ *)
(* WriteQueues: the event queue (values are read from the lane at pop time: modelled by the harness
   passing only keys, value 0) plus sync queues *)

Record sync_queue := { sq_id : N; sq_keys : list key }.
Record wqueues := { wq_events : queue; wq_syncs : list sync_queue; wq_index : nat; wq_next_event : bool }.
Definition wq0 : wqueues :=
  {| wq_events := empty_at 0; wq_syncs := []; wq_index := 0; wq_next_event := true |}.

Inductive to_write := WEvent (e : entry) | WSyncEvent (id : N) (k : key) | WSynced (id : N).

Fixpoint remove_first (k : key) (l : list key) : list key :=
  match l with [] => [] | h :: t => if keq k h then t else h :: remove_first k t end.

Definition update_sync_queues (qs : list sync_queue) (e : entry) : list sync_queue :=
  match entry_key e with
  | Some k => map (fun q => {| sq_id := sq_id q; sq_keys := remove_first k (sq_keys q) |}) qs
  | None => map (fun q => {| sq_id := sq_id q; sq_keys := [] |}) qs
  end.

Fixpoint remove_nth {A} (i : nat) (l : list A) : list A :=
  match l, i with
  | [], _ => []
  | _ :: t, O => t
  | h :: t, S j => h :: remove_nth j t
  end.

Definition wq_pop (w : wqueues) : wqueues * option to_write :=
  let selection_is_event := wq_next_event w in
  let next' := negb (wq_next_event w) in
  let no_events := match events (wq_events w) with [] => true | _ => false end in
  if (selection_is_event && negb no_events) || (match wq_syncs w with [] => true | _ => false end) then
    match pop (wq_events w) with
    | (q', Some e) =>
        ({| wq_events := q'; wq_syncs := update_sync_queues (wq_syncs w) e; wq_index := wq_index w;
            wq_next_event := next' |}, Some (WEvent e))
    | (q', None) =>
        ({| wq_events := q'; wq_syncs := wq_syncs w; wq_index := wq_index w; wq_next_event := next' |}, None)
    end
  else
    match nth_error (wq_syncs w) (wq_index w) with
    | Some sq =>
        match sq_keys sq with
        | k :: rest =>
            let syncs' := set_nth (wq_index w) {| sq_id := sq_id sq; sq_keys := rest |} (wq_syncs w) in
            ({| wq_events := wq_events w; wq_syncs := syncs';
                wq_index := Nat.modulo (S (wq_index w)) (length (wq_syncs w)); wq_next_event := next' |},
             Some (WSyncEvent (sq_id sq) k))
        | [] =>
            let syncs' := remove_nth (wq_index w) (wq_syncs w) in
            ({| wq_events := wq_events w; wq_syncs := syncs';
                wq_index := if Nat.leb (length syncs') (wq_index w) then 0%nat else wq_index w;
                wq_next_event := next' |}, Some (WSynced (sq_id sq)))
        end
    | None =>
        ({| wq_events := wq_events w; wq_syncs := wq_syncs w; wq_index := wq_index w; wq_next_event := next' |},
         None)
    end.

(* ------------------------------------------------------------------------------------------ *)
(* Correspondence *)

Inductive qop :=
| QPush (e : entry) (keep_old_key : bool)
| QPop.

Inductive qout := OPushed | OPopped (e : option entry).

Definition key_eqb (a b : key) : bool := (fst a =? fst b) && (snd a =? snd b).
Definition entry_eqb (a b : entry) : bool :=
  match a, b with
  | EUpdate k v, EUpdate k' v' => key_eqb k k' && (v =? v')
  | ERemove k, ERemove k' => key_eqb k k'
  | EClear, EClear => true
  | _, _ => false
  end.
Definition qout_eqb (a b : qout) : bool :=
  match a, b with
  | OPushed, OPushed => true
  | OPopped None, OPopped None => true
  | OPopped (Some x), OPopped (Some y) => entry_eqb x y
  | _, _ => false
  end.

Definition qstep (q : queue) (o : qop) : queue * qout :=
  match o with
  | QPush e keep => (push q e keep, OPushed)
  | QPop => let (q', r) := pop q in (q', OPopped r)
  end.

Fixpoint qrun (q : queue) (ops : list qop) : list qout :=
  match ops with [] => [] | o :: t => let (q', r) := qstep q o in r :: qrun q' t end.

Fixpoint outs_eqb {A} (eqb : A -> A -> bool) (a b : list A) : bool :=
  match a, b with
  | [], [] => true
  | x :: a', y :: b' => eqb x y && outs_eqb eqb a' b'
  | _, _ => false
  end.

(* WriteQueues ops *)
Inductive wop := WPush (e : entry) | WSync (id : N) (keys : list key) | WPop.
Inductive wout := WOUnit | WOPopped (r : option to_write).

Definition wstep (w : wqueues) (o : wop) : wqueues * wout :=
  match o with
  | WPush e =>
      ({| wq_events := push (wq_events w) e false; wq_syncs := wq_syncs w; wq_index := wq_index w;
          wq_next_event := wq_next_event w |}, WOUnit)
  | WSync id keys =>
      ({| wq_events := wq_events w; wq_syncs := wq_syncs w ++ [{| sq_id := id; sq_keys := keys |}];
          wq_index := wq_index w; wq_next_event := wq_next_event w |}, WOUnit)
  | WPop => let (w', r) := wq_pop w in (w', WOPopped r)
  end.

Fixpoint wrun (w : wqueues) (ops : list wop) : list wout :=
  match ops with [] => [] | o :: t => let (w', r) := wstep w o in r :: wrun w' t end.

Definition to_write_eqb (a b : to_write) : bool :=
  match a, b with
  | WEvent x, WEvent y => entry_eqb x y
  | WSyncEvent i k, WSyncEvent j k' => (i =? j) && key_eqb k k'
  | WSynced i, WSynced j => i =? j
  | _, _ => false
  end.
Definition wout_eqb (a b : wout) : bool :=
  match a, b with
  | WOUnit, WOUnit => true
  | WOPopped None, WOPopped None => true
  | WOPopped (Some x), WOPopped (Some y) => to_write_eqb x y
  | _, _ => false
  end.

Inductive mcase :=
| CaseQueue (start_epoch : N) (ops : list qop) (outs : list qout)
| CaseWrite (ops : list wop) (outs : list wout).

Definition corr_bad (cs : list (N * mcase)) : list N :=
  map fst (filter (fun c => match snd c with
                            | CaseQueue h ops outs => negb (outs_eqb qout_eqb (qrun (empty_at h) ops) outs)
                            | CaseWrite ops outs => negb (outs_eqb wout_eqb (wrun wq0 ops) outs)
                            end) cs).

(* Oracle on the implementation's trace of a single queue: replaying what was popped onto a replica,
   then what is still pending ... here: whenever the queue is drained (a pop answers None) the
   replica equals the source map, class by class; and at the end of the case after draining. The
   harness appends pops until None to every case. *)
Fixpoint classes_of (ops : list qop) : list N :=
  match ops with
  | [] => []
  | QPush e _ :: t => match entry_key e with Some k => fst k :: classes_of t | None => classes_of t end
  | QPop :: t => classes_of t
  end.

Fixpoint oracle_run (src rep : list (key * N)) (ops : list qop) (outs : list qout) (cls : list N) : bool :=
  match ops, outs with
  | [], [] => true
  | QPush e _ :: ops', OPushed :: outs' => oracle_run (apply_op src e) rep ops' outs' cls
  | QPop :: ops', OPopped (Some e) :: outs' => oracle_run src (apply_op rep e) ops' outs' cls
  | QPop :: ops', OPopped None :: outs' =>
      forallb (fun c => match lookup c src, lookup c rep with
                        | None, None => true
                        | Some a, Some b => a =? b
                        | _, _ => false
                        end) cls
      && oracle_run src rep ops' outs' cls
  | _, _ => false
  end.

Definition oracle_bad (cs : list (N * mcase)) : list N :=
  map fst (filter (fun c => match snd c with
                            | CaseQueue _ ops outs => negb (oracle_run [] [] ops outs (classes_of ops))
                            | CaseWrite _ _ => false
                            end) cs).
