(* Model of the MessagePack form of scalar values (C16):
     api/formats/swimos_msgpack/src/writer/mod.rs   MsgPackInterpreter (PrimitiveWriter part) on top of
                                                    rmp::encode (write_sint, write_u64, write_f64, write_str,
                                                    write_bin, write_ext_meta)
     api/formats/swimos_msgpack/src/reader/mod.rs   read_from_msg_pack: marker dispatch, read_string,
                                                    read_blob, read_ext
   Integers are mathematical integers in the union of the i64 and u64 ranges (the Rust integer kind is
   not part of the wire form); a float is its 64 bit pattern; a big integer is a sign and a magnitude;
   texts and blobs are byte strings (a text is valid UTF-8: not modelled).  Records (attribute map + body)
   are not modelled here: they are covered by the oracle on the real code. *)
From SwimV Require Export Model.Codec.
Open Scope N_scope.

Inductive mscalar :=
| MNil
| MBool (b : bool)
| MPos (n : N)                        (* an integer >= 0, < 2^64 *)
| MNeg (n : N)                        (* the integer -n, 1 <= n <= 2^63 *)
| MF64 (bits : N)
| MBigInt (neg : bool) (mag : N)      (* written by write_big_int: sign byte then magnitude *)
| MBigUint (mag : N)
| MStr (s : bytes)
| MBin (s : bytes).

(* two's complement of -n in w bytes *)
Definition twos (w : nat) (n : N) : N := 256 ^ N.of_nat w - n.

(* the minimal big-endian magnitude bytes of num-bigint's to_bytes_be (zero is one zero byte) *)
Fixpoint byte_len (fuel : nat) (n : N) : nat :=
  match fuel with
  | O => 1
  | S f => if n <? 256 then 1 else S (byte_len f (n / 256))
  end.
Definition mag_bytes (n : N) : bytes := be (byte_len (N.to_nat (N.size n)) n) n.

Definition enc_int_pos (n : N) : bytes :=
  if n <? 128 then [n]
  else if n <? 256 then 204 :: be 1 n
  else if n <? 65536 then 205 :: be 2 n
  else if n <? 4294967296 then 206 :: be 4 n
  else 207 :: be 8 n.

Definition enc_int_neg (n : N) : bytes :=
  if n <=? 32 then [256 - n]
  else if n <=? 128 then 208 :: be 1 (twos 1 n)
  else if n <=? 32768 then 209 :: be 2 (twos 2 n)
  else if n <=? 2147483648 then 210 :: be 4 (twos 4 n)
  else 211 :: be 8 (twos 8 n).

(* rmp::encode::write_ext_meta *)
Definition enc_ext_meta (l : N) (ty : N) : bytes :=
  (if l =? 1 then [212] else if l =? 2 then [213] else if l =? 4 then [214] else if l =? 8 then [215]
   else if l =? 16 then [216]
   else if l <? 256 then 199 :: be 1 l
   else if l <? 65536 then 200 :: be 2 l
   else 201 :: be 4 l) ++ [ty].

Definition enc_str_len (l : N) : bytes :=
  if l <? 32 then [160 + l]
  else if l <? 256 then 217 :: be 1 l
  else if l <? 65536 then 218 :: be 2 l
  else 219 :: be 4 l.

Definition enc_bin_len (l : N) : bytes :=
  if l <? 256 then 196 :: be 1 l
  else if l <? 65536 then 197 :: be 2 l
  else 198 :: be 4 l.

Definition enc_scalar (v : mscalar) : bytes :=
  match v with
  | MNil => [192]
  | MBool false => [194]
  | MBool true => [195]
  | MPos n => enc_int_pos n
  | MNeg n => enc_int_neg n
  | MF64 bits => 203 :: be 8 bits
  | MBigInt neg mag =>
      let m := mag_bytes mag in
      enc_ext_meta (len m + 1) 0 ++ [if neg then 0 else 1] ++ m
  | MBigUint mag => let m := mag_bytes mag in enc_ext_meta (len m) 1 ++ m
  | MStr s => enc_str_len (len s) ++ s
  | MBin s => enc_bin_len (len s) ++ s
  end.

(* ---- reading ---- *)
Inductive mres := MOk (v : mscalar) (rest : bytes) | MIncomplete | MBad.

Definition need (n : N) (b : bytes) (k : bytes -> bytes -> mres) : mres :=
  if len b <? n then MIncomplete else k (take n b) (drop n b).

(* a signed big-endian number of w bytes *)
Definition signed_of (w : nat) (raw : N) : mscalar :=
  if raw <? 256 ^ N.of_nat w / 2 then MPos raw else MNeg (256 ^ N.of_nat w - raw).

Definition dec_ext (l : N) (b : bytes) : mres :=
  need 1 b (fun tyb rest =>
    let ty := unbe tyb in
    if ty =? 0 then
      if l =? 0 then MBad
      else need 1 rest (fun sg rest2 =>
             need (l - 1) rest2 (fun m rest3 =>
               (* the sign byte: 0 is minus, anything else plus; a zero magnitude is zero *)
               MOk (MBigInt ((unbe sg =? 0) && negb (unbe m =? 0)) (unbe m)) rest3))
    else if ty =? 1 then need l rest (fun m rest2 => MOk (MBigUint (unbe m)) rest2)
    else MBad).

Definition dec_scalar (b : bytes) : mres :=
  match b with
  | [] => MIncomplete
  | mk :: r =>
      if mk <? 128 then MOk (MPos mk) r
      else if 224 <=? mk then MOk (MNeg (256 - mk)) r
      else if (160 <=? mk) && (mk <? 192) then need (mk - 160) r (fun s rest => MOk (MStr s) rest)
      else if mk =? 192 then MOk MNil r
      else if mk =? 194 then MOk (MBool false) r
      else if mk =? 195 then MOk (MBool true) r
      else if mk =? 196 then need 1 r (fun l r1 => need (unbe l) r1 (fun s rest => MOk (MBin s) rest))
      else if mk =? 197 then need 2 r (fun l r1 => need (unbe l) r1 (fun s rest => MOk (MBin s) rest))
      else if mk =? 198 then need 4 r (fun l r1 => need (unbe l) r1 (fun s rest => MOk (MBin s) rest))
      else if mk =? 199 then need 1 r (fun l r1 => dec_ext (unbe l) r1)
      else if mk =? 200 then need 2 r (fun l r1 => dec_ext (unbe l) r1)
      else if mk =? 201 then need 4 r (fun l r1 => dec_ext (unbe l) r1)
      else if mk =? 203 then need 8 r (fun x rest => MOk (MF64 (unbe x)) rest)
      else if mk =? 204 then need 1 r (fun x rest => MOk (MPos (unbe x)) rest)
      else if mk =? 205 then need 2 r (fun x rest => MOk (MPos (unbe x)) rest)
      else if mk =? 206 then need 4 r (fun x rest => MOk (MPos (unbe x)) rest)
      else if mk =? 207 then need 8 r (fun x rest => MOk (MPos (unbe x)) rest)
      else if mk =? 208 then need 1 r (fun x rest => MOk (signed_of 1 (unbe x)) rest)
      else if mk =? 209 then need 2 r (fun x rest => MOk (signed_of 2 (unbe x)) rest)
      else if mk =? 210 then need 4 r (fun x rest => MOk (signed_of 4 (unbe x)) rest)
      else if mk =? 211 then need 8 r (fun x rest => MOk (signed_of 8 (unbe x)) rest)
      else if mk =? 212 then dec_ext 1 r
      else if mk =? 213 then dec_ext 2 r
      else if mk =? 214 then dec_ext 4 r
      else if mk =? 215 then dec_ext 8 r
      else if mk =? 216 then dec_ext 16 r
      else if mk =? 217 then need 1 r (fun l r1 => need (unbe l) r1 (fun s rest => MOk (MStr s) rest))
      else if mk =? 218 then need 2 r (fun l r1 => need (unbe l) r1 (fun s rest => MOk (MStr s) rest))
      else if mk =? 219 then need 4 r (fun l r1 => need (unbe l) r1 (fun s rest => MOk (MStr s) rest))
      else MBad        (* maps, arrays (records), f32 and reserved markers: not scalar values of this model *)
  end.

(* ---- correspondence ---- *)
Definition mscalar_eqb (a b : mscalar) : bool :=
  match a, b with
  | MNil, MNil => true
  | MBool x, MBool y => Bool.eqb x y
  | MPos x, MPos y => x =? y
  | MNeg x, MNeg y => x =? y
  | MF64 x, MF64 y => x =? y
  | MBigInt s x, MBigInt t y => Bool.eqb s t && (x =? y)
  | MBigUint x, MBigUint y => x =? y
  | MStr x, MStr y => bytes_eqb x y
  | MBin x, MBin y => bytes_eqb x y
  | _, _ => false
  end.

(* what the implementation did with the bytes: 0 = a value (given), 1 = incomplete, 2 = other error *)
Inductive pcase :=
| CaseEnc (v : mscalar) (bytes : bytes)
| CaseDec (b : bytes) (status : N) (v : option mscalar).

Definition mp_corr_bad (cs : list (N * pcase)) : list N :=
  map fst (filter (fun c => match snd c with
                            | CaseEnc v bs => negb (bytes_eqb (enc_scalar v) bs)
                            | CaseDec b st v =>
                                match dec_scalar b, st, v with
                                | MOk x _, 0, Some y => negb (mscalar_eqb x y)
                                | MIncomplete, 1, None => false
                                | MBad, 2, None => false
                                | _, _, _ => true
                                end
                            end) cs).

(* ------------------------------------------------------------------------------------------ *)
(* Records: a map of attributes (name -> value) followed by a body, which is an array of values
   (RecordBodyKind::ArrayLike), a map of slots (MapLike) or an array in which a slot is the two element
   array [key, value] (Mixed; an empty body is Mixed).  An item is (None, v) for a value, (Some k, v) for a
   slot.  Model of Value::write_with over MsgPackInterpreter / MsgPackBodyInterpreter and of
   read_from_msg_pack::<Value> (read_record, read_record_body, read_array_body, read_map_body) composed with
   the Value recogniser. *)
Inductive mval :=
| VS (s : mscalar)
| VR (attrs : list (bytes * mval)) (items : list (option mval * mval)).

Inductive bkind := KArray | KMap | KMixed.

Fixpoint kind_from (k : option bkind) (items : list (option mval * mval)) : option bkind :=
  match items with
  | [] => k
  | (None, _) :: t =>
      match k with
      | None | Some KArray => kind_from (Some KArray) t
      | _ => Some KMixed
      end
  | (Some _, _) :: t =>
      match k with
      | None | Some KMap => kind_from (Some KMap) t
      | _ => Some KMixed
      end
  end.
Definition body_kind (items : list (option mval * mval)) : bkind :=
  match kind_from None items with Some k => k | None => KMixed end.

Definition enc_map_len (n : N) : bytes :=
  if n <? 16 then [128 + n] else if n <? 65536 then 222 :: be 2 n else 223 :: be 4 n.
Definition enc_array_len (n : N) : bytes :=
  if n <? 16 then [144 + n] else if n <? 65536 then 220 :: be 2 n else 221 :: be 4 n.

Fixpoint enc (v : mval) : bytes :=
  match v with
  | VS s => enc_scalar s
  | VR attrs items =>
      enc_map_len (N.of_nat (length attrs))
      ++ flat_map (fun a : bytes * mval => let (name, x) := a in enc_str_len (len name) ++ name ++ enc x) attrs
      ++ (match body_kind items with
          | KMap =>
              enc_map_len (N.of_nat (length items))
              ++ flat_map (fun it : option mval * mval => let (k, x) := it in
                                     match k with Some k => enc k ++ enc x | None => enc x end) items
          | _ =>
              enc_array_len (N.of_nat (length items))
              ++ flat_map (fun it : option mval * mval => let (k, x) := it in
                                     match k with Some k => 146 :: enc k ++ enc x | None => enc x end) items
          end)
  end.

Inductive vres := VOk (v : mval) (rest : bytes) | VIncomplete | VBad.

(* a length header: count and what follows *)
Definition dec_len (small_base : N) (m16 m32 : N) (b : bytes) : option (N * bytes) + bool :=
  (* inl (Some ..): read; inl None: incomplete; inr _: not this kind of header *)
  match b with
  | [] => inl None
  | mk :: r =>
      if (small_base <=? mk) && (mk <? small_base + 16) then inl (Some (mk - small_base, r))
      else if mk =? m16 then (if len r <? 2 then inl None else inl (Some (unbe (take 2 r), drop 2 r)))
      else if mk =? m32 then (if len r <? 4 then inl None else inl (Some (unbe (take 4 r), drop 4 r)))
      else inr false
  end.

(* the length of a name: str markers only *)
Definition dec_name (b : bytes) : option (bytes * bytes) + bool :=
  match b with
  | [] => inl None
  | mk :: r =>
      let with_len (l : N) (r1 : bytes) := if len r1 <? l then inl None else inl (Some (take l r1, drop l r1)) in
      if (160 <=? mk) && (mk <? 192) then with_len (mk - 160) r
      else if mk =? 217 then (if len r <? 1 then inl None else with_len (unbe (take 1 r)) (drop 1 r))
      else if mk =? 218 then (if len r <? 2 then inl None else with_len (unbe (take 2 r)) (drop 2 r))
      else if mk =? 219 then (if len r <? 4 then inl None else with_len (unbe (take 4 r)) (drop 4 r))
      else inr false
  end.

Section Lists.
  Variable d : bytes -> vres.          (* the decoder for sub-values *)

  Fixpoint dec_attrs (n : nat) (b : bytes) (acc : list (bytes * mval)) : option (list (bytes * mval) * bytes) + bool :=
    match n with
    | O => inl (Some (rev acc, b))
    | S k =>
        match dec_name b with
        | inl (Some (name, r)) =>
            match d r with
            | VOk x r2 => dec_attrs k r2 ((name, x) :: acc)
            | VIncomplete => inl None
            | VBad => inr false
            end
        | inl None => inl None
        | inr e => inr e
        end
    end.

  Fixpoint dec_slots (n : nat) (b : bytes) (acc : list (option mval * mval)) : option (list (option mval * mval) * bytes) + bool :=
    match n with
    | O => inl (Some (rev acc, b))
    | S k =>
        match d b with
        | VOk key r1 =>
            match d r1 with
            | VOk x r2 => dec_slots k r2 ((Some key, x) :: acc)
            | VIncomplete => inl None
            | VBad => inr false
            end
        | VIncomplete => inl None
        | VBad => inr false
        end
    end.

  Fixpoint dec_items (n : nat) (b : bytes) (acc : list (option mval * mval)) : option (list (option mval * mval) * bytes) + bool :=
    match n with
    | O => inl (Some (rev acc, b))
    | S k =>
        match b with
        | [] => inl None
        | mk :: r =>
            if mk =? 146 then
              match d r with
              | VOk key r1 =>
                  match d r1 with
                  | VOk x r2 => dec_items k r2 ((Some key, x) :: acc)
                  | VIncomplete => inl None
                  | VBad => inr false
                  end
              | VIncomplete => inl None
              | VBad => inr false
              end
            else
              match d b with
              | VOk x r2 => dec_items k r2 ((None, x) :: acc)
              | VIncomplete => inl None
              | VBad => inr false
              end
        end
    end.
End Lists.

Definition is_map_marker (mk : N) : bool := ((128 <=? mk) && (mk <? 144)) || (mk =? 222) || (mk =? 223).

Fixpoint dec (fuel : nat) (b : bytes) : vres :=
  match fuel with
  | O => VBad
  | S f =>
      match b with
      | [] => VIncomplete
      | mk :: _ =>
          if is_map_marker mk then
            match dec_len 128 222 223 b with
            | inl (Some (n, r)) =>
                match dec_attrs (dec f) (N.to_nat n) r [] with
                | inl (Some (attrs, r1)) =>
                    (* the body: a map of slots or an array of items *)
                    match dec_len 128 222 223 r1 with
                    | inl (Some (m, r2)) =>
                        match dec_slots (dec f) (N.to_nat m) r2 [] with
                        | inl (Some (items, r3)) => VOk (VR attrs items) r3
                        | inl None => VIncomplete
                        | inr _ => VBad
                        end
                    | inl None => VIncomplete
                    | inr _ =>
                        match dec_len 144 220 221 r1 with
                        | inl (Some (m, r2)) =>
                            match dec_items (dec f) (N.to_nat m) r2 [] with
                            | inl (Some (items, r3)) => VOk (VR attrs items) r3
                            | inl None => VIncomplete
                            | inr _ => VBad
                            end
                        | inl None => VIncomplete
                        | inr _ => VBad            (* a delegated (scalar) body: not produced for model values *)
                        end
                    end
                | inl None => VIncomplete
                | inr _ => VBad
                end
            | inl None => VIncomplete
            | inr _ => VBad
            end
          else
            match dec_scalar b with
            | MOk s r => VOk (VS s) r
            | MIncomplete => VIncomplete
            | MBad => VBad
            end
      end
  end.

Fixpoint depth (v : mval) : nat :=
  match v with
  | VS _ => 1
  | VR attrs items =>
      S (Nat.max (fold_right (fun a m => Nat.max (depth (snd a)) m) O attrs)
                 (fold_right (fun it m => Nat.max (match fst it with Some k => depth k | None => O end) (Nat.max (depth (snd it)) m)) O items))
  end.

(* ---- correspondence for records ---- *)
Fixpoint mval_eqb (fuel : nat) (a b : mval) : bool :=
  match fuel with
  | O => false
  | S f =>
      match a, b with
      | VS x, VS y => mscalar_eqb x y
      | VR aa ai, VR ba bi =>
          (fix attrs_eq (x y : list (bytes * mval)) : bool :=
             match x, y with
             | [], [] => true
             | (n1, v1) :: x', (n2, v2) :: y' => bytes_eqb n1 n2 && mval_eqb f v1 v2 && attrs_eq x' y'
             | _, _ => false
             end) aa ba
          && (fix items_eq (x y : list (option mval * mval)) : bool :=
                match x, y with
                | [], [] => true
                | (k1, v1) :: x', (k2, v2) :: y' =>
                    (match k1, k2 with
                     | None, None => true
                     | Some p, Some q => mval_eqb f p q
                     | _, _ => false
                     end) && mval_eqb f v1 v2 && items_eq x' y'
                | _, _ => false
                end) ai bi
      | _, _ => false
      end
  end.

(* long bodies, written down by a rule rather than as a literal: [n] items (or attributes) numbered from 0.
   The 16-bit / 32-bit length headers are crossed at 65536 entries; the encoder's output is compared by
   length and a position-sensitive checksum (sum of the running sums) (the model's decoder takes [len] of the remaining input at every step, so it
   is quadratic on such inputs and is not run on them; the theorem covers it, the implementation's reader is
   compared with the value it was given on the Rust side). *)
Fixpoint upto (k : nat) (i : N) : list N := match k with O => [] | S k => i :: upto k (N.succ i) end.
Definition big_value (kind n : N) : mval :=
  let idx := upto (N.to_nat n) 0 in
  let small (i : N) := VS (MPos (i mod 300)) in
  match kind with
  | 0 => VR [] (map (fun i => (None, small i)) idx)
  | 1 => VR [] (map (fun i => (Some (VS (MPos i)), small i)) idx)
  | 2 => VR [] (map (fun i => if i mod 2 =? 0 then (Some (VS (MPos i)), small i) else (None, small i)) idx)
  | 3 => VR (map (fun i => ([97], VS MNil)) idx) []
  | 4 => VS (MStr (map (fun i => 97 + i mod 26) idx))
  | _ => VS (MBin (map (fun i => i mod 256) idx))
  end.
Definition cksum (b : bytes) : N := snd (fold_left (fun (h : N * N) x => let a := fst h + x in (a, snd h + a)) b (0, 0)).

Inductive rcase :=
| RCaseEnc (v : mval) (bytes : bytes)                 (* what the writer produced for a model value *)
| RCaseDec (b : bytes) (status : N) (v : option mval)   (* what the reader made of bytes: 0 value, 1 incomplete, 2 error *)
| RCaseBig (kind n : N) (length sum : N).             (* the writer on [big_value kind n]: length and checksum *)

Definition mpr_corr_bad (cs : list (N * rcase)) : list N :=
  map fst (filter (fun c => match snd c with
                            | RCaseEnc v bs => negb (bytes_eqb (enc v) bs)
                            | RCaseBig k n l h => let b := enc (big_value k n) in negb ((len b =? l) && (cksum b =? h))
                            | RCaseDec b st v =>
                                match dec 40 b, st, v with
                                | VOk x _, 0, Some y => negb (mval_eqb 40 x y)
                                | VIncomplete, 1, None => false
                                | VBad, 2, None => false
                                | _, _, _ => true
                                end
                            end) cs).
