(* Models for C14: the paths that must never coalesce.
     server/swimos_agent/src/lanes/supply/mod.rs                  SupplyLane (two FIFOs, write_to_buffer)
     runtime/swimos_runtime/src/backpressure/mod.rs               SupplyBackpressure (length-prefixed FIFO)
     runtime/swimos_runtime/src/agent/task/external_links/mod.rs  CommandOutput, CmdChannelWriter, and the
                                                                  command part of external_links_task
   Commands are records (target, body); a lane buffer is a list of records and its offset is a record
   index (the real offset is a byte offset that always lies on a record boundary: the end of the buffer
   or the start of its last record). *)
From SwimV Require Export Model.Codec.
Open Scope N_scope.

(* ------------------------------------------------------------------------------------------ *)
(* Supply lane *)
Record supply := { s_syncs : list N; s_events : list N }.
Definition supply0 : supply := {| s_syncs := []; s_events := [] |}.

Inductive sop := SPush (v : N) | SSync (id : N) | SWrite.
Inductive sresp := SSynced (id : N) | SEvent (v : N).
Inductive sout := SUnit | SWrote (r : option sresp) (more : bool).

Definition nonempty {A} (l : list A) : bool := match l with [] => false | _ => true end.

Definition sstep (s : supply) (o : sop) : supply * sout :=
  match o with
  | SPush v => ({| s_syncs := s_syncs s; s_events := s_events s ++ [v] |}, SUnit)
  | SSync id => ({| s_syncs := s_syncs s ++ [id]; s_events := s_events s |}, SUnit)
  | SWrite =>
      match s_syncs s with
      | id :: rest =>
          ({| s_syncs := rest; s_events := s_events s |},
           SWrote (Some (SSynced id)) (nonempty (s_events s) || nonempty rest))
      | [] =>
          match s_events s with
          | v :: rest => ({| s_syncs := []; s_events := rest |}, SWrote (Some (SEvent v)) (nonempty rest))
          | [] => (s, SWrote None false)
          end
      end
  end.

Fixpoint srun (s : supply) (ops : list sop) : list sout :=
  match ops with [] => [] | o :: t => let (s', r) := sstep s o in r :: srun s' t end.

(* ------------------------------------------------------------------------------------------ *)
(* SupplyBackpressure: push_bytes / prepare_write on the byte buffer *)
Definition sb_push (buf body : bytes) : bytes := buf ++ be 8 (len body) ++ body.

Definition sb_prepare (buf : bytes) : bytes * bytes :=      (* (buffer left, target) *)
  match buf with
  | [] => ([], [])
  | _ => let n := unbe (take 8 buf) in (drop n (drop 8 buf), take n (drop 8 buf))
  end.

Inductive bop := BPush (body : bytes) | BPrepare.
Inductive bout := BUnit | BWrote (target : bytes) (has_data : bool).

Definition bstep (buf : bytes) (o : bop) : bytes * bout :=
  match o with
  | BPush body => (sb_push buf body, BUnit)
  | BPrepare => let (buf', t) := sb_prepare buf in (buf', BWrote t (nonempty buf'))
  end.

Fixpoint brun (buf : bytes) (ops : list bop) : list bout :=
  match ops with [] => [] | o :: t => let (b', r) := bstep buf o in r :: brun b' t end.

(* ------------------------------------------------------------------------------------------ *)
(* CommandOutput *)
Record rec := { r_target : N; r_body : N }.

Record lanebuf := { lb_buf : list rec; lb_off : nat }.
Definition lanebuf0 : lanebuf := {| lb_buf := []; lb_off := 0 |}.

Record cout := {
  co_writer : option (list rec);          (* the writer, when it is here, with what its buffer holds *)
  co_bufs : list (N * lanebuf);           (* per target *)
  co_dirty : list N                       (* targets written since the last write was scheduled *)
}.
Definition cout0 : cout := {| co_writer := None; co_bufs := []; co_dirty := [] |}.

Fixpoint get_buf (t : N) (bs : list (N * lanebuf)) : lanebuf :=
  match bs with [] => lanebuf0 | (t', b) :: r => if t =? t' then b else get_buf t r end.
Fixpoint set_buf (t : N) (b : lanebuf) (bs : list (N * lanebuf)) : list (N * lanebuf) :=
  match bs with
  | [] => [(t, b)]
  | (t', b') :: r => if t =? t' then (t, b) :: r else (t', b') :: set_buf t b r
  end.

Definition co_append (c : cout) (t body : N) (overwrite_permitted : bool) : cout :=
  let lb := get_buf t (co_bufs c) in
  let kept := firstn (lb_off lb) (lb_buf lb) in
  let buf' := kept ++ [{| r_target := t; r_body := body |}] in
  let off' := if overwrite_permitted then length kept else length buf' in
  {| co_writer := co_writer c; co_bufs := set_buf t {| lb_buf := buf'; lb_off := off' |} (co_bufs c);
     co_dirty := co_dirty c ++ [t] |}.

(* the multi-target branch: every dirty buffer is appended to the writer's buffer and emptied *)
Fixpoint drain_dirty (dirty : list N) (bs : list (N * lanebuf)) (acc : list rec) : list (N * lanebuf) * list rec :=
  match dirty with
  | [] => (bs, acc)
  | t :: r => drain_dirty r (set_buf t lanebuf0 bs) (acc ++ lb_buf (get_buf t bs))
  end.

(* write: Some records = a write was started with exactly these records (the writer is away until
   [co_write_done]).  [retained] is what the writer's buffer holds when the multi-target branch starts
   appending: the code as repaired clears it ([] here). *)
Definition co_write (c : cout) : cout * option (list rec) :=
  match co_writer c, co_dirty c with
  | None, _ => (c, None)
  | Some _, [] => (c, None)
  | Some _, [t] =>
      let lb := get_buf t (co_bufs c) in
      ({| co_writer := None; co_bufs := set_buf t lanebuf0 (co_bufs c); co_dirty := [] |}, Some (lb_buf lb))
  | Some _, dirty =>
      let (bs', sent) := drain_dirty dirty (co_bufs c) [] in
      ({| co_writer := None; co_bufs := bs'; co_dirty := [] |}, Some sent)
  end.

Definition co_replace_writer (c : cout) (retained : list rec) : cout :=
  {| co_writer := Some retained; co_bufs := co_bufs c; co_dirty := co_dirty c |}.

(* ------------------------------------------------------------------------------------------ *)
(* The command part of external_links_task, one output per key, as the harness drives it:
     TSend    the agent writes one command frame and the task runs until idle (targets stalled)
     TOpen    the server answers every outstanding request for a channel; the task runs until idle
     TDrain   every target reads until nothing more arrives
   A target channel is so small that a write never completes before its target reads. *)
Inductive okey := KRemote (host : N) | KLocal (target : N).
Definition okey_eqb (a b : okey) : bool :=
  match a, b with
  | KRemote x, KRemote y => x =? y
  | KLocal x, KLocal y => x =? y
  | _, _ => false
  end.

Record output := {
  o_key : okey;
  o_cout : cout;
  o_open_requested : bool;              (* a request for the channel is outstanding *)
  o_inflight : option (list rec)        (* records of the write in progress *)
}.

Definition start_write (o : output) : output :=
  let (c', w) := co_write (o_cout o) in
  {| o_key := o_key o; o_cout := c'; o_open_requested := o_open_requested o;
     o_inflight := match w with Some r => Some r | None => o_inflight o end |}.

Inductive top :=
| TSend (host : option N) (target body : N) (overwrite_permitted : bool)
| TOpen
| TDrain.

Inductive tout := TUnit | TDrained (received : list (okey * list rec)).

Fixpoint find_output (k : okey) (os : list output) : option output :=
  match os with [] => None | o :: r => if okey_eqb k (o_key o) then Some o else find_output k r end.
Fixpoint put_output (o : output) (os : list output) : list output :=
  match os with
  | [] => [o]
  | o' :: r => if okey_eqb (o_key o) (o_key o') then o :: r else o' :: put_output o r
  end.

Definition t_send (os : list output) (k : okey) (t body : N) (ow : bool) : list output :=
  match find_output k os with
  | Some o =>
      let o1 := {| o_key := k; o_cout := co_append (o_cout o) t body ow;
                   o_open_requested := o_open_requested o; o_inflight := o_inflight o |} in
      put_output (start_write o1) os
  | None =>
      put_output {| o_key := k; o_cout := co_append cout0 t body ow; o_open_requested := true;
                    o_inflight := None |} os
  end.

Definition t_open (os : list output) : list output :=
  map (fun o => if o_open_requested o
                then start_write {| o_key := o_key o; o_cout := co_replace_writer (o_cout o) [];
                                    o_open_requested := false; o_inflight := o_inflight o |}
                else o) os.

(* one target reads until idle: the write in progress completes, the writer comes back (its buffer
   still holding what it sent), the next write starts, ... *)
Fixpoint drain_output (fuel : nat) (o : output) (acc : list rec) : output * list rec :=
  match fuel with
  | O => (o, acc)
  | S f =>
      match o_inflight o with
      | None => (o, acc)
      | Some sent =>
          let o1 := {| o_key := o_key o; o_cout := co_replace_writer (o_cout o) sent;
                       o_open_requested := o_open_requested o; o_inflight := None |} in
          drain_output f (start_write o1) (acc ++ sent)
      end
  end.

Definition t_drain (os : list output) : list output * list (okey * list rec) :=
  let rs := map (fun o => drain_output (S (S (length (co_dirty (o_cout o))))) o []) os in
  (map fst rs, filter (fun p => nonempty (snd p)) (map (fun r => (o_key (fst r), snd r)) rs)).

Definition tstep (os : list output) (op : top) : list output * tout :=
  match op with
  | TSend host t body ow =>
      (t_send os (match host with Some h => KRemote h | None => KLocal t end) t body ow, TUnit)
  | TOpen => (t_open os, TUnit)
  | TDrain => let (os', r) := t_drain os in (os', TDrained r)
  end.

Fixpoint trun (os : list output) (ops : list top) : list tout :=
  match ops with [] => [] | o :: t => let (os', r) := tstep os o in r :: trun os' t end.

(* ------------------------------------------------------------------------------------------ *)
(* Correspondence *)
Definition sresp_eqb (a b : sresp) : bool :=
  match a, b with
  | SSynced x, SSynced y => x =? y
  | SEvent x, SEvent y => x =? y
  | _, _ => false
  end.
Definition sout_eqb (a b : sout) : bool :=
  match a, b with
  | SUnit, SUnit => true
  | SWrote None m, SWrote None m' => Bool.eqb m m'
  | SWrote (Some x) m, SWrote (Some y) m' => sresp_eqb x y && Bool.eqb m m'
  | _, _ => false
  end.
Definition bout_eqb (a b : bout) : bool :=
  match a, b with
  | BUnit, BUnit => true
  | BWrote t h, BWrote t' h' => bytes_eqb t t' && Bool.eqb h h'
  | _, _ => false
  end.
Definition rec_eqb (a b : rec) : bool := (r_target a =? r_target b) && (r_body a =? r_body b).
Fixpoint list_eqb {A} (eqb : A -> A -> bool) (a b : list A) : bool :=
  match a, b with
  | [], [] => true
  | x :: a', y :: b' => eqb x y && list_eqb eqb a' b'
  | _, _ => false
  end.
Definition tout_eqb (a b : tout) : bool :=
  match a, b with
  | TUnit, TUnit => true
  | TDrained x, TDrained y =>
      list_eqb (fun p q => okey_eqb (fst p) (fst q) && list_eqb rec_eqb (snd p) (snd q)) x y
  | _, _ => false
  end.

Inductive ncase :=
| CaseSupply (ops : list sop) (outs : list sout)
| CaseSupplyBp (ops : list bop) (outs : list bout)
| CaseLinks (ops : list top) (outs : list tout).

Definition nc_corr_bad (cs : list (N * ncase)) : list N :=
  map fst (filter (fun c => match snd c with
                            | CaseSupply ops outs => negb (list_eqb sout_eqb (srun supply0 ops) outs)
                            | CaseSupplyBp ops outs => negb (list_eqb bout_eqb (brun [] ops) outs)
                            | CaseLinks ops outs => negb (list_eqb tout_eqb (trun [] ops) outs)
                            end) cs).

(* ---- oracles on the implementation's trace, independent of the models above ---- *)
(* supply: events come out exactly once in push order; sync ids exactly once in request order *)
Fixpoint supply_oracle (pushed synced : list N) (ops : list sop) (outs : list sout) : bool :=
  match ops, outs with
  | [], [] => true
  | SPush v :: ops', SUnit :: outs' => supply_oracle (pushed ++ [v]) synced ops' outs'
  | SSync id :: ops', SUnit :: outs' => supply_oracle pushed (synced ++ [id]) ops' outs'
  | SWrite :: ops', SWrote r more :: outs' =>
      match r, pushed, synced with
      | Some (SEvent v), p :: pushed', _ => (v =? p) && supply_oracle pushed' synced ops' outs'
      | Some (SSynced i), _, s :: synced' => (i =? s) && supply_oracle pushed synced' ops' outs'
      | None, [], [] => supply_oracle pushed synced ops' outs'
      | _, _, _ => false
      end
  | _, _ => false
  end.

Fixpoint supplybp_oracle (pending : list bytes) (ops : list bop) (outs : list bout) : bool :=
  match ops, outs with
  | [], [] => true
  | BPush b :: ops', BUnit :: outs' => supplybp_oracle (pending ++ [b]) ops' outs'
  | BPrepare :: ops', BWrote t h :: outs' =>
      match pending with
      | p :: rest => bytes_eqb t p && Bool.eqb h (nonempty rest) && supplybp_oracle rest ops' outs'
      | [] => bytes_eqb t [] && negb h && supplybp_oracle [] ops' outs'
      end
  | _, _ => false
  end.

(* ad hoc commands: per target, what a target channel receives is the sequence sent to that target,
   each once, in order, except that a command may be missing only if it was overwritable and a later
   command for the same target was sent after it; nothing is received that was not sent; after the
   final drain nothing that must be delivered is missing.  [sent_t]: per (key, target) the commands
   sent and not yet matched, oldest first, with their overwritable flag. *)
Definition pend := list (okey * N * list (N * bool)).
Fixpoint pend_get (k : okey) (t : N) (p : pend) : list (N * bool) :=
  match p with
  | [] => []
  | (k', t', l) :: r => if okey_eqb k k' && (t =? t') then l else pend_get k t r
  end.
Fixpoint pend_set (k : okey) (t : N) (l : list (N * bool)) (p : pend) : pend :=
  match p with
  | [] => [(k, t, l)]
  | (k', t', l') :: r => if okey_eqb k k' && (t =? t') then (k, t, l) :: r else (k', t', l') :: pend_set k t l r
  end.

(* match a received body against the pending list: skip overwritable entries (each skipped entry has a
   later entry behind it, the one we match or one before it) until the body is found *)
Fixpoint match_body (body : N) (l : list (N * bool)) : option (list (N * bool)) :=
  match l with
  | [] => None
  | (b, ow) :: r => if b =? body then Some r else if ow then match_body body r else None
  end.

Fixpoint recv_all (k : okey) (rs : list rec) (p : pend) : option pend :=
  match rs with
  | [] => Some p
  | r :: rest =>
      match match_body (r_body r) (pend_get k (r_target r) p) with
      | Some l' => recv_all k rest (pend_set k (r_target r) l' p)
      | None => None
      end
  end.

Fixpoint recv_keys (x : list (okey * list rec)) (p : pend) : option pend :=
  match x with
  | [] => Some p
  | (k, rs) :: rest => match recv_all k rs p with Some p' => recv_keys rest p' | None => None end
  end.

(* at the end (after the final drain): every pending list holds nothing at all *)
Definition all_delivered (p : pend) : bool := forallb (fun e => negb (nonempty (snd e))) p.

Fixpoint links_oracle (p : pend) (opened : bool) (ops : list top) (outs : list tout) : bool :=
  match ops, outs with
  | [], [] => true
  | TSend host t body ow :: ops', TUnit :: outs' =>
      let k := match host with Some h => KRemote h | None => KLocal t end in
      links_oracle (pend_set k t (pend_get k t p ++ [(body, ow)]) p) false ops' outs'
  | TOpen :: ops', TUnit :: outs' => links_oracle p true ops' outs'
  | TDrain :: ops', TDrained x :: outs' =>
      match recv_keys x p with
      | Some p' =>
          (* a drain that follows an open with no send in between leaves nothing undelivered *)
          (negb opened || all_delivered p') && links_oracle p' opened ops' outs'
      | None => false
      end
  | _, _ => false
  end.

Definition nc_oracle_bad (cs : list (N * ncase)) : list N :=
  map fst (filter (fun c => match snd c with
                            | CaseSupply ops outs => negb (supply_oracle [] [] ops outs)
                            | CaseSupplyBp ops outs => negb (supplybp_oracle [] ops outs)
                            | CaseLinks ops outs => negb (links_oracle [] false ops outs)
                            end) cs).
