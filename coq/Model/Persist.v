(* Model of persistence around the agent runtime's write task (C05):
     runtime/swimos_runtime/src/agent/task/mod.rs     write_task: persist_response(&mut store, &response)
                                                      before handle_event schedules any write
     runtime/swimos_runtime/src/agent/store/mod.rs    StorePersistence: put_value / apply_map, and the
                                                      initialisers streaming the stored state to an item
     server/swimos_agent/src/agent_model/init/mod.rs  run_item_initializer: init messages applied before on_start
   The observable history of one life of an agent is a log, on one clock, of the operations handed to the
   store and of the frames read by the remotes.  Items: 0 = persistent value lane, 1 = transient value
   lane, 2 = persistent map lane, 3 = transient map lane, 4 = value store, 5 = map store (the harness's
   agent; the theorems are stated for any item numbers). *)
From SwimV Require Export Model.Handlers.
Open Scope N_scope.

Inductive mop := MUpdate (k v : Z) | MRemove (k : Z) | MClear.

Inductive lentry :=
| LPut (item : N) (v : Z)
| LDelete (item : N)
| LMap (item : N) (o : mop)
| LSentV (remote item : N) (v : Z)            (* an event frame of a value lane read by a remote *)
| LSentM (remote item : N) (o : mop)          (* an event frame of a map lane *)
| LLinked (remote item : N) | LSynced (remote item : N) | LUnlinked (remote item : N)
| LClosed (remote : N)                        (* the remote's channel was closed by the agent *)
| LGone (remote : N).                         (* the remote went away (dropped its end): nothing more is owed to it *)

Definition mop_eqb (a b : mop) : bool :=
  match a, b with
  | MUpdate k v, MUpdate k' v' => (k =? k')%Z && (v =? v')%Z
  | MRemove k, MRemove k' => (k =? k')%Z
  | MClear, MClear => true
  | _, _ => false
  end.

Definition apply_mop (m : list (Z * Z)) (o : mop) : list (Z * Z) :=
  match o with
  | MUpdate k v => zinsert k v m
  | MRemove k => zremove k m
  | MClear => []
  end.

(* ---- what the store holds after a log ---- *)
Record content := { c_vals : list (N * Z); c_maps : list (N * list (Z * Z)) }.
Definition content0 : content := {| c_vals := []; c_maps := [] |}.

Fixpoint delete {A} (l : N) (xs : list (N * A)) : list (N * A) :=
  match xs with [] => [] | (k, v) :: t => if k =? l then delete l t else (k, v) :: delete l t end.

Definition cmap (c : content) (i : N) : list (Z * Z) := match lookup i (c_maps c) with Some m => m | None => [] end.

Definition store_step (c : content) (e : lentry) : content :=
  match e with
  | LPut i v => {| c_vals := update i v (c_vals c); c_maps := c_maps c |}
  | LDelete i => {| c_vals := delete i (c_vals c); c_maps := c_maps c |}
  | LMap i o => {| c_vals := c_vals c; c_maps := update i (apply_mop (cmap c i) o) (c_maps c) |}
  | _ => c
  end.

Definition replay (l : list lentry) : content := fold_left store_step l content0.

(* what an item holds when the agent is started on that store: the stored state, or the default *)
Definition restored_value (c : content) (i : N) : Z := match lookup i (c_vals c) with Some v => v | None => 0%Z end.
Definition restored_map (c : content) (i : N) : list (Z * Z) := cmap c i.

(* the map initialiser streams one update per stored entry; the item applies them to an empty map *)
Definition rebuild (entries : list (Z * Z)) : list (Z * Z) := fold_left (fun m kv => zinsert (fst kv) (snd kv) m) entries [].

(* ---- the history is well formed: everything published had been handed to the store ---- *)
Definition puts (i : N) (l : list lentry) : list Z :=
  flat_map (fun e => match e with LPut j v => if j =? i then [v] else [] | _ => [] end) l.
Definition mops (i : N) (l : list lentry) : list mop :=
  flat_map (fun e => match e with LMap j o => if j =? i then [o] else [] | _ => [] end) l.

(* [persistent i]: the item has a store id *)
Fixpoint log_ok_from (persistent : N -> bool) (seen : list lentry) (l : list lentry) : bool :=
  match l with
  | [] => true
  | e :: t =>
      (match e with
       | LSentV _ i v => negb (persistent i) || existsb (Z.eqb v) (puts i seen)
                         || (match puts i seen with [] => (v =? 0)%Z | _ => false end)   (* the default, never stored *)
       | LSentM _ i o => negb (persistent i) || existsb (mop_eqb o) (mops i seen)
       | LPut i _ | LDelete i | LMap i _ => persistent i       (* nothing transient reaches the store *)
       | _ => true
       end) && log_ok_from persistent (seen ++ [e]) t
  end.
Definition log_ok (persistent : N -> bool) (l : list lentry) : bool := log_ok_from persistent [] l.

(* ---- the write task, abstractly: a response is persisted, then queued for the linked remotes; queued
        frames are delivered later, one at a time, possibly never ---- *)
Inductive payload := PVal (v : Z) | PMap (o : mop).
Inductive wstep :=
| WHandle (item : N) (p : payload) (remotes : list N)      (* persist_response; handle_event for these remotes *)
| WDeliver (remote : N)                                      (* a scheduled write completes *)
| WDrop (remote : N).                                        (* backpressure: a queued frame is superseded *)

Record wtask := { w_queue : list (N * (N * payload)); w_log : list lentry }.

Definition entry_of (r : N) (ip : N * payload) : lentry :=
  match snd ip with PVal v => LSentV r (fst ip) v | PMap o => LSentM r (fst ip) o end.

Fixpoint take_first (r : N) (q : list (N * (N * payload))) : option ((N * payload) * list (N * (N * payload))) :=
  match q with
  | [] => None
  | (r', ip) :: t =>
      if r' =? r then Some (ip, t)
      else match take_first r t with Some (x, t') => Some (x, (r', ip) :: t') | None => None end
  end.

Definition wtask_step (persistent : N -> bool) (w : wtask) (s : wstep) : wtask :=
  match s with
  | WHandle i p remotes =>
      let stored := if persistent i then [match p with PVal v => LPut i v | PMap o => LMap i o end] else [] in
      {| w_queue := w_queue w ++ map (fun r => (r, (i, p))) remotes; w_log := w_log w ++ stored |}
  | WDeliver r =>
      match take_first r (w_queue w) with
      | Some (ip, q') => {| w_queue := q'; w_log := w_log w ++ [entry_of r ip] |}
      | None => w
      end
  | WDrop r =>
      match take_first r (w_queue w) with
      | Some (_, q') => {| w_queue := q'; w_log := w_log w |}
      | None => w
      end
  end.

Definition wtask_run (persistent : N -> bool) (ss : list wstep) : wtask :=
  fold_left (wtask_step persistent) ss {| w_queue := []; w_log := [] |}.

(* ---- correspondence ---- *)
Inductive cmd := CSet (item : N) (v : Z) | CMap (item : N) (o : mop).

(* the harness's agent: items 0 / 2 are persistent lanes, the lifecycle mirrors them (shifted by one) into
   the stores 4 / 5; a remove of an absent key and commands to transient lanes reach no store *)
Definition shift (o : mop) : mop := match o with MUpdate k v => MUpdate k (v + 1) | ow => ow end.
Definition expected_step (mirror : bool) (c : content) (x : cmd) : content :=
  let also (e : lentry) (c' : content) := if mirror then store_step c' e else c' in
  match x with
  | CSet 0 v => also (LPut 4 (v + 1)%Z) (store_step c (LPut 0 v))
  | CMap 2 (MRemove k) =>
      match zlookup k (cmap c 2) with
      | Some _ => also (LMap 5 (MRemove k)) (store_step c (LMap 2 (MRemove k)))
      | None => c
      end
  | CMap 2 o => also (LMap 5 (shift o)) (store_step c (LMap 2 o))
  | _ => c
  end.
Definition expected (mirror : bool) (cs : list cmd) : content := fold_left (expected_step mirror) cs content0.

Definition persistent_item (i : N) : bool := (i =? 0) || (i =? 2) || (i =? 4) || (i =? 5).

Record crash := {
  cr_at : N;                                   (* the crash happened after this many log entries *)
  cr_v : Z; cr_t : Z; cr_m : list (Z * Z); cr_tm : list (Z * Z); cr_s : Z; cr_ms : list (Z * Z);  (* seen by on_start *)
  cr_sync_v : Z; cr_sync_t : Z; cr_sync_m : list mop; cr_sync_tm : list mop                      (* told to a syncing remote *)
}.

Record pcase := { pc_mirror : bool; pc_cmds : list cmd; pc_log : list lentry; pc_crashes : list crash }.

Definition synced_map (ops : list mop) : list (Z * Z) := fold_left apply_mop ops [].
Definition only_updates (ops : list mop) : bool := forallb (fun o => match o with MUpdate _ _ => true | _ => false end) ops.

(* the number the harnesses use for an absent value (`None`, written as an empty body) *)
Definition ABSENT : Z := (-7777)%Z.

Definition crash_ok (l : list lentry) (c : crash) : bool :=
  let st := replay (firstn (N.to_nat (cr_at c)) l) in
  (cr_v c =? restored_value st 0)%Z && (cr_t c =? 0)%Z
  && zz_eqb (cr_m c) (restored_map st 2) && zz_eqb (cr_tm c) []
  && (cr_s c =? restored_value st 4)%Z && zz_eqb (cr_ms c) (restored_map st 5)
  && (cr_sync_v c =? cr_v c)%Z && (cr_sync_t c =? 0)%Z
  && only_updates (cr_sync_m c) && zz_eqb (synced_map (cr_sync_m c)) (cr_m c)
  && match cr_sync_tm c with [] => true | _ => false end
  (* never older than what a subscriber had already seen (the generated values increase; the absent value, an
     empty body, stands outside that order) *)
  && forallb (fun e => match e with
                       | LSentV _ 0 x => (x =? ABSENT)%Z || (cr_v c =? ABSENT)%Z || (x <=? cr_v c)%Z
                       | _ => true
                       end) (firstn (N.to_nat (cr_at c)) l).

Definition content_eqb (a b : content) : bool :=
  (restored_value a 0 =? restored_value b 0)%Z && (restored_value a 4 =? restored_value b 4)%Z
  && zz_eqb (restored_map a 2) (restored_map b 2) && zz_eqb (restored_map a 5) (restored_map b 5).

(* the implementation's history against the model: the store ends up with what the commands imply, and every
   restart holds what the store held at the crash point *)
Definition p_corr_bad (cs : list (N * pcase)) : list N :=
  map fst (filter (fun c => negb (content_eqb (replay (pc_log (snd c))) (expected (pc_mirror (snd c)) (pc_cmds (snd c)))
                                  && forallb (crash_ok (pc_log (snd c))) (pc_crashes (snd c)))) cs).

(* the restart clause on its own, as an oracle: at every crash point the restarted agent holds what the store
   held there (values, maps, what a sync reports), transient items their defaults *)
Definition p_restart_bad (cs : list (N * pcase)) : list N :=
  map fst (filter (fun c => negb (forallb (crash_ok (pc_log (snd c))) (pc_crashes (snd c)))) cs).

(* provenance: whatever reaches the store under an item's id was reported by that very item (as an event or in a
   sync answer), and the write task never deletes; [cmds] lists what each item reported *)
Definition handled (ss : list wstep) : list cmd :=
  flat_map (fun s => match s with
                     | WHandle i (PVal v) _ => [CSet i v]
                     | WHandle i (PMap o) _ => [CMap i o]
                     | _ => []
                     end) ss.
Definition cmd_is_put (i : N) (v : Z) (c : cmd) : bool :=
  match c with CSet j w => (j =? i) && (w =? v)%Z | _ => false end.
Definition cmd_is_mop (i : N) (o : mop) (c : cmd) : bool :=
  match c with CMap j o' => (j =? i) && mop_eqb o o' | _ => false end.
Definition provenance_ok (cmds : list cmd) (l : list lentry) : bool :=
  forallb (fun e => match e with
                    | LPut i v => existsb (cmd_is_put i v) cmds
                    | LMap i o => existsb (cmd_is_mop i o) cmds
                    | LDelete _ => false
                    | _ => true
                    end) l.

(* the property oracle on the history: everything published had been handed to the store before *)
Definition p_oracle_bad (cs : list (N * pcase)) : list N :=
  map fst (filter (fun c => negb (log_ok persistent_item (pc_log (snd c)))) cs).

(* the write task on its own (c05w): [pc_cmds] is what the scripted lanes reported *)
Definition w_oracle_bad (cs : list (N * pcase)) : list N :=
  map fst (filter (fun c => negb (log_ok persistent_item (pc_log (snd c))
                                  && provenance_ok (pc_cmds (snd c)) (pc_log (snd c)))) cs).

(* C04 on the same logs: per (remote, lane) the frames are linked, then events and synced markers, then one
   unlinked; and a remote's channel is only ever closed by the agent when none of its links is open (an idle
   remote that is pruned has none; at a stop every link is closed with unlinked first) *)
Definition pair_eqb (a b : N * N) : bool := (fst a =? fst b) && (snd a =? snd b).
Definition is_open (open : list (N * N)) (r i : N) : bool := existsb (pair_eqb (r, i)) open.
Fixpoint links_ok_from (open : list (N * N)) (closed : list N) (l : list lentry) : bool :=
  match l with
  | [] => true
  | e :: t =>
      match e with
      | LLinked r i =>       (* a link request for a lane that is linked already is answered with linked again *)
          negb (existsb (N.eqb r) closed) &&
          links_ok_from (if is_open open r i then open else (r, i) :: open) closed t
      | LUnlinked r i =>
          negb (existsb (N.eqb r) closed) &&
          links_ok_from (filter (fun p => negb (pair_eqb (r, i) p)) open) closed t
      | LSentV r i _ | LSentM r i _ | LSynced r i =>
          negb (existsb (N.eqb r) closed) && is_open open r i && links_ok_from open closed t
      | LClosed r =>
          negb (existsb (fun p => fst p =? r) open) && links_ok_from open (r :: closed) t
      | LGone r => links_ok_from (filter (fun p => negb (fst p =? r)) open) closed t
      | _ => links_ok_from open closed t
      end
  end.
Definition links_ok (l : list lentry) : bool := links_ok_from [] [] l.

Definition w_links_bad (cs : list (N * pcase)) : list N :=
  map fst (filter (fun c => negb (links_ok (pc_log (snd c)))) cs).
