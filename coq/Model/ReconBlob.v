(* Blob literals of Recon (C09): a byte string is written as '%' followed by its standard base64 form with padding,
   and read back by the tokenizer's blob rule.

     api/formats/swimos_recon/src/printer/mod.rs           write_blob / write_blob_vec ("%" + Base64Display STANDARD)
     api/formats/swimos_recon/src/recon_parser/tokens.rs   blob = map_res('%' base64, STANDARD.decode),
                                                           base64 = many0(block of 4 digits) opt(final block)

   The decoder is the `base64` crate's STANDARD engine: padding required, and the bits of the last digit that belong
   to no byte must be zero.  Characters are code points, bytes numbers below 256.  Definitions only; proofs in
   Proofs/ReconBlobProofs.v. *)
From SwimV Require Export Model.ReconText.
Open Scope N_scope.

(* the alphabet: A-Z a-z 0-9 + / *)
Definition b64_char (v : N) : N :=
  if v <? 26 then 65 + v else if v <? 52 then 71 + v else if v <? 62 then v - 4 else if v =? 62 then 43 else 47.

Definition b64_val (c : N) : option N :=
  if in_range 65 90 c then Some (c - 65)
  else if in_range 97 122 c then Some (c - 71)
  else if in_range 48 57 c then Some (c + 4)
  else if c =? 43 then Some 62
  else if c =? 47 then Some 63
  else None.

Definition is_b64 (c : N) : bool := match b64_val c with Some _ => true | None => false end.
Definition PAD : N := 61.

(* ---- writing ---- *)
Fixpoint b64_encode (bs : list N) : str :=
  match bs with
  | a :: b :: c :: rest =>
      b64_char (a / 4) :: b64_char ((a mod 4) * 16 + b / 16) :: b64_char ((b mod 16) * 4 + c / 64) :: b64_char (c mod 64)
        :: b64_encode rest
  | [a; b] => [b64_char (a / 4); b64_char ((a mod 4) * 16 + b / 16); b64_char ((b mod 16) * 4); PAD]
  | [a] => [b64_char (a / 4); b64_char ((a mod 4) * 16); PAD; PAD]
  | [] => []
  end.

Definition print_blob (bs : list N) : str := 37 :: b64_encode bs.

(* ---- reading ---- *)
Inductive btok := BOk (bs : list N) | BBad | BNone.     (* a blob; a literal the decoder refuses; no literal here *)

(* many0(block of four digits), decoded as they are read *)
Fixpoint b64_blocks (fuel : nat) (inp : str) (acc : list N) : list N * str :=
  match fuel with
  | O => (acc, inp)
  | S f =>
      match inp with
      | c1 :: c2 :: c3 :: c4 :: rest =>
          match b64_val c1, b64_val c2, b64_val c3, b64_val c4 with
          | Some s1, Some s2, Some s3, Some s4 =>
              b64_blocks f rest (acc ++ [s1 * 4 + s2 / 16; (s2 mod 16) * 16 + s3 / 4; (s3 mod 4) * 64 + s4])
          | _, _, _, _ => (acc, inp)
          end
      | _ => (acc, inp)
      end
  end.

(* opt(final block): digit digit (digit | pad) pad; the decoder wants the unused bits of the last digit to be 0 *)
Definition b64_final (inp : str) (acc : list N) : btok * str :=
  match inp with
  | c1 :: c2 :: c3 :: c4 :: rest =>
      match b64_val c1, b64_val c2 with
      | Some s1, Some s2 =>
          if c4 =? PAD then
            if c3 =? PAD then
              (if s2 mod 16 =? 0 then BOk (acc ++ [s1 * 4 + s2 / 16]) else BBad, rest)
            else match b64_val c3 with
                 | Some s3 =>
                     (if s3 mod 4 =? 0 then BOk (acc ++ [s1 * 4 + s2 / 16; (s2 mod 16) * 16 + s3 / 4]) else BBad, rest)
                 | None => (BOk acc, inp)
                 end
          else (BOk acc, inp)
      | _, _ => (BOk acc, inp)
      end
  | _ => (BOk acc, inp)
  end.

(* the blob rule at the head of the input *)
Definition blob_token (inp : str) : btok * str :=
  match inp with
  | c :: r =>
      if c =? 37 then
        let (acc, r1) := b64_blocks (length r) r [] in b64_final r1 acc
      else (BNone, inp)
  | [] => (BNone, inp)
  end.

(* ---- correspondence ---- *)
Definition bytes_eqb (a b : list N) : bool := str_eqb a b.

Inductive bcase :=
| BCasePrint (bs : list N) (printed : str)          (* Value::Data(bs) printed by a Recon printer *)
| BCaseParse (inp : str) (result : option (list N)).  (* the first value of the input: Some bytes if it is a blob *)

Definition blob_corr_bad (cs : list (N * bcase)) : list N :=
  map fst (filter (fun c => match snd c with
                            | BCasePrint bs printed => negb (str_eqb (print_blob bs) printed)
                            | BCaseParse inp result =>
                                match blob_token (skip_blanks inp), result with
                                | (BOk bs, rest), Some bs' =>
                                    (* what follows the literal decides nothing as long as it cannot continue it *)
                                    negb (bytes_eqb bs bs')
                                | (BOk _, rest), None =>
                                    (* only claimed when the literal is the whole text *)
                                    match skip_blanks rest with [] => true | _ => false end
                                | (BBad, rest), Some _ => match skip_blanks rest with [] => true | _ => false end
                                | (BBad, _), None => false
                                | (BNone, _), Some _ => true
                                | (BNone, _), None => false
                                end
                            end) cs).
