(* Integer literals of Recon (C09 / C15): how an integer is written and read back.

     api/formats/swimos_recon/src/recon_parser/tokens.rs   numeric_literal = alt(binary, hexadecimal, decimal_or_float),
                                                           try_to_int_literal (the kind chosen for the magnitude)
     api/swimos_form/src/structural/read/from_model/mod.rs recognize_item (the Value kind chosen for a literal)
     api/swimos_form/src/structural/read/event.rs          NumericValue::eq / hash (keys compared without parsing)
     api/swimos_model/src/value.rs                          Display of the integer kinds (decimal, '-' for negatives)

   Only the integer outcomes are modelled: where the tokenizer goes on to its floating point branch (a '.', 'e' or
   'E' after the digits, or no digits at all) the model says [NOther] and claims nothing.  Characters are code
   points.  Definitions only; proofs in Proofs/ReconNumProofs.v. *)
From SwimV Require Export Model.ReconText.
From Coq Require Export ZArith.
Open Scope N_scope.

(* ---- the kinds a literal is read as ---- *)
Inductive nkind := KInt | KUInt | KBigInt | KBigUint.          (* NumericValue::{Int(i64), UInt(u64), BigInt, BigUint} *)
Record numval := { nk : nkind; nz : Z }.

Definition I64_MAX : N := 9223372036854775807.
Definition U64_MAX : N := 18446744073709551615.

(* try_to_int_literal: the magnitude fits u64 or it does not; a negative one fits i64 or it does not *)
Definition classify (neg : bool) (n : N) : numval :=
  if n <=? U64_MAX then
    if neg then (if n <=? I64_MAX then {| nk := KInt; nz := - Z.of_N n |} else {| nk := KBigInt; nz := - Z.of_N n |})
    else {| nk := KUInt; nz := Z.of_N n |}
  else if neg then {| nk := KBigInt; nz := - Z.of_N n |} else {| nk := KBigUint; nz := Z.of_N n |}.

(* ---- digits ---- *)
Definition dec_val (c : N) : option N := if is_digit c then Some (c - 48) else None.
Definition bin_val (c : N) : option N := if (c =? 48) || (c =? 49) then Some (c - 48) else None.

(* many1(one_of(digits)) folded into the number they denote; [seen]: at least one digit was read *)
Fixpoint take_digits (dv : N -> option N) (radix : N) (inp : str) (acc : N) (seen : bool) : N * bool * str :=
  match inp with
  | c :: rest =>
      match dv c with
      | Some d => take_digits dv radix rest (radix * acc + d) true
      | None => (acc, seen, inp)
      end
  | [] => (acc, seen, [])
  end.

Inductive ntok := NLit (v : numval) | NOther.

Definition is_b (c : N) : bool := (c =? 98) || (c =? 66).
Definition is_x (c : N) : bool := (c =? 120) || (c =? 88).
Definition float_mark (c : N) : bool := (c =? 46) || (c =? 101) || (c =? 69).       (* . e E *)

(* numeric_literal at the head of the input *)
Definition split_sign (inp : str) : bool * str :=
  match inp with c :: t => if c =? 45 then (true, t) else (false, inp) | [] => (false, inp) end.

(* [inp]: the whole input (what is left when no integer is read); [r]: the input after the sign *)
Definition num_body (neg : bool) (inp r : str) : ntok * str :=
  let decimal :=
    match take_digits dec_val 10 r 0 false with
    | (n, true, rest) =>
        match rest with
        | c :: _ => if float_mark c then (NOther, inp) else (NLit (classify neg n), rest)
        | [] => (NLit (classify neg n), [])
        end
    | (_, false, _) => (NOther, inp)
    end in
  match r with
  | c0 :: c1 :: t =>
      if (c0 =? 48) && is_b c1 then
        match take_digits bin_val 2 t 0 false with
        | (n, true, rest) => (NLit (classify neg n), rest)
        | (_, false, _) => decimal
        end
      else if (c0 =? 48) && is_x c1 then
        match take_digits hex_value 16 t 0 false with
        | (n, true, rest) => (NLit (classify neg n), rest)
        | (_, false, _) => decimal
        end
      else decimal
  | _ => decimal
  end.

Definition num_token (inp : str) : ntok * str :=
  let (neg, r) := split_sign inp in num_body neg inp r.

(* the whole input is one integer literal (blanks around it allowed) *)
Definition int_of_text (inp : str) : option numval :=
  match num_token (skip_blanks inp) with
  | (NLit v, rest) => match skip_blanks rest with [] => Some v | _ => None end
  | (NOther, _) => None
  end.

(* ---- the Value a literal becomes (recognize_item) ---- *)
Inductive vkind := VI32 | VI64 | VU32 | VU64 | VBigInt | VBigUint.
Definition value_kind (v : numval) : vkind :=
  let z := nz v in
  match nk v with
  | KInt => if ((- 2147483648 <=? z) && (z <=? 2147483647))%Z then VI32 else VI64
  | KUInt =>
      if (z <=? 2147483647)%Z then VI32
      else if (z <=? 9223372036854775807)%Z then VI64
      else if (z <=? 4294967295)%Z then VU32
      else VU64
  | KBigInt => VBigInt
  | KBigUint => VBigUint
  end.

(* ---- writing (Display of i32 / i64 / u32 / u64 / BigInt / BigUint) ---- *)
Fixpoint dec_digits (fuel : nat) (n : N) (acc : str) : str :=
  match fuel with
  | O => acc
  | S f => let acc' := (48 + n mod 10) :: acc in if n <? 10 then acc' else dec_digits f (n / 10) acc'
  end.
Definition print_nat (n : N) : str := dec_digits (S (N.to_nat (N.size n))) n [].
Definition print_int (z : Z) : str :=
  if (z <? 0)%Z then 45 :: print_nat (Z.to_N (- z)) else print_nat (Z.to_N z).

(* ---- comparing and hashing numbers without building values (NumericValue::eq / hash) ---- *)
Definition fits_i64 (z : Z) : bool := ((- 9223372036854775808 <=? z) && (z <=? 9223372036854775807))%Z.
Definition fits_u64 (z : Z) : bool := ((0 <=? z) && (z <=? 18446744073709551615))%Z.
Definition fits_i128 (z : Z) : bool :=
  ((- 170141183460469231731687303715884105728 <=? z) && (z <=? 170141183460469231731687303715884105727))%Z.

Definition nv_eq (a b : numval) : bool :=
  let (x, y) := (nz a, nz b) in
  match nk a, nk b with
  | KInt, KInt | KUInt, KUInt | KBigInt, KBigInt | KBigUint, KBigUint => (x =? y)%Z
  | KInt, KUInt => fits_i64 y && (x =? y)%Z                  (* i64::try_from(m) *)
  | KInt, KBigInt | KInt, KBigUint => fits_i64 y && (x =? y)%Z    (* big.to_i64() *)
  | KUInt, KInt => fits_u64 y && (x =? y)%Z                  (* u64::try_from(m) *)
  | KUInt, KBigInt | KUInt, KBigUint => fits_u64 y && (x =? y)%Z
  | KBigInt, KInt | KBigUint, KInt => fits_i64 x && (x =? y)%Z
  | KBigInt, KUInt | KBigUint, KUInt => fits_u64 x && (x =? y)%Z
  | KBigInt, KBigUint | KBigUint, KBigInt => (x =? y)%Z      (* to_bigint() of an unsigned never fails *)
  end.

(* what the hasher is fed: the tag and the number (as i128 when it fits, as a big integer otherwise) *)
Definition nv_hash_key (a : numval) : N * Z :=
  match nk a with
  | KInt | KUInt => (0, nz a)
  | KBigInt | KBigUint => if fits_i128 (nz a) then (0, nz a) else (1, nz a)
  end.

(* a literal's kind is one its number fits *)
Definition well_kinded (a : numval) : bool :=
  match nk a with
  | KInt => fits_i64 (nz a)
  | KUInt => fits_u64 (nz a)
  | KBigInt => true
  | KBigUint => (0 <=? nz a)%Z
  end.

(* ---- correspondence ---- *)
Inductive ncase :=
| NCaseParse (inp : str) (kind : N) (value : Z)       (* the first value of the input, as a Value: 0 Int32, 1 Int64, 2 UInt32,
                                                         3 UInt64, 4 BigInt, 5 BigUint with its number; 6: anything else *)
| NCasePrint (z : Z) (printed : str)                  (* an integer Value of a kind that holds z, printed *)
| NCaseKeys (a b : str) (equal same_hash : bool).     (* compare_recon_values / recon_hash on two spellings *)

Definition kind_code (k : vkind) : N :=
  match k with VI32 => 0 | VI64 => 1 | VU32 => 2 | VU64 => 3 | VBigInt => 4 | VBigUint => 5 end.

Definition n_corr_bad (cs : list (N * ncase)) : list N :=
  map fst (filter (fun c => match snd c with
                            | NCaseParse inp kind value =>
                                (* parse_recognize reads the first value of the input and leaves the rest *)
                                match num_token (skip_blanks inp) with
                                | (NLit v, _) => negb ((kind_code (value_kind v) =? kind) && (nz v =? value)%Z)
                                | (NOther, _) => negb (kind =? 6)    (* no integer literal there: not read as an integer *)
                                end
                            | NCasePrint z printed => negb (str_eqb (print_int z) printed)
                            | NCaseKeys a b eq sh =>
                                match int_of_text a, int_of_text b with
                                | Some x, Some y => negb (Bool.eqb (nv_eq x y) eq) || (eq && negb sh)
                                | _, _ => false               (* not two integer literals: nothing claimed here *)
                                end
                            end) cs).
