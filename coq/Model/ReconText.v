(* Model of the text-token layer of Recon (C09):
     api/swimos_model/src/literal.rs         write_string_literal, escape_text, needs_escape
     api/swimos_model/src/identifier.rs      is_identifier_start / is_identifier_char / is_identifier
     api/formats/swimos_recon/src/recon_parser/tokens.rs
                                             string_literal, unescape (the escape automaton), identifier,
                                             identifier_or_bool
   A string is a list of Unicode scalar values (numbers). *)
From Coq Require Export List Bool Arith NArith Lia.
Export ListNotations.
Open Scope N_scope.

Definition str := list N.

Fixpoint str_eqb (a b : str) : bool :=
  match a, b with [] , [] => true | x :: a', y :: b' => (x =? y) && str_eqb a' b' | _, _ => false end.

Definition in_range (lo hi c : N) : bool := (lo <=? c) && (c <=? hi).

Definition is_identifier_start (c : N) : bool :=
  in_range 65 90 c || (c =? 95) || in_range 97 122 c || (c =? 183)
  || in_range 192 214 c || in_range 216 246 c || in_range 248 893 c || in_range 895 8191 c
  || in_range 8204 8205 c || in_range 8255 8256 c || in_range 8304 8591 c || in_range 11264 12271 c
  || in_range 12289 55295 c || in_range 63744 64975 c || in_range 65008 65533 c || in_range 65536 983039 c.

Definition is_digit (c : N) : bool := in_range 48 57 c.
Definition is_identifier_char (c : N) : bool := is_identifier_start c || (c =? 45) || is_digit c.

Definition s_true : str := [116; 114; 117; 101].
Definition s_false : str := [102; 97; 108; 115; 101].

Definition is_identifier (s : str) : bool :=
  if str_eqb s s_true || str_eqb s s_false then false
  else match s with
       | c :: t => is_identifier_start c && forallb is_identifier_char t
       | [] => false
       end.

(* ---- printing ---- *)
Definition needs_escape (s : str) : bool := existsb (fun c => (c <? 32) || (c =? 34) || (c =? 92)) s.

Definition hex_digit (n : N) : N := if n <? 10 then 48 + n else 87 + n.     (* '0'..'9', 'a'..'f' *)

Definition escape_char (c : N) : str :=
  if c =? 34 then [92; 34]
  else if c =? 92 then [92; 92]
  else if c =? 13 then [92; 114]
  else if c =? 10 then [92; 110]
  else if c =? 9 then [92; 116]
  else if c =? 8 then [92; 98]
  else if c =? 12 then [92; 102]
  else if c <? 32 then
    [92; 117; hex_digit ((c / 4096) mod 16); hex_digit ((c / 256) mod 16); hex_digit ((c / 16) mod 16); hex_digit (c mod 16)]
  else [c].

Definition escape_text (s : str) : str := flat_map escape_char s.

Definition write_string_literal (s : str) : str :=
  if is_identifier s then s
  else [34] ++ (if needs_escape s then escape_text s else s) ++ [34].

(* ---- reading ---- *)
Inductive estate :=
| ENone | EEscape | EU0 | EU1 (d1 : N) | EU2 (d1 d2 : N) | EU3 (d1 d2 d3 : N) | EFailed.

Definition is_escape (c : N) : bool :=
  (c =? 92) || (c =? 34) || (c =? 98) || (c =? 102) || (c =? 110) || (c =? 114) || (c =? 116).

Definition hex_value (c : N) : option N :=
  if in_range 48 57 c then Some (c - 48)
  else if in_range 97 102 c then Some (c - 87)
  else if in_range 65 70 c then Some (c - 55)
  else None.

Definition is_scalar (c : N) : bool := (c <? 55296) || in_range 57344 1114111 c.

(* one step of the scan in [unescape]: new state and the character emitted, if any *)
Definition ustep (st : estate) (c : N) : estate * option N :=
  match st with
  | ENone => if c =? 92 then (EEscape, None) else (ENone, Some c)
  | EEscape =>
      if is_escape c then
        (ENone, Some (if c =? 98 then 8 else if c =? 102 then 12 else if c =? 110 then 10
                      else if c =? 114 then 13 else if c =? 116 then 9 else c))
      else if c =? 117 then (EU0, None)
      else (EFailed, None)
  | EU0 =>
      if c =? 117 then (EU0, None)
      else match hex_value c with Some d => (EU1 d, None) | None => (EFailed, None) end
  | EU1 d1 => match hex_value c with Some d => (EU2 d1 d, None) | None => (EFailed, None) end
  | EU2 d1 d2 => match hex_value c with Some d => (EU3 d1 d2 d, None) | None => (EFailed, None) end
  | EU3 d1 d2 d3 =>
      match hex_value c with
      | Some d =>
          let v := d1 * 4096 + d2 * 256 + d3 * 16 + d in
          (* a surrogate is not a character: the literal is rejected *)
          if is_scalar v then (ENone, Some v) else (EFailed, None)
      | None => (EFailed, None)
      end
  | EFailed => (EFailed, None)
  end.

Definition is_failed (st : estate) : bool := match st with EFailed => true | _ => false end.

(* [failed] is sticky, exactly like the flag captured by the closure *)
Fixpoint uscan (st : estate) (failed : bool) (s : str) (acc : str) : bool * str :=
  match s with
  | [] => (failed, rev acc)
  | c :: t =>
      let (st', out) := ustep st c in
      uscan st' (failed || (is_failed st' && negb (is_failed st))) t (match out with Some x => x :: acc | None => acc end)
  end.

Definition unescape (s : str) : option str :=
  let (failed, out) := uscan ENone false s [] in if failed then None else Some out.

Definition resolve_escapes (s : str) : option str :=
  if existsb (N.eqb 92) s then unescape s else Some s.

(* the body of a string literal, after the opening quote: raw content and the rest after the closing
   quote; None: the input ended first *)
Fixpoint scan_literal (inp : str) (acc : str) : option (str * str) :=
  match inp with
  | [] => None
  | c :: rest =>
      if c =? 34 then Some (rev acc, rest)
      else if c =? 92 then
        match rest with c' :: rest' => scan_literal rest' (c' :: 92 :: acc) | [] => None end
      else scan_literal rest (c :: acc)
  end.

Inductive tok := TokText (s : str) | TokBool (b : bool) | TokBadEscape | TokIncomplete | TokNone.

Fixpoint take_ident (inp : str) (acc : str) : str * str :=
  match inp with
  | c :: rest => if is_identifier_char c then take_ident rest (c :: acc) else (rev acc, inp)
  | [] => (rev acc, [])
  end.

(* a text-like token at the head of the input (complete input: an identifier ends at the end) *)
Definition text_token (inp : str) : tok * str :=
  match inp with
  | c :: rest =>
      if c =? 34 then
        match scan_literal rest [] with
        | Some (raw, rest') => (match resolve_escapes raw with Some t => TokText t | None => TokBadEscape end, rest')
        | None => (TokIncomplete, [])
        end
      else if is_identifier_start c then
        let (id, rest') := take_ident rest [c] in
        (if str_eqb id s_true then TokBool true else if str_eqb id s_false then TokBool false else TokText id, rest')
      else (TokNone, inp)
  | [] => (TokNone, [])
  end.

(* ---- correspondence ---- *)
Inductive tcase :=
| CasePrint (s : str) (printed : str)                      (* Value::Text(s) printed *)
| CaseParse (inp : str) (r : option str).                  (* parse_text_token on the whole input *)

(* parse_text_token allows blanks (space, tab) around the token *)
Fixpoint skip_blanks (s : str) : str :=
  match s with c :: t => if (c =? 32) || (c =? 9) then skip_blanks t else s | [] => [] end.

Definition tok_result (inp : str) : option str :=
  match (let (t, rest) := text_token (skip_blanks inp) in (t, skip_blanks rest)) with
  | (TokText t, []) => Some t
  | (TokBool true, []) => Some s_true         (* parse_text_token reads identifiers only: true / false are identifiers there *)
  | (TokBool false, []) => Some s_false
  | _ => None
  end.

Definition ostr_eqb (a b : option str) : bool :=
  match a, b with None, None => true | Some x, Some y => str_eqb x y | _, _ => false end.

Definition rt_corr_bad (cs : list (N * tcase)) : list N :=
  map fst (filter (fun c => match snd c with
                            | CasePrint s printed => negb (str_eqb (write_string_literal s) printed)
                            | CaseParse inp r => negb (ostr_eqb (tok_result inp) r)
                            end) cs).

(* ------------------------------------------------------------------------------------------ *)
(* C15, for keys that are texts or booleans: comparing two spellings without deserialising them.
   compare_recon_values compares the event streams of the two inputs; for a single text-like token the
   stream is one TextValue / BooleanValue event with the un-escaped content.  When one of the inputs is
   not valid Recon the comparison is string equality. *)
Inductive key_tok := KText (t : str) | KBool (b : bool) | KInvalid.

Definition key_token (inp : str) : key_tok :=
  match (let (t, rest) := text_token (skip_blanks inp) in (t, skip_blanks rest)) with
  | (TokText t, []) => KText t
  | (TokBool b, []) => KBool b
  | _ => KInvalid
  end.

Definition text_key_eq (a b : str) : bool :=
  match key_token a, key_token b with
  | KText x, KText y => str_eqb x y
  | KBool x, KBool y => Bool.eqb x y
  | KInvalid, _ | _, KInvalid => str_eqb a b
  | _, _ => false
  end.

Inductive kcase := CaseKeys (a b : str) (equal : bool) (same_hash : bool).

(* equal spellings must also hash alike; unequal ones may or may not *)
Definition key_corr_bad (cs : list (N * kcase)) : list N :=
  map fst (filter (fun c => match snd c with
                            | CaseKeys a b eq sh => negb (Bool.eqb (text_key_eq a b) eq) || (eq && negb sh)
                            end) cs).
