(* Model of swimos_utilities/swimos_route: route_pattern/mod.rs (parse, apply, unapply_str,
   are_ambiguous, URL_ENCODE) and route_uri (the nom grammar of RouteUri, scheme and path only).
   Strings are UTF-8 byte lists.  The pattern automaton and the URI grammar only branch on ASCII
   characters, so running them over bytes is the same as running them over chars (a multi-byte
   character never contains an ASCII byte); byte offsets are the offsets the code reports. *)
From Coq Require Export List Bool Arith NArith Lia.
Export ListNotations.
Open Scope N_scope.

Definition str := list N.

Definition SLASH : N := 47.   Definition COLON : N := 58.   Definition PERCENT : N := 37.

Definition between (lo hi b : N) : bool := (lo <=? b) && (b <=? hi).
Definition is_alpha (b : N) : bool := between 65 90 b || between 97 122 b.
Definition is_digit (b : N) : bool := between 48 57 b.
Definition is_alnum (b : N) : bool := is_alpha b || is_digit b.
Definition is_hex (b : N) : bool := is_digit b || between 65 70 b || between 97 102 b.

Fixpoint str_eqb (a b : str) : bool :=
  match a, b with
  | [], [] => true
  | x :: a', y :: b' => (x =? y) && str_eqb a' b'
  | _, _ => false
  end.

(* ------------------------------------------------------------------------------------------ *)
(* RoutePattern::parse *)

Record seg := { s_param : bool; s_start : N; s_text : str }.

Inductive pstate :=
| Start
| SchemeOrLiteral (start : N) (acc : str)
| SegmentStart
| AfterScheme
| Literal (start : N) (acc : str)
| PParam (start : N) (acc : str)      (* acc excludes the leading ':' *)
| Failed (off : N).

Record pctx := { c_scheme : option str; c_abs : bool; c_segs : list seg (* reversed *) }.

Definition push_seg (x : pctx) (s : seg) : pctx :=
  {| c_scheme := c_scheme x; c_abs := c_abs x; c_segs := s :: c_segs x |}.
Definition set_abs (x : pctx) (a : bool) : pctx :=
  {| c_scheme := c_scheme x; c_abs := a; c_segs := c_segs x |}.
Definition set_scheme (x : pctx) (s : str) : pctx :=
  {| c_scheme := Some s; c_abs := c_abs x; c_segs := c_segs x |}.

Definition transition (st : pstate) (x : pctx) (c off : N) : pstate * pctx :=
  match st with
  | Start =>
      if c =? SLASH then (SegmentStart, set_abs x true)
      else if c =? COLON then (PParam off [], set_abs x false)
      else if is_alpha c then (SchemeOrLiteral off [c], x)
      else (Literal off [c], set_abs x false)
  | SegmentStart =>
      if c =? COLON then (PParam off [], x)
      else if c =? SLASH then (Failed off, x)
      else (Literal off [c], x)
  | SchemeOrLiteral start acc =>
      if c =? COLON then (AfterScheme, set_scheme x acc)
      else if c =? SLASH then
        (* length = offset - start > 0 always holds here: acc is non-empty *)
        match acc with
        | [] => (Failed off, set_abs x false)
        | _ => (SegmentStart,
                push_seg (set_abs x false) {| s_param := false; s_start := start; s_text := acc |})
        end
      else (SchemeOrLiteral start (acc ++ [c]), x)
  | AfterScheme =>
      if c =? SLASH then (SegmentStart, set_abs x true)
      else if c =? COLON then (PParam off [], set_abs x false)
      else (Literal off [c], set_abs x false)
  | Literal start acc =>
      if c =? SLASH then
        match acc with
        | [] => (Failed off, x)
        | _ => (SegmentStart, push_seg x {| s_param := false; s_start := start; s_text := acc |})
        end
      else (Literal start (acc ++ [c]), x)
  | PParam start acc =>
      if c =? SLASH then
        match acc with
        | [] => (Failed off, x)
        | _ => (SegmentStart, push_seg x {| s_param := true; s_start := start + 1; s_text := acc |})
        end
      else if c =? COLON then (Failed off, x)
      else (PParam start (acc ++ [c]), x)
  | Failed o => (Failed off, x)
  end.

Record pattern := { p_text : str; p_scheme : option str; p_abs : bool; p_segs : list seg }.

Fixpoint parse_loop (st : pstate) (x : pctx) (off : N) (s : str) : (pstate * pctx * N) + N :=
  match s with
  | [] => inl (st, x, off)
  | c :: rest =>
      let (st', x') := transition st x c off in
      match st' with
      | Failed o => inr o
      | _ => parse_loop st' x' (off + 1) rest
      end
  end.

Fixpoint first_dup (seen : list str) (segs : list seg) : option N :=
  match segs with
  | [] => None
  | s :: rest =>
      if s_param s then
        if existsb (str_eqb (s_text s)) seen then Some (s_start s)
        else first_dup (s_text s :: seen) rest
      else first_dup seen rest
  end.

(* Ok pattern | Err offset *)
Definition parse (s : str) : pattern + N :=
  match parse_loop Start {| c_scheme := None; c_abs := false; c_segs := [] |} 0 s with
  | inr o => inr o
  | inl (st, x, off) =>
      let fin : (option seg) + N :=
        match st with
        | Start | SegmentStart => inr off
        | Literal start acc | SchemeOrLiteral start acc =>
            match acc with [] => inr off
                      | _ => inl (Some {| s_param := false; s_start := start; s_text := acc |}) end
        | PParam start acc =>
            match acc with [] => inr off
                      | _ => inl (Some {| s_param := true; s_start := start + 1; s_text := acc |}) end
        | _ => inl None
        end in
      match fin with
      | inr o => inr o
      | inl last =>
          let segs := rev (match last with Some sg => sg :: c_segs x | None => c_segs x end) in
          match first_dup [] segs with
          | Some o => inr o
          | None => inl {| p_text := s; p_scheme := c_scheme x; p_abs := c_abs x; p_segs := segs |}
          end
      end
  end.

(* ------------------------------------------------------------------------------------------ *)
(* percent encoding (URL_ENCODE = NON_ALPHANUMERIC minus - _ . ~) and decoding *)

Definition keep_raw (b : N) : bool :=
  is_alnum b || (b =? 45) || (b =? 95) || (b =? 46) || (b =? 126).

Definition hex_upper (d : N) : N := if d <? 10 then 48 + d else 55 + d.

Definition enc_byte (b : N) : str :=
  if keep_raw b then [b] else [PERCENT; hex_upper (b / 16); hex_upper (b mod 16)].

Definition pct_encode (s : str) : str := flat_map enc_byte s.

Definition hex_val (b : N) : N :=
  if is_digit b then b - 48 else if between 65 70 b then b - 55 else b - 87.

Fixpoint pct_decode (s : str) : str :=
  match s with
  | [] => []
  | c :: rest =>
      if c =? PERCENT then
        match rest with
        | h :: l :: rest' =>
            if is_hex h && is_hex l then (16 * hex_val h + hex_val l) :: pct_decode rest'
            else c :: pct_decode rest
        | _ => c :: pct_decode rest
        end
      else c :: pct_decode rest
  end.

(* ------------------------------------------------------------------------------------------ *)
(* apply *)

Fixpoint lookup (k : str) (m : list (str * str)) : option str :=
  match m with
  | [] => None
  | (k', v) :: t => if str_eqb k k' then Some v else lookup k t
  end.

Fixpoint apply_segs (segs : list seg) (first absolute : bool) (m : list (str * str))
  : str * list str :=
  match segs with
  | [] => ([], [])
  | s :: rest =>
      let sep := if negb first || absolute then [SLASH] else [] in
      let '(body, miss) :=
        if s_param s then
          match lookup (s_text s) m with
          | Some (c :: v) => (pct_encode (c :: v), [])
          | _ => ([], [s_text s])
          end
        else (s_text s, []) in
      let (tail, miss') := apply_segs rest false absolute m in
      (sep ++ body ++ tail, miss ++ miss')
  end.

(* Ok route | Err missing *)
Definition apply (p : pattern) (m : list (str * str)) : str + list str :=
  let pre := match p_scheme p with Some sc => sc ++ [COLON] | None => [] end in
  let (body, miss) := apply_segs (p_segs p) true (p_abs p) m in
  match miss with
  | [] => inl (pre ++ body)
  | _ => inr miss
  end.

(* ------------------------------------------------------------------------------------------ *)
(* RouteUri grammar (scheme and path) *)

Definition is_scheme_char (b : N) : bool := is_alnum b || (b =? 43) || (b =? 45) || (b =? 46).

Definition is_path_char (b : N) : bool :=
  is_alnum b || existsb (N.eqb b) [36; 45; 95; 46; 126; 43; 33; 42; 39; 40; 41; 44; 58; 64; 38; 61; 59].

(* many0_count(path_char): consumed prefix, rest *)
Fixpoint take_path_chars (s : str) : str * str :=
  match s with
  | c :: rest =>
      if is_path_char c then let (a, b) := take_path_chars rest in (c :: a, b)
      else if c =? PERCENT then
        match rest with
        | h :: l :: rest' =>
            if is_hex h && is_hex l then
              let (a, b) := take_path_chars rest' in (c :: h :: l :: a, b)
            else ([], s)
        | _ => ([], s)
        end
      else ([], s)
  | [] => ([], [])
  end.

(* many0_count(preceded('/', path_segment)); fuel = length of the input *)
Fixpoint more_segments (fuel : nat) (s : str) : str * str :=
  match fuel with
  | O => ([], s)
  | S f =>
      match s with
      | c :: rest =>
          if c =? SLASH then
            let (a, r1) := take_path_chars rest in
            let (b, r2) := more_segments f r1 in
            (c :: a ++ b, r2)
          else ([], s)
      | [] => ([], [])
      end
  end.

Definition path_segments (s : str) : option (str * str) :=
  let (a, r1) := take_path_chars s in
  match a with
  | [] => None
  | _ => let (b, r2) := more_segments (length r1) r1 in Some (a ++ b, r2)
  end.

Definition uri_path (s : str) : option (str * str) :=
  match s with
  | c :: rest =>
      if c =? SLASH then
        match path_segments rest with
        | Some (p, r) => Some (c :: p, r)
        | None => path_segments s
        end
      else path_segments s
  | [] => None
  end.

Fixpoint take_while (f : N -> bool) (s : str) : str * str :=
  match s with
  | c :: rest => if f c then let (a, b) := take_while f rest in (c :: a, b) else ([], s)
  | [] => ([], [])
  end.

Definition uri_scheme (s : str) : option (str * str) :=
  match s with
  | c :: rest =>
      if is_alpha c then
        let (a, r) := take_while is_scheme_char rest in
        match r with
        | d :: r' => if d =? COLON then Some (c :: a, r') else None
        | [] => None
        end
      else None
  | [] => None
  end.

(* RouteUri::from_str: Some (scheme, path); unparsed trailing input is ignored by the code *)
Definition parse_uri (s : str) : option (option str * str) :=
  match uri_scheme s with
  | Some (sc, r) =>
      match uri_path r with
      | Some (p, _) => Some (Some sc, p)
      | None => None        (* terminated(scheme, ':') succeeded: no backtracking into opt *)
      end
  | None =>
      match uri_path s with
      | Some (p, _) => Some (None, p)
      | None => None
      end
  end.

(* ------------------------------------------------------------------------------------------ *)
(* unapply *)

Fixpoint split_slash_aux (cur : str) (s : str) : list str :=
  match s with
  | [] => [rev cur]
  | c :: rest => if c =? SLASH then rev cur :: split_slash_aux [] rest
                 else split_slash_aux (c :: cur) rest
  end.
Definition split_slash (s : str) : list str := split_slash_aux [] s.

(* HashMap::insert: a later binding of the same key replaces the earlier one *)
Fixpoint bind (k v : str) (m : list (str * str)) : list (str * str) :=
  match m with
  | [] => [(k, v)]
  | (k', v') :: t => if str_eqb k k' then (k, v) :: t else (k', v') :: bind k v t
  end.

Fixpoint unapply_parts (parts : list str) (segs : list seg) (m : list (str * str))
  : option (list (str * str)) :=
  match parts, segs with
  | [], [] => Some m
  | part :: parts', s :: segs' =>
      let pd := pct_decode part in
      if s_param s then
        match pd with
        | [] => None
        | _ => unapply_parts parts' segs' (bind (s_text s) pd m)
        end
      else if str_eqb pd (pct_decode (s_text s)) then unapply_parts parts' segs' m
      else None
  | _, _ => None
  end.

Definition scheme_mismatch (p : pattern) (sc : option str) : bool :=
  match p_scheme p, sc with
  | Some s1, Some s2 => negb (str_eqb s1 s2)
  | _, _ => false
  end.

Definition unapply_uri (p : pattern) (sc : option str) (path : str) : option (list (str * str)) :=
  if scheme_mismatch p sc then None
  else
    let parts := split_slash path in
    if p_abs p then
      match parts with
      | [] :: rest => unapply_parts rest (p_segs p) []
      | _ => None
      end
    else unapply_parts parts (p_segs p) [].

Definition unapply_str (p : pattern) (route : str) : option (list (str * str)) :=
  match parse_uri route with
  | Some (sc, path) => unapply_uri p sc path
  | None => None
  end.

(* ------------------------------------------------------------------------------------------ *)
(* are_ambiguous *)

Fixpoint amb_segs (a b : list seg) : bool :=
  match a, b with
  | [], [] => true
  | x :: a', y :: b' =>
      if negb (s_param x) && negb (s_param y)
         && negb (str_eqb (pct_decode (s_text x)) (pct_decode (s_text y))) then false
      else amb_segs a' b'
  | _, _ => false
  end.

Definition are_ambiguous (p q : pattern) : bool := amb_segs (p_segs p) (p_segs q).

(* ------------------------------------------------------------------------------------------ *)
(* Correspondence: queries issued by the harness and the implementation's answers *)

Inductive query :=
| QParse (s : str)
| QApply (s : str) (m : list (str * str))
| QUnapply (s : str) (u : str) (lossy : bool)   (* lossy: a decoded part is not valid UTF-8 *)
| QAmb (s t : str).

Inductive answer :=
| AParse (r : (option str * bool * list (bool * str)) + N)
| AApply (r : str + list str)
| AUnapply (r : option (list (str * str)))
| AAmb (b : bool)
| ANoParse.

Definition opt_str_eqb (a b : option str) : bool :=
  match a, b with None, None => true | Some x, Some y => str_eqb x y | _, _ => false end.

Fixpoint list_eqb {A} (e : A -> A -> bool) (a b : list A) : bool :=
  match a, b with
  | [], [] => true
  | x :: a', y :: b' => e x y && list_eqb e a' b'
  | _, _ => false
  end.

Definition map_eqb (a b : list (str * str)) : bool :=
  Nat.eqb (length a) (length b) &&
  forallb (fun kv => match lookup (fst kv) b with Some v => str_eqb v (snd kv) | None => false end) a.

Definition model_answer (q : query) : answer :=
  match q with
  | QParse s =>
      match parse s with
      | inl p => AParse (inl (p_scheme p, p_abs p, map (fun sg => (s_param sg, s_text sg)) (p_segs p)))
      | inr o => AParse (inr o)
      end
  | QApply s m => match parse s with inl p => AApply (apply p m) | inr _ => ANoParse end
  | QUnapply s u _ => match parse s with inl p => AUnapply (unapply_str p u) | inr _ => ANoParse end
  | QAmb s t =>
      match parse s, parse t with
      | inl p, inl q => AAmb (are_ambiguous p q)
      | _, _ => ANoParse
      end
  end.

Definition answer_eqb (q : query) (a b : answer) : bool :=
  match a, b with
  | AParse (inl (s1, a1, g1)), AParse (inl (s2, a2, g2)) =>
      opt_str_eqb s1 s2 && Bool.eqb a1 a2 &&
      list_eqb (fun x y => Bool.eqb (fst x) (fst y) && str_eqb (snd x) (snd y)) g1 g2
  | AParse (inr o1), AParse (inr o2) => o1 =? o2
  | AApply (inl r1), AApply (inl r2) => str_eqb r1 r2
  | AApply (inr m1), AApply (inr m2) => list_eqb str_eqb m1 m2
  | AUnapply None, AUnapply None => true
  | AUnapply (Some m1), AUnapply (Some m2) =>
      match q with QUnapply _ _ true => true | _ => map_eqb m1 m2 end
  | AAmb x, AAmb y => Bool.eqb x y
  | ANoParse, ANoParse => true
  | _, _ => false
  end.

Definition case := list (query * answer).

Definition corr_bad (cs : list (N * case)) : list N :=
  map fst (filter (fun c => negb (forallb (fun qa => answer_eqb (fst qa) (model_answer (fst qa)) (snd qa))
                                           (snd c))) cs).
