(* Model of the socket task of runtime/swimos_remote/src/task/mod.rs: what is done with the envelopes that
   arrive on a web socket and with the messages its agents and downlinks want sent.

     IncomingTask::run     client_subscriptions : node -> lane -> [downlink writers] (registration, dispatch of
                           response envelopes by exact (node, lane), removal of writers whose channel is gone,
                           of a lane entry without writers and of a node entry without lanes);
                           agent_routes : node -> writer (request envelopes go to the agent of their node,
                           which is looked up through FindNode the first time); a frame that is not an envelope
                           ends the task
     OutgoingTask::run     one reader per attached agent / downlink; whatever they write leaves as a text frame
     registration_task     AttachDownlink -> RegisterIncoming + RegisterOutgoing

   Nodes and lanes are numbers (indices into the harness's name pools, some of which need quoting), bodies are
   numbers (every message of a case carries a different one), downlinks are numbers.  The text of the frames
   is C11's other subject (Model/Envelope.v); here a frame is (kind, node, lane, body).  Definitions only;
   proofs in Proofs/SocketDispatchProofs.v. *)
From SwimV Require Export Model.MapQueue.
Open Scope N_scope.

Inductive qkind := QLink | QSync | QUnlink | QCommand.                (* request envelopes *)
Inductive pkind := PLinked | PSynced | PUnlinked | PEvent.            (* response envelopes *)

Definition qkind_eqb (a b : qkind) : bool :=
  match a, b with QLink, QLink | QSync, QSync | QUnlink, QUnlink | QCommand, QCommand => true | _, _ => false end.
Definition pkind_eqb (a b : pkind) : bool :=
  match a, b with PLinked, PLinked | PSynced, PSynced | PUnlinked, PUnlinked | PEvent, PEvent => true | _, _ => false end.

(* bodies: requests carry one only for commands, responses for events and (optionally) for unlinked *)
Record req := { q_kind : qkind; q_node : N; q_lane : N; q_body : option N }.
Record resp := { p_kind : pkind; p_node : N; p_lane : N; p_body : option N }.

Inductive frame := FReq (q : req) | FResp (p : resp) | FNotFound (node lane : N) | FBad.

Record sock := {
  s_subs : list (N * list (N * list N));      (* node -> lane -> downlinks, in registration order *)
  s_routes : list N;                          (* agents with an open route *)
  s_addr : list (N * (N * N));                (* downlink -> (node, lane) it was attached with *)
  s_gone : list N;                            (* downlinks whose reader has been dropped (not yet noticed) *)
  s_stopped : bool;                           (* an invalid frame has ended the task *)
  s_senders : list N                          (* send-only clients (AttachClient::OneWay) *)
}.
Definition sock0 : sock := {| s_subs := []; s_routes := []; s_addr := []; s_gone := []; s_stopped := false; s_senders := [] |}.

Definition memN (x : N) (l : list N) : bool := existsb (N.eqb x) l.

Fixpoint lookup {A} (k : N) (m : list (N * A)) : option A :=
  match m with [] => None | (k', v) :: t => if k =? k' then Some v else lookup k t end.
Fixpoint put {A} (k : N) (v : A) (m : list (N * A)) : list (N * A) :=
  match m with [] => [(k, v)] | (k', v') :: t => if k =? k' then (k, v) :: t else (k', v') :: put k v t end.
Fixpoint del {A} (k : N) (m : list (N * A)) : list (N * A) :=
  match m with [] => [] | (k', v') :: t => if k =? k' then del k t else (k', v') :: del k t end.

Inductive endpoint := EDownlink (d : N) | EAgent (node : N) | ESocket.

(* what an operation makes observable: deliveries to downlinks / agents, frames written to the socket *)
Inductive delivery := DResp (d : N) (p : resp) | DReq (node : N) (q : req) | DFrame (f : frame).

Inductive sop :=
| OAttach (d node lane : N)
| ODrop (d : N)                               (* the downlink's reader goes away *)
| OInReq (q : req)                            (* a request envelope arrives *)
| OInResp (p : resp)                          (* a response envelope arrives *)
| OInBad                                      (* a frame that is not an envelope arrives *)
| OAgentSend (node : N) (p : resp)            (* an agent with an open route writes a response *)
| ODlSend (d : N) (q : req)                   (* a downlink (or a send-only client) writes a request *)
| OAttachSender (d : N).                      (* a send-only client (AttachClient::OneWay): requests out, nothing back *)

Definition set_subs (s : sock) (m : list (N * list (N * list N))) : sock :=
  {| s_subs := m; s_routes := s_routes s; s_addr := s_addr s; s_gone := s_gone s; s_stopped := s_stopped s; s_senders := s_senders s |}.

(* the two-level table *)
Definition tbl := list (N * list (N * list N)).
Definition lanes_of (t : tbl) (n : N) : list (N * list N) := match lookup n t with Some m => m | None => [] end.
Definition tget (t : tbl) (n l : N) : list N := match lookup l (lanes_of t n) with Some ds => ds | None => [] end.
Definition tset (t : tbl) (n l : N) (v : list N) : tbl := put n (put l v (lanes_of t n)) t.
(* node_map.remove(lane); if node_map.is_empty() { client_subscriptions.remove(node) } *)
Definition tdrop (t : tbl) (n l : N) : tbl :=
  match del l (lanes_of t n) with
  | [] => del n t
  | lanes' => put n lanes' t
  end.

(* [plane]: the nodes for which the server has an agent *)
Definition sstep (plane : list N) (s : sock) (o : sop) : sock * list delivery :=
  if s_stopped s then (s, []) else
  match o with
  | OAttach d node lane =>
      ({| s_subs := tset (s_subs s) node lane (tget (s_subs s) node lane ++ [d]); s_routes := s_routes s;
          s_addr := s_addr s ++ [(d, (node, lane))]; s_gone := s_gone s; s_stopped := false; s_senders := s_senders s |}, [])
  | ODrop d =>
      ({| s_subs := s_subs s; s_routes := s_routes s; s_addr := s_addr s; s_gone := d :: s_gone s; s_stopped := false; s_senders := s_senders s |}, [])
  | OInResp p =>
      (* send_response: every writer is tried; those whose channel is gone are removed; an entry left without
         writers is removed (an address nobody registered has no entry: nothing happens) *)
      let ds := tget (s_subs s) (p_node p) (p_lane p) in
      let lv := filter (fun d => negb (memN d (s_gone s))) ds in
      let out := map (fun d => DResp d p) lv in
      if Nat.eqb (length lv) (length ds) then (s, out)
      else match lv with
           | _ :: _ => (set_subs s (tset (s_subs s) (p_node p) (p_lane p) lv), out)
           | [] => (set_subs s (tdrop (s_subs s) (p_node p) (p_lane p)), out)
           end
  | OInReq q =>
      if memN (q_node q) plane then
        ({| s_subs := s_subs s;
            s_routes := if memN (q_node q) (s_routes s) then s_routes s else s_routes s ++ [q_node q];
            s_addr := s_addr s; s_gone := s_gone s; s_stopped := false; s_senders := s_senders s |}, [DReq (q_node q) q])
      else
        (s, match q_kind q with QCommand => [] | _ => [DFrame (FNotFound (q_node q) (q_lane q))] end)
  | OInBad =>
      ({| s_subs := s_subs s; s_routes := s_routes s; s_addr := s_addr s; s_gone := s_gone s; s_stopped := true; s_senders := s_senders s |}, [])
  | OAgentSend node p => (s, if memN node (s_routes s) then [DFrame (FResp p)] else [])
  | ODlSend d q =>
      (s, match lookup d (s_addr s) with
          | Some _ => if memN d (s_gone s) then [] else [DFrame (FReq q)]
          | None => if memN d (s_senders s) && negb (memN d (s_gone s)) then [DFrame (FReq q)] else []
          end)
  | OAttachSender d =>
      ({| s_subs := s_subs s; s_routes := s_routes s; s_addr := s_addr s; s_gone := s_gone s; s_stopped := false;
          s_senders := d :: s_senders s |}, [])
  end.

Fixpoint srun (plane : list N) (s : sock) (ops : list sop) : list (list delivery) :=
  match ops with [] => [] | o :: t => let (s', out) := sstep plane s o in out :: srun plane s' t end.
Definition sexec (plane : list N) (s : sock) (ops : list sop) : sock := fold_left (fun a o => fst (sstep plane a o)) ops s.

(* ---- the specification: who is owed an arriving response envelope ---- *)
(* the downlinks attached for exactly that node and lane whose reader is still there, in attachment order *)
Definition owed (s : sock) (node lane : N) : list N :=
  map fst (filter (fun da => (fst (snd da) =? node) && (snd (snd da) =? lane) && negb (memN (fst da) (s_gone s))) (s_addr s)).

(* ---- correspondence ---- *)
Definition on_eqb (a b : option N) : bool := match a, b with None, None => true | Some x, Some y => x =? y | _, _ => false end.
Definition req_eqb (a b : req) : bool :=
  qkind_eqb (q_kind a) (q_kind b) && (q_node a =? q_node b) && (q_lane a =? q_lane b) && on_eqb (q_body a) (q_body b).
Definition resp_eqb (a b : resp) : bool :=
  pkind_eqb (p_kind a) (p_kind b) && (p_node a =? p_node b) && (p_lane a =? p_lane b) && on_eqb (p_body a) (p_body b).
Definition frame_eqb (a b : frame) : bool :=
  match a, b with
  | FReq x, FReq y => req_eqb x y
  | FResp x, FResp y => resp_eqb x y
  | FNotFound n l, FNotFound n' l' => (n =? n') && (l =? l')
  | FBad, FBad => true
  | _, _ => false
  end.
Definition delivery_eqb (a b : delivery) : bool :=
  match a, b with
  | DResp d p, DResp d' p' => (d =? d') && resp_eqb p p'
  | DReq n q, DReq n' q' => (n =? n') && req_eqb q q'
  | DFrame f, DFrame f' => frame_eqb f f'
  | _, _ => false
  end.

(* deliveries to different endpoints are read by the harness in a fixed order (downlinks by number, then agents by
   node, then the socket); the model's are sorted the same way before comparing *)
Definition rank (d : delivery) : N :=
  match d with DResp k _ => k | DReq n _ => 1000 + n | DFrame _ => 2000 end.
Fixpoint insert_d (x : delivery) (l : list delivery) : list delivery :=
  match l with [] => [x] | y :: t => if rank x <? rank y then x :: y :: t else y :: insert_d x t end.
Definition sort_d (l : list delivery) : list delivery := fold_right insert_d [] l.

Definition sdcase := (list N * list sop * list (list delivery))%type.     (* plane, operations, observed *)

Definition sd_corr_bad (cs : list (N * sdcase)) : list N :=
  map fst (filter (fun c => let '(plane, ops, outs) := snd c in
                            negb (outs_eqb (outs_eqb delivery_eqb) (map sort_d (srun plane sock0 ops)) outs)) cs).

(* the property oracle on the implementation's deliveries alone, against the specification above (a plain
   registration list, no tables): an arriving response reaches exactly the downlinks owed it, unchanged; an
   arriving request reaches the agent of its node, unchanged, or is answered not-found; nothing else is
   delivered anywhere; what agents and downlinks send leaves the socket unchanged *)
Record ospec := { o_addr : list (N * (N * N)); o_gone : list N; o_routes : list N; o_stopped : bool; o_senders : list N }.
Definition ospec0 : ospec := {| o_addr := []; o_gone := []; o_routes := []; o_stopped := false; o_senders := [] |}.

Definition expected (plane : list N) (s : ospec) (o : sop) : ospec * list delivery :=
  if o_stopped s then (s, []) else
  match o with
  | OAttach d n l => ({| o_addr := o_addr s ++ [(d, (n, l))]; o_gone := o_gone s; o_routes := o_routes s; o_stopped := false; o_senders := o_senders s |}, [])
  | ODrop d => ({| o_addr := o_addr s; o_gone := d :: o_gone s; o_routes := o_routes s; o_stopped := false; o_senders := o_senders s |}, [])
  | OInResp p =>
      (s, map (fun d => DResp d p)
              (map fst (filter (fun da => (fst (snd da) =? p_node p) && (snd (snd da) =? p_lane p) && negb (memN (fst da) (o_gone s)))
                               (o_addr s))))
  | OInReq q =>
      if memN (q_node q) plane
      then ({| o_addr := o_addr s; o_gone := o_gone s;
              o_routes := if memN (q_node q) (o_routes s) then o_routes s else o_routes s ++ [q_node q]; o_stopped := false; o_senders := o_senders s |},
            [DReq (q_node q) q])
      else (s, match q_kind q with QCommand => [] | _ => [DFrame (FNotFound (q_node q) (q_lane q))] end)
  | OInBad => ({| o_addr := o_addr s; o_gone := o_gone s; o_routes := o_routes s; o_stopped := true; o_senders := o_senders s |}, [])
  | OAgentSend n p => (s, if memN n (o_routes s) then [DFrame (FResp p)] else [])
  | ODlSend d q =>
      (s, if (memN d (map fst (o_addr s)) || memN d (o_senders s)) && negb (memN d (o_gone s)) then [DFrame (FReq q)] else [])
  | OAttachSender d =>
      ({| o_addr := o_addr s; o_gone := o_gone s; o_routes := o_routes s; o_stopped := false; o_senders := d :: o_senders s |}, [])
  end.

Fixpoint spec_run (plane : list N) (s : ospec) (ops : list sop) : list (list delivery) :=
  match ops with [] => [] | o :: t => let (s', out) := expected plane s o in out :: spec_run plane s' t end.

Fixpoint spec_ok (plane : list N) (s : ospec) (ops : list sop) (outs : list (list delivery)) : bool :=
  match ops, outs with
  | [], [] => true
  | o :: ops', out :: outs' =>
      let (s', e) := expected plane s o in
      outs_eqb delivery_eqb (sort_d e) out && spec_ok plane s' ops' outs'
  | _, _ => false
  end.

Definition sd_oracle_bad (cs : list (N * sdcase)) : list N :=
  map fst (filter (fun c => let '(plane, ops, outs) := snd c in negb (spec_ok plane ospec0 ops outs)) cs).
