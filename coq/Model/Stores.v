(* Model of the two persistence back-ends behind api/swimos_api/src/persistence.rs:
     server/swimos_server_app/src/in_memory_store/mod.rs      (InMemoryPlanePersistence)
     runtime/swimos_rocks_store/src/{server,plane,agent,engine} (StoreKey layout, KeyStore,
       SwimPlaneStore / SwimNodeStore / StoreWrapper over RocksDB)
   and of the specification both are meant to implement: a mapping from (agent URI, item name) to
   either one value or a key -> value map.
   RocksDB is modelled as three keyspaces: "lane" (counter + name -> id, numbers kept abstract, the
   varint coding is trusted), "value" and "map" as finite maps from byte strings to byte strings
   with ordered-key operations (seek + prefix_same_as_start over the fixed 8-byte prefix extractor,
   half-open delete_range). *)
From Coq Require Export List Bool Arith NArith Lia.
Export ListNotations.
Open Scope N_scope.

Definition bytes := list N.

Fixpoint bytes_eqb (a b : bytes) : bool :=
  match a, b with
  | [], [] => true
  | x :: a', y :: b' => (x =? y) && bytes_eqb a' b'
  | _, _ => false
  end.

(* lexicographic order on byte strings: a <= b *)
Fixpoint ble (a b : bytes) : bool :=
  match a, b with
  | [], _ => true
  | _ :: _, [] => false
  | x :: a', y :: b' => if x <? y then true else if y <? x then false else ble a' b'
  end.
Definition blt (a b : bytes) : bool := ble a b && negb (bytes_eqb a b).

(* association lists keyed by byte strings *)
Fixpoint bget {A} (k : bytes) (m : list (bytes * A)) : option A :=
  match m with
  | [] => None
  | (k', v) :: t => if bytes_eqb k k' then Some v else bget k t
  end.
Fixpoint bput {A} (k : bytes) (v : A) (m : list (bytes * A)) : list (bytes * A) :=
  match m with
  | [] => [(k, v)]
  | (k', v') :: t => if bytes_eqb k k' then (k, v) :: t else (k', v') :: bput k v t
  end.
Fixpoint bdel {A} (k : bytes) (m : list (bytes * A)) : list (bytes * A) :=
  match m with
  | [] => []
  | (k', v') :: t => if bytes_eqb k k' then t else (k', v') :: bdel k t
  end.

(* sorted insertion, to present maps in a canonical order *)
Fixpoint sorted_insert (kv : bytes * bytes) (l : list (bytes * bytes)) : list (bytes * bytes) :=
  match l with
  | [] => [kv]
  | h :: t => if ble (fst kv) (fst h) then kv :: l else h :: sorted_insert kv t
  end.
Definition sort_kv (l : list (bytes * bytes)) : list (bytes * bytes) := fold_right sorted_insert [] l.

(* ------------------------------------------------------------------------------------------ *)
(* The specification *)

Inductive content := CVal (v : bytes) | CMap (m : list (bytes * bytes)).

Definition item_key := (bytes * bytes)%type.            (* agent uri, item name *)
Definition ikey_eqb (a b : item_key) : bool := bytes_eqb (fst a) (fst b) && bytes_eqb (snd a) (snd b).

Fixpoint sget (k : item_key) (s : list (item_key * content)) : option content :=
  match s with
  | [] => None
  | (k', c) :: t => if ikey_eqb k k' then Some c else sget k t
  end.
Fixpoint sput (k : item_key) (c : content) (s : list (item_key * content)) :=
  match s with
  | [] => [(k, c)]
  | (k', c') :: t => if ikey_eqb k k' then (k, c) :: t else (k', c') :: sput k c t
  end.
Fixpoint sdel (k : item_key) (s : list (item_key * content)) :=
  match s with
  | [] => []
  | (k', c') :: t => if ikey_eqb k k' then t else (k', c') :: sdel k t
  end.

Inductive sop :=
| GetValue (a n : bytes) | PutValue (a n v : bytes) | DeleteValue (a n : bytes)
| UpdateMap (a n k v : bytes) | RemoveMap (a n k : bytes) | ClearMap (a n : bytes) | ReadMap (a n : bytes)
| Open (a : bytes) | Close (a : bytes) | Reopen.

Inductive sres :=
| RUnit | RVal (v : option bytes) | REntries (m : list (bytes * bytes)) | RInvalid | RSkipped.

(* the specification: kinds never mix on one item in the generated histories; an operation of the
   wrong kind is InvalidOperation in the in-memory store and unspecified for RocksDB *)
Definition spec := list (item_key * content).

Definition spec_step (s : spec) (o : sop) : spec * sres :=
  match o with
  | GetValue a n =>
      match sget (a, n) s with
      | Some (CVal v) => (s, RVal (Some v))
      | Some (CMap _) => (s, RInvalid)
      | None => (s, RVal None)
      end
  | PutValue a n v =>
      match sget (a, n) s with
      | Some (CMap _) => (s, RInvalid)
      | _ => (sput (a, n) (CVal v) s, RUnit)
      end
  | DeleteValue a n =>
      match sget (a, n) s with
      | Some (CMap _) => (s, RInvalid)
      | _ => (sdel (a, n) s, RUnit)
      end
  | UpdateMap a n k v =>
      match sget (a, n) s with
      | Some (CVal _) => (s, RInvalid)
      | Some (CMap m) => (sput (a, n) (CMap (bput k v m)) s, RUnit)
      | None => (sput (a, n) (CMap [(k, v)]) s, RUnit)
      end
  | RemoveMap a n k =>
      match sget (a, n) s with
      | Some (CVal _) => (s, RInvalid)
      | Some (CMap m) => (sput (a, n) (CMap (bdel k m)) s, RUnit)
      | None => (s, RUnit)
      end
  | ClearMap a n =>
      match sget (a, n) s with
      | Some (CVal _) => (s, RInvalid)
      | _ => (sdel (a, n) s, RUnit)
      end
  | ReadMap a n =>
      match sget (a, n) s with
      | Some (CVal _) => (s, RInvalid)
      | Some (CMap m) => (s, REntries (sort_kv m))
      | None => (s, REntries [])
      end
  | Open _ | Close _ | Reopen => (s, RUnit)
  end.

(* ------------------------------------------------------------------------------------------ *)
(* In-memory store *)

Fixpoint nget {A} (k : N) (m : list (N * A)) : option A :=
  match m with [] => None | (k', v) :: t => if k =? k' then Some v else nget k t end.
Fixpoint nput {A} (k : N) (v : A) (m : list (N * A)) : list (N * A) :=
  match m with
  | [] => [(k, v)]
  | (k', v') :: t => if k =? k' then (k, v) :: t else (k', v') :: nput k v t
  end.
Fixpoint ndel {A} (k : N) (m : list (N * A)) : list (N * A) :=
  match m with [] => [] | (k', v') :: t => if k =? k' then t else (k', v') :: ndel k t end.

Record node_state := {
  ids : list (bytes * N); counter : N;
  values : list (N * bytes);
  maps : list (N * list (bytes * bytes))
}.
Definition node0 : node_state := {| ids := []; counter := 0; values := []; maps := [] |}.

Definition mem_id_for (st : node_state) (name : bytes) : node_state * N :=
  match bget name (ids st) with
  | Some id => (st, id)
  | None => ({| ids := bput name (counter st) (ids st); counter := counter st + 1;
                values := values st; maps := maps st |}, counter st)
  end.

Definition with_vm (st : node_state) v m : node_state :=
  {| ids := ids st; counter := counter st; values := v; maps := m |}.

Definition has {A} (k : N) (m : list (N * A)) : bool := match nget k m with Some _ => true | None => false end.

(* one NodePersistence call (after id_for) *)
Definition mem_call (st : node_state) (id : N) (o : sop) : node_state * sres :=
  match o with
  | GetValue _ _ =>
      match nget id (values st) with
      | Some v => (st, RVal (Some v))
      | None => if has id (maps st) then (st, RInvalid) else (st, RVal None)
      end
  | PutValue _ _ v =>
      if has id (values st) then (with_vm st (nput id v (values st)) (maps st), RUnit)
      else if has id (maps st) then (st, RInvalid)
      else (with_vm st (nput id v (values st)) (maps st), RUnit)
  | DeleteValue _ _ =>
      if has id (values st) then (with_vm st (ndel id (values st)) (maps st), RUnit)
      else if has id (maps st) then (st, RInvalid) else (st, RUnit)
  | UpdateMap _ _ k v =>
      match nget id (maps st) with
      | Some m => (with_vm st (values st) (nput id (bput k v m) (maps st)), RUnit)
      | None => if has id (values st) then (st, RInvalid)
                else (with_vm st (values st) (nput id [(k, v)] (maps st)), RUnit)
      end
  | RemoveMap _ _ k =>
      match nget id (maps st) with
      | Some m => (with_vm st (values st) (nput id (bdel k m) (maps st)), RUnit)
      | None => if has id (values st) then (st, RInvalid) else (st, RUnit)
      end
  | ClearMap _ _ =>
      if has id (maps st) then (with_vm st (values st) (ndel id (maps st)), RUnit)
      else if has id (values st) then (st, RInvalid) else (st, RUnit)
  | ReadMap _ _ =>
      match nget id (maps st) with
      | Some m => (st, REntries (sort_kv m))
      | None => if has id (values st) then (st, RInvalid) else (st, REntries [])
      end
  | _ => (st, RUnit)
  end.

(* the plane: idle node states, and the node stores currently handed out *)
Record mem_plane := { idle : list (bytes * node_state); open_nodes : list (bytes * node_state) }.
Definition mem0 : mem_plane := {| idle := []; open_nodes := [] |}.

Definition agent_of (o : sop) : option (bytes * bytes) :=
  match o with
  | GetValue a n | PutValue a n _ | DeleteValue a n | UpdateMap a n _ _ | RemoveMap a n _
  | ClearMap a n | ReadMap a n => Some (a, n)
  | _ => None
  end.

(* outputs carry the id the store returned for the item, too *)
Definition out := (option N * sres)%type.

Definition mem_step (p : mem_plane) (o : sop) : mem_plane * out :=
  match o with
  | Open a =>
      match bget a (open_nodes p) with
      | Some _ => (p, (None, RSkipped))            (* a second request for an agent that is open is abandoned *)
      | None =>
          let st := match bget a (idle p) with Some st => st | None => node0 end in
          ({| idle := bdel a (idle p); open_nodes := bput a st (open_nodes p) |}, (None, RUnit))
      end
  | Close a =>
      match bget a (open_nodes p) with
      | Some st => ({| idle := bput a st (idle p); open_nodes := bdel a (open_nodes p) |}, (None, RUnit))
      | None => (p, (None, RSkipped))
      end
  | Reopen => (p, (None, RSkipped))
  | _ =>
      match agent_of o with
      | Some (a, n) =>
          match bget a (open_nodes p) with
          | Some st =>
              let (st1, id) := mem_id_for st n in
              let (st2, r) := mem_call st1 id o in
              ({| idle := idle p; open_nodes := bput a st2 (open_nodes p) |}, (Some id, r))
          | None => (p, (None, RSkipped))
          end
      | None => (p, (None, RSkipped))
      end
  end.

(* ------------------------------------------------------------------------------------------ *)
(* RocksDB store *)

(* integer_encoding FixedInt::encode_fixed_light of a u64: 8 bytes, little endian *)
Fixpoint le (n : nat) (v : N) : bytes :=
  match n with O => [] | S k => v mod 256 :: le k (v / 256) end.

Definition MAP_TAG : N := 1.  Definition VAL_TAG : N := 0.  Definition KEYB : N := 1.  Definition UBOUND : N := 2.

Definition len (b : bytes) : N := N.of_nat (length b).

Definition ser_value (id : N) : bytes := VAL_TAG :: le 8 id.
Definition ser_map_prefix (id : N) : bytes := MAP_TAG :: le 8 id.
Definition ser_map_key (id : N) (k : bytes) : bytes := MAP_TAG :: le 8 id ++ KEYB :: le 8 (len k) ++ k.
Definition ser_map_ubound (id : N) : bytes := MAP_TAG :: le 8 id ++ [UBOUND].
Definition MAP_KEY_PREFIX_SIZE : nat := 18.

Definition prefix8 (k : bytes) : bytes := firstn 8 k.

(* ReadOptions::prefix_same_as_start + seek: the keys >= seek that share seek's 8-byte prefix *)
Definition seek_prefix (kv : list (bytes * bytes)) (seek : bytes) : list (bytes * bytes) :=
  filter (fun e => ble seek (fst e) && bytes_eqb (prefix8 (fst e)) (prefix8 seek)) kv.

Definition delete_range (kv : list (bytes * bytes)) (lo hi : bytes) : list (bytes * bytes) :=
  filter (fun e => negb (ble lo (fst e) && blt (fst e) hi)) kv.

Record rocks := {
  lane_counter : N;                        (* the persisted "counter" entry *)
  lane_ids : list (bytes * N);             (* the persisted "lane/<node>/<lane>" entries *)
  value_ks : list (bytes * bytes);
  map_ks : list (bytes * bytes);
  mem_count : N;                           (* KeyStore.count (AtomicU64), reloaded by open_plane *)
  open_agents : list bytes
}.
Definition rocks0 : rocks :=
  {| lane_counter := 0; lane_ids := []; value_ks := []; map_ks := []; mem_count := 0; open_agents := [] |}.

Definition SLASH : N := 47.
Definition lane_name (a n : bytes) : bytes := a ++ SLASH :: n.     (* format!("{}/{}", node, lane) *)

Definition rocks_id_for (r : rocks) (a n : bytes) : rocks * N :=
  let name := lane_name a n in
  match bget name (lane_ids r) with
  | Some id => (r, id)
  | None =>
      let id := mem_count r + 1 in
      ({| lane_counter := lane_counter r + 1; lane_ids := bput name id (lane_ids r);
          value_ks := value_ks r; map_ks := map_ks r; mem_count := mem_count r + 1;
          open_agents := open_agents r |}, id)
  end.

Definition with_ks (r : rocks) v m : rocks :=
  {| lane_counter := lane_counter r; lane_ids := lane_ids r; value_ks := v; map_ks := m;
     mem_count := mem_count r; open_agents := open_agents r |}.

Definition strip (e : bytes * bytes) : bytes * bytes := (skipn MAP_KEY_PREFIX_SIZE (fst e), snd e).

Definition rocks_call (r : rocks) (id : N) (o : sop) : rocks * sres :=
  match o with
  | GetValue _ _ => (r, RVal (bget (ser_value id) (value_ks r)))
  | PutValue _ _ v => (with_ks r (bput (ser_value id) v (value_ks r)) (map_ks r), RUnit)
  | DeleteValue _ _ => (with_ks r (bdel (ser_value id) (value_ks r)) (map_ks r), RUnit)
  | UpdateMap _ _ k v => (with_ks r (value_ks r) (bput (ser_map_key id k) v (map_ks r)), RUnit)
  | RemoveMap _ _ k => (with_ks r (value_ks r) (bdel (ser_map_key id k) (map_ks r)), RUnit)
  | ClearMap _ _ =>
      (with_ks r (value_ks r) (delete_range (map_ks r) (ser_map_prefix id) (ser_map_ubound id)), RUnit)
  | ReadMap _ _ => (r, REntries (sort_kv (map strip (seek_prefix (map_ks r) (ser_map_prefix id)))))
  | _ => (r, RUnit)
  end.

Definition mem_b (a : bytes) (l : list bytes) : bool := existsb (bytes_eqb a) l.

Definition rocks_step (r : rocks) (o : sop) : rocks * out :=
  match o with
  | Open a =>
      if mem_b a (open_agents r) then (r, (None, RSkipped))
      else ({| lane_counter := lane_counter r; lane_ids := lane_ids r; value_ks := value_ks r;
               map_ks := map_ks r; mem_count := mem_count r; open_agents := a :: open_agents r |},
            (None, RUnit))
  | Close a =>
      if mem_b a (open_agents r) then
        ({| lane_counter := lane_counter r; lane_ids := lane_ids r; value_ks := value_ks r;
            map_ks := map_ks r; mem_count := mem_count r;
            open_agents := filter (fun x => negb (bytes_eqb a x)) (open_agents r) |}, (None, RUnit))
      else (r, (None, RSkipped))
  | Reopen =>
      (* close the database and open the plane again: the in-memory count is re-read *)
      ({| lane_counter := lane_counter r; lane_ids := lane_ids r; value_ks := value_ks r;
          map_ks := map_ks r; mem_count := lane_counter r; open_agents := [] |}, (None, RUnit))
  | _ =>
      match agent_of o with
      | Some (a, n) =>
          if mem_b a (open_agents r) then
            let (r1, id) := rocks_id_for r a n in
            let (r2, res) := rocks_call r1 id o in (r2, (Some id, res))
          else (r, (None, RSkipped))
      | None => (r, (None, RSkipped))
      end
  end.

(* ------------------------------------------------------------------------------------------ *)
(* running and comparing *)

Fixpoint run {S} (step : S -> sop -> S * out) (s : S) (ops : list sop) : list out :=
  match ops with
  | [] => []
  | o :: rest => let (s', r) := step s o in r :: run step s' rest
  end.

Fixpoint kv_eqb (a b : list (bytes * bytes)) : bool :=
  match a, b with
  | [], [] => true
  | (k, v) :: a', (k', v') :: b' => bytes_eqb k k' && bytes_eqb v v' && kv_eqb a' b'
  | _, _ => false
  end.

Definition sres_eqb (a b : sres) : bool :=
  match a, b with
  | RUnit, RUnit | RInvalid, RInvalid | RSkipped, RSkipped => true
  | RVal None, RVal None => true
  | RVal (Some x), RVal (Some y) => bytes_eqb x y
  | REntries x, REntries y => kv_eqb x y
  | _, _ => false
  end.

Definition out_eqb (a b : out) : bool :=
  match a, b with
  | (None, x), (None, y) => sres_eqb x y
  | (Some i, x), (Some j, y) => (i =? j) && sres_eqb x y
  | _, _ => false
  end.

Fixpoint outs_eqb (a b : list out) : bool :=
  match a, b with
  | [], [] => true
  | x :: a', y :: b' => out_eqb x y && outs_eqb a' b'
  | _, _ => false
  end.

(* a case: which back-end, the history, the implementation's outputs *)
Definition scase := (bool * list sop * list out)%type.       (* true = RocksDB *)

Definition corr_bad (cs : list (N * scase)) : list N :=
  map fst (filter (fun c => match snd c with
                            | (true, ops, outs) => negb (outs_eqb (run rocks_step rocks0 ops) outs)
                            | (false, ops, outs) => negb (outs_eqb (run mem_step mem0 ops) outs)
                            end) cs).

(* Oracle: the implementation's answers, with ids erased, are the specification's answers for the
   operations that were executed (not Skipped); and the ids it handed out are stable per (agent,
   item) and distinct for distinct pairs. *)
Fixpoint spec_run (s : spec) (ops : list sop) (outs : list out) (seen : list (item_key * N)) : bool :=
  match ops, outs with
  | [], [] => true
  | o :: ops', (oid, r) :: outs' =>
      match r with
      | RSkipped => spec_run s ops' outs' seen
      | _ =>
          let (s', expect) := spec_step s o in
          let ids_ok :=
            match agent_of o, oid with
            | Some k, Some id =>
                match sget k (map (fun e => (fst e, CVal [snd e])) seen) with
                | Some (CVal [id']) => id =? id'
                | _ => (* a new item: its id must be new among the items of the same agent *)
                    negb (existsb (fun e => bytes_eqb (fst (fst e)) (fst k) && (snd e =? id)) seen)
                end
            | None, None => true
            | _, _ => false
            end in
          let seen' := match agent_of o, oid with
                       | Some k, Some id => if existsb (fun e => ikey_eqb k (fst e)) seen then seen else (k, id) :: seen
                       | _, _ => seen
                       end in
          sres_eqb r expect && ids_ok && spec_run s' ops' outs' seen'
      end
  | _, _ => false
  end.

(* Known class (C13-F1): two distinct (agent, item) pairs whose "<agent>/<item>" names coincide *)
Fixpoint pairs_of (ops : list sop) : list item_key :=
  match ops with
  | [] => []
  | o :: t => match agent_of o with Some k => k :: pairs_of t | None => pairs_of t end
  end.
Definition name_collision (ops : list sop) : bool :=
  let ps := pairs_of ops in
  existsb (fun p => existsb (fun q => negb (ikey_eqb p q) &&
                                      bytes_eqb (lane_name (fst p) (snd p)) (lane_name (fst q) (snd q))) ps) ps.

Definition oracle_bad (cs : list (N * scase)) : list N :=
  map fst (filter (fun c => match snd c with (is_rocks, ops, outs) =>
                     negb (spec_run [] ops outs []) && negb (is_rocks && name_collision ops) end) cs).

Definition known_hits (cs : list (N * scase)) : list N :=
  map fst (filter (fun c => match snd c with (is_rocks, ops, outs) =>
                     negb (spec_run [] ops outs []) && (is_rocks && name_collision ops) end) cs).

(* ------------------------------------------------------------------------------------------ *)
(* A process killed between two writes (RocksDB).  An operation on an item writes, in order: for a name that has
   no identifier yet the counter (merge +1) and then the name's entry; then the operation's own entry.  [Kill k o]:
   [o] is carried out until [k] writes have been made, no further write reaches the database, and the database is
   closed and opened again (the identifier counter in memory is re-read from the stored one). *)
Inductive hop := HOp (o : sop) | HKill (k : N) (o : sop).

Definition with_lane (r : rocks) (c : N) (ids : list (bytes * N)) : rocks :=
  {| lane_counter := c; lane_ids := ids; value_ks := value_ks r; map_ks := map_ks r;
     mem_count := mem_count r; open_agents := open_agents r |}.

Definition rocks_partial (r : rocks) (k : N) (o : sop) : rocks :=
  match agent_of o with
  | Some (a, n) =>
      if mem_b a (open_agents r) then
        let name := lane_name a n in
        match bget name (lane_ids r) with
        | Some id => if 1 <=? k then fst (rocks_call r id o) else r
        | None =>
            let id := mem_count r + 1 in
            let r1 := if 1 <=? k then with_lane r (lane_counter r + 1) (lane_ids r) else r in
            let r2 := if 2 <=? k then with_lane r1 (lane_counter r1) (bput name id (lane_ids r1)) else r1 in
            if 3 <=? k then fst (rocks_call r2 id o) else r2
        end
      else r
  | None => r
  end.

Definition rocks_kill (r : rocks) (k : N) (o : sop) : rocks := fst (rocks_step (rocks_partial r k o) Reopen).

Definition rocks_hstep (r : rocks) (h : hop) : rocks * out :=
  match h with
  | HOp o => rocks_step r o
  | HKill k o => (rocks_kill r k o, (None, RSkipped))
  end.

Fixpoint hrun (r : rocks) (hs : list hop) : list out :=
  match hs with
  | [] => []
  | h :: rest => let (r', o) := rocks_hstep r h in o :: hrun r' rest
  end.

Definition kcase := (list hop * list out)%type.

Definition kill_corr_bad (cs : list (N * kcase)) : list N :=
  map fst (filter (fun c => negb (outs_eqb (hrun rocks0 (fst (snd c))) (snd (snd c)))) cs).

(* the oracle on the implementation's answers alone: the identifiers it handed out over the whole history, kills
   included, are one per name and never shared by two names *)
Fixpoint named_ids (hs : list hop) (outs : list out) : list (bytes * N) :=
  match hs, outs with
  | HOp o :: hs', (Some id, _) :: outs' =>
      match agent_of o with
      | Some (a, n) => (lane_name a n, id) :: named_ids hs' outs'
      | None => named_ids hs' outs'
      end
  | _ :: hs', _ :: outs' => named_ids hs' outs'
  | _, _ => []
  end.

Definition ids_consistent (l : list (bytes * N)) : bool :=
  forallb (fun p => forallb (fun q => Bool.eqb (bytes_eqb (fst p) (fst q)) (snd p =? snd q)) l) l.

Definition kill_oracle_bad (cs : list (N * kcase)) : list N :=
  map fst (filter (fun c => negb (ids_consistent (named_ids (fst (snd c)) (snd (snd c))))) cs).

(* the oracle on the contents, for histories in which the process is only ever killed outright, after every
   operation so far has been acknowledged ([HKill 0 Reopen]): with the identifiers erased the answers are the
   specification's, i.e. every acknowledged operation is still there after the kill *)
Definition only_outright (hs : list hop) : bool :=
  forallb (fun h => match h with HOp _ => true | HKill 0 Reopen => true | HKill _ _ => false end) hs.
Definition as_sop (h : hop) : sop := match h with HOp o => o | HKill _ _ => Reopen end.
Definition kill_spec_bad (cs : list (N * kcase)) : list N :=
  map fst (filter (fun c => only_outright (fst (snd c)) &&
                            negb (spec_run [] (map as_sop (fst (snd c))) (snd (snd c)) [])) cs).
