(* Model of the write side of the agent runtime, from lane responses to notification frames:
     runtime/swimos_runtime/src/agent/task/remotes/uplink/mod.rs   Uplinks (per-remote queues, writer hand-off)
     runtime/swimos_runtime/src/agent/task/remotes/mod.rs          RemoteTracker
     runtime/swimos_runtime/src/agent/task/write_fut/mod.rs        WriteTask / perform_write
     runtime/swimos_runtime/src/agent/task/mod.rs                  WriteTaskState: link / unlink / unknown lane,
                                                                    handle_event, replace, remove_lane, unlink_all,
                                                                    remove_remote
   Lanes are numbers 0..; lane l is called "l<l>".  Remotes are numbers.  A value / supply event body
   is a byte string (possibly empty: the Recon text of Extant); a map event is an [entry] of
   Model/MapQueue (the body on the wire is its Recon rendering, parsed back by the harness).  Links is
   abstracted to the set of (lane, remote) pairs it represents (its own bookkeeping is C20's subject). *)
From SwimV Require Export Model.MapQueue.
Open Scope N_scope.

Definition body := list N.

Inductive kind := KValue | KSupply | KMap.
Definition kind_eqb (a b : kind) : bool :=
  match a, b with KValue, KValue | KSupply, KSupply | KMap, KMap => true | _, _ => false end.

Inductive resp := RSynced (k : kind) | RValue (b : body) | RSupply (b : body) | RMap (e : entry).

(* unlinked messages: 0 = "Link closed." (unlink request), 1 = no message (lane removed / agent stop) *)
Inductive special := SLinked (lane : N) | SUnlinked (lane msg : N) | SLaneNotFound (name : N).

Inductive waction :=
| WEvent (b : body)                       (* value / supply event *)
| WMapEvent (e : option entry)            (* map event: the head of the queue; None = an empty buffer *)
| WValueSynced (send : bool) (b : body)
| WMapSynced (q : option queue)
| WSpecial (a : special).

(* a write task: the lane the sender was pointed at, and the action *)
Record wtask := { wt_lane : N; wt_action : waction }.

(* what goes on the wire *)
Inductive frame :=
| FLinked (lane : N) | FSynced (lane : N) | FUnlinked (lane msg : N) | FNotFound (name : N)
| FEvent (lane : N) (b : body) | FMapEvent (lane : N) (e : option entry).

Fixpoint drain_queue (fuel : nat) (q : queue) : list entry :=
  match fuel with
  | O => []
  | S f => match pop q with (q', Some e) => e :: drain_queue f q' | (_, None) => [] end
  end.

Definition frames_of (t : wtask) : list frame :=
  let l := wt_lane t in
  match wt_action t with
  | WEvent b => [FEvent l b]
  | WMapEvent e => [FMapEvent l e]
  | WValueSynced send b => (if send then [FEvent l b] else []) ++ [FSynced l]
  | WMapSynced None => [FSynced l]
  | WMapSynced (Some q) => map (fun e => FMapEvent l (Some e)) (drain_queue (length (events q)) q) ++ [FSynced l]
  | WSpecial (SLinked _) => [FLinked l]
  | WSpecial (SUnlinked _ m) => [FUnlinked l m]
  | WSpecial (SLaneNotFound n) => [FNotFound n]
  end.

(* ------------------------------------------------------------------------------------------ *)
(* Uplinks *)
Record uv := { uv_queued : bool; uv_synced : bool; uv_cur : body }.
Record us := { us_queued : bool; us_synced : bool; us_buf : list body }.
Record um := { um_queued : bool; um_synced : bool; um_q : queue }.
Definition uv0 : uv := {| uv_queued := false; uv_synced := false; uv_cur := [] |}.
Definition us0 : us := {| us_queued := false; us_synced := false; us_buf := [] |}.
Definition um0 : um := {| um_queued := false; um_synced := false; um_q := empty_at 0 |}.

Record uplinks := {
  u_writer : bool;                      (* the sender is here (not lent to a write task) *)
  u_values : list (N * uv);
  u_supplies : list (N * us);
  u_maps : list (N * um);
  u_wq : list (kind * N);
  u_sq : list special
}.
Definition uplinks0 : uplinks :=
  {| u_writer := true; u_values := []; u_supplies := []; u_maps := []; u_wq := []; u_sq := [] |}.

Fixpoint aget {A} (k : N) (m : list (N * A)) : option A :=
  match m with [] => None | (k', v) :: t => if k =? k' then Some v else aget k t end.
Fixpoint aput {A} (k : N) (v : A) (m : list (N * A)) : list (N * A) :=
  match m with [] => [(k, v)] | (k', v') :: t => if k =? k' then (k, v) :: t else (k', v') :: aput k v t end.
Fixpoint adel {A} (k : N) (m : list (N * A)) : list (N * A) :=
  match m with [] => [] | (k', v') :: t => if k =? k' then t else (k', v') :: adel k t end.
Definition aget_or {A} (d : A) (k : N) (m : list (N * A)) : A := match aget k m with Some v => v | None => d end.

Definition special_lane (a : special) : N :=
  match a with SLinked l => l | SUnlinked l _ => l | SLaneNotFound n => n end.

Definition push_special (u : uplinks) (a : special) : uplinks * option wtask :=
  if u_writer u then
    ({| u_writer := false; u_values := u_values u; u_supplies := u_supplies u; u_maps := u_maps u;
        u_wq := u_wq u; u_sq := u_sq u |},
     Some {| wt_lane := special_lane a; wt_action := WSpecial a |})
  else
    let '(vs, ss, ms) :=
      match a with
      | SUnlinked l _ => (adel l (u_values u), adel l (u_supplies u), adel l (u_maps u))
      | _ => (u_values u, u_supplies u, u_maps u)
      end in
    ({| u_writer := false; u_values := vs; u_supplies := ss; u_maps := ms; u_wq := u_wq u;
        u_sq := u_sq u ++ [a] |}, None).

Definition enqueue (queued : bool) (k : kind) (l : N) (wq : list (kind * N)) : list (kind * N) :=
  if queued then wq else wq ++ [(k, l)].

Definition push_resp (u : uplinks) (l : N) (r : resp) : uplinks * option wtask :=
  if u_writer u then
    ({| u_writer := false; u_values := u_values u; u_supplies := u_supplies u; u_maps := u_maps u;
        u_wq := u_wq u; u_sq := u_sq u |},
     Some {| wt_lane := l;
             wt_action := match r with
                          | RSynced KMap => WMapSynced None
                          | RSynced _ => WValueSynced false []
                          | RValue b | RSupply b => WEvent b
                          | RMap e => WMapEvent (Some e)
                          end |})
  else
    match r with
    | RValue b =>
        let x := aget_or uv0 l (u_values u) in
        ({| u_writer := false;
            u_values := aput l {| uv_queued := true; uv_synced := uv_synced x; uv_cur := b |} (u_values u);
            u_supplies := u_supplies u; u_maps := u_maps u;
            u_wq := enqueue (uv_queued x) KValue l (u_wq u); u_sq := u_sq u |}, None)
    | RSupply b =>
        let x := aget_or us0 l (u_supplies u) in
        ({| u_writer := false; u_values := u_values u;
            u_supplies := aput l {| us_queued := true; us_synced := us_synced x; us_buf := us_buf x ++ [b] |} (u_supplies u);
            u_maps := u_maps u;
            u_wq := enqueue (us_queued x) KSupply l (u_wq u); u_sq := u_sq u |}, None)
    | RMap e =>
        let x := aget_or um0 l (u_maps u) in
        ({| u_writer := false; u_values := u_values u; u_supplies := u_supplies u;
            u_maps := aput l {| um_queued := true; um_synced := um_synced x; um_q := push (um_q x) e false |} (u_maps u);
            u_wq := enqueue (um_queued x) KMap l (u_wq u); u_sq := u_sq u |}, None)
    | RSynced KValue =>
        let x := aget_or uv0 l (u_values u) in
        ({| u_writer := false;
            u_values := aput l {| uv_queued := true; uv_synced := true; uv_cur := uv_cur x |} (u_values u);
            u_supplies := u_supplies u; u_maps := u_maps u;
            u_wq := enqueue (uv_queued x) KValue l (u_wq u); u_sq := u_sq u |}, None)
    | RSynced KSupply =>
        let x := aget_or us0 l (u_supplies u) in
        ({| u_writer := false; u_values := u_values u;
            u_supplies := aput l {| us_queued := true; us_synced := true; us_buf := us_buf x |} (u_supplies u);
            u_maps := u_maps u;
            u_wq := enqueue (us_queued x) KSupply l (u_wq u); u_sq := u_sq u |}, None)
    | RSynced KMap =>
        let x := aget_or um0 l (u_maps u) in
        ({| u_writer := false; u_values := u_values u; u_supplies := u_supplies u;
            u_maps := aput l {| um_queued := true; um_synced := true; um_q := um_q x |} (u_maps u);
            u_wq := enqueue (um_queued x) KMap l (u_wq u); u_sq := u_sq u |}, None)
    end.

Definition nonempty {A} (l : list A) : bool := match l with [] => false | _ => true end.

(* the loop of replace_and_pop over the write queue *)
Fixpoint pop_wq (fuel : nat) (u : uplinks) : uplinks * option wtask :=
  match fuel with
  | O => (u, None)
  | S f =>
      match u_wq u with
      | [] =>
          ({| u_writer := true; u_values := u_values u; u_supplies := u_supplies u; u_maps := u_maps u;
              u_wq := []; u_sq := u_sq u |}, None)
      | (KValue, l) :: rest =>
          match aget l (u_values u) with
          | Some x =>
              ({| u_writer := false;
                  u_values := aput l {| uv_queued := false; uv_synced := false; uv_cur := [] |} (u_values u);
                  u_supplies := u_supplies u; u_maps := u_maps u; u_wq := rest; u_sq := u_sq u |},
               Some {| wt_lane := l;
                       wt_action := if uv_synced x then WValueSynced true (uv_cur x)
                                    else WEvent (uv_cur x) |})
          | None =>
              pop_wq f {| u_writer := false; u_values := u_values u; u_supplies := u_supplies u;
                          u_maps := u_maps u; u_wq := rest; u_sq := u_sq u |}
          end
      | (KSupply, l) :: rest =>
          match aget l (u_supplies u) with
          | Some x =>
              let had_data := nonempty (us_buf x) in
              let b := hd [] (us_buf x) in
              let buf' := tl (us_buf x) in
              let more := nonempty buf' in
              let u' := {| u_writer := false; u_values := u_values u;
                           u_supplies := aput l {| us_queued := more; us_synced := false; us_buf := buf' |} (u_supplies u);
                           u_maps := u_maps u;
                           u_wq := if more then rest ++ [(KSupply, l)] else rest; u_sq := u_sq u |} in
              if us_synced x then (u', Some {| wt_lane := l; wt_action := WValueSynced had_data b |})
              else if had_data then (u', Some {| wt_lane := l; wt_action := WEvent b |})
              else pop_wq f u'
          | None =>
              pop_wq f {| u_writer := false; u_values := u_values u; u_supplies := u_supplies u;
                          u_maps := u_maps u; u_wq := rest; u_sq := u_sq u |}
          end
      | (KMap, l) :: rest =>
          match aget l (u_maps u) with
          | Some x =>
              if um_synced x then
                ({| u_writer := false; u_values := u_values u; u_supplies := u_supplies u;
                    u_maps := aput l {| um_queued := false; um_synced := false; um_q := empty_at 0 |} (u_maps u);
                    u_wq := rest; u_sq := u_sq u |},
                 Some {| wt_lane := l; wt_action := WMapSynced (Some (um_q x)) |})
              else
                let (q', head) := pop (um_q x) in
                let more := nonempty (events q') in
                ({| u_writer := false; u_values := u_values u; u_supplies := u_supplies u;
                    u_maps := aput l {| um_queued := more; um_synced := false; um_q := q' |} (u_maps u);
                    u_wq := if more then rest ++ [(KMap, l)] else rest; u_sq := u_sq u |},
                 Some {| wt_lane := l; wt_action := WMapEvent head |})
          | None =>
              pop_wq f {| u_writer := false; u_values := u_values u; u_supplies := u_supplies u;
                          u_maps := u_maps u; u_wq := rest; u_sq := u_sq u |}
          end
      end
  end.

Definition replace_and_pop (u : uplinks) : uplinks * option wtask :=
  match u_sq u with
  | a :: rest =>
      ({| u_writer := false; u_values := u_values u; u_supplies := u_supplies u; u_maps := u_maps u;
          u_wq := u_wq u; u_sq := rest |},
       Some {| wt_lane := special_lane a; wt_action := WSpecial a |})
  | [] => pop_wq (S (length (u_wq u))) u
  end.

(* ------------------------------------------------------------------------------------------ *)
(* WriteTaskState *)
Record wstate := {
  w_nlanes : N;                              (* lanes 0 .. nlanes-1 are registered *)
  w_remotes : list (N * uplinks);
  w_links : list (N * N);                    (* (lane, remote) *)
  w_inflight : list (N * wtask)              (* the write in progress of each remote (harness-held) *)
}.
Definition wstate0 (nlanes : N) : wstate :=
  {| w_nlanes := nlanes; w_remotes := []; w_links := []; w_inflight := [] |}.

Definition pair_eqb (a b : N * N) : bool := (fst a =? fst b) && (snd a =? snd b).
Fixpoint linked (l r : N) (ls : list (N * N)) : bool :=
  match ls with [] => false | p :: t => pair_eqb p (l, r) || linked l r t end.
Definition link_add (l r : N) (ls : list (N * N)) : list (N * N) := if linked l r ls then ls else ls ++ [(l, r)].
Definition link_del (l r : N) (ls : list (N * N)) : list (N * N) := filter (fun p => negb (pair_eqb p (l, r))) ls.

Inductive wop :=
| OAddRemote (r : N)
| OLink (r name : N) | OUnlink (r name : N) | OUnknown (r name : N)
| OEvent (lane : N) (target : option N) (rs : resp)
| ODone (r : N)
| ORemoveLane (lane : N) | OUnlinkAll | ORemoveRemote (r : N).

(* a started write is recorded as in flight; by construction a remote has at most one *)
Definition start (w : wstate) (r : N) (t : option wtask) : wstate :=
  match t with
  | Some t => {| w_nlanes := w_nlanes w; w_remotes := w_remotes w; w_links := w_links w;
                 w_inflight := aput r t (w_inflight w) |}
  | None => w
  end.

Definition with_remote (w : wstate) (r : N) (f : uplinks -> uplinks * option wtask) : wstate :=
  match aget r (w_remotes w) with
  | Some u =>
      let (u', t) := f u in
      start {| w_nlanes := w_nlanes w; w_remotes := aput r u' (w_remotes w); w_links := w_links w;
               w_inflight := w_inflight w |} r t
  | None => w
  end.

Definition set_links (w : wstate) (ls : list (N * N)) : wstate :=
  {| w_nlanes := w_nlanes w; w_remotes := w_remotes w; w_links := ls; w_inflight := w_inflight w |}.

Definition has_remote (w : wstate) (r : N) : bool := match aget r (w_remotes w) with Some _ => true | None => false end.

Definition wstep (w : wstate) (o : wop) : wstate * list frame :=
  match o with
  | OAddRemote r =>
      ({| w_nlanes := w_nlanes w; w_remotes := aput r uplinks0 (w_remotes w); w_links := w_links w;
          w_inflight := w_inflight w |}, [])
  | OLink r name =>
      if (name <? w_nlanes w) && has_remote w r then
        (with_remote (set_links w (link_add name r (w_links w))) r (fun u => push_special u (SLinked name)), [])
      else (w, [])
  | OUnlink r name =>
      if (name <? w_nlanes w) && linked name r (w_links w) then
        (with_remote (set_links w (link_del name r (w_links w))) r (fun u => push_special u (SUnlinked name 0)), [])
      else (w, [])
  | OUnknown r name => (with_remote w r (fun u => push_special u (SLaneNotFound name)), [])
  | OEvent lane (Some r) rs =>
      if linked lane r (w_links w) then (with_remote w r (fun u => push_resp u lane rs), [])
      else
        let w1 := with_remote (set_links w (link_add lane r (w_links w))) r (fun u => push_special u (SLinked lane)) in
        (with_remote w1 r (fun u => push_resp u lane rs), [])
  | OEvent lane None rs =>
      (fold_left (fun acc p => if fst p =? lane then with_remote acc (snd p) (fun u => push_resp u lane rs) else acc)
                 (w_links w) w, [])
  | ODone r =>
      match aget r (w_inflight w) with
      | Some t =>
          let w1 := {| w_nlanes := w_nlanes w; w_remotes := w_remotes w; w_links := w_links w;
                       w_inflight := adel r (w_inflight w) |} in
          (with_remote w1 r replace_and_pop, frames_of t)
      | None => (w, [])
      end
  | ORemoveLane lane =>
      (fold_left (fun acc p => if fst p =? lane
                               then with_remote acc (snd p) (fun u => push_special u (SUnlinked lane 1)) else acc)
                 (w_links w) (set_links w (filter (fun p => negb (fst p =? lane)) (w_links w))), [])
  | OUnlinkAll =>
      (fold_left (fun acc p => with_remote acc (snd p) (fun u => push_special u (SUnlinked (fst p) 1)))
                 (w_links w) (set_links w []), [])
  | ORemoveRemote r =>
      ({| w_nlanes := w_nlanes w; w_remotes := adel r (w_remotes w);
          w_links := filter (fun p => negb (snd p =? r)) (w_links w); w_inflight := w_inflight w |}, [])
  end.

Fixpoint wrun_u (w : wstate) (ops : list wop) : list (list frame) :=
  match ops with [] => [] | o :: t => let (w', fr) := wstep w o in fr :: wrun_u w' t end.

(* ------------------------------------------------------------------------------------------ *)
(* Correspondence *)
Fixpoint body_eqb (a b : body) : bool :=
  match a, b with [], [] => true | x :: a', y :: b' => (x =? y) && body_eqb a' b' | _, _ => false end.
Definition oentry_eqb (a b : option entry) : bool :=
  match a, b with None, None => true | Some x, Some y => entry_eqb x y | _, _ => false end.
Definition frame_eqb (a b : frame) : bool :=
  match a, b with
  | FLinked l, FLinked l' => l =? l'
  | FSynced l, FSynced l' => l =? l'
  | FUnlinked l m, FUnlinked l' m' => (l =? l') && (m =? m')
  | FNotFound n, FNotFound n' => n =? n'
  | FEvent l b, FEvent l' b' => (l =? l') && body_eqb b b'
  | FMapEvent l e, FMapEvent l' e' => (l =? l') && oentry_eqb e e'
  | _, _ => false
  end.

Definition ucase := (N * list wop * list (list frame))%type.   (* number of lanes, operations, frames per op *)

Definition up_corr_bad (cs : list (N * ucase)) : list N :=
  map fst (filter (fun c => let '(nl, ops, outs) := snd c in
                            negb (outs_eqb (outs_eqb frame_eqb) (wrun_u (wstate0 nl) ops) outs)) cs).

Definition up_oracle_bad (cs : list (N * ucase)) : list N := [].
