(* Model of the write side of the agent runtime, from lane responses to notification frames:
     runtime/swimos_runtime/src/agent/task/remotes/uplink/mod.rs   Uplinks (per-remote queues, writer hand-off)
     runtime/swimos_runtime/src/agent/task/remotes/mod.rs          RemoteTracker
     runtime/swimos_runtime/src/agent/task/write_fut/mod.rs        WriteTask / perform_write
     runtime/swimos_runtime/src/agent/task/mod.rs                  WriteTaskState: link / unlink / unknown lane,
                                                                    handle_event, replace, remove_lane, unlink_all,
                                                                    remove_remote
   Lanes are numbers 0..; lane l is called "l<l>".  Remotes are numbers.  A value / supply event body
   is a byte string (possibly empty: the Recon text of Extant); a map event is an [entry] of
   Model/MapQueue (the body on the wire is its Recon rendering, parsed back by the harness).  Links is
   abstracted to the set of (lane, remote) pairs it represents (its own bookkeeping is C20's subject). *)
From SwimV Require Export Model.MapQueue.
Open Scope N_scope.

Definition body := list N.

Inductive kind := KValue | KSupply | KMap.
Definition kind_eqb (a b : kind) : bool :=
  match a, b with KValue, KValue | KSupply, KSupply | KMap, KMap => true | _, _ => false end.

Inductive resp := RSynced (k : kind) | RValue (b : body) | RSupply (b : body) | RMap (e : entry).

(* unlinked messages: 0 = "Link closed." (unlink request), 1 = no message (lane removed / agent stop) *)
Inductive special := SLinked (lane : N) | SUnlinked (lane msg : N) | SLaneNotFound (name : N).

Inductive waction :=
| WEvent (b : body)                       (* value / supply event *)
| WMapEvent (e : option entry)            (* map event: the head of the queue; None = an empty buffer *)
| WValueSynced (send : bool) (b : body)
| WMapSynced (q : option queue)
| WSpecial (a : special).

(* a write task: the lane the sender was pointed at, and the action *)
Record wtask := { wt_lane : N; wt_action : waction }.

(* what goes on the wire *)
Inductive frame :=
| FLinked (lane : N) | FSynced (lane : N) | FUnlinked (lane msg : N) | FNotFound (name : N)
| FEvent (lane : N) (b : body) | FMapEvent (lane : N) (e : option entry).

Fixpoint drain_queue (fuel : nat) (q : queue) : list entry :=
  match fuel with
  | O => []
  | S f => match pop q with (q', Some e) => e :: drain_queue f q' | (_, None) => [] end
  end.

Definition frames_of (t : wtask) : list frame :=
  let l := wt_lane t in
  match wt_action t with
  | WEvent b => [FEvent l b]
  | WMapEvent e => [FMapEvent l e]
  | WValueSynced send b => (if send then [FEvent l b] else []) ++ [FSynced l]
  | WMapSynced None => [FSynced l]
  | WMapSynced (Some q) => map (fun e => FMapEvent l (Some e)) (drain_queue (length (events q)) q) ++ [FSynced l]
  | WSpecial (SLinked _) => [FLinked l]
  | WSpecial (SUnlinked _ m) => [FUnlinked l m]
  | WSpecial (SLaneNotFound n) => [FNotFound n]
  end.

(* ------------------------------------------------------------------------------------------ *)
(* Uplinks *)
(* uv_cur = Some b: a value is waiting (b may be empty: the Recon text of Extant) *)
Record uv := { uv_queued : bool; uv_synced : bool; uv_cur : option body }.
Record us := { us_queued : bool; us_synced : bool; us_buf : list body }.
Record um := { um_queued : bool; um_synced : bool; um_q : queue }.
Definition uv0 : uv := {| uv_queued := false; uv_synced := false; uv_cur := None |}.
Definition us0 : us := {| us_queued := false; us_synced := false; us_buf := [] |}.
Definition um0 : um := {| um_queued := false; um_synced := false; um_q := empty_at 0 |}.

Record uplinks := {
  u_writer : bool;                      (* the sender is here (not lent to a write task) *)
  u_values : list (N * uv);
  u_supplies : list (N * us);
  u_maps : list (N * um);
  u_wq : list (kind * N);
  u_sq : list special
}.
Definition uplinks0 : uplinks :=
  {| u_writer := true; u_values := []; u_supplies := []; u_maps := []; u_wq := []; u_sq := [] |}.

Fixpoint aget {A} (k : N) (m : list (N * A)) : option A :=
  match m with [] => None | (k', v) :: t => if k =? k' then Some v else aget k t end.
Fixpoint aput {A} (k : N) (v : A) (m : list (N * A)) : list (N * A) :=
  match m with [] => [(k, v)] | (k', v') :: t => if k =? k' then (k, v) :: t else (k', v') :: aput k v t end.
Fixpoint adel {A} (k : N) (m : list (N * A)) : list (N * A) :=
  match m with [] => [] | (k', v') :: t => if k =? k' then adel k t else (k', v') :: adel k t end.
Definition aget_or {A} (d : A) (k : N) (m : list (N * A)) : A := match aget k m with Some v => v | None => d end.

Definition special_lane (a : special) : N :=
  match a with SLinked l => l | SUnlinked l _ => l | SLaneNotFound n => n end.

Definition push_special (u : uplinks) (a : special) : uplinks * option wtask :=
  if u_writer u then
    ({| u_writer := false; u_values := u_values u; u_supplies := u_supplies u; u_maps := u_maps u;
        u_wq := u_wq u; u_sq := u_sq u |},
     Some {| wt_lane := special_lane a; wt_action := WSpecial a |})
  else
    let '(vs, ss, ms) :=
      match a with
      | SUnlinked l _ => (adel l (u_values u), adel l (u_supplies u), adel l (u_maps u))
      | _ => (u_values u, u_supplies u, u_maps u)
      end in
    ({| u_writer := false; u_values := vs; u_supplies := ss; u_maps := ms; u_wq := u_wq u;
        u_sq := u_sq u ++ [a] |}, None).

Definition enqueue (queued : bool) (k : kind) (l : N) (wq : list (kind * N)) : list (kind * N) :=
  if queued then wq else wq ++ [(k, l)].

Definition push_resp (u : uplinks) (l : N) (r : resp) : uplinks * option wtask :=
  if u_writer u then
    ({| u_writer := false; u_values := u_values u; u_supplies := u_supplies u; u_maps := u_maps u;
        u_wq := u_wq u; u_sq := u_sq u |},
     Some {| wt_lane := l;
             wt_action := match r with
                          | RSynced KMap => WMapSynced None
                          | RSynced _ => WValueSynced false []
                          | RValue b | RSupply b => WEvent b
                          | RMap e => WMapEvent (Some e)
                          end |})
  else
    match r with
    | RValue b =>
        let x := aget_or uv0 l (u_values u) in
        ({| u_writer := false;
            u_values := aput l {| uv_queued := true; uv_synced := uv_synced x; uv_cur := Some b |} (u_values u);
            u_supplies := u_supplies u; u_maps := u_maps u;
            u_wq := enqueue (uv_queued x) KValue l (u_wq u); u_sq := u_sq u |}, None)
    | RSupply b =>
        let x := aget_or us0 l (u_supplies u) in
        ({| u_writer := false; u_values := u_values u;
            u_supplies := aput l {| us_queued := true; us_synced := us_synced x; us_buf := us_buf x ++ [b] |} (u_supplies u);
            u_maps := u_maps u;
            u_wq := enqueue (us_queued x) KSupply l (u_wq u); u_sq := u_sq u |}, None)
    | RMap e =>
        let x := aget_or um0 l (u_maps u) in
        ({| u_writer := false; u_values := u_values u; u_supplies := u_supplies u;
            u_maps := aput l {| um_queued := true; um_synced := um_synced x; um_q := push (um_q x) e false |} (u_maps u);
            u_wq := enqueue (um_queued x) KMap l (u_wq u); u_sq := u_sq u |}, None)
    | RSynced KValue =>
        let x := aget_or uv0 l (u_values u) in
        ({| u_writer := false;
            u_values := aput l {| uv_queued := true; uv_synced := true; uv_cur := uv_cur x |} (u_values u);
            u_supplies := u_supplies u; u_maps := u_maps u;
            u_wq := enqueue (uv_queued x) KValue l (u_wq u); u_sq := u_sq u |}, None)
    | RSynced KSupply =>
        let x := aget_or us0 l (u_supplies u) in
        ({| u_writer := false; u_values := u_values u;
            u_supplies := aput l {| us_queued := true; us_synced := true; us_buf := us_buf x |} (u_supplies u);
            u_maps := u_maps u;
            u_wq := enqueue (us_queued x) KSupply l (u_wq u); u_sq := u_sq u |}, None)
    | RSynced KMap =>
        let x := aget_or um0 l (u_maps u) in
        ({| u_writer := false; u_values := u_values u; u_supplies := u_supplies u;
            u_maps := aput l {| um_queued := true; um_synced := true; um_q := um_q x |} (u_maps u);
            u_wq := enqueue (um_queued x) KMap l (u_wq u); u_sq := u_sq u |}, None)
    end.

Definition nonempty {A} (l : list A) : bool := match l with [] => false | _ => true end.

(* the loop of replace_and_pop over the write queue *)
Fixpoint pop_wq (fuel : nat) (u : uplinks) : uplinks * option wtask :=
  match fuel with
  | O => (u, None)
  | S f =>
      match u_wq u with
      | [] =>
          ({| u_writer := true; u_values := u_values u; u_supplies := u_supplies u; u_maps := u_maps u;
              u_wq := []; u_sq := u_sq u |}, None)
      | (KValue, l) :: rest =>
          match aget l (u_values u) with
          | Some x =>
              let u' := {| u_writer := false;
                           u_values := aput l {| uv_queued := false; uv_synced := false; uv_cur := None |} (u_values u);
                           u_supplies := u_supplies u; u_maps := u_maps u; u_wq := rest; u_sq := u_sq u |} in
              match uv_synced x, uv_cur x with
              | true, Some b => (u', Some {| wt_lane := l; wt_action := WValueSynced true b |})
              | true, None => (u', Some {| wt_lane := l; wt_action := WValueSynced false [] |})
              | false, Some b => (u', Some {| wt_lane := l; wt_action := WEvent b |})
              | false, None => pop_wq f u'
              end
          | None =>
              pop_wq f {| u_writer := false; u_values := u_values u; u_supplies := u_supplies u;
                          u_maps := u_maps u; u_wq := rest; u_sq := u_sq u |}
          end
      | (KSupply, l) :: rest =>
          match aget l (u_supplies u) with
          | Some x =>
              let had_data := nonempty (us_buf x) in
              let b := hd [] (us_buf x) in
              let buf' := tl (us_buf x) in
              let more := nonempty buf' in
              let u' := {| u_writer := false; u_values := u_values u;
                           u_supplies := aput l {| us_queued := more; us_synced := false; us_buf := buf' |} (u_supplies u);
                           u_maps := u_maps u;
                           u_wq := if more then rest ++ [(KSupply, l)] else rest; u_sq := u_sq u |} in
              if us_synced x then (u', Some {| wt_lane := l; wt_action := WValueSynced had_data b |})
              else if had_data then (u', Some {| wt_lane := l; wt_action := WEvent b |})
              else pop_wq f u'
          | None =>
              pop_wq f {| u_writer := false; u_values := u_values u; u_supplies := u_supplies u;
                          u_maps := u_maps u; u_wq := rest; u_sq := u_sq u |}
          end
      | (KMap, l) :: rest =>
          match aget l (u_maps u) with
          | Some x =>
              if um_synced x then
                ({| u_writer := false; u_values := u_values u; u_supplies := u_supplies u;
                    u_maps := aput l {| um_queued := false; um_synced := false; um_q := empty_at 0 |} (u_maps u);
                    u_wq := rest; u_sq := u_sq u |},
                 Some {| wt_lane := l; wt_action := WMapSynced (Some (um_q x)) |})
              else
                match pop (um_q x) with
                | (q', Some head) =>
                    let more := nonempty (events q') in
                    ({| u_writer := false; u_values := u_values u; u_supplies := u_supplies u;
                        u_maps := aput l {| um_queued := more; um_synced := false; um_q := q' |} (u_maps u);
                        u_wq := if more then rest ++ [(KMap, l)] else rest; u_sq := u_sq u |},
                     Some {| wt_lane := l; wt_action := WMapEvent (Some head) |})
                | (q', None) =>
                    pop_wq f {| u_writer := false; u_values := u_values u; u_supplies := u_supplies u;
                                u_maps := aput l {| um_queued := false; um_synced := false; um_q := q' |} (u_maps u);
                                u_wq := rest; u_sq := u_sq u |}
                end
          | None =>
              pop_wq f {| u_writer := false; u_values := u_values u; u_supplies := u_supplies u;
                          u_maps := u_maps u; u_wq := rest; u_sq := u_sq u |}
          end
      end
  end.

Definition replace_and_pop (u : uplinks) : uplinks * option wtask :=
  match u_sq u with
  | a :: rest =>
      ({| u_writer := false; u_values := u_values u; u_supplies := u_supplies u; u_maps := u_maps u;
          u_wq := u_wq u; u_sq := rest |},
       Some {| wt_lane := special_lane a; wt_action := WSpecial a |})
  | [] => pop_wq (S (length (u_wq u))) u
  end.

(* ------------------------------------------------------------------------------------------ *)
(* WriteTaskState *)
Record wstate := {
  w_nlanes : N;                              (* lanes 0 .. nlanes-1 are registered *)
  w_remotes : list (N * uplinks);
  w_links : list (N * N);                    (* (lane, remote) *)
  w_inflight : list (N * wtask)              (* the write in progress of each remote (harness-held) *)
}.
Definition wstate0 (nlanes : N) : wstate :=
  {| w_nlanes := nlanes; w_remotes := []; w_links := []; w_inflight := [] |}.

Definition pair_eqb (a b : N * N) : bool := (fst a =? fst b) && (snd a =? snd b).
Fixpoint linked (l r : N) (ls : list (N * N)) : bool :=
  match ls with [] => false | p :: t => pair_eqb p (l, r) || linked l r t end.
Definition link_add (l r : N) (ls : list (N * N)) : list (N * N) := if linked l r ls then ls else ls ++ [(l, r)].
Definition link_del (l r : N) (ls : list (N * N)) : list (N * N) := filter (fun p => negb (pair_eqb p (l, r))) ls.

Inductive wop :=
| OAddRemote (r : N)
| OLink (r name : N) | OUnlink (r name : N) | OUnknown (r name : N)
| OEvent (lane : N) (target : option N) (rs : resp)
| ODone (r : N)
| ORemoveLane (lane : N) | OUnlinkAll | ORemoveRemote (r : N).

(* a started write is recorded as in flight; by construction a remote has at most one *)
Definition start (w : wstate) (r : N) (t : option wtask) : wstate :=
  match t with
  | Some t => {| w_nlanes := w_nlanes w; w_remotes := w_remotes w; w_links := w_links w;
                 w_inflight := aput r t (w_inflight w) |}
  | None => w
  end.

Definition with_remote (w : wstate) (r : N) (f : uplinks -> uplinks * option wtask) : wstate :=
  match aget r (w_remotes w) with
  | Some u =>
      let (u', t) := f u in
      start {| w_nlanes := w_nlanes w; w_remotes := aput r u' (w_remotes w); w_links := w_links w;
               w_inflight := w_inflight w |} r t
  | None => w
  end.

Definition set_links (w : wstate) (ls : list (N * N)) : wstate :=
  {| w_nlanes := w_nlanes w; w_remotes := w_remotes w; w_links := ls; w_inflight := w_inflight w |}.

Definition has_remote (w : wstate) (r : N) : bool := match aget r (w_remotes w) with Some _ => true | None => false end.

Definition wstep (w : wstate) (o : wop) : wstate * list frame :=
  match o with
  | OAddRemote r =>
      ({| w_nlanes := w_nlanes w; w_remotes := aput r uplinks0 (w_remotes w); w_links := w_links w;
          w_inflight := w_inflight w |}, [])
  | OLink r name =>
      if (name <? w_nlanes w) && has_remote w r then
        (with_remote (set_links w (link_add name r (w_links w))) r (fun u => push_special u (SLinked name)), [])
      else (w, [])
  | OUnlink r name =>
      if (name <? w_nlanes w) && linked name r (w_links w) then
        (with_remote (set_links w (link_del name r (w_links w))) r (fun u => push_special u (SUnlinked name 0)), [])
      else (w, [])
  | OUnknown r name => (with_remote w r (fun u => push_special u (SLaneNotFound name)), [])
  | OEvent lane (Some r) rs =>
      (* an answer for a remote that has gone away is dropped: nothing is linked or written *)
      if negb (has_remote w r) then (w, []) else
      if linked lane r (w_links w) then (with_remote w r (fun u => push_resp u lane rs), [])
      else
        let w1 := with_remote (set_links w (link_add lane r (w_links w))) r (fun u => push_special u (SLinked lane)) in
        (with_remote w1 r (fun u => push_resp u lane rs), [])
  | OEvent lane None rs =>
      (fold_left (fun acc p => if fst p =? lane then with_remote acc (snd p) (fun u => push_resp u lane rs) else acc)
                 (w_links w) w, [])
  | ODone r =>
      match aget r (w_inflight w) with
      | Some t =>
          let w1 := {| w_nlanes := w_nlanes w; w_remotes := w_remotes w; w_links := w_links w;
                       w_inflight := adel r (w_inflight w) |} in
          (with_remote w1 r replace_and_pop, frames_of t)
      | None => (w, [])
      end
  | ORemoveLane lane =>
      (fold_left (fun acc p => if fst p =? lane
                               then with_remote acc (snd p) (fun u => push_special u (SUnlinked lane 1)) else acc)
                 (w_links w) (set_links w (filter (fun p => negb (fst p =? lane)) (w_links w))), [])
  | OUnlinkAll =>
      (fold_left (fun acc p => with_remote acc (snd p) (fun u => push_special u (SUnlinked (fst p) 1)))
                 (w_links w) (set_links w []), [])
  | ORemoveRemote r =>
      ({| w_nlanes := w_nlanes w; w_remotes := adel r (w_remotes w);
          w_links := filter (fun p => negb (snd p =? r)) (w_links w); w_inflight := w_inflight w |}, [])
  end.

Fixpoint wrun_u (w : wstate) (ops : list wop) : list (list frame) :=
  match ops with [] => [] | o :: t => let (w', fr) := wstep w o in fr :: wrun_u w' t end.

(* ------------------------------------------------------------------------------------------ *)
(* Correspondence *)
Fixpoint body_eqb (a b : body) : bool :=
  match a, b with [], [] => true | x :: a', y :: b' => (x =? y) && body_eqb a' b' | _, _ => false end.
Definition oentry_eqb (a b : option entry) : bool :=
  match a, b with None, None => true | Some x, Some y => entry_eqb x y | _, _ => false end.
Definition frame_eqb (a b : frame) : bool :=
  match a, b with
  | FLinked l, FLinked l' => l =? l'
  | FSynced l, FSynced l' => l =? l'
  | FUnlinked l m, FUnlinked l' m' => (l =? l') && (m =? m')
  | FNotFound n, FNotFound n' => n =? n'
  | FEvent l b, FEvent l' b' => (l =? l') && body_eqb b b'
  | FMapEvent l e, FMapEvent l' e' => (l =? l') && oentry_eqb e e'
  | _, _ => false
  end.

(* number of lanes, operations, frames written per op (at write completions), and per op the frames of
   the write tasks it started, with their remote *)
Definition ucase := (N * list wop * list (list frame) * list (list (N * list frame)))%type.

(* The order in which unlink_all walks the links is the iteration order of a hash map: the frames of
   different lanes may come out in another order than in the model.  The comparison is therefore by
   remote and lane: for every remote, the concatenation of what its write completions wrote, projected
   to each lane, must be identical. *)
Definition frame_lane (f : frame) : N :=
  match f with
  | FLinked l | FSynced l | FUnlinked l _ | FEvent l _ | FMapEvent l _ => l
  | FNotFound n => 1000 + n
  end.

Fixpoint frames_at (r : N) (ops : list wop) (outs : list (list frame)) : list frame :=
  match ops, outs with
  | ODone r' :: ops', fr :: outs' => (if r =? r' then fr else []) ++ frames_at r ops' outs'
  | _ :: ops', _ :: outs' => frames_at r ops' outs'
  | _, _ => []
  end.

Definition proj_lane (l : N) (fs : list frame) : list frame := filter (fun f => frame_lane f =? l) fs.

Definition all_lanes : list N := [0; 1; 2; 3; 4; 5; 6; 7; 1007; 1008; 1009; 1010].
Definition all_remotes : list N := [1; 2; 3; 4].

(* When a remote is removed while frames for it are still queued, which of them had been written depends on
   that order too: for such a remote the two streams of a lane need only agree as far as both go. *)
Fixpoint prefix_compat {A} (eqb : A -> A -> bool) (a b : list A) : bool :=
  match a, b with
  | x :: a', y :: b' => eqb x y && prefix_compat eqb a' b'
  | _, _ => true
  end.
Definition removed_remote (r : N) (ops : list wop) : bool :=
  existsb (fun o => match o with ORemoveRemote r' => r =? r' | _ => false end) ops.

Definition same_streams (ops : list wop) (a b : list (list frame)) : bool :=
  Nat.eqb (length a) (length b) &&
  forallb (fun r => forallb (fun l => (if removed_remote r ops then prefix_compat frame_eqb else outs_eqb frame_eqb)
                                        (proj_lane l (frames_at r ops a)) (proj_lane l (frames_at r ops b)))
                            all_lanes) all_remotes &&
  (* nothing is written by an operation other than a write completion *)
  forallb (fun p => match fst p with ODone _ => true | _ => match snd p with [] => true | _ => false end end)
          (combine ops b).

Definition up_corr_bad (cs : list (N * ucase)) : list N :=
  map fst (filter (fun c => let '(nl, ops, outs, _) := snd c in
                            negb (same_streams ops (wrun_u (wstate0 nl) ops) outs)) cs).


(* ------------------------------------------------------------------------------------------ *)
(* Oracle on the implementation's frames, independent of the model above (C01 / C03 / C04 and the supply
   part of C14, for one (remote, lane) pair at a time).
   Requests are turned into tokens, kept per (remote, lane) in link epochs; frames are matched against
   them:
     - linked / unlinked frames: per epoch exactly the linked frames that were asked for (explicit or
       implicit link requests), then - if the epoch was closed by an unlink, a lane removal or
       unlink-all - one unlinked with that reason; events and synced only inside an epoch after its
       first linked;
     - a value event must be a value the lane produced for this remote in this epoch, in order
       (older ones may be skipped); a supply event must be the next one, none skipped; a map event must
       be a pending operation of its key (older ones of that key skipped, never across a clear), a clear
       a pending clear; an event with an empty buffer that the lane never produced is fabricated;
     - synced needs a pending sync answer, and nothing produced before that answer may still be
       undelivered (the remote's view at synced is at least as new as the sync answer);
     - at the end of the case (every write completed) an epoch that is still open has nothing pending. *)
Inductive token := TVal (b : body) | TSup (b : body) | TMap (e : entry) | TSync.

Record epoch := { ep_expected : nat; ep_seen : nat; ep_items : list token; ep_closed : option N }.

Definition pl := (N * N)%type.                       (* (remote, lane) *)
Definition ostate := list (pl * list epoch).

Fixpoint oget (k : pl) (s : ostate) : list epoch :=
  match s with [] => [] | (k', v) :: t => if pair_eqb k k' then v else oget k t end.
Fixpoint oput (k : pl) (v : list epoch) (s : ostate) : ostate :=
  match s with [] => [(k, v)] | (k', v') :: t => if pair_eqb k k' then (k, v) :: t else (k', v') :: oput k v t end.

Definition is_open (es : list epoch) : bool :=
  match rev es with e :: _ => match ep_closed e with None => true | Some _ => false end | [] => false end.

(* request side *)
Definition req_link (es : list epoch) : list epoch :=
  match rev es with
  | e :: r => match ep_closed e with
              | None => rev r ++ [{| ep_expected := S (ep_expected e); ep_seen := ep_seen e; ep_items := ep_items e; ep_closed := None |}]
              | Some _ => es ++ [{| ep_expected := 1; ep_seen := 0; ep_items := []; ep_closed := None |}]
              end
  | [] => [{| ep_expected := 1; ep_seen := 0; ep_items := []; ep_closed := None |}]
  end.
Definition req_item (es : list epoch) (t : token) : list epoch :=
  match rev es with
  | e :: r => match ep_closed e with
              | None => rev r ++ [{| ep_expected := ep_expected e; ep_seen := ep_seen e; ep_items := ep_items e ++ [t]; ep_closed := None |}]
              | Some _ => es
              end
  | [] => es
  end.
Definition req_close (es : list epoch) (msg : N) : list epoch :=
  match rev es with
  | e :: r => match ep_closed e with
              | None => rev r ++ [{| ep_expected := ep_expected e; ep_seen := ep_seen e; ep_items := ep_items e; ep_closed := Some msg |}]
              | Some _ => es
              end
  | [] => es
  end.

Definition token_of (rs : resp) : token :=
  match rs with RSynced _ => TSync | RValue b => TVal b | RSupply b => TSup b | RMap e => TMap e end.

(* frame side: matching inside the items of the current epoch; None = violation.  Frames are presented to
   the oracle at the moment their write task was created (the harness attributes what a task wrote to the
   operation that started it), so the items are exactly what had been produced when the content of the
   task was decided. *)
Definition is_sync (t : token) : bool := match t with TSync => true | _ => false end.
Definition is_val (t : token) : bool := match t with TVal _ => true | _ => false end.
Definition is_map (t : token) : bool := match t with TMap _ => true | _ => false end.

Fixpoint last_val (its : list token) (acc : option body) : option body :=
  match its with [] => acc | TVal b :: t => last_val t (Some b) | _ :: t => last_val t acc end.

(* a value event carries the newest value produced so far: never a stale one *)
Definition match_val (b : body) (its : list token) : option (list token) :=
  match last_val its None with
  | Some b' => if body_eqb b b' then Some (filter (fun t => negb (is_val t)) its) else None
  | None => None
  end.
(* a supply event is the oldest one not yet delivered *)
Fixpoint match_sup (b : body) (its : list token) : option (list token) :=
  match its with
  | TSup b' :: t => if body_eqb b b' then Some t else None
  | TSync :: t => option_map (cons TSync) (match_sup b t)
  | _ => None
  end.
Definition ekey (e : entry) : option N := option_map fst (entry_key e).
Definition is_clear (t : token) : bool := match t with TMap EClear => true | _ => false end.
(* what is left after the last clear (sync answers are kept) *)
Fixpoint after_last_clear (its : list token) (acc : list token) : list token :=
  match its with
  | [] => acc
  | TMap EClear :: t => after_last_clear t (filter is_sync acc)
  | x :: t => after_last_clear t (acc ++ [x])
  end.
Definition same_key (e : entry) (t : token) : bool :=
  match t with
  | TMap e' => match ekey e, ekey e' with Some a, Some b => a =? b | _, _ => false end
  | _ => false
  end.
(* the last operation of e's key before the first pending clear; and the items without that key's
   operations up to that clear *)
Fixpoint last_of_key (e : entry) (its : list token) (acc : option entry) : option entry :=
  match its with
  | [] => acc
  | TMap EClear :: _ => acc
  | TMap e' :: t => if same_key e (TMap e') then last_of_key e t (Some e') else last_of_key e t acc
  | _ :: t => last_of_key e t acc
  end.
Fixpoint drop_key (e : entry) (its : list token) : list token :=
  match its with
  | [] => []
  | TMap EClear :: t => its
  | x :: t => if same_key e x then drop_key e t else x :: drop_key e t
  end.
(* a keyed map event carries the newest pending operation of its key (nothing crosses a clear) *)
Definition match_keyed (e : entry) (its : list token) : option (list token) :=
  match last_of_key e its None with
  | Some e' => if entry_eqb e e' then Some (drop_key e its) else None
  | None => None
  end.
Definition match_map (e : entry) (its : list token) : option (list token) :=
  match e with
  | EClear => if existsb is_clear its then Some (after_last_clear its []) else None
  | _ => match_keyed e its
  end.
(* synced answers every sync answer pending; on value and map lanes nothing produced may still be
   undelivered at that moment *)
Definition match_sync (its : list token) : option (list token) :=
  if existsb is_sync its && negb (existsb (fun t => is_val t || is_map t) its)
  then Some (filter (fun t => negb (is_sync t)) its) else None.
Definition match_sync_sup (its : list token) : option (list token) :=
  if existsb is_sync its then Some (filter (fun t => negb (is_sync t)) its) else None.

Definition with_cur (es : list epoch) (f : epoch -> option epoch) : option (list epoch) :=
  match es with
  | e :: r => option_map (fun e' => e' :: r) (f e)
  | [] => None
  end.

Definition set_items (e : epoch) (its : list token) : epoch :=
  {| ep_expected := ep_expected e; ep_seen := ep_seen e; ep_items := its; ep_closed := ep_closed e |}.

Definition frame_step (kind_of : N -> kind) (es : list epoch) (f : frame) : option (list epoch) :=
  match f with
  | FLinked _ =>
      with_cur es (fun e => if Nat.ltb (ep_seen e) (ep_expected e)
                            then Some {| ep_expected := ep_expected e; ep_seen := S (ep_seen e);
                                         ep_items := ep_items e; ep_closed := ep_closed e |}
                            else None)
  | FUnlinked _ m =>
      match es with
      | e :: r => match ep_closed e with
                  | Some m' => if (m =? m') && Nat.eqb (ep_seen e) (ep_expected e) then Some r else None
                  | None => None
                  end
      | [] => None
      end
  | FEvent l b =>
      with_cur es (fun e => if Nat.ltb 0 (ep_seen e)
                            then option_map (set_items e)
                                   (match kind_of l with KSupply => match_sup b (ep_items e) | _ => match_val b (ep_items e) end)
                            else None)
  | FMapEvent _ (Some en) =>
      with_cur es (fun e => if Nat.ltb 0 (ep_seen e) then option_map (set_items e) (match_map en (ep_items e)) else None)
  | FMapEvent _ None => None
  | FSynced l =>
      with_cur es (fun e => if Nat.ltb 0 (ep_seen e)
                            then option_map (set_items e)
                                   (match kind_of l with KSupply => match_sync_sup (ep_items e) | _ => match_sync (ep_items e) end)
                            else None)
  | FNotFound _ => Some es
  end.

Definition lanes_kind (l : N) : kind :=
  match l with 1 => KSupply | 2 => KMap | _ => KValue end.

Fixpoint frames_step (r : N) (dead : list N) (s : ostate) (fs : list frame) : option ostate :=
  match fs with
  | [] => Some s
  | f :: t =>
      if existsb (N.eqb r) dead then Some s else
      match f with
      | FNotFound _ => frames_step r dead s t
      | _ =>
          let k := (r, frame_lane f) in
          match frame_step lanes_kind (oget k s) f with
          | Some es' => frames_step r dead (oput k es' s) t
          | None => None
          end
      end
  end.

Definition apply_to_links (s : ostate) (p : pl -> bool) (f : list epoch -> list epoch) : ostate :=
  map (fun kv => if p (fst kv) then (fst kv, f (snd kv)) else kv) s.

(* [have]: remotes added so far; [dead]: remotes removed *)
Definition req_step (nl : N) (s : ostate) (have dead : list N) (o : wop) : ostate * list N * list N :=
  match o with
  | OAddRemote r => (s, r :: have, dead)
  | OLink r name =>
      if (name <? nl) && existsb (N.eqb r) have && negb (existsb (N.eqb r) dead)
      then (oput (r, name) (req_link (oget (r, name) s)) s, have, dead)
      else (s, have, dead)
  | OUnlink r name =>
      if (name <? nl) && is_open (oget (r, name) s)
      then (oput (r, name) (req_close (oget (r, name) s) 0) s, have, dead)
      else (s, have, dead)
  | OUnknown _ _ => (s, have, dead)
  | OEvent lane (Some r) rs =>
      let es := oget (r, lane) s in
      let es1 := if is_open es then es else req_link es in
      (oput (r, lane) (req_item es1 (token_of rs)) s, have, dead)
  | OEvent lane None rs =>
      (apply_to_links s (fun k => (snd k =? lane)) (fun es => req_item es (token_of rs)), have, dead)
  | ODone _ => (s, have, dead)
  | ORemoveLane lane => (apply_to_links s (fun k => (snd k =? lane)) (fun es => req_close es 1), have, dead)
  | OUnlinkAll => (apply_to_links s (fun _ => true) (fun es => req_close es 1), have, dead)
  | ORemoveRemote r => (s, have, r :: dead)
  end.

Fixpoint started_step (dead : list N) (s : ostate) (st : list (N * list frame)) : option ostate :=
  match st with
  | [] => Some s
  | (r, fs) :: t => match frames_step r dead s fs with Some s' => started_step dead s' t | None => None end
  end.

Fixpoint up_oracle (fc : bool) (nl : N) (s : ostate) (have dead : list N) (ops : list wop)
         (started : list (list (N * list frame))) : bool :=
  match ops, started with
  | [], [] =>
      (* quiescent: an open epoch of a live remote has nothing pending and all its linked frames came;
         a closed one has had its unlinked *)
      negb fc || forallb (fun kv => existsb (N.eqb (fst (fst kv))) dead ||
                         match snd kv with
                         | [] => true
                         | [e] => match ep_closed e with
                                  | None => Nat.eqb (ep_seen e) (ep_expected e) &&
                                            match ep_items e with [] => true | _ => false end
                                  | Some _ => false
                                  end
                         | _ => false
                         end) s
  | o :: ops', st :: started' =>
      let '(s1, have', dead') := req_step nl s have dead o in
      match started_step dead' s1 st with
      | Some s2 => up_oracle fc nl s2 have' dead' ops' started'
      | None => false
      end
  | _, _ => false
  end.

Definition up_oracle_bad (cs : list (N * ucase)) : list N :=
  map fst (filter (fun c => let '(nl, ops, _, started) := snd c in negb (up_oracle true nl [] [] [] ops started)) cs).
