(* Model of api/swimos_model/src/value.rs: Value::{compare, eq, hash} with Item / Attr (item.rs,
   attr.rs) and the mixed signed/unsigned helpers of num.rs.  Integers carry their mathematical
   value (range-checked by [wf]); Float64 carries its bit pattern and is interpreted with Flocq's
   binary64 (conversions round to nearest even, comparison is IEEE); BigInt / BigUint are Z. *)
From Coq Require Export List Bool ZArith NArith Lia.
From Flocq Require Import IEEE754.BinarySingleNaN IEEE754.Binary IEEE754.Bits.
Export ListNotations.
Open Scope Z_scope.

Definition str := list N.

Inductive value :=
| Extant
| Int32 (z : Z) | Int64 (z : Z) | UInt32 (z : Z) | UInt64 (z : Z)
| Float64 (bits : Z)
| Boolean (b : bool)
| BigInt (z : Z) | BigUint (z : Z)
| Text (s : str)
| Data (s : str)
| Record (attrs : list (str * value)) (items : list item)
with item :=
| ValueItem (v : value)
| Slot (k v : value).

(* ---- floats ---- *)
Definition f64 := BinarySingleNaN.binary_float 53 1024.
Definition of_bits (z : Z) : f64 := Binary.B2BSN 53 1024 (b64_of_bits z).
Definition of_Z (z : Z) : f64 :=
  @BinarySingleNaN.binary_normalize 53 1024 eq_refl eq_refl mode_NE z 0 false.
Definition fcompare (a b : f64) : option comparison := BinarySingleNaN.Bcompare a b.
Definition fsub (a b : f64) : f64 := @BinarySingleNaN.Bminus 53 1024 eq_refl eq_refl mode_NE a b.
Definition fabs (a : f64) : f64 := BinarySingleNaN.Babs a.
Definition fis_nan (a : f64) : bool := BinarySingleNaN.is_nan a.
Definition fsign_neg (a : f64) : bool := BinarySingleNaN.Bsign a.
Definition EPSILON : f64 := of_bits 4372995238176751616.  (* 2^-52 *)

(* PartialOrd::partial_cmp mapped as the code does: Less / Greater, anything else Equal *)
Definition pcmp3 (a b : f64) : comparison :=
  match fcompare a b with Some Lt => Lt | Some Gt => Gt | _ => Eq end.
Definition flt (a b : f64) : bool := match fcompare a b with Some Lt => true | _ => false end.
Definition feq (a b : f64) : bool := match fcompare a b with Some Eq => true | _ => false end.

Definition I64MIN := - 2^63.  Definition I64MAX := 2^63 - 1.
(* `x as i64`: NaN -> 0, saturating, truncation toward zero *)
Definition f_to_i64 (a : f64) : Z :=
  match a with
  | BinarySingleNaN.B754_nan => 0
  | BinarySingleNaN.B754_zero _ => 0
  | BinarySingleNaN.B754_infinity s => if s then I64MIN else I64MAX
  | BinarySingleNaN.B754_finite s m e _ =>
      let mag := if 0 <=? e then Z.pos m * 2 ^ e else Z.pos m / 2 ^ (- e) in
      let v := if s then - mag else mag in
      Z.max I64MIN (Z.min I64MAX v)
  end.

(* ---- num.rs ---- *)
Definition cmp_i_u (lhs rhs : Z) : comparison := if lhs <? 0 then Lt else lhs ?= rhs.
Definition cmp_u_i (lhs rhs : Z) : comparison := if rhs <? 0 then Gt else lhs ?= rhs.

Fixpoint str_cmp (a b : str) : comparison :=
  match a, b with
  | [], [] => Eq
  | [], _ => Lt
  | _, [] => Gt
  | x :: a', y :: b' => match (x ?= y)%N with Eq => str_cmp a' b' | c => c end
  end.

Fixpoint str_eqb (a b : str) : bool :=
  match a, b with
  | [], [] => true
  | x :: a', y :: b' => (x =? y)%N && str_eqb a' b'
  | _, _ => false
  end.

Definition is_int (v : value) : option Z :=
  match v with
  | Int32 z | Int64 z | UInt32 z | UInt64 z => Some z
  | _ => None
  end.

(* ------------------------------------------------------------------------------------------ *)
(* Lexicographic comparison of records: the code chains attrs (as Either::Left) and items (as
   Either::Right) and compares the two chains lexicographically; Left < Right. *)

Section Lex.
  Variable c : value -> value -> comparison.

  Definition item_cmp (it1 it2 : item) : comparison :=
    match it1, it2 with
    | ValueItem v1, ValueItem v2 => c v1 v2
    | ValueItem _, Slot _ _ => Gt
    | Slot _ _, ValueItem _ => Lt
    | Slot k1 v1, Slot k2 v2 => match c k1 k2 with Eq => c v1 v2 | r => r end
    end.

  Fixpoint items_cmp (l1 l2 : list item) {struct l1} : comparison :=
    match l1, l2 with
    | [], [] => Eq
    | [], _ :: _ => Lt
    | _ :: _, [] => Gt
    | it1 :: r1, it2 :: r2 => match item_cmp it1 it2 with Eq => items_cmp r1 r2 | r => r end
    end.

  (* [e1] / [e2]: whether the left / right record has no items; [k]: comparison of the items *)
  Variables (e1 e2 : bool) (k : comparison).

  Fixpoint attrs_cmp (l1 l2 : list (str * value)) {struct l1} : comparison :=
    match l1, l2 with
    | [], [] => k
    | [], _ :: _ => if e1 then Lt else Gt     (* left chain ends or continues with a Right *)
    | _ :: _, [] => if e2 then Gt else Lt
    | (n1, v1) :: r1, (n2, v2) :: r2 =>
        match str_cmp n1 n2 with
        | Eq => match c v1 v2 with Eq => attrs_cmp r1 r2 | r => r end
        | r => r
        end
    end.
End Lex.

Definition is_nil {A} (l : list A) : bool := match l with [] => true | _ => false end.

Section LexEq.
  Variable e : value -> value -> bool.

  Definition item_eq (it1 it2 : item) : bool :=
    match it1, it2 with
    | ValueItem v1, ValueItem v2 => e v1 v2
    | Slot k1 v1, Slot k2 v2 => e k1 k2 && e v1 v2
    | _, _ => false
    end.

  Fixpoint items_eq (l1 l2 : list item) {struct l1} : bool :=
    match l1, l2 with
    | [], [] => true
    | it1 :: r1, it2 :: r2 => item_eq it1 it2 && items_eq r1 r2
    | _, _ => false
    end.

  Fixpoint attrs_eq (l1 l2 : list (str * value)) {struct l1} : bool :=
    match l1, l2 with
    | [], [] => true
    | (n1, v1) :: r1, (n2, v2) :: r2 => str_eqb n1 n2 && e v1 v2 && attrs_eq r1 r2
    | _, _ => false
    end.
End LexEq.

(* ------------------------------------------------------------------------------------------ *)
(* Value::compare *)

Fixpoint vcmp (x y : value) {struct x} : comparison :=
  let num_vs (n : Z) (signed : bool) (y : value) : comparison :=
      (* the arms shared by Int32 / Int64 / UInt32 / UInt64 on the left *)
      match y with
      | Extant | Boolean _ => Lt
      | Int32 m | Int64 m => if signed then n ?= m else cmp_u_i n m
      | UInt32 m | UInt64 m => if signed then cmp_i_u n m else n ?= m
      | Float64 b =>
          let f := of_bits b in if fis_nan f then Gt else pcmp3 (of_Z n) f
      | BigInt bi => n ?= bi
      | BigUint bi => if n <? 0 then Lt else n ?= bi
      | _ => Gt
      end in
  match x with
  | Data l => match y with Data r => str_cmp l r | _ => Lt end
  | Extant => match y with Extant => Eq | _ => Gt end
  | Int32 n => num_vs n true y
  | Int64 n => num_vs n true y
  | UInt32 n => num_vs n false y
  | UInt64 n => num_vs n false y
  | Float64 bx =>
      let fx := of_bits bx in
      match y with
      | BigInt bi =>
          if fis_nan fx then Lt else pcmp3 fx (of_Z bi)
      | BigUint bi =>
          if fis_nan fx then Lt else pcmp3 fx (of_Z bi)
      | Extant | Boolean _ => Lt
      | Int32 m | Int64 m | UInt32 m | UInt64 m =>
          if fis_nan fx then Lt else pcmp3 fx (of_Z m)
      | Float64 by_ =>
          let fy := of_bits by_ in
          if fis_nan fx then (if fis_nan fy then Eq else Lt)
          else if fis_nan fy then Gt
          else if feq fx fy then Eq
          else if flt (fabs (fsub fx fy)) EPSILON then Eq
          else if flt fx fy then Lt else Gt
      | _ => Gt
      end
  | Boolean p =>
      match y with
      | Extant => Lt
      | Boolean q => match p, q with false, true => Lt | true, false => Gt | _, _ => Eq end
      | _ => Gt
      end
  | Text s =>
      match y with
      | Record _ _ | Data _ => Gt
      | Text t => str_cmp s t
      | _ => Lt
      end
  | Record a1 i1 =>
      match y with
      | Record a2 i2 =>
          attrs_cmp vcmp (is_nil i1) (is_nil i2) (items_cmp vcmp i1 i2) a1 a2
      | Data _ => Gt
      | _ => Lt
      end
  | BigInt bi =>
      match y with
      | Extant | Boolean _ => Lt
      | Int32 m | Int64 m | UInt32 m | UInt64 m => bi ?= m
      | Float64 b => bi ?= f_to_i64 (of_bits b)
      | BigInt o => bi ?= o
      | BigUint o => bi ?= o
      | _ => Gt
      end
  | BigUint bi =>
      match y with
      | Extant | Boolean _ => Lt
      | Int32 m | Int64 m => if m <? 0 then Gt else bi ?= m
      | UInt32 m | UInt64 m => bi ?= m
      | Float64 b => let m := f_to_i64 (of_bits b) in if m <? 0 then Gt else bi ?= m
      | BigInt o => if o <? 0 then Gt else bi ?= o
      | BigUint o => bi ?= o
      | _ => Gt
      end
  end.

(* ------------------------------------------------------------------------------------------ *)
(* PartialEq *)

Definition in_range (lo hi z : Z) : bool := (lo <=? z) && (z <=? hi).
Definition to_i32 z := if in_range (- 2^31) (2^31 - 1) z then Some z else None.
Definition to_i64 z := if in_range I64MIN I64MAX z then Some z else None.
Definition to_u32 z := if in_range 0 (2^32 - 1) z then Some z else None.
Definition to_u64 z := if in_range 0 (2^64 - 1) z then Some z else None.
Definition eq_via (conv : Z -> option Z) (n m : Z) : bool :=
  match conv m with Some m' => n =? m' | None => false end.

Fixpoint veq (x y : value) {struct x} : bool :=
  match x with
  | Data a => match y with Data b => str_eqb a b | _ => false end
  | Extant => match y with Extant => true | _ => false end
  | Int32 n =>
      match y with
      | Int32 m => n =? m
      | Int64 m | UInt32 m | UInt64 m | BigInt m | BigUint m => eq_via to_i32 n m
      | _ => false
      end
  | Int64 n =>
      match y with
      | Int32 m | Int64 m | UInt32 m => n =? m
      | UInt64 m | BigInt m | BigUint m => eq_via to_i64 n m
      | _ => false
      end
  | UInt32 n =>
      match y with
      | UInt32 m => n =? m
      | Int32 m | Int64 m | UInt64 m | BigInt m | BigUint m => eq_via to_u32 n m
      | _ => false
      end
  | UInt64 n =>
      match y with
      | UInt32 m | UInt64 m => n =? m
      | Int32 m | Int64 m | BigInt m | BigUint m => eq_via to_u64 n m
      | _ => false
      end
  | Float64 bx =>
      match y with
      | Float64 by_ =>
          let fx := of_bits bx in let fy := of_bits by_ in
          if fis_nan fx then fis_nan fy else feq fx fy
      | _ => false
      end
  | Boolean p => match y with Boolean q => Bool.eqb p q | _ => false end
  | Text s => match y with Text t => str_eqb s t | _ => false end
  | Record a1 i1 =>
      match y with
      | Record a2 i2 => attrs_eq veq a1 a2 && items_eq veq i1 i2
      | _ => false
      end
  | BigInt l =>
      match y with
      | Int32 r => eq_via to_i32 r l
      | Int64 r => eq_via to_i64 r l
      | UInt32 r => eq_via to_u32 r l
      | UInt64 r => eq_via to_u64 r l
      | BigInt r | BigUint r => l =? r
      | _ => false
      end
  | BigUint l =>
      match y with
      | Int32 r => eq_via to_i32 r l
      | Int64 r => eq_via to_i64 r l
      | UInt32 r => eq_via to_u32 r l
      | UInt64 r => eq_via to_u64 r l
      | BigInt r | BigUint r => l =? r
      | _ => false
      end
  end.

(* ------------------------------------------------------------------------------------------ *)
(* Hash: the sequence of values fed to the hasher *)

Inductive token :=
| T8 (z : Z) | T64 (z : Z) | T128 (z : Z) | TLen (n : nat) | TDisc (z : Z)
| TStr (s : str) | TBytes (s : str) | TBig (z : Z).

Definition fits_i128 (z : Z) : bool := in_range (- 2^127) (2^127 - 1) z.
Definition PLUS_ZERO_BITS : Z := 0.

Fixpoint vhash (x : value) : list token :=
  match x with
  | Extant => [T8 0]
  | Int32 n | Int64 n | UInt32 n | UInt64 n => [T8 1; T128 n]
  | Float64 b =>
      let f := of_bits b in
      [T8 2; T64 (if fis_nan f then 0
                  else match f with BinarySingleNaN.B754_zero _ => PLUS_ZERO_BITS | _ => b end)]
  | Boolean p => [T8 3; T8 (if p then 1 else 0)]
  | Text s => [T8 4; TStr s]
  | Record attrs items =>
      T8 5 :: TLen (length attrs)
        :: (flat_map (fun a => TStr (fst a) :: vhash (snd a)) attrs)
        ++ TLen (length items)
        :: (flat_map (fun it => match it with
                                | ValueItem v => TDisc 0 :: vhash v
                                | Slot k v => TDisc 1 :: vhash k ++ vhash v
                                end) items)
  | BigInt z | BigUint z => if fits_i128 z then [T8 1; T128 z] else [T8 6; TBig z]
  | Data s => [T8 7; TBytes s]
  end.

Definition token_eqb (a b : token) : bool :=
  match a, b with
  | T8 x, T8 y | T64 x, T64 y | T128 x, T128 y | TDisc x, TDisc y | TBig x, TBig y => x =? y
  | TLen x, TLen y => Nat.eqb x y
  | TStr x, TStr y | TBytes x, TBytes y => str_eqb x y
  | _, _ => false
  end.

Fixpoint tokens_eqb (a b : list token) : bool :=
  match a, b with
  | [], [] => true
  | x :: a', y :: b' => token_eqb x y && tokens_eqb a' b'
  | _, _ => false
  end.

Definition hash_eq (x y : value) : bool := tokens_eqb (vhash x) (vhash y).

(* ------------------------------------------------------------------------------------------ *)
(* range well-formedness of the integer kinds *)
Fixpoint wf (x : value) : bool :=
  match x with
  | Int32 z => in_range (- 2^31) (2^31 - 1) z
  | Int64 z => in_range I64MIN I64MAX z
  | UInt32 z => in_range 0 (2^32 - 1) z
  | UInt64 z => in_range 0 (2^64 - 1) z
  | BigUint z => 0 <=? z
  | Float64 b => in_range 0 (2^64 - 1) b
  | Record attrs items =>
      forallb (fun a => wf (snd a)) attrs &&
      forallb (fun it => match it with ValueItem v => wf v | Slot k v => wf k && wf v end) items
  | _ => true
  end.

Fixpoint has_float (x : value) : bool :=
  match x with
  | Float64 _ => true
  | Record attrs items =>
      existsb (fun a => has_float (snd a)) attrs ||
      existsb (fun it => match it with ValueItem v => has_float v
                                  | Slot k v => has_float k || has_float v end) items
  | _ => false
  end.

(* ------------------------------------------------------------------------------------------ *)
(* Correspondence: a case is a triple of values with the implementation's answers *)

Definition cmp_code (c : comparison) : Z := match c with Lt => -1 | Eq => 0 | Gt => 1 end.

Record obs3 := {
  o_eq_xy : bool; o_eq_yx : bool; o_eq_yz : bool; o_eq_xz : bool; o_eq_xx : bool;
  o_cmp_xy : Z; o_cmp_yx : Z; o_cmp_yz : Z; o_cmp_xz : Z; o_cmp_xx : Z;
  o_h_xy : bool; o_h_yz : bool; o_h_xz : bool
}.

(* compact form written by the harness: indices into a pool of values, the five == answers and the
   three hash-equality answers as bit lists, the five cmp answers as -1 / 0 / 1 *)
Definition icase := (N * N * N * list bool * list Z * list bool)%type.
Definition case := (value * value * value * obs3)%type.

Definition nthb (l : list bool) (i : nat) : bool := nth i l false.
Definition nthz (l : list Z) (i : nat) : Z := nth i l 2.

Definition expand (pool : list value) (c : icase) : case :=
  match c with (i, j, k, e, cm, h) =>
    let g n := nth (N.to_nat n) pool Extant in
    (g i, g j, g k,
     {| o_eq_xy := nthb e 0; o_eq_yx := nthb e 1; o_eq_yz := nthb e 2; o_eq_xz := nthb e 3; o_eq_xx := nthb e 4;
        o_cmp_xy := nthz cm 0; o_cmp_yx := nthz cm 1; o_cmp_yz := nthz cm 2; o_cmp_xz := nthz cm 3;
        o_cmp_xx := nthz cm 4;
        o_h_xy := nthb h 0; o_h_yz := nthb h 1; o_h_xz := nthb h 2 |})
  end.

Definition model_obs (x y z : value) : obs3 :=
  {| o_eq_xy := veq x y; o_eq_yx := veq y x; o_eq_yz := veq y z; o_eq_xz := veq x z; o_eq_xx := veq x x;
     o_cmp_xy := cmp_code (vcmp x y); o_cmp_yx := cmp_code (vcmp y x); o_cmp_yz := cmp_code (vcmp y z);
     o_cmp_xz := cmp_code (vcmp x z); o_cmp_xx := cmp_code (vcmp x x);
     o_h_xy := hash_eq x y; o_h_yz := hash_eq y z; o_h_xz := hash_eq x z |}.

Definition obs_eqb (a b : obs3) : bool :=
  Bool.eqb (o_eq_xy a) (o_eq_xy b) && Bool.eqb (o_eq_yx a) (o_eq_yx b) &&
  Bool.eqb (o_eq_yz a) (o_eq_yz b) && Bool.eqb (o_eq_xz a) (o_eq_xz b) &&
  Bool.eqb (o_eq_xx a) (o_eq_xx b) &&
  (o_cmp_xy a =? o_cmp_xy b) && (o_cmp_yx a =? o_cmp_yx b) && (o_cmp_yz a =? o_cmp_yz b) &&
  (o_cmp_xz a =? o_cmp_xz b) && (o_cmp_xx a =? o_cmp_xx b) &&
  Bool.eqb (o_h_xy a) (o_h_xy b) && Bool.eqb (o_h_yz a) (o_h_yz b) && Bool.eqb (o_h_xz a) (o_h_xz b).

Definition case_corr_ok (c : case) : bool :=
  match c with (x, y, z, o) => obs_eqb (model_obs x y z) o end.

(* The laws of the property, evaluated on the implementation's answers.  Returns the numbers of
   the clauses that fail: 1 eq reflexive, 2 eq symmetric, 3 eq transitive, 4 eq => same hash,
   5 cmp reflexive (Equal), 6 cmp antisymmetric, 7 cmp transitive, 8 cmp = Equal <-> eq. *)
Definition law_failures (o : obs3) : list Z :=
  (if o_eq_xx o then [] else [1]) ++
  (if Bool.eqb (o_eq_xy o) (o_eq_yx o) then [] else [2]) ++
  (if o_eq_xy o && o_eq_yz o && negb (o_eq_xz o) then [3] else []) ++
  (if (o_eq_xy o && negb (o_h_xy o)) || (o_eq_yz o && negb (o_h_yz o)) || (o_eq_xz o && negb (o_h_xz o))
   then [4] else []) ++
  (if o_cmp_xx o =? 0 then [] else [5]) ++
  (if o_cmp_xy o =? - o_cmp_yx o then [] else [6]) ++
  (let le a := a <=? 0 in
   (* x <= y <= z  =>  x <= z, strict if either step is strict; and the mirror image *)
   if (le (o_cmp_xy o) && le (o_cmp_yz o) &&
         negb (le (o_cmp_xz o) && ((o_cmp_xz o <? 0) || ((o_cmp_xy o =? 0) && (o_cmp_yz o =? 0)))))
      || ((0 <=? o_cmp_xy o) && (0 <=? o_cmp_yz o) &&
         negb ((0 <=? o_cmp_xz o) && ((0 <? o_cmp_xz o) || ((o_cmp_xy o =? 0) && (o_cmp_yz o =? 0)))))
   then [7] else []) ++
  (if Bool.eqb (o_cmp_xy o =? 0) (o_eq_xy o) && Bool.eqb (o_cmp_yz o =? 0) (o_eq_yz o)
      && Bool.eqb (o_cmp_xz o =? 0) (o_eq_xz o) then [] else [8]).

(* Known class (KNOWN_FINDINGS C19-F1): an ordering law (6, 7, 8) fails on a tuple that contains a
   Float64 somewhere.  Equality / hash laws and the float-free fragment are never excused. *)
Definition order_law (n : Z) : bool := (n =? 6) || (n =? 7) || (n =? 8).

Definition unexcused (c : case) : list Z :=
  match c with (x, y, z, o) =>
    let fl := has_float x || has_float y || has_float z in
    filter (fun n => negb (fl && order_law n)) (law_failures o)
  end.

Definition excused (c : case) : list Z :=
  match c with (x, y, z, o) =>
    let fl := has_float x || has_float y || has_float z in
    filter (fun n => fl && order_law n) (law_failures o)
  end.

Definition corr_bad_p (pool : list value) (cs : list (N * icase)) : list N :=
  map fst (filter (fun c => negb (case_corr_ok (expand pool (snd c)))) cs).

Definition oracle_bad_p (pool : list value) (cs : list (N * icase)) : list N :=
  map fst (filter (fun c => match unexcused (expand pool (snd c)) with [] => false | _ => true end) cs).

Definition known_hits_p (pool : list value) (cs : list (N * icase)) : list N :=
  map fst (filter (fun c => match excused (expand pool (snd c)) with [] => false | _ => true end) cs).
