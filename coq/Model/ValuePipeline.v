(* One value lane, end to end: from the agent's lane object to the frames each remote reads.

     server/swimos_agent/src/lanes/value/mod.rs      ValueLane: set / sync / write_to_buffer (sync queue first,
                                                     then the event if the store is dirty)
     server/swimos_agent/src/stores/value/mod.rs     ValueStore: content, previous, dirty flag
     runtime/.../agent/task/receiver/mod.rs          ResponseReceiver: StandardEvent -> (None, Value),
                                                     SyncEvent(id) -> (Some id, Value), Synced(id) -> (Some id, Synced)
     runtime/.../agent/task/mod.rs                   WriteTaskState::handle_event (broadcast to the linked remotes,
                                                     implicit link for a targeted response), link, unlink, replace
     runtime/.../agent/task/remotes/uplink/mod.rs    Uplinks of one remote, specialised to a single value lane

   The runtime side is the single-lane specialisation of Model/Uplinks.v (one value slot instead of the
   per-lane tables and the write queue; stale queue entries, which write nothing, are not represented); the
   two models are compared on every generated case ([vp_bridge_bad]) and both against the implementation.
   Bodies are byte strings (the Recon text of the lane's value).  Definitions only; proofs are in
   Proofs/ValuePipelineProofs.v. *)
From SwimV Require Export Model.Uplinks.
Open Scope N_scope.

(* ---- the agent side ---- *)
Record vlane := { vl_content : body; vl_prev : option body; vl_dirty : bool; vl_syncq : list N }.
Definition vlane0 (init : body) : vlane := {| vl_content := init; vl_prev := None; vl_dirty := false; vl_syncq := [] |}.

Definition vl_set (l : vlane) (v : body) : vlane :=
  {| vl_content := v; vl_prev := Some (vl_content l); vl_dirty := true; vl_syncq := vl_syncq l |}.
Definition vl_sync (l : vlane) (r : N) : vlane :=
  {| vl_content := vl_content l; vl_prev := vl_prev l; vl_dirty := vl_dirty l; vl_syncq := vl_syncq l ++ [r] |}.

Inductive wres := WDone | WMore | WNoData.          (* WriteResult::{Done, DataStillAvailable, NoData} *)
Definition wres_eqb (a b : wres) : bool :=
  match a, b with WDone, WDone | WMore, WMore | WNoData, WNoData => true | _, _ => false end.

Inductive lresp := LEvent (b : body) | LSyncEvent (r : N) (b : body) | LSynced (r : N).

Definition vl_write (l : vlane) : vlane * list lresp * wres :=
  match vl_syncq l with
  | r :: rest =>
      ({| vl_content := vl_content l; vl_prev := vl_prev l; vl_dirty := vl_dirty l; vl_syncq := rest |},
       [LSyncEvent r (vl_content l); LSynced r],
       if vl_dirty l || nonempty rest then WMore else WDone)
  | [] =>
      if vl_dirty l then
        ({| vl_content := vl_content l; vl_prev := vl_prev l; vl_dirty := false; vl_syncq := [] |},
         [LEvent (vl_content l)], WDone)
      else (l, [], WNoData)
  end.

(* ---- one remote's uplink for the lane ---- *)
Record vup := { v_home : bool; v_cur : option body; v_synced : bool; v_queued : bool; v_sq : list special }.
Definition vup0 : vup := {| v_home := true; v_cur := None; v_synced := false; v_queued := false; v_sq := [] |}.

Definition vtask (a : waction) : wtask := {| wt_lane := 0; wt_action := a |}.

Definition vpush_special (u : vup) (a : special) : vup * option wtask :=
  if v_home u then
    ({| v_home := false; v_cur := v_cur u; v_synced := v_synced u; v_queued := v_queued u; v_sq := v_sq u |},
     Some (vtask (WSpecial a)))
  else
    match a with
    | SUnlinked _ _ =>
        ({| v_home := false; v_cur := None; v_synced := false; v_queued := false; v_sq := v_sq u ++ [a] |}, None)
    | _ => ({| v_home := false; v_cur := v_cur u; v_synced := v_synced u; v_queued := v_queued u; v_sq := v_sq u ++ [a] |}, None)
    end.

Definition vpush_value (u : vup) (b : body) : vup * option wtask :=
  if v_home u then
    ({| v_home := false; v_cur := v_cur u; v_synced := v_synced u; v_queued := v_queued u; v_sq := v_sq u |},
     Some (vtask (WEvent b)))
  else ({| v_home := false; v_cur := Some b; v_synced := v_synced u; v_queued := true; v_sq := v_sq u |}, None).

Definition vpush_synced (u : vup) : vup * option wtask :=
  if v_home u then
    ({| v_home := false; v_cur := v_cur u; v_synced := v_synced u; v_queued := v_queued u; v_sq := v_sq u |},
     Some (vtask (WValueSynced false [])))
  else ({| v_home := false; v_cur := v_cur u; v_synced := true; v_queued := true; v_sq := v_sq u |}, None).

(* the writer comes back: replace_and_pop *)
Definition vpop (u : vup) : vup * option wtask :=
  match v_sq u with
  | a :: rest =>
      ({| v_home := false; v_cur := v_cur u; v_synced := v_synced u; v_queued := v_queued u; v_sq := rest |},
       Some (vtask (WSpecial a)))
  | [] =>
      if v_queued u then
        let t := match v_synced u, v_cur u with
                 | true, Some b => Some (vtask (WValueSynced true b))
                 | true, None => Some (vtask (WValueSynced false []))
                 | false, Some b => Some (vtask (WEvent b))
                 | false, None => None
                 end in
        ({| v_home := match t with Some _ => false | None => true end;
            v_cur := None; v_synced := false; v_queued := false; v_sq := [] |}, t)
      else ({| v_home := true; v_cur := v_cur u; v_synced := v_synced u; v_queued := false; v_sq := [] |}, None)
  end.

(* ---- a remote as the write task sees it ---- *)
Record rst := {
  r_linked : bool;
  r_up : vup;
  r_fly : option wtask;          (* the write in progress *)
  r_sent : list frame;           (* everything this remote has been sent so far (observable) *)
  r_pushed : list body;          (* ghost: the values handed to its uplink *)
  r_owed : option body           (* ghost: the last value handed to its uplink since it linked *)
}.
Definition rst0 : rst := {| r_linked := false; r_up := vup0; r_fly := None; r_sent := []; r_pushed := []; r_owed := None |}.

Definition r_apply (x : rst) (res : vup * option wtask) : rst :=
  {| r_linked := r_linked x; r_up := fst res;
     r_fly := match snd res with Some t => Some t | None => r_fly x end;
     r_sent := r_sent x; r_pushed := r_pushed x; r_owed := r_owed x |}.

Definition r_link (x : rst) : rst :=
  let y := r_apply x (vpush_special (r_up x) (SLinked 0)) in
  {| r_linked := true; r_up := r_up y; r_fly := r_fly y; r_sent := r_sent y; r_pushed := r_pushed y; r_owed := r_owed y |}.

(* [msg]: 0 = an unlink request ("Link closed."), 1 = the agent stops / the lane goes away (no message) *)
Definition r_unlink_as (x : rst) (msg : N) : rst :=
  if r_linked x then
    let y := r_apply x (vpush_special (r_up x) (SUnlinked 0 msg)) in
    {| r_linked := false; r_up := r_up y; r_fly := r_fly y; r_sent := r_sent y; r_pushed := r_pushed y; r_owed := None |}
  else x.
Definition r_unlink (x : rst) : rst := r_unlink_as x 0.

Definition r_value (x : rst) (b : body) : rst :=
  let y := r_apply x (vpush_value (r_up x) b) in
  {| r_linked := r_linked y; r_up := r_up y; r_fly := r_fly y; r_sent := r_sent y;
     r_pushed := r_pushed x ++ [b]; r_owed := Some b |}.

Definition r_synced (x : rst) : rst := r_apply x (vpush_synced (r_up x)).

(* a response addressed to this remote links it first if need be *)
Definition r_ensure_linked (x : rst) : rst := if r_linked x then x else r_link x.

Definition r_done (x : rst) : rst * list frame :=
  match r_fly x with
  | Some t =>
      let res := vpop (r_up x) in
      ({| r_linked := r_linked x; r_up := fst res; r_fly := snd res; r_sent := r_sent x ++ frames_of t;
          r_pushed := r_pushed x; r_owed := r_owed x |}, frames_of t)
  | None => (x, [])
  end.

(* ---- the pipeline ---- *)
Record pipe := { p_lane : vlane; p_hist : list body (* ghost: every value the lane has held, oldest first *);
                 p_rems : list (N * rst) }.
Definition pipe0 (init : body) : pipe := {| p_lane := vlane0 init; p_hist := [init]; p_rems := [] |}.

Inductive pop :=
| PAdd (r : N)                  (* a remote attaches *)
| PSet (v : body)               (* a command, or a handler of the agent, sets the lane *)
| PSync (r : N)                 (* remote r asks to be synced: the read task forwards the request to the lane *)
| PWrite                        (* the agent lets the lane write (write_to_buffer) and the runtime takes it in *)
| PLink (r : N) | PUnlink (r : N)
| PDone (r : N)                 (* the write in progress for r completes *)
| PStopAll.                     (* the agent stops: unlink_all *)

Fixpoint rmap (f : rst -> rst) (r : N) (m : list (N * rst)) : list (N * rst) :=
  match m with
  | [] => []
  | (k, x) :: t => if k =? r then (k, f x) :: t else (k, x) :: rmap f r t
  end.
Definition rall (f : rst -> rst) (m : list (N * rst)) : list (N * rst) := map (fun kx => (fst kx, f (snd kx))) m.

Definition deliver (m : list (N * rst)) (a : lresp) : list (N * rst) :=
  match a with
  | LEvent b => rall (fun x => if r_linked x then r_value x b else x) m
  | LSyncEvent r b => rmap (fun x => r_value (r_ensure_linked x) b) r m
  | LSynced r => rmap (fun x => r_synced (r_ensure_linked x)) r m
  end.

Definition set_rems (p : pipe) (m : list (N * rst)) : pipe := {| p_lane := p_lane p; p_hist := p_hist p; p_rems := m |}.

Definition pstep (p : pipe) (o : pop) : pipe * list frame * option wres :=
  match o with
  | PAdd r => (match aget r (p_rems p) with Some _ => p | None => set_rems p (p_rems p ++ [(r, rst0)]) end, [], None)
  | PSet v => ({| p_lane := vl_set (p_lane p) v; p_hist := p_hist p ++ [v]; p_rems := p_rems p |}, [], None)
  | PSync r => ({| p_lane := vl_sync (p_lane p) r; p_hist := p_hist p; p_rems := p_rems p |}, [], None)
  | PWrite =>
      let '(l', rs, res) := vl_write (p_lane p) in
      ({| p_lane := l'; p_hist := p_hist p; p_rems := fold_left deliver rs (p_rems p) |}, [], Some res)
  | PLink r => (set_rems p (rmap r_link r (p_rems p)), [], None)
  | PUnlink r => (set_rems p (rmap r_unlink r (p_rems p)), [], None)
  | PDone r =>
      match aget r (p_rems p) with
      | Some x => let (x', fr) := r_done x in (set_rems p (rmap (fun _ => x') r (p_rems p)), fr, None)
      | None => (p, [], None)
      end
  | PStopAll => (set_rems p (rall (fun x => r_unlink_as x 1) (p_rems p)), [], None)
  end.

Fixpoint prun (p : pipe) (ops : list pop) : list (list frame * option wres) :=
  match ops with
  | [] => []
  | o :: t => let '(p', fr, res) := pstep p o in (fr, res) :: prun p' t
  end.
Definition pexec (p : pipe) (ops : list pop) : pipe := fold_left (fun q o => fst (fst (pstep q o))) ops p.

(* ---- what is claimed about the frames ---- *)
Definition events_of (fs : list frame) : list body :=
  flat_map (fun f => match f with FEvent _ b => [b] | _ => [] end) fs.
Definition fly_frames (x : rst) : list frame := match r_fly x with Some t => frames_of t | None => [] end.

(* [ss d h]: d is h with elements left out and elements repeated in place - an ordered, gap-tolerant view
   of h (the earliest match is taken: it leaves the most room for what follows) *)
Fixpoint ss (d : list body) : list body -> bool :=
  match d with
  | [] => fun _ => true
  | x :: d' => fix aux (h : list body) : bool :=
      match h with
      | [] => false
      | y :: h' => if body_eqb x y then ss d' h else aux h'
      end
  end.

Definition last_opt {A} (l : list A) : option A := match rev l with [] => None | x :: _ => Some x end.
Definition obody_eqb (a b : option body) : bool :=
  match a, b with None, None => true | Some x, Some y => body_eqb x y | _, _ => false end.


(* ---- the link protocol per (remote, lane): linked, then events and synced, then one unlinked; repeated ---- *)
Inductive gst := GOut | GIn.
Definition gstep (g : option gst) (f : frame) : option gst :=        (* None: the grammar is violated *)
  match g, f with
  | Some _, FLinked _ => Some GIn                                      (* a link request is answered, also inside a link *)
  | Some GIn, FEvent _ _ => Some GIn
  | Some GIn, FSynced _ => Some GIn
  | Some GIn, FUnlinked _ _ => Some GOut
  | _, _ => None
  end.
Definition gram_from (g : option gst) (fs : list frame) : option gst := fold_left gstep fs g.
Definition gram (fs : list frame) : option gst := gram_from (Some GOut) fs.
Definition gram_ok (fs : list frame) : bool := match gram fs with Some _ => true | None => false end.
Definition special_frames (a : special) : list frame := frames_of (vtask (WSpecial a)).
Definition count_synced (fs : list frame) : nat := length (filter (fun f => match f with FSynced _ => true | _ => false end) fs).

(* ---- correspondence ---- *)
(* the same operations on the general write-task model of Model/Uplinks.v (one registered lane) *)
Definition resp_of (a : lresp) : option N * resp :=
  match a with LEvent b => (None, RValue b) | LSyncEvent r b => (Some r, RValue b) | LSynced r => (Some r, RSynced KValue) end.

Fixpoint bridge_run (l : vlane) (w : wstate) (ops : list pop) : list (list frame) :=
  match ops with
  | [] => []
  | o :: t =>
      match o with
      | PAdd r => [] :: bridge_run l (if has_remote w r then w else fst (wstep w (OAddRemote r))) t
      | PSet v => [] :: bridge_run (vl_set l v) w t
      | PSync r => [] :: bridge_run (vl_sync l r) w t
      | PWrite =>
          let '(l', rs, _) := vl_write l in
          [] :: bridge_run l' (fold_left (fun acc a => let (tg, rp) := resp_of a in fst (wstep acc (OEvent 0 tg rp))) rs w) t
      | PLink r => [] :: bridge_run l (fst (wstep w (OLink r 0))) t
      | PUnlink r => [] :: bridge_run l (fst (wstep w (OUnlink r 0))) t
      | PDone r => let (w', fr) := wstep w (ODone r) in fr :: bridge_run l w' t
      | PStopAll => [] :: bridge_run l (fst (wstep w OUnlinkAll)) t
      end
  end.

Definition ores_eqb (a b : option wres) : bool :=
  match a, b with None, None => true | Some x, Some y => wres_eqb x y | _, _ => false end.
Fixpoint pouts_eqb (a b : list (list frame * option wres)) : bool :=
  match a, b with
  | [], [] => true
  | (f, r) :: a', (g, s) :: b' => outs_eqb frame_eqb f g && ores_eqb r s && pouts_eqb a' b'
  | _, _ => false
  end.

(* a case: the initial value, the operations, per operation what the implementation delivered and returned *)
Definition vpcase := (body * list pop * list (list frame * option wres))%type.

Definition vp_corr_bad (cs : list (N * vpcase)) : list N :=
  map fst (filter (fun c => let '(init, ops, outs) := snd c in negb (pouts_eqb (prun (pipe0 init) ops) outs)) cs).

Definition vp_bridge_bad (cs : list (N * vpcase)) : list N :=
  map fst (filter (fun c => let '(init, ops, _) := snd c in
                            negb (outs_eqb (outs_eqb frame_eqb) (map fst (prun (pipe0 init) ops))
                                           (bridge_run (vlane0 init) (wstate0 1) ops))) cs).

(* the property oracle on the implementation's frames alone: per remote, the events are an ordered
   gap-tolerant view of the values the lane held, and a remote that was linked when the lane last changed and
   has nothing in progress at a quiescent end has the current value last *)
Fixpoint frames_for (r : N) (ops : list pop) (outs : list (list frame * option wres)) : list frame :=
  match ops, outs with
  | PDone r' :: ops', (fr, _) :: outs' => (if r =? r' then fr else []) ++ frames_for r ops' outs'
  | _ :: ops', _ :: outs' => frames_for r ops' outs'
  | _, _ => []
  end.
Definition hist_of (init : body) (ops : list pop) : list body :=
  init :: flat_map (fun o => match o with PSet v => [v] | _ => [] end) ops.
Definition remotes_of (ops : list pop) : list N :=
  flat_map (fun o => match o with PAdd r => [r] | _ => [] end) ops.

Definition vp_oracle_bad (cs : list (N * vpcase)) : list N :=
  map fst (filter (fun c => let '(init, ops, outs) := snd c in
     negb (forallb (fun r => ss (events_of (frames_for r ops outs)) (hist_of init ops)
                             && gram_ok (frames_for r ops outs)
                             && Nat.leb (count_synced (frames_for r ops outs))
                                        (length (filter (fun o => match o with PSync r' => r =? r' | _ => false end) ops)))
                   (remotes_of ops))) cs).

(* ---- end-to-end histories (the real agent on the real runtime; the schedule is the runtime's own) ---- *)
(* per (remote, lane) stream: the lane's history as recorded by its on_set handler (initial value first), the
   events the remote read, and whether the remote must be up to date at the end (it saw its linked before the
   last value-changing command was sent and stayed linked) *)
Definition e2ecase := (list body * list body * bool)%type.
Definition e2e_ok (c : e2ecase) : bool :=
  let '(hist, evs, settled) := c in
  ss evs hist && (negb settled || obody_eqb (last_opt evs) (last_opt hist)).
Definition e2e_oracle_bad (cs : list (N * e2ecase)) : list N := map fst (filter (fun c => negb (e2e_ok (snd c))) cs).
