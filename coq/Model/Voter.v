(* Model of runtime/swimos_runtime/src/timeout_coord/mod.rs  (Voter / Receiver).

   The shared [flags : AtomicU8] is a vector of [n] bits (bit [i] = party [i]'s vote),
   2 <= n <= 8 as in [multi_party_coordinator].  Steps are at atomic granularity: one
   [fetch_or], one [load] or one [compare_exchange] per micro-step, so a schedule is a list of
   (party, micro-step) pairs and other parties may interleave between the load and the CAS of the
   n-party [rescind] loop.  Definitions only; proofs are in Proofs/VoterProofs.v. *)
From Coq Require Export List Bool Arith NArith Lia.
Export ListNotations.

Definition flags := list bool.

Fixpoint set_bit (i : nat) (b : bool) (f : flags) : flags :=
  match f, i with
  | [], _ => []
  | _ :: t, O => b :: t
  | h :: t, S j => h :: set_bit j b t
  end.

Definition get_bit (i : nat) (f : flags) : bool := nth i f false.

Definition all_set (f : flags) : bool := forallb (fun b => b) f.

Fixpoint flags_eqb (a b : flags) : bool :=
  match a, b with
  | [], [] => true
  | x :: a', y :: b' => Bool.eqb x y && flags_eqb a' b'
  | _, _ => false
  end.

Definition zero (n : nat) : flags := repeat false n.
Definition ones (n : nat) : flags := repeat true n.
(* [flag] of party i: 1 << i *)
Definition onehot (n i : nat) : flags := set_bit i true (zero n).
(* [inverse] of party i: all ^ flag *)
Definition inverse (n i : nat) : flags := set_bit i false (ones n).

(* value of the byte, for dumps *)
Fixpoint flags_to_N (f : flags) : N :=
  match f with
  | [] => 0
  | b :: t => (if b then 1 else 0) + 2 * flags_to_N t
  end%N.

Inductive vote_result := Unanimous | UnanimityPending.

Definition vote_result_eqb (a b : vote_result) : bool :=
  match a, b with
  | Unanimous, Unanimous | UnanimityPending, UnanimityPending => true
  | _, _ => false
  end.

(* Local, per-voter state.  [loaded] is the value read by the n-party rescind loop whose CAS has
   not been attempted yet (None = not inside the loop body). *)
Record voter := { voted : bool; loaded : option flags; dropped : bool }.

Record state := { n_parties : nat; shared : flags; voters : list voter }.

Definition init (n : nat) : state :=
  {| n_parties := n; shared := zero n;
     voters := repeat {| voted := false; loaded := None; dropped := false |} n |}.

Definition get_voter (s : state) (i : nat) : voter :=
  nth i (voters s) {| voted := false; loaded := None; dropped := false |}.

Fixpoint set_nth {A} (i : nat) (x : A) (l : list A) : list A :=
  match l, i with
  | [], _ => []
  | _ :: t, O => x :: t
  | h :: t, S j => h :: set_nth j x t
  end.

Definition upd (s : state) (i : nat) (f : flags) (v : voter) : state :=
  {| n_parties := n_parties s; shared := f; voters := set_nth i v (voters s) |}.

Inductive micro :=
| MVote          (* fetch_or(flag); voted.set(true) *)
| MRescind2      (* two-party path: compare_exchange(flag, INIT) *)
| MRescindLoad   (* n-party path: current = flags.load() and the comparison with unanimity *)
| MRescindCas    (* n-party path: compare_exchange(current, current & !flag) *)
| MRescindNop    (* rescind of a voter with voted = false *)
| MDrop.         (* Drop for Voter *)

(* Outcome of a micro-step: [Some r] when the enclosing API call returns r at this step. *)
Definition mstep (s : state) (i : nat) (m : micro) : state * option vote_result :=
  let v := get_voter s i in
  let n := n_parties s in
  let f := shared s in
  match m with
  | MVote =>
      let f' := set_bit i true f in
      (upd s i f' {| voted := true; loaded := None; dropped := dropped v |},
       Some (if flags_eqb f (inverse n i) then Unanimous else UnanimityPending))
  | MRescind2 =>
      if flags_eqb f (onehot n i)
      then (upd s i (zero n) {| voted := false; loaded := None; dropped := dropped v |},
            Some UnanimityPending)
      else (s, Some Unanimous)
  | MRescindLoad =>
      if all_set f then (upd s i f {| voted := voted v; loaded := None; dropped := dropped v |},
                         Some Unanimous)
      else (upd s i f {| voted := voted v; loaded := Some f; dropped := dropped v |}, None)
  | MRescindCas =>
      match loaded v with
      | None => (s, None)
      | Some cur =>
          if flags_eqb f cur
          then (upd s i (set_bit i false cur)
                    {| voted := false; loaded := None; dropped := dropped v |},
                Some UnanimityPending)
          else (upd s i f {| voted := voted v; loaded := None; dropped := dropped v |}, None)
      end
  | MRescindNop => (s, Some UnanimityPending)
  | MDrop =>
      if voted v
      then (upd s i f {| voted := voted v; loaded := None; dropped := true |}, None)
      else (upd s i (set_bit i true f) {| voted := true; loaded := None; dropped := true |}, None)
  end.

(* Which micro-steps the code allows party [i] to take next (program order of the API). *)
Definition enabled (s : state) (i : nat) (m : micro) : bool :=
  let v := get_voter s i in
  (i <? n_parties s) && negb (dropped v) &&
  match m, loaded v with
  | MRescindCas, Some _ => true
  | MRescindCas, None => false
  | _, Some _ => false                         (* inside the loop only the CAS may follow *)
  | MVote, None => true
  | MDrop, None => true
  | MRescind2, None => voted v && (n_parties s =? 2)
  | MRescindLoad, None => voted v && negb (n_parties s =? 2)
  | MRescindNop, None => negb (voted v)
  end.

Definition receiver_ready (s : state) : bool := all_set (shared s).

(* ---------------------------------------------------------------------------------------- *)
(* API-level operations executed atomically (what a single-threaded driver observes); used by
   the correspondence check.  Each is a fixed sequence of micro-steps. *)

Inductive op := OVote (i : nat) | ORescind (i : nat) | ODrop (i : nat) | OPoll.

Inductive out := RVote (r : vote_result) | RUnit | RPoll (ready : bool) | RSkip.

Definition lift (x : state * option vote_result) : state * out :=
  match x with
  | (s', Some r) => (s', RVote r)
  | (s', None) => (s', RSkip)
  end.

Definition rescind_atomic (s : state) (i : nat) : state * out :=
  if enabled s i MRescindNop then lift (mstep s i MRescindNop)
  else if enabled s i MRescind2 then lift (mstep s i MRescind2)
  else if enabled s i MRescindLoad then
    match mstep s i MRescindLoad with
    | (s', Some r) => (s', RVote r)
    | (s', None) => if enabled s' i MRescindCas then lift (mstep s' i MRescindCas) else (s', RSkip)
    end
  else (s, RSkip).

Definition step (s : state) (o : op) : state * out :=
  match o with
  | OVote i => if enabled s i MVote then lift (mstep s i MVote) else (s, RSkip)
  | ORescind i => rescind_atomic s i
  | ODrop i => if enabled s i MDrop then (fst (mstep s i MDrop), RUnit) else (s, RSkip)
  | OPoll => (s, RPoll (receiver_ready s))
  end.

Fixpoint run (s : state) (ops : list op) : list out :=
  match ops with
  | [] => []
  | o :: rest => let (s', r) := step s o in r :: run s' rest
  end.

Fixpoint run_state (s : state) (ops : list op) : state :=
  match ops with
  | [] => s
  | o :: rest => run_state (fst (step s o)) rest
  end.

(* ---------------------------------------------------------------------------------------- *)
(* Property oracle on an observed API-level trace (independent of [mstep]): a reference
   bookkeeping of who has an outstanding vote.  [outs] are the implementation's outputs. *)

Record ref_state := { r_n : nat; r_out : list bool; r_gone : list bool; r_unan : bool }.

Definition ref_init (n : nat) : ref_state :=
  {| r_n := n; r_out := repeat false n; r_gone := repeat false n; r_unan := false |}.

Definition ref_all (r : ref_state) : bool := forallb (fun b => b) (r_out r).

(* returns None when the observed output contradicts the property *)
Definition ref_step (r : ref_state) (o : op) (obs : out) : option ref_state :=
  match o, obs with
  | OVote i, RVote res =>
      if nth i (r_gone r) false then None else
      let was := ref_all r in
      let r' := {| r_n := r_n r; r_out := set_nth i true (r_out r); r_gone := r_gone r;
                   r_unan := r_unan r || ref_all {| r_n := r_n r; r_out := set_nth i true (r_out r);
                                                    r_gone := r_gone r; r_unan := r_unan r |} |} in
      (* truthful: Unanimous iff this vote completed unanimity *)
      if vote_result_eqb res (if negb was && ref_all r' then Unanimous else UnanimityPending)
      then Some r' else None
  | ORescind i, RVote res =>
      if nth i (r_gone r) false then None else
      match res with
      | Unanimous => if ref_all r then Some r else None
      | UnanimityPending =>
          if ref_all r then
            (* allowed only when this party had no outstanding vote?  impossible: all are set *)
            None
          else Some {| r_n := r_n r; r_out := set_nth i false (r_out r); r_gone := r_gone r;
                       r_unan := r_unan r |}
      end
  | ODrop i, RUnit =>
      if nth i (r_gone r) false then None else
      let out' := set_nth i true (r_out r) in
      Some {| r_n := r_n r; r_out := out'; r_gone := set_nth i true (r_gone r);
              r_unan := r_unan r || forallb (fun b => b) out' |}
  | OPoll, RPoll b => if Bool.eqb b (ref_all r) then Some r else None
  | _, RSkip => Some r
  | _, _ => None
  end.

Fixpoint ref_ok (r : ref_state) (ops : list op) (outs : list out) : bool :=
  match ops, outs with
  | [], [] => true
  | o :: ops', x :: outs' =>
      match ref_step r o x with
      | Some r' => (implb (r_unan r) (ref_all r')) && ref_ok r' ops' outs'
      | None => false
      end
  | _, _ => false
  end.

Definition out_eqb (a b : out) : bool :=
  match a, b with
  | RVote x, RVote y => vote_result_eqb x y
  | RUnit, RUnit | RSkip, RSkip => true
  | RPoll x, RPoll y => Bool.eqb x y
  | _, _ => false
  end.

Fixpoint outs_eqb (a b : list out) : bool :=
  match a, b with
  | [], [] => true
  | x :: a', y :: b' => out_eqb x y && outs_eqb a' b'
  | _, _ => false
  end.

(* Checkers used by the generated cases files: a case is (n, ops, observed outputs). *)
Definition case := (nat * list op * list out)%type.

Definition corr_bad (cs : list (N * case)) : list N :=
  map fst (filter (fun c => match snd c with (n, ops, outs) =>
                     negb (outs_eqb (run (init n) ops) outs) end) cs).

Definition oracle_bad (cs : list (N * case)) : list N :=
  map fst (filter (fun c => match snd c with (n, ops, outs) =>
                     negb (ref_ok (ref_init n) ops outs) end) cs).
