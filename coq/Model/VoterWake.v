(* The wake-up side of runtime/swimos_runtime/src/timeout_coord/mod.rs, layered over Model/Voter.v:

     vote():            before = flags.fetch_or(flag); voted.set(true);
                        if before == inverse { waker.wake(); Unanimous } else { UnanimityPending }
     Drop for Voter:    if !voted { vote(); }
     Receiver::poll():  if flags.load() == unanimity { Ready }
                        else { waker.register(cx.waker()); if flags.load() == unanimity { Ready } else { Pending } }

   A voter whose fetch_or completed unanimity owes one [waker.wake()]; it is a separate micro-step, so other
   parties and the receiver's three steps may interleave between the fetch_or and the wake.  The AtomicWaker
   is a slot holding at most one registered waker: [register] fills it, [wake] empties it and notifies the
   task ([woken]).  (futures::task::AtomicWaker makes register / wake linearisable in this sense; its own
   internals are not modelled.)  Definitions only; proofs in Proofs/VoterWakeProofs.v. *)
From SwimV Require Export Model.Voter.

Inductive rphase :=
| RIdle          (* not polled yet *)
| RLoaded1       (* first load saw no unanimity; about to register *)
| RRegistered    (* waker registered; about to load again *)
| RParked        (* poll returned Pending *)
| RDone.         (* poll returned Ready *)

Definition rphase_eqb (a b : rphase) : bool :=
  match a, b with
  | RIdle, RIdle | RLoaded1, RLoaded1 | RRegistered, RRegistered | RParked, RParked | RDone, RDone => true
  | _, _ => false
  end.

Record wk := {
  core : state;
  reg : bool;            (* the AtomicWaker holds a waker *)
  phase : rphase;
  woken : bool;          (* the receiver's task has been notified since its last poll began *)
  pend : list nat        (* voters between their completing fetch_or and their waker.wake() *)
}.

Definition winit (n : nat) : wk := {| core := init n; reg := false; phase := RIdle; woken := false; pend := [] |}.

Inductive wmicro :=
| WV (i : nat) (m : micro)
| WWake (i : nat)
| WLoad1 | WRegister | WLoad2.

(* the fetch_or of this micro-step returns [inverse]: it completes unanimity *)
Definition completes (s : state) (i : nat) (m : micro) : bool :=
  match m with
  | MVote => flags_eqb (shared s) (inverse (n_parties s) i)
  | MDrop => negb (voted (get_voter s i)) && flags_eqb (shared s) (inverse (n_parties s) i)
  | _ => false
  end.

Fixpoint mem (i : nat) (l : list nat) : bool := match l with [] => false | j :: t => (i =? j) || mem i t end.
Fixpoint del (i : nat) (l : list nat) : list nat :=
  match l with [] => [] | j :: t => if i =? j then del i t else j :: del i t end.

Definition wstep (w : wk) (m : wmicro) : wk :=
  match m with
  | WV i mi =>
      if enabled (core w) i mi && negb (mem i (pend w)) then
        {| core := fst (mstep (core w) i mi); reg := reg w; phase := phase w; woken := woken w;
           pend := if completes (core w) i mi then pend w ++ [i] else pend w |}
      else w
  | WWake i =>
      if mem i (pend w) then
        {| core := core w; reg := false; phase := phase w; woken := woken w || reg w; pend := del i (pend w) |}
      else w
  | WLoad1 =>
      match phase w with
      | RIdle | RParked =>
          {| core := core w; reg := reg w;
             phase := if all_set (shared (core w)) then RDone else RLoaded1;
             woken := false; pend := pend w |}
      | _ => w
      end
  | WRegister =>
      match phase w with
      | RLoaded1 => {| core := core w; reg := true; phase := RRegistered; woken := woken w; pend := pend w |}
      | _ => w
      end
  | WLoad2 =>
      match phase w with
      | RRegistered =>
          {| core := core w; reg := reg w;
             phase := if all_set (shared (core w)) then RDone else RParked;
             woken := woken w; pend := pend w |}
      | _ => w
      end
  end.

Definition wexec (w : wk) (sc : list wmicro) : wk := fold_left wstep sc w.

(* the receiver is stuck: unanimity has been reached, its last poll returned Pending, nothing has notified
   its task since, and nobody is about to *)
Definition lost_wakeup (w : wk) : bool :=
  all_set (shared (core w)) && rphase_eqb (phase w) RParked && negb (woken w)
  && match pend w with [] => true | _ => false end.

(* ---------------------------------------------------------------------------------------- *)
(* API level (a single-threaded driver): each call runs its micro-steps back to back.  The observable is,
   per operation, its result and whether the receiver's waker was invoked during it. *)
Definition api_wake (w : wk) (i : nat) : wk * bool :=
  if mem i (pend w) then (wstep w (WWake i), reg w) else (w, false).

Definition wapi_step (w : wk) (o : op) : wk * out * bool :=
  match o with
  | OVote i =>
      let r := snd (step (core w) o) in
      let (w', b) := api_wake (wstep w (WV i MVote)) i in (w', r, b)
  | ODrop i =>
      let r := snd (step (core w) o) in
      let (w', b) := api_wake (wstep w (WV i MDrop)) i in (w', r, b)
  | ORescind i =>
      let (c', r) := step (core w) o in
      ({| core := c'; reg := reg w; phase := phase w; woken := woken w; pend := pend w |}, r, false)
  | OPoll =>
      let w0 := {| core := core w; reg := reg w;
                   phase := match phase w with RDone => RIdle | p => p end;     (* polled again after Ready *)
                   woken := woken w; pend := pend w |} in
      let w1 := wstep w0 WLoad1 in
      let w2 := wstep (wstep w1 WRegister) WLoad2 in
      (w2, RPoll (rphase_eqb (phase w2) RDone), false)
  end.

Fixpoint wapi_run (w : wk) (ops : list op) : list (out * bool) :=
  match ops with
  | [] => []
  | o :: rest => let '(w', r, b) := wapi_step w o in (r, b) :: wapi_run w' rest
  end.

Fixpoint wapi_state (w : wk) (ops : list op) : wk :=
  match ops with
  | [] => w
  | o :: rest => wapi_state (fst (fst (wapi_step w o))) rest
  end.

(* ---------------------------------------------------------------------------------------- *)
(* Property oracle on an observed trace, independent of the machine above: the reference bookkeeping of
   Model/Voter.v (who has an outstanding vote) plus whether the receiver is waiting.  A wake must be
   observed exactly when an operation completes unanimity while the receiver is waiting unnotified. *)
Record wref := { wr : ref_state; wr_waiting : bool }.

Definition wref_step (r : wref) (o : op) (obs : out) (woke : bool) : option wref :=
  match ref_step (wr r) o obs with
  | None => None
  | Some r' =>
      let completed := negb (ref_all (wr r)) && ref_all r' in
      match o with
      | OPoll =>
          if woke then None
          else Some {| wr := r'; wr_waiting := match obs with RPoll false => true | RPoll true => false | _ => wr_waiting r end |}
      | _ =>
          if Bool.eqb woke (completed && wr_waiting r)
          then Some {| wr := r'; wr_waiting := wr_waiting r && negb woke |}
          else None
      end
  end.

Fixpoint wref_ok (r : wref) (ops : list op) (outs : list out) (wakes : list bool) : bool :=
  match ops, outs, wakes with
  | [], [], [] => true
  | o :: ops', x :: outs', b :: wakes' =>
      match wref_step r o x b with
      | Some r' => wref_ok r' ops' outs' wakes'
      | None => false
      end
  | _, _, _ => false
  end.

Fixpoint obs_eqb (a : list (out * bool)) (outs : list out) (wakes : list bool) : bool :=
  match a, outs, wakes with
  | [], [], [] => true
  | (x, b) :: a', y :: outs', c :: wakes' => out_eqb x y && Bool.eqb b c && obs_eqb a' outs' wakes'
  | _, _, _ => false
  end.

(* a case: number of parties, operations, observed results, observed wake-ups *)
Definition wcase := (nat * list op * list out * list bool)%type.

Definition wake_corr_bad (cs : list (N * wcase)) : list N :=
  map fst (filter (fun c => let '(n, ops, outs, wakes) := snd c in
                            negb (obs_eqb (wapi_run (winit n) ops) outs wakes)) cs).
Definition wake_oracle_bad (cs : list (N * wcase)) : list N :=
  map fst (filter (fun c => let '(n, ops, outs, wakes) := snd c in
                            negb (wref_ok {| wr := ref_init n; wr_waiting := false |} ops outs wakes)) cs).
(* the checkers of Model/Voter.v on the same cases *)
Definition wcorr_bad (cs : list (N * wcase)) : list N :=
  corr_bad (map (fun c => let '(n, ops, outs, _) := snd c in (fst c, (n, ops, outs))) cs).
Definition woracle_bad (cs : list (N * wcase)) : list N :=
  oracle_bad (map (fun c => let '(n, ops, outs, _) := snd c in (fst c, (n, ops, outs))) cs).
