(* The write bookkeeping of the agent task (server/swimos_agent/src/agent_model/mod.rs, the loop of run_agent):

     dirty_items    : the items some handler has reported as changed and that may still have something to write
     item_writers   : the items whose output writer is at hand
     pending_writes : the writes in flight (the writer is lent to the future; it comes back as WriteComplete)

   Every iteration takes one event (possibly the completion of a write: the writer comes back), runs the handlers
   it calls for (they may flag items), and then passes over the flagged items:

       writer at hand, the item wrote and is done (Done / RequiresEvent)  -> write in flight, no longer flagged
       writer at hand, the item wrote and has more (DataStillAvailable)   -> write in flight, stays flagged
       writer at hand, the item had nothing to write (NoData)             -> writer kept, no longer flagged
       writer lent out                                                     -> stays flagged

   What an item answers when asked to write is the item's business (lanes: C01 / C02); it is an input here.  The
   implementation is tied in by its own trace (hook verif_trace): per iteration the event taken, the flagged set
   when the pass begins, the pass, and the three collections after it.  Definitions only; proofs in
   Proofs/WriteLoopProofs.v. *)
From Coq Require Export List Bool NArith Lia.
Export ListNotations.
Open Scope N_scope.

Inductive outcome := ONoWriter | ODone | ORequires | OMore | ONoData.

Definition mem (x : N) (l : list N) : bool := existsb (N.eqb x) l.
Definition remove (x : N) (l : list N) : list N := filter (fun y => negb (y =? x)) l.
Definition add (x : N) (l : list N) : list N := if mem x l then l else x :: l.
Definition subset (a b : list N) : bool := forallb (fun x => mem x b) a.
Definition same_set (a b : list N) : bool := subset a b && subset b a.

Record wl := {
  wl_dirty : list N;
  wl_writers : list N;
  wl_pending : list N;
  wl_owed : list N          (* ghost: items reported as changed whose lane has not yet said it has nothing more *)
}.

Definition wl0 (items : list N) : wl := {| wl_dirty := []; wl_writers := items; wl_pending := []; wl_owed := [] |}.

(* the writer of [id] comes back *)
Definition wl_return (s : wl) (id : N) : wl :=
  {| wl_dirty := wl_dirty s; wl_writers := add id (wl_writers s); wl_pending := remove id (wl_pending s); wl_owed := wl_owed s |}.

(* handlers flag items *)
Definition wl_flag (s : wl) (ids : list N) : wl :=
  {| wl_dirty := fold_right add (wl_dirty s) ids; wl_writers := wl_writers s; wl_pending := wl_pending s;
     wl_owed := fold_right add (wl_owed s) ids |}.

(* one flagged item is visited; [o] is what the implementation did; None: not what the bookkeeping allows *)
Definition wl_visit (s : wl) (id : N) (o : outcome) : option wl :=
  if mem id (wl_writers s) then
    match o with
    | ODone | ORequires =>
        Some {| wl_dirty := remove id (wl_dirty s); wl_writers := remove id (wl_writers s);
                wl_pending := add id (wl_pending s); wl_owed := remove id (wl_owed s) |}
    | OMore =>
        Some {| wl_dirty := wl_dirty s; wl_writers := remove id (wl_writers s);
                wl_pending := add id (wl_pending s); wl_owed := wl_owed s |}
    | ONoData =>
        Some {| wl_dirty := remove id (wl_dirty s); wl_writers := wl_writers s;
                wl_pending := wl_pending s; wl_owed := remove id (wl_owed s) |}
    | ONoWriter => None
    end
  else if mem id (wl_pending s) then      (* the writer is lent to a write in flight *)
    match o with
    | ONoWriter => Some s
    | _ => None
    end
  else None.                               (* not an item with a writer at all *)

Fixpoint wl_pass (s : wl) (p : list (N * outcome)) : option wl :=
  match p with
  | [] => Some s
  | (id, o) :: t => match wl_visit s id o with Some s' => wl_pass s' t | None => None end
  end.

(* one iteration of the loop as the trace shows it *)
Record iteration := {
  it_complete : option N;                    (* the event was the completion of this item's write *)
  it_flagged : list N;                       (* flagged when the pass begins *)
  it_pass : list (N * outcome);
  it_dirty : list N; it_writers : list N; it_pending : N     (* after the pass *)
}.

Definition newly (s : wl) (flagged : list N) : list N := filter (fun x => negb (mem x (wl_dirty s))) flagged.

Definition wl_iter (s : wl) (it : iteration) : option wl :=
  (* only a write in flight can complete *)
  if match it_complete it with Some id => negb (mem id (wl_pending s)) | None => false end then None else
  let s1 := match it_complete it with Some id => wl_return s id | None => s end in
  (* handlers only add to the flagged set *)
  if negb (subset (wl_dirty s1) (it_flagged it)) then None else
  let s2 := wl_flag s1 (newly s1 (it_flagged it)) in
  (* the pass visits exactly the flagged items, each once *)
  if negb (same_set (map fst (it_pass it)) (it_flagged it) && Nat.eqb (length (it_pass it)) (length (it_flagged it))) then None else
  match wl_pass s2 (it_pass it) with
  | Some s3 =>
      if same_set (wl_dirty s3) (it_dirty it) && same_set (wl_writers s3) (it_writers it)
         && (N.of_nat (length (wl_pending s3)) =? it_pending it)
      then Some s3 else None
  | None => None
  end.

Fixpoint wl_run (s : wl) (its : list iteration) : option wl :=
  match its with
  | [] => Some s
  | it :: t => match wl_iter s it with Some s' => wl_run s' t | None => None end
  end.

(* ---- correspondence: the implementation's trace is a run of the model ---- *)
Definition wlcase := (list N * list iteration)%type.        (* the items with a writer, the iterations *)
Definition wl_corr_bad (cs : list (N * wlcase)) : list N :=
  map fst (filter (fun c => let '(items, its) := snd c in match wl_run (wl0 items) its with Some _ => false | None => true end) cs).

(* ---- the property oracle on the trace alone ---- *)
(* after every pass: no writer has been lost (writers at hand + writes in flight = items), and every item still
   flagged has a write in flight (so its completion will bring the loop back to it); an item that was flagged and
   could not be visited with its writer, or said it has more, is still flagged *)
Definition pass_ok (nitems : N) (it : iteration) : bool :=
  (N.of_nat (length (it_writers it)) + it_pending it =? nitems)
  && forallb (fun id => negb (mem id (it_writers it))) (it_dirty it)
  && forallb (fun io => match snd io with
                        | ONoWriter | OMore => mem (fst io) (it_dirty it)
                        | _ => negb (mem (fst io) (it_dirty it))
                        end) (it_pass it).
Definition wl_oracle_bad (cs : list (N * wlcase)) : list N :=
  map fst (filter (fun c => let '(items, its) := snd c in negb (forallb (pass_ok (N.of_nat (length items))) its)) cs).
