(* Property oracle for C18 on implementation answers (DESIGN 2.6): round trip, ambiguity
   completeness, no empty binding, with the recorded Known classes excluded (KNOWN_FINDINGS.txt). *)
From SwimV Require Import Model.Route.
Open Scope N_scope.

Definition has_escape (s : str) : bool := negb (str_eqb (pct_decode s) s).

(* K1: a parameter NAME containing a percent escape (apply looks the raw name up, unapply returns
   the decoded name) *)
Definition known_name_escape (p : pattern) : bool :=
  existsb (fun sg => s_param sg && has_escape (s_text sg)) (p_segs p).

(* K2: a literal segment or scheme that is not inside RouteUri's (ASCII) grammar, so the applied
   route does not parse back as a whole *)
Definition uri_clean_lit (s : str) : bool := str_eqb (fst (take_path_chars s)) s.
Definition uri_clean_scheme (sc : str) : bool :=
  match uri_scheme (sc ++ [COLON]) with Some (sc', []) => str_eqb sc sc' | _ => false end.
Definition known_not_uri_clean (p : pattern) : bool :=
  existsb (fun sg => negb (s_param sg) && negb (uri_clean_lit (s_text sg))) (p_segs p)
  || match p_scheme p with Some sc => negb (uri_clean_scheme sc) | None => false end.

(* K3: a literal segment containing a percent escape: matching compares decoded text,
   are_ambiguous compares raw text *)
Definition known_literal_escape (p : pattern) : bool :=
  existsb (fun sg => negb (s_param sg) && has_escape (s_text sg)) (p_segs p).

Definition params_of (p : pattern) : list str :=
  map s_text (filter s_param (p_segs p)).

Definition restrict (m : list (str * str)) (names : list str) : list (str * str) :=
  fold_right (fun n acc => match lookup n m with Some v => bind n v acc | None => acc end) [] names.

Fixpoint find_unapply (s u : str) (c : case) : option (option (list (str * str))) :=
  match c with
  | [] => None
  | (QUnapply s' u' _, AUnapply r) :: t =>
      if str_eqb s s' && str_eqb u u' then Some r else find_unapply s u t
  | _ :: t => find_unapply s u t
  end.

Fixpoint uris_of (c : case) : list str :=
  match c with
  | [] => []
  | (QUnapply _ u _, _) :: t => u :: uris_of t
  | _ :: t => uris_of t
  end.

Definition lossy_of (s u : str) (c : case) : bool :=
  existsb (fun qa => match fst qa with
                     | QUnapply s' u' l => str_eqb s s' && str_eqb u u' && l
                     | _ => false end) c.

(* which clause fails, if any: 1 = round trip, 2 = ambiguity, 3 = empty binding *)
Definition violations (known : bool) (c : case) : list N :=
  flat_map (fun qa =>
    match qa with
    | (QApply s m, AApply (inl route)) =>
        match parse s, find_unapply s route c with
        | inl p, Some r =>
            let is_known := known_not_uri_clean p in
            let ok := match r with
                      | Some m' => lossy_of s route c || map_eqb m' (restrict m (params_of p))
                      | None => false
                      end in
            if ok then [] else if Bool.eqb is_known known then [1] else []
        | _, _ => []
        end
    | (QAmb s t, AAmb false) =>
        match parse s, parse t with
        | inl p, inl q =>
            let is_known := false in
            let both := existsb (fun u => match find_unapply s u c, find_unapply t u c with
                                          | Some (Some _), Some (Some _) => true
                                          | _, _ => false end) (uris_of c) in
            if both then (if Bool.eqb is_known known then [2] else []) else []
        | _, _ => []
        end
    | (QUnapply _ _ _, AUnapply (Some m)) =>
        if existsb (fun kv => match snd kv with [] => true | _ => false end) m
        then (if known then [] else [3]) else []
    | _ => []
    end) c.

Definition oracle_bad (cs : list (N * case)) : list N :=
  map fst (filter (fun c => match violations false (snd c) with [] => false | _ => true end) cs).

Definition known_hits (cs : list (N * case)) : list N :=
  map fst (filter (fun c => match violations true (snd c) with [] => false | _ => true end) cs).
