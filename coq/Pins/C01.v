(* Pinned statements for C01: a changed statement or a new axiom fails the check. *)
From SwimV Require Import Model.Uplinks Proofs.UplinksProofs Props.C01.
Open Scope N_scope.
Check (C01_value_event_is_latest) : (forall kf ops, Forall (well_kinded kf) ops -> forall h t b, In (h, Some t) (urun uplinks0 [] ops) -> kf (wt_lane t) = KValue -> (wt_action t = WEvent b \/ wt_action t = WValueSynced true b) -> last_value h (wt_lane t) None = Some b).
Print Assumptions C01_value_event_is_latest.
Check (C01_newer_value_replaces_pending) : (forall u l b, u_writer u = false -> aget l (u_values (fst (push_resp u l (RValue b)))) = Some {| uv_queued := true; uv_synced := uv_synced (aget_or uv0 l (u_values u)); uv_cur := Some b |}).
Print Assumptions C01_newer_value_replaces_pending.
