(* Pinned statements for C01: a changed statement or a new axiom fails the check. *)
From SwimV Require Import Model.Uplinks Proofs.UplinksProofs Model.ValuePipeline Proofs.ValuePipelineProofs Model.WriteLoop Proofs.WriteLoopProofs Props.C01.
Open Scope N_scope.
Check (C01_value_event_is_latest) : (forall kf ops, Forall (well_kinded kf) ops -> forall h t b, In (h, Some t) (urun uplinks0 [] ops) -> kf (wt_lane t) = KValue -> (wt_action t = WEvent b \/ wt_action t = WValueSynced true b) -> last_value h (wt_lane t) None = Some b).
Print Assumptions C01_value_event_is_latest.
Check (C01_newer_value_replaces_pending) : (forall u l b, u_writer u = false -> aget l (u_values (fst (push_resp u l (RValue b)))) = Some {| uv_queued := true; uv_synced := uv_synced (aget_or uv0 l (u_values u)); uv_cur := Some b |}).
Print Assumptions C01_newer_value_replaces_pending.
Check (C01_remote_view_of_history) : (forall init ops r x, aget r (p_rems (pexec (pipe0 init) ops)) = Some x -> SS (events_of (r_sent x)) (p_hist (pexec (pipe0 init) ops))).
Print Assumptions C01_remote_view_of_history.
Check (C01_delivered_frames_are_a_view) : (forall init ops r, ss (events_of (frames_for r ops (prun (pipe0 init) ops))) (hist_of init ops) = true).
Print Assumptions C01_delivered_frames_are_a_view.
Check (C01_view_decision_is_exact) : (forall d h, ss d h = true <-> SS d h).
Print Assumptions C01_view_decision_is_exact.
Check (C01_quiescent_remote_is_current) : (forall init ops r x b, let p := pexec (pipe0 init) ops in aget r (p_rems p) = Some x -> vl_dirty (p_lane p) = false -> v_home (r_up x) = true -> r_owed x = Some b -> last_opt (events_of (r_sent x)) = Some (vl_content (p_lane p))).
Print Assumptions C01_quiescent_remote_is_current.
Check (C01_linked_remote_converges) : (forall init ops1 ops2 r, let p1 := pexec (pipe0 init) ops1 in let p2 := pexec (pipe0 init) (ops1 ++ ops2) in Owes r p1 -> Forall (fun o => o <> PUnlink r /\ o <> PStopAll) ops2 -> vl_dirty (p_lane p2) = false -> forall x, aget r (p_rems p2) = Some x -> v_home (r_up x) = true -> last_opt (events_of (r_sent x)) = Some (vl_content (p_lane p2))).
Print Assumptions C01_linked_remote_converges.
Check (C01_owes_witness) : (Owes 1 (pexec (pipe0 [48]) [PAdd 1; PLink 1; PSet [53]])).
Print Assumptions C01_owes_witness.
Check (C01_loop_no_writer_lost) : (forall items its s, wl_run (wl0 items) its = Some s -> forall x, WriteLoop.mem x items = xorb (WriteLoop.mem x (wl_writers s)) (WriteLoop.mem x (wl_pending s)) /\ WriteLoop.mem x (wl_writers s) && WriteLoop.mem x (wl_pending s) = false).
Print Assumptions C01_loop_no_writer_lost.
Check (C01_loop_flagged_item_has_write_in_flight) : (forall items its it s s', wl_run (wl0 items) its = Some s -> wl_iter s it = Some s' -> forall x, WriteLoop.mem x (wl_dirty s') = true -> WriteLoop.mem x (wl_pending s') = true).
Print Assumptions C01_loop_flagged_item_has_write_in_flight.
Check (C01_loop_reported_change_stays_flagged) : (forall items its s, wl_run (wl0 items) its = Some s -> forall x, WriteLoop.mem x (wl_owed s) = true -> WriteLoop.mem x (wl_dirty s) = true).
Print Assumptions C01_loop_reported_change_stays_flagged.
Check (C01_loop_quiescent_nothing_owed) : (forall items its it s s', wl_run (wl0 items) its = Some s -> wl_iter s it = Some s' -> wl_pending s' = [] -> forall x, WriteLoop.mem x (wl_owed s') = false).
Print Assumptions C01_loop_quiescent_nothing_owed.
