(* Pinned statements for C02: a changed statement or a new axiom fails the check. *)
From SwimV Require Import Model.MapLane Proofs.MapQueueProofs Proofs.MapLaneProofs Proofs.MapTwoStageProofs Props.C02.
From Coq Require Import Permutation.
Open Scope N_scope.
Check (C02_queue_converges) : (forall d h ops, h < W -> len ops + 1 < W -> let '(q, src, rep) := track d (empty_at h) None None ops in effs d (events q) rep = src /\ unique_cls (events q) /\ (events q = [] -> rep = src)).
Print Assumptions C02_queue_converges.
Check (C02_oracle_holds) : (forall h ops cs, h < W -> len ops + 1 < W -> oracle_run [] [] ops (qrun (empty_at h) ops) cs = true).
Print Assumptions C02_oracle_holds.
Check (C02_push_is_apply_last) : (forall d es e cur, unique_cls es -> clear_only_first es -> effs d (spush es e) cur = eff d e (effs d es cur)).
Print Assumptions C02_push_is_apply_last.
Check (C02_popped_entry_is_current) : (forall d q src rep q' e, QI d q src rep -> pop q = (q', Some e) -> cls e = Some d -> eff d e rep = src).
Print Assumptions C02_popped_entry_is_current.
Check (C02_clear_pushed_alone) : (forall q keep, events (push q EClear keep) = [EClear]).
Print Assumptions C02_clear_pushed_alone.
Check (C02_clear_not_overtaken) : (forall q e keep, SI q -> len (events q) + 1 < W -> hd_error (events q) = Some EClear -> hd_error (events (push q e keep)) = Some EClear).
Print Assumptions C02_clear_not_overtaken.
Check (C02_queued_value_is_current) : (forall m q rep0 k v, LIw m q rep0 -> In (EUpdate k v) (events q) -> em_get k m = Some v).
Print Assumptions C02_queued_value_is_current.
Check (C02_lane_converges) : (forall ops, 2 * len ops + 2 < W -> let (l, rep0) := ltrack lane0 [] ops in (forall d, effs d (events (evq l)) (lookup d rep0) = lookup d (l_map l)) /\ (events (evq l) = [] -> forall d, lookup d rep0 = lookup d (l_map l))).
Print Assumptions C02_lane_converges.
Check (C02_drop_take_order_independent) : (forall ks ks' kind n, NoDup (map fst ks) -> Permutation ks ks' -> drop_or_take ks kind n = drop_or_take ks' kind n).
Print Assumptions C02_drop_take_order_independent.
Check (C02_drop_take_boundary) : (forall ks n a b, NoDup (map fst ks) -> In a (drop_or_take ks KDrop n) -> In b (drop_or_take ks KTake n) -> fst a < fst b).
Print Assumptions C02_drop_take_boundary.
Check (C02_drop_take_counts) : (forall ks n, length (drop_or_take ks KDrop n) = Nat.min n (length ks) /\ length (drop_or_take ks KTake n) = (length ks - n)%nat).
Print Assumptions C02_drop_take_counts.
Check (C02_take_drop_exact) : (forall l kind n d, NoDup (em_classes (l_map l)) -> lookup d (l_map (lane_drop_take l kind n)) = if existsb (fun k => fst k =? d) (drop_or_take (map fst (l_map l)) kind n) then None else lookup d (l_map l)).
Print Assumptions C02_take_drop_exact.
Check (C02_two_stage_converges) : (forall keep1 keep2 d h1 h2 ops, h1 < W -> h2 < W -> 2 * len ops + 2 < W -> let '(s, src, mid, rep) := ts_track keep1 keep2 d {| t_lane := empty_at h1; t_rt := empty_at h2 |} None None None ops in effs d (events (t_lane s)) (effs d (events (t_rt s)) rep) = src /\ (events (t_lane s) = [] -> events (t_rt s) = [] -> rep = src)).
Print Assumptions C02_two_stage_converges.
