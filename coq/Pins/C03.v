(* Pinned statements for C03: a changed statement or a new axiom fails the check. *)
From SwimV Require Import Model.Uplinks Proofs.UplinksProofs Model.ValuePipeline Proofs.ValuePipelineProofs Props.C03.
From SwimV Require Import Model.MapLane Proofs.MapQueueProofs Proofs.MapLaneProofs Proofs.MapLaneSyncProofs.
Open Scope N_scope.
Check (C03_value_synced_after_value) : (forall u l rest x b, u_sq u = [] -> u_wq u = (KValue, l) :: rest -> aget l (u_values u) = Some x -> uv_synced x = true -> uv_cur x = Some b -> option_map frames_of (snd (replace_and_pop u)) = Some [FEvent l b; FSynced l]).
Print Assumptions C03_value_synced_after_value.
Check (C03_value_synced_alone) : (forall u l rest x, u_sq u = [] -> u_wq u = (KValue, l) :: rest -> aget l (u_values u) = Some x -> uv_synced x = true -> uv_cur x = None -> option_map frames_of (snd (replace_and_pop u)) = Some [FSynced l]).
Print Assumptions C03_value_synced_alone.
Check (C03_map_synced_drains_queue) : (forall l q, frames_of {| wt_lane := l; wt_action := WMapSynced (Some q) |} = map (fun e => FMapEvent l (Some e)) (events q) ++ [FSynced l]).
Print Assumptions C03_map_synced_drains_queue.
Check (C03_sync_events_are_lane_events) : (forall kf ops, Forall (well_kinded kf) ops -> forall h t q, In (h, Some t) (urun uplinks0 [] ops) -> wt_action t = WMapSynced (Some q) -> forall e, In e (events q) -> pushed_map h (wt_lane t) e).
Print Assumptions C03_sync_events_are_lane_events.
Check (C03_value_sync_answer_is_current) : (forall l r rest, vl_syncq l = r :: rest -> snd (fst (vl_write l)) = [LSyncEvent r (vl_content l); LSynced r]).
Print Assumptions C03_value_sync_answer_is_current.
Check (C03_value_sync_before_event) : (forall l, vl_syncq l <> [] -> forall a, In a (snd (fst (vl_write l))) -> forall b, a <> LEvent b).
Print Assumptions C03_value_sync_before_event.
Check (C03_value_tail_converges) : (forall init ops1 ops2 r, let p1 := pexec (pipe0 init) ops1 in let p2 := pexec (pipe0 init) (ops1 ++ ops2) in Owes r p1 -> Forall (fun o => o <> PUnlink r /\ o <> PStopAll) ops2 -> vl_dirty (p_lane p2) = false -> forall x, aget r (p_rems p2) = Some x -> v_home (r_up x) = true -> last_opt (events_of (r_sent x)) = Some (vl_content (p_lane p2))).
Print Assumptions C03_value_tail_converges.
Check (C03_map_sync_replica_converges) : (forall id ops, NoDup (sync_ids ops) -> 2 * len ops + 2 < W -> let '(l, rep0, st, rep) := strack id lane0 [] SNone [] ops in st = SSynced -> (forall d, effs d (events (evq l)) (lookup d rep) = lookup d (l_map l)) /\ (events (evq l) = [] -> forall d, lookup d rep = lookup d (l_map l))).
Print Assumptions C03_map_sync_replica_converges.
Check (C03_map_syncing_replica_is_consistent) : (forall id ops, NoDup (sync_ids ops) -> 2 * len ops + 2 < W -> let '(l, rep0, st, rep) := strack id lane0 [] SNone [] ops in st = SSyncing -> exists K, pend id (syncs_of l) = Some K /\ forall d, (inK d K = true /\ lookup d rep = None) \/ effs d (events (evq l)) (lookup d rep) = lookup d (l_map l)).
Print Assumptions C03_map_syncing_replica_is_consistent.
Check (C03_map_sync_witness) : (let ops := [LUpdate (1, 0) 5; LUpdate (2, 0) 6; LSync 9; LWrite; LWrite; LUpdate (3, 0) 7; LRemove (1, 0); LWrite; LWrite; LWrite; LWrite; LWrite; LWrite; LWrite; LWrite] in let '(l, rep0, st, rep) := strack 9 lane0 [] SNone [] ops in st = SSynced /\ events (evq l) = [] /\ lookup 1 rep = None /\ lookup 2 rep = Some 6 /\ lookup 3 rep = Some 7).
Print Assumptions C03_map_sync_witness.
