(* Pinned statements for C03: a changed statement or a new axiom fails the check. *)
From SwimV Require Import Model.Uplinks Proofs.UplinksProofs Props.C03.
Open Scope N_scope.
Check (C03_value_synced_after_value) : (forall u l rest x b, u_sq u = [] -> u_wq u = (KValue, l) :: rest -> aget l (u_values u) = Some x -> uv_synced x = true -> uv_cur x = Some b -> option_map frames_of (snd (replace_and_pop u)) = Some [FEvent l b; FSynced l]).
Print Assumptions C03_value_synced_after_value.
Check (C03_value_synced_alone) : (forall u l rest x, u_sq u = [] -> u_wq u = (KValue, l) :: rest -> aget l (u_values u) = Some x -> uv_synced x = true -> uv_cur x = None -> option_map frames_of (snd (replace_and_pop u)) = Some [FSynced l]).
Print Assumptions C03_value_synced_alone.
Check (C03_map_synced_drains_queue) : (forall l q, frames_of {| wt_lane := l; wt_action := WMapSynced (Some q) |} = map (fun e => FMapEvent l (Some e)) (events q) ++ [FSynced l]).
Print Assumptions C03_map_synced_drains_queue.
Check (C03_sync_events_are_lane_events) : (forall kf ops, Forall (well_kinded kf) ops -> forall h t q, In (h, Some t) (urun uplinks0 [] ops) -> wt_action t = WMapSynced (Some q) -> forall e, In e (events q) -> pushed_map h (wt_lane t) e).
Print Assumptions C03_sync_events_are_lane_events.
