(* Pinned statements for C03: a changed statement or a new axiom fails the check. *)
From SwimV Require Import Model.Uplinks Proofs.UplinksProofs Model.ValuePipeline Proofs.ValuePipelineProofs Props.C03.
Open Scope N_scope.
Check (C03_value_synced_after_value) : (forall u l rest x b, u_sq u = [] -> u_wq u = (KValue, l) :: rest -> aget l (u_values u) = Some x -> uv_synced x = true -> uv_cur x = Some b -> option_map frames_of (snd (replace_and_pop u)) = Some [FEvent l b; FSynced l]).
Print Assumptions C03_value_synced_after_value.
Check (C03_value_synced_alone) : (forall u l rest x, u_sq u = [] -> u_wq u = (KValue, l) :: rest -> aget l (u_values u) = Some x -> uv_synced x = true -> uv_cur x = None -> option_map frames_of (snd (replace_and_pop u)) = Some [FSynced l]).
Print Assumptions C03_value_synced_alone.
Check (C03_map_synced_drains_queue) : (forall l q, frames_of {| wt_lane := l; wt_action := WMapSynced (Some q) |} = map (fun e => FMapEvent l (Some e)) (events q) ++ [FSynced l]).
Print Assumptions C03_map_synced_drains_queue.
Check (C03_sync_events_are_lane_events) : (forall kf ops, Forall (well_kinded kf) ops -> forall h t q, In (h, Some t) (urun uplinks0 [] ops) -> wt_action t = WMapSynced (Some q) -> forall e, In e (events q) -> pushed_map h (wt_lane t) e).
Print Assumptions C03_sync_events_are_lane_events.
Check (C03_value_sync_answer_is_current) : (forall l r rest, vl_syncq l = r :: rest -> snd (fst (vl_write l)) = [LSyncEvent r (vl_content l); LSynced r]).
Print Assumptions C03_value_sync_answer_is_current.
Check (C03_value_sync_before_event) : (forall l, vl_syncq l <> [] -> forall a, In a (snd (fst (vl_write l))) -> forall b, a <> LEvent b).
Print Assumptions C03_value_sync_before_event.
Check (C03_value_tail_converges) : (forall init ops1 ops2 r, let p1 := pexec (pipe0 init) ops1 in let p2 := pexec (pipe0 init) (ops1 ++ ops2) in Owes r p1 -> Forall (fun o => o <> PUnlink r /\ o <> PStopAll) ops2 -> vl_dirty (p_lane p2) = false -> forall x, aget r (p_rems p2) = Some x -> v_home (r_up x) = true -> last_opt (events_of (r_sent x)) = Some (vl_content (p_lane p2))).
Print Assumptions C03_value_tail_converges.
