(* Pinned statements for C04: a changed statement or a new axiom fails the check. *)
From SwimV Require Import Model.Uplinks Proofs.UplinksProofs Props.C04.
Open Scope N_scope.
Check (C04_tasks_justified) : (forall kf ops, Forall (well_kinded kf) ops -> forall h t, In (h, Some t) (urun uplinks0 [] ops) -> task_ok kf h t).
Print Assumptions C04_tasks_justified.
Check (C04_task_takes_writer) : (forall u o t, snd (ustep u o) = Some t -> u_writer (fst (ustep u o)) = false).
Print Assumptions C04_task_takes_writer.
Check (C04_no_task_while_writer_out) : (forall u o, u_writer u = false -> o <> UReturn -> snd (ustep u o) = None).
Print Assumptions C04_no_task_while_writer_out.
Check (C04_specials_first) : (forall u a rest, u_writer u = false -> u_sq u = a :: rest -> snd (replace_and_pop u) = Some {| wt_lane := special_lane a; wt_action := WSpecial a |} /\ u_sq (fst (replace_and_pop u)) = rest).
Print Assumptions C04_specials_first.
