(* Pinned statements for C04: a changed statement or a new axiom fails the check. *)
From SwimV Require Import Model.Uplinks Proofs.UplinksProofs Model.ValuePipeline Proofs.ValuePipelineProofs Proofs.ValueGrammarProofs Props.C04.
Open Scope N_scope.
Check (C04_tasks_justified) : (forall kf ops, Forall (well_kinded kf) ops -> forall h t, In (h, Some t) (urun uplinks0 [] ops) -> task_ok kf h t).
Print Assumptions C04_tasks_justified.
Check (C04_task_takes_writer) : (forall u o t, snd (ustep u o) = Some t -> u_writer (fst (ustep u o)) = false).
Print Assumptions C04_task_takes_writer.
Check (C04_no_task_while_writer_out) : (forall u o, u_writer u = false -> o <> UReturn -> snd (ustep u o) = None).
Print Assumptions C04_no_task_while_writer_out.
Check (C04_specials_first) : (forall u a rest, u_writer u = false -> u_sq u = a :: rest -> snd (replace_and_pop u) = Some {| wt_lane := special_lane a; wt_action := WSpecial a |} /\ u_sq (fst (replace_and_pop u)) = rest).
Print Assumptions C04_specials_first.
Check (C04_value_stream_is_grammatical) : (forall init ops r x, aget r (p_rems (pexec (pipe0 init) ops)) = Some x -> exists g, gram (r_sent x) = Some g).
Print Assumptions C04_value_stream_is_grammatical.
Check (C04_delivered_frames_are_grammatical) : (forall init ops r, gram_ok (frames_for r ops (prun (pipe0 init) ops)) = true).
Print Assumptions C04_delivered_frames_are_grammatical.
Check (C04_synced_only_when_asked) : (forall init ops r x, aget r (p_rems (pexec (pipe0 init) ops)) = Some x -> (count_synced (r_sent x) <= asked r ops)%nat).
Print Assumptions C04_synced_only_when_asked.
Check (C04_stopped_agent_closes_every_link) : (forall init ops1 ops2 r x, let p := pexec (pipe0 init) (ops1 ++ PStopAll :: ops2) in Forall (fun o => match o with PDone _ => True | _ => False end) ops2 -> aget r (p_rems p) = Some x -> v_home (r_up x) = true -> gram (r_sent x) = Some GOut).
Print Assumptions C04_stopped_agent_closes_every_link.
Check (C04_stop_witness) : (let p := pexec (pipe0 [48]) ([PAdd 1; PLink 1; PDone 1; PSet [53]; PWrite] ++ PStopAll :: [PDone 1; PDone 1; PDone 1]) in exists x, aget 1 (p_rems p) = Some x /\ v_home (r_up x) = true /\ r_sent x = [FLinked 0; FEvent 0 [53]; FUnlinked 0 1]).
Print Assumptions C04_stop_witness.
