(* Pinned statements for C05: a changed statement or a new axiom fails the check. *)
From SwimV Require Import Model.Persist Proofs.PersistProofs Props.C05.
Open Scope N_scope.
Check (C05_write_task_history_ok) : (forall persistent ss, log_ok persistent (w_log (wtask_run persistent ss)) = true).
Print Assumptions C05_write_task_history_ok.
Check (C05_crash_anywhere) : (forall persistent n l, log_ok persistent l = true -> log_ok persistent (firstn n l) = true).
Print Assumptions C05_crash_anywhere.
Check (C05_restart_never_older_value) : (forall persistent l n r i x, log_ok persistent l = true -> persistent i = true -> no_delete i l -> In (LSentV r i x) (firstn n l) -> (exists before after, puts i (firstn n l) = before ++ x :: after /\ restored_value (replay (firstn n l)) i = last (x :: after) 0%Z) \/ x = 0%Z).
Print Assumptions C05_restart_never_older_value.
Check (C05_restart_never_older_map) : (forall persistent l n r i o, log_ok persistent l = true -> persistent i = true -> In (LSentM r i o) (firstn n l) -> In o (mops i (firstn n l)) /\ restored_map (replay (firstn n l)) i = fold_left apply_mop (mops i (firstn n l)) []).
Print Assumptions C05_restart_never_older_map.
Check (C05_initialiser_rebuilds_the_map) : (forall l i, rebuild (restored_map (replay l) i) = restored_map (replay l) i).
Print Assumptions C05_initialiser_rebuilds_the_map.
Check (C05_transient_restarts_at_default) : (forall persistent l n i, log_ok persistent l = true -> persistent i = false -> restored_value (replay (firstn n l)) i = 0%Z /\ restored_map (replay (firstn n l)) i = []).
Print Assumptions C05_transient_restarts_at_default.
Check (C05_write_task_provenance) : (forall persistent ss, provenance_ok (handled ss) (w_log (wtask_run persistent ss)) = true).
Print Assumptions C05_write_task_provenance.
Check (C05_stored_value_was_reported) : (forall cmds l n i, provenance_ok cmds l = true -> puts i (firstn n l) <> [] -> existsb (cmd_is_put i (restored_value (replay (firstn n l)) i)) cmds = true).
Print Assumptions C05_stored_value_was_reported.
