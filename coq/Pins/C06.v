(* Pinned statements for C06: a changed statement or a new axiom fails the check. *)
From SwimV Require Import Model.Handlers Proofs.HandlersProofs Props.C06.
Open Scope N_scope.
Check (C06_machine_is_depth_first) : (forall lc h st tr r, (exists g, run g lc (init h) st tr = Some r) <-> (exists f, eval f lc h st tr = Some r)).
Print Assumptions C06_machine_is_depth_first.
Check (C06_and_then_is_sequencing) : (forall lc g a b st tr, run g lc (init (HThen a b)) st tr = run g lc (init (HSeq a b)) st tr).
Print Assumptions C06_and_then_is_sequencing.
Check (C06_result_transformers_are_transparent) : (forall lc g a st tr, run g lc (init (HWrap a)) st tr = run g lc (init a) st tr).
Print Assumptions C06_result_transformers_are_transparent.
Check (C06_deterministic) : (forall lc g1 g2 s st tr r1 r2, run g1 lc s st tr = Some r1 -> run g2 lc s st tr = Some r2 -> r1 = r2).
Print Assumptions C06_deterministic.
Check (C06_set_triggers_event_then_set) : (forall lc f st tr l v, eval (S f) lc (HSetV l v) st tr = eval f lc (HSeq (HSeq (HRecord (EOnEvent l v)) (lc_event lc l)) (HSeq (HRecord (EOnSet l v (Some (v_content (vget st l))))) (lc_set lc l))) (settled st l v) tr).
Print Assumptions C06_set_triggers_event_then_set.
Check (C06_cascade_is_nested) : (forall lc f st tr l v st' tr', eval (S (S (S f))) lc (HSetV l v) st tr = Some (Ok, st', tr') -> exists st1 t1 t2, eval f lc (lc_event lc l) (settled st l v) (tr ++ [EOnEvent l v]) = Some (Ok, st1, (tr ++ [EOnEvent l v]) ++ t1) /\ eval f lc (lc_set lc l) st1 (((tr ++ [EOnEvent l v]) ++ t1) ++ [EOnSet l v (Some (v_content (vget st l)))]) = Some (Ok, st', (((tr ++ [EOnEvent l v]) ++ t1) ++ [EOnSet l v (Some (v_content (vget st l)))]) ++ t2) /\ tr' = (((tr ++ [EOnEvent l v]) ++ t1) ++ [EOnSet l v (Some (v_content (vget st l)))]) ++ t2).
Print Assumptions C06_cascade_is_nested.
Check (C06_update_triggers_on_update) : (forall lc f st tr l k v, eval (S f) lc (HUpdM l k v) st tr = eval f lc (HSeq (HRecord (EOnUpdate l k (zlookup k (m_content (mget st l))) (match zlookup k (zinsert k v (m_content (mget st l))) with Some x => x | None => 0%Z end))) (lc_update lc l)) (mput st l {| m_content := zinsert k v (m_content (mget st l)); m_prev := None |}) tr).
Print Assumptions C06_update_triggers_on_update.
Check (C06_remove_absent_triggers_nothing) : (forall lc f st tr l k, m_prev (mget st l) = None -> zlookup k (m_content (mget st l)) = None -> eval (S f) lc (HRemM l k) st tr = Some (Ok, st, tr)).
Print Assumptions C06_remove_absent_triggers_nothing.
Check (C06_trace_extends) : (forall lc f h st tr o st' tr', eval f lc h st tr = Some (o, st', tr') -> exists s, tr' = tr ++ s).
Print Assumptions C06_trace_extends.
Check (C06_failure_stops_the_rest) : (forall lc f a b st tr st1 tr1, eval f lc a st tr = Some (Failed, st1, tr1) -> eval (S f) lc (HSeq a b) st tr = Some (Failed, st1, tr1)).
Print Assumptions C06_failure_stops_the_rest.
Check (C06_failure_in_cascade_fails_the_setter) : (forall lc f st tr l v st1 tr1, eval f lc (HSeq (HSeq (HRecord (EOnEvent l v)) (lc_event lc l)) (HSeq (HRecord (EOnSet l v (Some (v_content (vget st l))))) (lc_set lc l))) (settled st l v) tr = Some (Failed, st1, tr1) -> forall rest, eval (S (S f)) lc (HSeq (HSetV l v) rest) st tr = Some (Failed, st1, tr1)).
Print Assumptions C06_failure_in_cascade_fails_the_setter.
Check (C06_agent_failure_is_final) : (forall lc g hs1 h hs2 st tr st1 tr1 st2 tr2, run_all g lc hs1 st tr = Some (Ok, st1, tr1) -> run g lc (init h) st1 tr1 = Some (Failed, st2, tr2) -> run_all g lc (hs1 ++ TMain h :: hs2) st tr = Some (Failed, st2, tr2)).
Print Assumptions C06_agent_failure_is_final.
Check (C06_command_failure_is_contained) : (forall lc g hs1 h hs2 st tr st1 tr1 st2 tr2, run_all g lc hs1 st tr = Some (Ok, st1, tr1) -> run g lc (init h) st1 tr1 = Some (Failed, st2, tr2) -> run_all g lc (hs1 ++ TCmd h :: hs2) st tr = run_all g lc hs2 st2 tr2).
Print Assumptions C06_command_failure_is_contained.
Check (C06_acyclic_programs_terminate) : (forall lc rank, stratified lc rank -> forall r h, modifies_below rank r h -> forall st tr, exists f res, eval f lc h st tr = Some res).
Print Assumptions C06_acyclic_programs_terminate.
