(* Pinned statements for C07: a changed statement or a new axiom fails the check. *)
From SwimV Require Import Model.DlMapWrite Proofs.MapQueueProofs Proofs.DlMapWriteProofs Model.DlRuntime Proofs.DlRuntimeProofs Proofs.DlWriteProofs Props.C07.
Open Scope N_scope.
Check (C07_shared_runtime_is_private_sessions) : (forall single c sync es, (attaches c es <= 1)%nat -> flags_ok c sync es -> seen_by c (snd (rrun single rstate0 es)) = session single c sync sess0 es).
Print Assumptions C07_shared_runtime_is_private_sessions.
Check (C07_joiner_does_not_disturb_the_others) : (forall single c sync c' b es1 es2, c' <> c -> (attaches c (es1 ++ RConsumer c' b :: es2) <= 1)%nat -> flags_ok c sync (es1 ++ RConsumer c' b :: es2) -> seen_by c (snd (rrun single rstate0 (es1 ++ RConsumer c' b :: es2))) = seen_by c (snd (rrun single rstate0 (es1 ++ es2)))).
Print Assumptions C07_joiner_does_not_disturb_the_others.
Check (C07_commands_never_reordered) : (forall es, Subseq (commands_of (w_sent (wrun es))) (commands_in es)).
Print Assumptions C07_commands_never_reordered.
Check (C07_last_command_is_sent) : (forall es d, w_pending (wrun es) = None -> last (commands_of (w_sent (wrun es))) d = last (commands_in es) d).
Print Assumptions C07_last_command_is_sent.
Check (C07_write_task_drains) : (forall s, (w_pending s = None -> w_latest s = None /\ w_needs_sync s = false) -> w_pending (wdrain 3 s) = None).
Print Assumptions C07_write_task_drains.
Check (C07_link_is_sent_first) : (forall es, exists rest, w_sent (wrun es) = FLink :: rest).
Print Assumptions C07_link_is_sent_first.
Check (C07_sync_is_sent_for_a_joiner) : (forall es1 es2, w_pending (wrun (es1 ++ WProducer true :: es2)) = None -> (count_sync (w_sent (wrun es1)) < count_sync (w_sent (wrun (es1 ++ WProducer true :: es2))))%nat).
Print Assumptions C07_sync_is_sent_for_a_joiner.
Check (C07_map_commands_converge) : (forall d h es, h < W -> len es + 2 < W -> let s := mwrun h es in effs d (events (mw_queue s)) (effs d (applied s) None) = effs d (ops_given es) None /\ (mw_pending s = None -> effs d (ops_of (mw_sent s)) None = effs d (ops_given es) None)).
Print Assumptions C07_map_commands_converge.
