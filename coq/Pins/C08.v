(* Pinned statements for C08: a changed statement or a new axiom fails the check. *)
From SwimV Require Import Model.Downlink Proofs.DownlinkProofs Props.C08.
Open Scope N_scope.
Check (C08_client_map_is_spec) : (forall cfg ns, legal None ns = true -> c_run cfg CsUnlinked ns = spec_run cfg None ns).
Print Assumptions C08_client_map_is_spec.
Check (C08_hosted_map_is_spec) : (forall cfg ns, legal None ns = true -> has_whole_drop None ns = false -> h_run cfg h0 ns = spec_run cfg None ns).
Print Assumptions C08_hosted_map_is_spec.
Check (C08_client_eq_hosted_map) : (forall cfg ns, legal None ns = true -> has_whole_drop None ns = false -> c_run cfg CsUnlinked ns = h_run cfg h0 ns).
Print Assumptions C08_client_eq_hosted_map.
Check (C08_client_event_applies_always) : (forall m e d, c_on_event m e d = (apply_msg m e, if d then spec_cbs m e else [])).
Print Assumptions C08_client_event_applies_always.
Check (C08_hosted_event_applies_always) : (forall m e lc, whole_drop m e = false -> h_on_event m e lc = (apply_msg m e, if lc then spec_cbs m e else [])).
Print Assumptions C08_hosted_event_applies_always.
Check (C08_synced_sees_fold) : (forall cfg es, spec_run cfg None (NLinked :: map NEvent es ++ [NSynced]) = [CLinked] :: map (fun p => if events_when_not_synced cfg then spec_cbs (fst p) (snd p) else []) ((fix go m es := match es with [] => [] | e :: t => (m, e) :: go (apply_msg m e) t end) [] es) ++ [[CSynced (fold_left apply_msg es [])]]).
Print Assumptions C08_synced_sees_fold.
Check (C08_client_value_is_spec) : (forall cfg ns, vlegal None ns = true -> cv_run cfg CvUnlinked ns = vspec_run cfg None ns).
Print Assumptions C08_client_value_is_spec.
Check (C08_hosted_value_is_spec) : (forall cfg ns, vlegal None ns = true -> hv_run cfg hv0 ns = vspec_run cfg None ns).
Print Assumptions C08_hosted_value_is_spec.
Check (C08_F1_hosted_whole_drop_refuted) : (exists cfg ns, legal None ns = true /\ h_run cfg h0 ns <> spec_run cfg None ns /\ c_run cfg CsUnlinked ns = spec_run cfg None ns).
Print Assumptions C08_F1_hosted_whole_drop_refuted.
