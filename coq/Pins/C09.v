(* Pinned statements for C09: a changed statement or a new axiom fails the check. *)
From SwimV Require Import Model.ReconText Proofs.ReconTextProofs Props.C09.
Open Scope N_scope.
Check (C09_text_roundtrip) : (forall t rest, match rest with [] => True | c :: _ => is_identifier_char c = false end -> text_token (write_string_literal t ++ rest) = (TokText t, rest)).
Print Assumptions C09_text_roundtrip.
Check (C09_quoted_reads_back) : (forall t rest, text_token (quoted t ++ rest) = (TokText t, rest)).
Print Assumptions C09_quoted_reads_back.
Check (C09_unescape_escape) : (forall t, unescape (escape_text t) = Some t).
Print Assumptions C09_unescape_escape.
Check (C09_surrogate_escape_rejected) : (text_token [34; 92; 117; 100; 56; 48; 48; 34] = (TokBadEscape, [])).
Print Assumptions C09_surrogate_escape_rejected.
