(* Pinned statements for C09: a changed statement or a new axiom fails the check. *)
From SwimV Require Import Model.ReconText Proofs.ReconTextProofs Props.C09.
From SwimV Require Import Model.ReconNum Proofs.ReconNumProofs.
From SwimV Require Import Model.ReconBlob Proofs.ReconBlobProofs.
Open Scope N_scope.
Check (C09_text_roundtrip) : (forall t rest, match rest with [] => True | c :: _ => is_identifier_char c = false end -> text_token (write_string_literal t ++ rest) = (TokText t, rest)).
Print Assumptions C09_text_roundtrip.
Check (C09_quoted_reads_back) : (forall t rest, text_token (quoted t ++ rest) = (TokText t, rest)).
Print Assumptions C09_quoted_reads_back.
Check (C09_unescape_escape) : (forall t, unescape (escape_text t) = Some t).
Print Assumptions C09_unescape_escape.
Check (C09_surrogate_escape_rejected) : (text_token [34; 92; 117; 100; 56; 48; 48; 34] = (TokBadEscape, [])).
Print Assumptions C09_surrogate_escape_rejected.
Check (C09_printed_integer_reads_back) : (forall z rest, follow_ok rest -> exists v, num_token (print_int z ++ rest) = (NLit v, rest) /\ nz v = z).
Print Assumptions C09_printed_integer_reads_back.
Check (C09_printed_integer_is_an_integer_text) : (forall z, exists v, int_of_text (print_int z) = Some v /\ nz v = z).
Print Assumptions C09_printed_integer_is_an_integer_text.
Check (C09_literal_kind_by_number) : (forall neg n, let v := classify neg n in let z := nz v in value_kind v = if ((- 2147483648 <=? z) && (z <=? 2147483647))%Z then VI32 else if ((- 9223372036854775807 <=? z) && (z <=? 9223372036854775807))%Z then VI64 else if ((0 <=? z) && (z <=? 18446744073709551615))%Z then VU64 else if (z <? 0)%Z then VBigInt else VBigUint).
Print Assumptions C09_literal_kind_by_number.
Check (C09_printed_blob_reads_back) : (forall bs rest, byte_list bs -> blob_follow_ok rest -> blob_token (print_blob bs ++ rest) = (BOk bs, rest)).
Print Assumptions C09_printed_blob_reads_back.
Check (C09_blob_literal_injective) : (forall a b, byte_list a -> byte_list b -> print_blob a = print_blob b -> a = b).
Print Assumptions C09_blob_literal_injective.
