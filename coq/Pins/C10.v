(* Pinned statements for C10: a changed statement or a new axiom fails the check. *)
From SwimV Require Import Model.Codec Proofs.Streaming Proofs.CodecProofs Proofs.ProtoFrameProofs Props.C10.
Open Scope N_scope.
Check (C10_any_fragmentation_generic) : (forall (step : dstate -> bytes -> dstate * bytes * dres) (enc : msg -> option bytes) (valid : msg -> Prop) (unread : dstate -> bytes), unread SHeader = [] -> (forall m e, valid m -> enc m = Some e -> e <> []) -> (forall s b m e rest, valid m -> enc m = Some e -> unread s ++ b = e ++ rest -> step s b = (SHeader, rest, DSome m)) -> (forall s b m p q, valid m -> enc m = Some (p ++ q) -> q <> [] -> unread s ++ b = p -> exists s' b', step s b = (s', b', DNone) /\ unread s' ++ b' = p) -> (forall s b, unread s ++ b = [] -> exists s' b', step s b = (s', b', DNone) /\ unread s' ++ b' = []) -> forall chunks ms all, Forall valid ms -> enc_all enc ms = Some all -> concat chunks = all -> feed_items step unread SHeader [] chunks = (ms, [], true)).
Print Assumptions C10_any_fragmentation_generic.
Check (C10_length_prefixed_frames) : (frame_spec dec_wl (encode CWL) valid_wl).
Print Assumptions C10_length_prefixed_frames.
Check (C10_map_operation_frames) : (frame_spec dec_mapop (encode CMO) valid_mo).
Print Assumptions C10_map_operation_frames.
Check (C10_map_message_frames) : (frame_spec dec_mapmsg (encode CMM) valid_mm).
Print Assumptions C10_map_message_frames.
Check (C10_stateless_any_chunking) : (forall D E V, frame_spec D E V -> forall chunks ms all, Forall V ms -> enc_all E ms = Some all -> concat chunks = all -> feed_items (fun _ b => stateless (D b)) no_unread SHeader [] chunks = (ms, [], true)).
Print Assumptions C10_stateless_any_chunking.
Check (C10_lane_response_any_chunking) : (forall i chunks ms all, Forall (valid_lresp i) ms -> enc_all (encode (CLaneResp i)) ms = Some all -> concat chunks = all -> feed_items (dstep (CLaneResp i)) unread_lresp SHeader [] chunks = (ms, [], true)).
Print Assumptions C10_lane_response_any_chunking.
Check (C10_lane_request_any_chunking) : (forall i chunks ms all, Forall (valid_lreq i) ms -> enc_all (encode (CLaneReq i)) ms = Some all -> concat chunks = all -> feed_items (dstep (CLaneReq i)) unread_cmd SHeader [] chunks = (ms, [], true)).
Print Assumptions C10_lane_request_any_chunking.
Check (C10_no_panic) : (forall c s b, panic_free c = true -> snd (dstep c s b) <> DPanic).
Print Assumptions C10_no_panic.
Check (C10_routed_request_frames) : (frame_spec (dec_proto true) (encode CReq) valid_req).
Print Assumptions C10_routed_request_frames.
Check (C10_routed_response_frames) : (frame_spec (dec_proto false) (encode CResp) valid_resp).
Print Assumptions C10_routed_response_frames.
Check (C10_routed_request_any_chunking) : (forall chunks ms all, Forall valid_req ms -> enc_all (encode CReq) ms = Some all -> concat chunks = all -> feed_items (dstep CReq) no_unread SHeader [] chunks = (ms, [], true)).
Print Assumptions C10_routed_request_any_chunking.
Check (C10_routed_response_any_chunking) : (forall chunks ms all, Forall valid_resp ms -> enc_all (encode CResp) ms = Some all -> concat chunks = all -> feed_items (dstep CResp) no_unread SHeader [] chunks = (ms, [], true)).
Print Assumptions C10_routed_response_any_chunking.
