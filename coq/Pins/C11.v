(* Pinned statements for C11: a changed statement or a new axiom fails the check. *)
From SwimV Require Import Model.Envelope Proofs.EnvelopeProofs Props.C11.
Open Scope N_scope.
Check (C11_envelope_roundtrip) : (forall k node lane body, peel_envelope (enc_envelope k node lane body) = Some (k, node, lane, skip_blanks body)).
Print Assumptions C11_envelope_roundtrip.
Check (C11_slot_value_is_printed_name) : (forall t c rest, is_identifier_char c = false -> value_span (write_string_literal t ++ c :: rest) = Some (write_string_literal t, c :: rest)).
Print Assumptions C11_slot_value_is_printed_name.
