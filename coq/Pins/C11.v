(* Pinned statements for C11: a changed statement or a new axiom fails the check. *)
From SwimV Require Import Model.Envelope Proofs.EnvelopeProofs Model.SocketDispatch Proofs.SocketDispatchProofs Props.C11.
Open Scope N_scope.
Check (C11_envelope_roundtrip) : (forall k node lane body, peel_envelope (enc_envelope k node lane body) = Some (k, node, lane, skip_blanks body)).
Print Assumptions C11_envelope_roundtrip.
Check (C11_slot_value_is_printed_name) : (forall t c rest, is_identifier_char c = false -> value_span (write_string_literal t ++ c :: rest) = Some (write_string_literal t, c :: rest)).
Print Assumptions C11_slot_value_is_printed_name.
Check (C11_tables_refine_registrations) : (forall plane ops, srun plane sock0 ops = spec_run plane ospec0 ops).
Print Assumptions C11_tables_refine_registrations.
Check (C11_response_reaches_exactly_the_owed) : (forall plane ops p, let s := sexec plane sock0 ops in s_stopped s = false -> snd (sstep plane s (OInResp p)) = map (fun d => DResp d p) (owed s (p_node p) (p_lane p))).
Print Assumptions C11_response_reaches_exactly_the_owed.
Check (C11_response_is_not_misdelivered) : (forall plane ops p d, let s := sexec plane sock0 ops in In (DResp d p) (snd (sstep plane s (OInResp p))) -> In (d, (p_node p, p_lane p)) (s_addr s) /\ memN d (s_gone s) = false).
Print Assumptions C11_response_is_not_misdelivered.
Check (C11_request_goes_to_its_node) : (forall plane s q, s_stopped s = false -> snd (sstep plane s (OInReq q)) = if memN (q_node q) plane then [DReq (q_node q) q] else match q_kind q with QCommand => [] | _ => [DFrame (FNotFound (q_node q) (q_lane q))] end).
Print Assumptions C11_request_goes_to_its_node.
Check (C11_invalid_frame_is_never_delivered) : (forall plane s o, s_stopped s = true -> snd (sstep plane s o) = []).
Print Assumptions C11_invalid_frame_is_never_delivered.
Check (C11_outgoing_messages_leave_unchanged) : (forall plane s d q, s_stopped s = false -> lookup d (s_addr s) <> None -> memN d (s_gone s) = false -> snd (sstep plane s (ODlSend d q)) = [DFrame (FReq q)]).
Print Assumptions C11_outgoing_messages_leave_unchanged.
Check (C11_sender_messages_leave_unchanged) : (forall plane s d q, s_stopped s = false -> memN d (s_senders s) = true -> memN d (s_gone s) = false -> snd (sstep plane s (ODlSend d q)) = [DFrame (FReq q)]).
Print Assumptions C11_sender_messages_leave_unchanged.
Check (C11_cleanup_witness) : (let p1 := {| p_kind := PEvent; p_node := 1; p_lane := 0; p_body := Some 901 |} in let p2 := {| p_kind := PEvent; p_node := 1; p_lane := 1; p_body := Some 902 |} in srun [] sock0 [OAttach 1 1 0; OAttach 2 1 1; ODrop 1; OInResp p1; OInResp p2] = [[]; []; []; []; [DResp 2 p2]]).
Print Assumptions C11_cleanup_witness.
