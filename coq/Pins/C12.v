(* Pinned statements for C12: a changed statement or a new axiom fails the check. *)
From SwimV Require Import Model.Conduit Proofs.ConduitProofs Props.C12.
Check (C12_reachable_invariant) : (forall cp ops, 1 <= cp -> Inv (run_state (init cp) ops)).
Print Assumptions C12_reachable_invariant.
Check (C12_prefix_and_capacity) : (forall cp ops, 1 <= cp -> reads_of (run (init cp) ops) ++ data (run_state (init cp) ops) = writes_of ops (run (init cp) ops) /\ length (data (run_state (init cp) ops)) <= cp).
Print Assumptions C12_prefix_and_capacity.
Check (C12_pending_read_parks) : (forall c n c' ws, step c (PollRead n) = (c', (RPending, ws)) -> (ws = [Rd] /\ data c' = data c /\ waker c' = waker c) \/ (ws = [] /\ rd_parked c' = true /\ waker c' = Some Rd /\ data c = [] /\ closed c = false)).
Print Assumptions C12_pending_read_parks.
Check (C12_pending_write_parks) : (forall c bs c' ws, step c (PollWrite bs) = (c', (RPending, ws)) -> (ws = [Wr] /\ data c' = data c /\ waker c' = waker c) \/ (ws = [] /\ wr_parked c' = true /\ waker c' = Some Wr /\ length (data c) >= cap c /\ closed c = false)).
Print Assumptions C12_pending_write_parks.
Check (C12_parked_reader_is_woken) : (forall c o c' r ws, Inv c -> rd_parked c = true -> step c o = (c', (r, ws)) -> (data c' <> [] \/ closed c' = true) -> In Rd ws).
Print Assumptions C12_parked_reader_is_woken.
Check (C12_parked_writer_is_woken) : (forall c o c' r ws, Inv c -> wr_parked c = true -> step c o = (c', (r, ws)) -> (length (data c') < cap c' \/ closed c' = true) -> In Wr ws).
Print Assumptions C12_parked_writer_is_woken.
Check (C12_closed_is_permanent) : (forall c o, closed c = true -> closed (fst (step c o)) = true).
Print Assumptions C12_closed_is_permanent.
Check (C12_no_write_after_close) : (forall c bs c' r ws, closed c = true -> step c (PollWrite bs) = (c', (r, ws)) -> data c' = data c /\ written c' = written c /\ (r = RBroken \/ r = RSkip \/ (r = RPending /\ ws = [Wr]))).
Print Assumptions C12_no_write_after_close.
Check (C12_read_after_close) : (forall c n c' r ws, closed c = true -> rd_alive c = true -> step c (PollRead n) = (c', (r, ws)) -> (r = RPending /\ ws = [Rd] /\ data c' = data c) \/ (exists bs, r = RRead bs /\ bs = firstn (Nat.min (length (data c)) n) (data c) /\ data c' = skipn (Nat.min (length (data c)) n) (data c))).
Print Assumptions C12_read_after_close.
Check (C12_empty_read_means_eof) : (forall c n c' ws, 0 < n -> step c (PollRead n) = (c', (RRead [], ws)) -> data c = [] /\ closed c = true).
Print Assumptions C12_empty_read_means_eof.
