(* Pinned statements for C13: a changed statement or a new axiom fails the check. *)
From SwimV Require Import Model.Stores Proofs.StoresProofs Proofs.StoresMapProofs Props.C13.
Open Scope N_scope.
Check (C13_map_key_injective) : (forall id k id' k', U64 id -> U64 id' -> U64 (len k) -> U64 (len k') -> ser_map_key id k = ser_map_key id' k' -> id = id' /\ k = k').
Print Assumptions C13_map_key_injective.
Check (C13_value_key_injective) : (forall id id', U64 id -> U64 id' -> ser_value id = ser_value id' -> id = id').
Print Assumptions C13_value_key_injective.
Check (C13_scan_selects_exactly_the_lane) : (forall id id' k', U56 id -> U56 id' -> let e := ser_map_key id' k' in (ble (ser_map_prefix id) e && bytes_eqb (prefix8 e) (prefix8 (ser_map_prefix id)) = true) <-> id' = id).
Print Assumptions C13_scan_selects_exactly_the_lane.
Check (C13_strip_returns_key) : (forall id k v, strip (ser_map_key id k, v) = (k, v)).
Print Assumptions C13_strip_returns_key.
Check (C13_range_contains_exactly_the_lane) : (forall id id' k', U64 id -> U64 id' -> let e := ser_map_key id' k' in (ble (ser_map_prefix id) e && blt e (ser_map_ubound id) = true) <-> id' = id).
Print Assumptions C13_range_contains_exactly_the_lane.
Check (C13_update_isolated) : (forall ks id id' k v, U56 id -> U56 id' -> id' <> id -> seek_prefix (bput (ser_map_key id' k) v ks) (ser_map_prefix id) = seek_prefix ks (ser_map_prefix id)).
Print Assumptions C13_update_isolated.
Check (C13_remove_isolated) : (forall ks id id' k, U56 id -> U56 id' -> id' <> id -> seek_prefix (bdel (ser_map_key id' k) ks) (ser_map_prefix id) = seek_prefix ks (ser_map_prefix id)).
Print Assumptions C13_remove_isolated.
Check (C13_clear_isolated) : (forall ks id id', wf_map_ks ks -> U56 id -> U56 id' -> id' <> id -> seek_prefix (delete_range ks (ser_map_prefix id') (ser_map_ubound id')) (ser_map_prefix id) = seek_prefix ks (ser_map_prefix id)).
Print Assumptions C13_clear_isolated.
Check (C13_clear_clears) : (forall ks id, wf_map_ks ks -> U56 id -> seek_prefix (delete_range ks (ser_map_prefix id) (ser_map_ubound id)) (ser_map_prefix id) = []).
Print Assumptions C13_clear_clears.
Check (C13_ids_invariant) : (forall ops, ids_inv (rocks_run_state rocks0 ops)).
Print Assumptions C13_ids_invariant.
Check (C13_id_is_stable) : (forall r o name id, bget name (lane_ids r) = Some id -> bget name (lane_ids (fst (rocks_step r o))) = Some id).
Print Assumptions C13_id_is_stable.
Check (C13_ids_never_collide) : (forall ops name1 name2 id, let r := rocks_run_state rocks0 ops in bget name1 (lane_ids r) = Some id -> bget name2 (lane_ids r) = Some id -> name1 = name2).
Print Assumptions C13_ids_never_collide.
Check (C13_ids_invariant_with_kills) : (forall hs, ids_inv (hrun_state rocks0 hs)).
Print Assumptions C13_ids_invariant_with_kills.
Check (C13_id_survives_a_kill) : (forall r k o name id, bget name (lane_ids r) = Some id -> bget name (lane_ids (rocks_kill r k o)) = Some id).
Print Assumptions C13_id_survives_a_kill.
Check (C13_ids_never_collide_with_kills) : (forall hs name1 name2 id, let r := hrun_state rocks0 hs in bget name1 (lane_ids r) = Some id -> bget name2 (lane_ids r) = Some id -> name1 = name2).
Print Assumptions C13_ids_never_collide_with_kills.
Check (C13_outright_kill_loses_nothing) : (forall r o, let r' := rocks_kill r 0 o in value_ks r' = value_ks r /\ map_ks r' = map_ks r /\ lane_ids r' = lane_ids r /\ lane_counter r' = lane_counter r).
Print Assumptions C13_outright_kill_loses_nothing.
Check (C13_outright_kills_are_reopenings) : (forall hs, only_outright hs = true -> forall r, hrun_state r hs = rocks_run_state r (map as_sop hs)).
Print Assumptions C13_outright_kills_are_reopenings.
Check (C13_F1_name_not_injective_refuted) : (exists a n a' n', (a, n) <> (a', n') /\ lane_name a n = lane_name a' n').
Print Assumptions C13_F1_name_not_injective_refuted.
Check (C13_wf_kept) : (forall ks id k v, WF ks -> U56 id -> WF (bput (ser_map_key id k) v ks) /\ WF (bdel (ser_map_key id k) ks) /\ WF (delete_range ks (ser_map_prefix id) (ser_map_ubound id))).
Print Assumptions C13_wf_kept.
Check (C13_scan_lookup_is_point_lookup) : (forall ks id k, wf_map_ks ks -> U56 id -> bget k (view ks id) = bget (ser_map_key id k) ks).
Print Assumptions C13_scan_lookup_is_point_lookup.
Check (C13_update_sets_the_key) : (forall ks id k v k', WF ks -> U56 id -> bget k' (view (bput (ser_map_key id k) v ks) id) = if bytes_eqb k' k then Some v else bget k' (view ks id)).
Print Assumptions C13_update_sets_the_key.
Check (C13_remove_unsets_the_key) : (forall ks id k k', WF ks -> U56 id -> bget k' (view (bdel (ser_map_key id k) ks) id) = if bytes_eqb k' k then None else bget k' (view ks id)).
Print Assumptions C13_remove_unsets_the_key.
Check (C13_clear_unsets_every_key) : (forall ks id k', WF ks -> U56 id -> bget k' (view (delete_range ks (ser_map_prefix id) (ser_map_ubound id)) id) = None).
Print Assumptions C13_clear_unsets_every_key.
Check (C13_read_map_lists_the_lane) : (forall ks id k v, WF ks -> U56 id -> In (k, v) (sort_kv (view ks id)) <-> bget (ser_map_key id k) ks = Some v).
Print Assumptions C13_read_map_lists_the_lane.
Check (C13_read_map_is_sorted) : (forall l, sorted_keys (sort_kv l)).
Print Assumptions C13_read_map_is_sorted.
Check (C13_map_witness) : (let ks := bput (ser_map_key 2 [7]) [9] (bput (ser_map_key 1 [7]) [8] []) in WF ks /\ sort_kv (view ks 1) = [([7], [8])] /\ sort_kv (view ks 2) = [([7], [9])]).
Print Assumptions C13_map_witness.
