(* Pinned statements for C14: a changed statement or a new axiom fails the check. *)
From SwimV Require Import Model.NoCoalesce Proofs.CodecProofs Proofs.NoCoalesceProofs Props.C14.
From SwimV Require Model.Commanders Proofs.CommandersProofs.
Open Scope N_scope.
Check (C14_supply_lane_exactly_once) : (forall ops s, events_of (srun s ops) ++ s_events (sfinal s ops) = s_events s ++ pushed_of ops /\ syncs_of (srun s ops) ++ s_syncs (sfinal s ops) = s_syncs s ++ synced_of ops).
Print Assumptions C14_supply_lane_exactly_once.
Check (C14_supply_lane_flag) : (forall s, match sstep s SWrite with | (s', SWrote _ more) => more = nonempty (s_events s') || nonempty (s_syncs s') | _ => False end).
Print Assumptions C14_supply_lane_flag.
Check (C14_supply_lane_progress) : (forall s, nonempty (s_events s) || nonempty (s_syncs s) = true -> match sstep s SWrite with (_, SWrote (Some _) _) => True | _ => False end).
Print Assumptions C14_supply_lane_progress.
Check (C14_supply_buffer_fifo) : (forall ops pending, Forall (fun b => U64 (len b)) pending -> Forall (fun o => match o with BPush b => U64 (len b) | BPrepare => True end) ops -> supplybp_oracle pending ops (brun (frames pending) ops) = true).
Print Assumptions C14_supply_buffer_fifo.
Check (C14_adhoc_forwarding) : (forall ops t, let s := crun ops in keeps (appends t (cs_hist s)) (bodies (proj t (cs_stream s)) ++ bodies (lb_buf (get_buf t (co_bufs (cs_c s)))))).
Print Assumptions C14_adhoc_forwarding.
Check (C14_adhoc_idle_all_sent) : (forall ops t, let s := crun ops in co_writer (cs_c s) <> None -> lb_buf (get_buf t (co_bufs (cs_c s))) = [] /\ keeps (appends t (cs_hist s)) (bodies (proj t (cs_stream s)))).
Print Assumptions C14_adhoc_idle_all_sent.
Check (C14_keeps_never_drops_plain) : (forall A D, keeps A D -> forall b, In (b, false) A -> In b D).
Print Assumptions C14_keeps_never_drops_plain.
Check (C14_keeps_never_drops_latest) : (forall A D, keeps A D -> forall A' b o, A = A' ++ [(b, o)] -> exists D', D = D' ++ [b]).
Print Assumptions C14_keeps_never_drops_latest.
Check (C14_keeps_in_order_at_most_once) : (forall A D, keeps A D -> exists mask, length mask = length A /\ D = map fst (map snd (filter fst (combine mask A)))).
Print Assumptions C14_keeps_in_order_at_most_once.
Check (C14_commands_reach_their_targets) : (forall ops ms, Commanders.arun Commanders.agent0 ops = Some ms -> Commanders.resolve [] ms = Some (Commanders.intended ops)).
Print Assumptions C14_commands_reach_their_targets.
Check (C14_commander_identifiers_are_stable) : (forall c addrs c', (forall a1 a2 i, Commanders.alookup a1 (Commanders.assigned c) = Some i -> Commanders.alookup a2 (Commanders.assigned c) = Some i -> a1 = a2) -> (forall a i, Commanders.alookup a (Commanders.assigned c) = Some i -> i < Commanders.next_id c) -> CommandersProofs.ids_after c addrs = Some c' -> (forall a i, Commanders.alookup a (Commanders.assigned c) = Some i -> Commanders.alookup a (Commanders.assigned c') = Some i) /\ (forall a1 a2 i, Commanders.alookup a1 (Commanders.assigned c') = Some i -> Commanders.alookup a2 (Commanders.assigned c') = Some i -> a1 = a2)).
Print Assumptions C14_commander_identifiers_are_stable.
