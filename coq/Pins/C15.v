(* Pinned statements for C15: a changed statement or a new axiom fails the check. *)
From SwimV Require Import Model.ReconText Proofs.ReconTextProofs Props.C15.
Open Scope N_scope.
Check (C15_printed_texts_compare_as_texts) : (forall t1 t2, text_key_eq (write_string_literal t1) (write_string_literal t2) = str_eqb t1 t2).
Print Assumptions C15_printed_texts_compare_as_texts.
Check (C15_quoted_and_printed_agree) : (forall t, text_key_eq (quoted t) (write_string_literal t) = true).
Print Assumptions C15_quoted_and_printed_agree.
Check (C15_key_of_printed_text) : (forall t, key_token (write_string_literal t) = KText t).
Print Assumptions C15_key_of_printed_text.
