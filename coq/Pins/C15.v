(* Pinned statements for C15: a changed statement or a new axiom fails the check. *)
From SwimV Require Import Model.ReconText Proofs.ReconTextProofs Props.C15.
From SwimV Require Import Model.ReconNum Proofs.ReconNumProofs.
Open Scope N_scope.
Check (C15_printed_texts_compare_as_texts) : (forall t1 t2, text_key_eq (write_string_literal t1) (write_string_literal t2) = str_eqb t1 t2).
Print Assumptions C15_printed_texts_compare_as_texts.
Check (C15_quoted_and_printed_agree) : (forall t, text_key_eq (quoted t) (write_string_literal t) = true).
Print Assumptions C15_quoted_and_printed_agree.
Check (C15_key_of_printed_text) : (forall t, key_token (write_string_literal t) = KText t).
Print Assumptions C15_key_of_printed_text.
Check (C15_number_equality) : (forall a b, well_kinded a = true -> well_kinded b = true -> nv_eq a b = (nz a =? nz b)%Z).
Print Assumptions C15_number_equality.
Check (C15_equal_numbers_hash_alike) : (forall a b, well_kinded a = true -> well_kinded b = true -> nv_eq a b = true -> nv_hash_key a = nv_hash_key b).
Print Assumptions C15_equal_numbers_hash_alike.
Check (C15_integer_keys_compare_by_number) : (forall a b x y, int_of_text a = Some x -> int_of_text b = Some y -> nv_eq x y = (nz x =? nz y)%Z /\ (nv_eq x y = true -> nv_hash_key x = nv_hash_key y)).
Print Assumptions C15_integer_keys_compare_by_number.
