(* Pinned statements for C16: a changed statement or a new axiom fails the check. *)
From SwimV Require Import Model.MsgPack Proofs.MsgPackProofs Proofs.MsgPackRecordProofs Proofs.MsgPackTruncProofs Props.C16.
Open Scope N_scope.
Check (C16_scalar_roundtrip) : (forall v rest, wf v -> dec_scalar (enc_scalar v ++ rest) = MOk v rest).
Print Assumptions C16_scalar_roundtrip.
Check (C16_truncated_is_incomplete) : (forall v p q, wf v -> p ++ q = enc_scalar v -> q <> [] -> dec_scalar p = MIncomplete).
Print Assumptions C16_truncated_is_incomplete.
Check (C16_encoding_injective) : (forall a b, wf a -> wf b -> enc_scalar a = enc_scalar b -> a = b).
Print Assumptions C16_encoding_injective.
Check (C16_record_roundtrip) : (forall v, WFV v -> forall fuel rest, (depth v <= fuel)%nat -> dec fuel (enc v ++ rest) = VOk v rest).
Print Assumptions C16_record_roundtrip.
Check (C16_record_encoding_injective) : (forall a b, WFV a -> WFV b -> enc a = enc b -> a = b).
Print Assumptions C16_record_encoding_injective.
Check (C16_record_truncated_is_incomplete) : (forall v, WFV v -> forall fuel p q, (depth v <= fuel)%nat -> p ++ q = enc v -> q <> [] -> dec fuel p = VIncomplete).
Print Assumptions C16_record_truncated_is_incomplete.
Check (C16_record_encoding_prefix_free) : (forall a b q, WFV a -> WFV b -> enc a ++ q = enc b -> q = []).
Print Assumptions C16_record_encoding_prefix_free.
