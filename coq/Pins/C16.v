(* Pinned statements for C16: a changed statement or a new axiom fails the check. *)
From SwimV Require Import Model.MsgPack Proofs.MsgPackProofs Proofs.MsgPackRecordProofs Proofs.MsgPackTruncProofs Props.C16.
From SwimV Require Model.FormInt Proofs.FormIntProofs.
Open Scope N_scope.
Check (C16_scalar_roundtrip) : (forall v rest, wf v -> dec_scalar (enc_scalar v ++ rest) = MOk v rest).
Print Assumptions C16_scalar_roundtrip.
Check (C16_truncated_is_incomplete) : (forall v p q, wf v -> p ++ q = enc_scalar v -> q <> [] -> dec_scalar p = MIncomplete).
Print Assumptions C16_truncated_is_incomplete.
Check (C16_encoding_injective) : (forall a b, wf a -> wf b -> enc_scalar a = enc_scalar b -> a = b).
Print Assumptions C16_encoding_injective.
Check (C16_record_roundtrip) : (forall v, WFV v -> forall fuel rest, (depth v <= fuel)%nat -> dec fuel (enc v ++ rest) = VOk v rest).
Print Assumptions C16_record_roundtrip.
Check (C16_record_encoding_injective) : (forall a b, WFV a -> WFV b -> enc a = enc b -> a = b).
Print Assumptions C16_record_encoding_injective.
Check (C16_record_truncated_is_incomplete) : (forall v, WFV v -> forall fuel p q, (depth v <= fuel)%nat -> p ++ q = enc v -> q <> [] -> dec fuel p = VIncomplete).
Print Assumptions C16_record_truncated_is_incomplete.
Check (C16_record_encoding_prefix_free) : (forall a b q, WFV a -> WFV b -> enc a ++ q = enc b -> q = []).
Print Assumptions C16_record_encoding_prefix_free.
Check (C16_integer_recognized_by_number) : (forall t v, ReconNum.well_kinded v = true -> FormInt.recognize t v = FormIntProofs.by_number t (ReconNum.nz v)).
Print Assumptions C16_integer_recognized_by_number.
Check (C16_integer_model_roundtrip) : (forall t z, FormInt.in_ty t z = true -> FormInt.try_from_value t (FormInt.to_value t z) = Some z).
Print Assumptions C16_integer_model_roundtrip.
Check (C16_integer_reading_paths_agree) : (forall t inp, FormInt.read_direct t inp = FormInt.read_via_model t inp).
Print Assumptions C16_integer_reading_paths_agree.
Check (C16_integer_printed_reads_back) : (forall t z, FormInt.in_ty t z = true -> FormInt.read_direct t (ReconNum.print_int z) = Some z /\ FormInt.read_via_model t (ReconNum.print_int z) = Some z).
Print Assumptions C16_integer_printed_reads_back.
Check (C16_integer_msgpack_roundtrip) : (forall t z, FormIntProofs.fixed_width t = true -> FormInt.in_ty t z = true -> FormInt.read_msgpack t (FormInt.write_msgpack t z) = Some z).
Print Assumptions C16_integer_msgpack_roundtrip.
Check (C16_integer_msgpack_across_types) : (forall t u z, FormIntProofs.fixed_width t = true -> FormInt.in_ty t z = true -> FormInt.read_msgpack u (FormInt.write_msgpack t z) = FormIntProofs.by_number u z).
Print Assumptions C16_integer_msgpack_across_types.
