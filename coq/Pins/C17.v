(* Pinned statements for C17: a changed statement or a new axiom fails the check. *)
From SwimV Require Import Model.Voter Proofs.VoterProofs Props.C17.
Check (C17_reachable_invariant) : (forall n sc, 2 <= n -> Inv (exec (init n) sc)).
Print Assumptions C17_reachable_invariant.
Check (C17_stop_iff_all_voting) : (forall s, Inv s -> (receiver_ready s = true <-> forall i, i < n_parties s -> voted (get_voter s i) = true)).
Print Assumptions C17_stop_iff_all_voting.
Check (C17_unanimity_never_undone) : (forall sc s, Inv s -> receiver_ready s = true -> receiver_ready (exec s sc) = true).
Print Assumptions C17_unanimity_never_undone.
Check (C17_vote_result_truthful) : (forall s i r s', Inv s -> enabled s i MVote = true -> mstep s i MVote = (s', Some r) -> (r = Unanimous <-> (receiver_ready s = false /\ receiver_ready s' = true))).
Print Assumptions C17_vote_result_truthful.
Check (C17_rescind_pending_is_safe) : (forall s i m s', Inv s -> enabled s i m = true -> is_rescind m = true -> mstep s i m = (s', Some UnanimityPending) -> receiver_ready s = false /\ get_bit i (shared s') = false /\ voted (get_voter s' i) = false).
Print Assumptions C17_rescind_pending_is_safe.
Check (C17_no_stop_until_revote) : (forall sc s i, Inv s -> i < n_parties s -> get_bit i (shared s) = false -> others_only i sc -> receiver_ready (exec s sc) = false).
Print Assumptions C17_no_stop_until_revote.
Check (C17_rescind_unanimous_is_true) : (forall s i m s', Inv s -> enabled s i m = true -> is_rescind m = true -> mstep s i m = (s', Some Unanimous) -> receiver_ready s = true /\ receiver_ready s' = true).
Print Assumptions C17_rescind_unanimous_is_true.
Check (C17_drop_counts_as_vote) : (forall s i, Inv s -> enabled s i MDrop = true -> let s' := fst (mstep s i MDrop) in get_bit i (shared s') = true /\ dropped (get_voter s' i) = true).
Print Assumptions C17_drop_counts_as_vote.
Check (C17_dropped_vote_is_permanent) : (forall sc s i, Inv s -> i < n_parties s -> dropped (get_voter s i) = true -> dropped (get_voter (exec s sc) i) = true /\ get_bit i (shared (exec s sc)) = get_bit i (shared s)).
Print Assumptions C17_dropped_vote_is_permanent.
Check (C17_no_deadlock) : (forall s, Inv s -> (forall i, i < n_parties s -> dropped (get_voter s i) = true \/ voted (get_voter s i) = true) -> receiver_ready s = true).
Print Assumptions C17_no_deadlock.
Check (C17_rescind_loop_progress) : (forall s i cur, loaded (get_voter s i) = Some cur -> shared s = cur -> snd (mstep s i MRescindCas) = Some UnanimityPending).
Print Assumptions C17_rescind_loop_progress.
Check (C17_api_reachable_invariant) : (forall n ops, 2 <= n -> Inv (run_state (init n) ops)).
Print Assumptions C17_api_reachable_invariant.
