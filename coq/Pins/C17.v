(* Pinned statements for C17: a changed statement or a new axiom fails the check. *)
From SwimV Require Import Model.VoterWake Proofs.VoterProofs Proofs.VoterWakeProofs Props.C17.
Check (C17_reachable_invariant) : (forall n sc, 2 <= n -> Inv (exec (init n) sc)).
Print Assumptions C17_reachable_invariant.
Check (C17_stop_iff_all_voting) : (forall s, Inv s -> (receiver_ready s = true <-> forall i, i < n_parties s -> voted (get_voter s i) = true)).
Print Assumptions C17_stop_iff_all_voting.
Check (C17_unanimity_never_undone) : (forall sc s, Inv s -> receiver_ready s = true -> receiver_ready (exec s sc) = true).
Print Assumptions C17_unanimity_never_undone.
Check (C17_vote_result_truthful) : (forall s i r s', Inv s -> enabled s i MVote = true -> mstep s i MVote = (s', Some r) -> (r = Unanimous <-> (receiver_ready s = false /\ receiver_ready s' = true))).
Print Assumptions C17_vote_result_truthful.
Check (C17_rescind_pending_is_safe) : (forall s i m s', Inv s -> enabled s i m = true -> is_rescind m = true -> mstep s i m = (s', Some UnanimityPending) -> receiver_ready s = false /\ get_bit i (shared s') = false /\ voted (get_voter s' i) = false).
Print Assumptions C17_rescind_pending_is_safe.
Check (C17_no_stop_until_revote) : (forall sc s i, Inv s -> i < n_parties s -> get_bit i (shared s) = false -> others_only i sc -> receiver_ready (exec s sc) = false).
Print Assumptions C17_no_stop_until_revote.
Check (C17_rescind_unanimous_is_true) : (forall s i m s', Inv s -> enabled s i m = true -> is_rescind m = true -> mstep s i m = (s', Some Unanimous) -> receiver_ready s = true /\ receiver_ready s' = true).
Print Assumptions C17_rescind_unanimous_is_true.
Check (C17_drop_counts_as_vote) : (forall s i, Inv s -> enabled s i MDrop = true -> let s' := fst (mstep s i MDrop) in get_bit i (shared s') = true /\ dropped (get_voter s' i) = true).
Print Assumptions C17_drop_counts_as_vote.
Check (C17_dropped_vote_is_permanent) : (forall sc s i, Inv s -> i < n_parties s -> dropped (get_voter s i) = true -> dropped (get_voter (exec s sc) i) = true /\ get_bit i (shared (exec s sc)) = get_bit i (shared s)).
Print Assumptions C17_dropped_vote_is_permanent.
Check (C17_no_deadlock) : (forall s, Inv s -> (forall i, i < n_parties s -> dropped (get_voter s i) = true \/ voted (get_voter s i) = true) -> receiver_ready s = true).
Print Assumptions C17_no_deadlock.
Check (C17_rescind_loop_progress) : (forall s i cur, loaded (get_voter s i) = Some cur -> shared s = cur -> snd (mstep s i MRescindCas) = Some UnanimityPending).
Print Assumptions C17_rescind_loop_progress.
Check (C17_api_reachable_invariant) : (forall n ops, 2 <= n -> Inv (run_state (init n) ops)).
Print Assumptions C17_api_reachable_invariant.
Check (C17_no_lost_wakeup) : (forall n sc, 2 <= n -> lost_wakeup (wexec (winit n) sc) = false).
Print Assumptions C17_no_lost_wakeup.
Check (C17_owed_wake_notifies) : (forall w, WInv w -> all_set (shared (core w)) = true -> phase w = RParked -> woken w = false -> exists i, mem i (pend w) = true /\ woken (wstep w (WWake i)) = true).
Print Assumptions C17_owed_wake_notifies.
Check (C17_poll_after_unanimity_is_ready) : (forall w, all_set (shared (core w)) = true -> phase w = RParked \/ phase w = RIdle -> phase (wstep w WLoad1) = RDone).
Print Assumptions C17_poll_after_unanimity_is_ready.
Check (C17_wake_only_at_unanimity) : (forall n sc, 2 <= n -> pend (wexec (winit n) sc) <> [] -> receiver_ready (core (wexec (winit n) sc)) = true).
Print Assumptions C17_wake_only_at_unanimity.
Check (C17_api_parked_receiver_is_woken) : (forall n ops, 2 <= n -> let w := wapi_state (winit n) ops in receiver_ready (core w) = true -> phase w = RParked -> woken w = true).
Print Assumptions C17_api_parked_receiver_is_woken.
Check (C17_wake_layer_conservative) : (forall n ops, 2 <= n -> core (wapi_state (winit n) ops) = run_state (init n) ops).
Print Assumptions C17_wake_layer_conservative.
Check (C17_owed_wake_witness) : (let w := wexec (winit 3) [WLoad1; WRegister; WLoad2; WV 0 MVote; WV 1 MVote; WV 2 MDrop] in WInv w /\ all_set (shared (core w)) = true /\ phase w = RParked /\ woken w = false /\ pend w = [2]).
Print Assumptions C17_owed_wake_witness.
