(* Pinned statements for C18: a changed statement or a new axiom fails the check. *)
From SwimV Require Import Model.Route Proofs.RouteProofs Proofs.RouteUriProofs Props.C18.
Open Scope N_scope.
Check (C18_decode_encode) : (forall s, bytes s -> pct_decode (pct_encode s) = s).
Print Assumptions C18_decode_encode.
Check (C18_encoded_value_has_no_slash) : (forall s, bytes s -> ~ In SLASH (pct_encode s)).
Print Assumptions C18_encoded_value_has_no_slash.
Check (C18_unapply_parts_inverts) : (forall m segs parts acc, values_are_bytes m -> render_all m segs = Some parts -> unapply_parts parts segs acc = Some (bind_params m segs acc)).
Print Assumptions C18_unapply_parts_inverts.
Check (C18_apply_unapply_partial) : (forall p m parts, values_are_bytes m -> p_segs p <> [] -> Forall (fun s => ~ In SLASH (s_text s)) (p_segs p) -> render_all m (p_segs p) = Some parts -> let body := join true (p_abs p) parts in apply p m = inl ((match p_scheme p with Some sc => sc ++ [COLON] | None => [] end) ++ body) /\ unapply_uri p (p_scheme p) body = Some (bind_params m (p_segs p) [])).
Print Assumptions C18_apply_unapply_partial.
Check (C18_never_binds_empty) : (forall segs parts acc r, no_empty acc -> unapply_parts parts segs acc = Some r -> no_empty r).
Print Assumptions C18_never_binds_empty.
Check (C18_ambiguity_complete) : (forall p q sc path r1 r2, unapply_uri p sc path = Some r1 -> unapply_uri q sc path = Some r2 -> p_abs p = p_abs q -> are_ambiguous p q = true).
Print Assumptions C18_ambiguity_complete.
Check (C18_absolute_relative_disjoint) : (forall p q sc path r1 r2, segs_nonempty q -> p_abs p = true -> p_abs q = false -> unapply_uri p sc path = Some r1 -> unapply_uri q sc path = Some r2 -> False).
Print Assumptions C18_absolute_relative_disjoint.
Check (C18_route_table_deterministic) : (forall (routes : list pattern) sc path, (forall p, In p routes -> segs_nonempty p) -> (forall p q, In p routes -> In q routes -> p <> q -> are_ambiguous p q = false) -> forall p q r1 r2, In p routes -> In q routes -> p <> q -> unapply_uri p sc path = Some r1 -> unapply_uri q sc path = Some r2 -> False).
Print Assumptions C18_route_table_deterministic.
Check (C18_applied_route_parses) : (forall p m parts, values_are_bytes m -> p_segs p <> [] -> Forall lit_ok (p_segs p) -> Forall (fun s => s_text s <> []) (p_segs p) -> render_all m (p_segs p) = Some parts -> let body := join true (p_abs p) parts in match p_scheme p with | Some sc => scheme_ok sc = true | None => uri_scheme body = None end -> parse_uri ((match p_scheme p with Some sc => sc ++ [COLON] | None => [] end) ++ body) = Some (p_scheme p, body)).
Print Assumptions C18_applied_route_parses.
Check (C18_apply_unapply) : (forall p m parts route, values_are_bytes m -> p_segs p <> [] -> Forall (fun s => ~ In SLASH (s_text s)) (p_segs p) -> Forall lit_ok (p_segs p) -> Forall (fun s => s_text s <> []) (p_segs p) -> render_all m (p_segs p) = Some parts -> match p_scheme p with | Some sc => scheme_ok sc = true | None => uri_scheme (join true (p_abs p) parts) = None end -> apply p m = inl route -> unapply_str p route = Some (bind_params m (p_segs p) [])).
Print Assumptions C18_apply_unapply.
Check (C18_absolute_has_no_scheme) : (forall parts, uri_scheme (join true true parts) = None).
Print Assumptions C18_absolute_has_no_scheme.
Check (C18_relative_leading_parameter_has_no_scheme) : (forall m s segs parts, values_are_bytes m -> s_param s = true -> render_all m (s :: segs) = Some parts -> uri_scheme (join true false parts) = None).
Print Assumptions C18_relative_leading_parameter_has_no_scheme.
Check (C18_apply_unapply_witness) : (let p := {| p_text := []; p_scheme := Some [115; 119; 105; 109]; p_abs := true; p_segs := [{| s_param := false; s_start := 6; s_text := [117; 110; 105; 116] |}; {| s_param := true; s_start := 12; s_text := [105; 100] |}] |} in let m := [([105; 100], [97; 32; 98])] in apply p m = inl [115; 119; 105; 109; 58; 47; 117; 110; 105; 116; 47; 97; 37; 50; 48; 98] /\ unapply_str p [115; 119; 105; 109; 58; 47; 117; 110; 105; 116; 47; 97; 37; 50; 48; 98] = Some m).
Print Assumptions C18_apply_unapply_witness.
