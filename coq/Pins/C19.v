(* Pinned statements for C19: a changed statement or a new axiom fails the check. *)
From SwimV Require Import Model.Value Proofs.ValueProofs Props.C19.
Open Scope Z_scope.
Check (C19_eq_reflexive) : (forall x, good x -> veq x x = true).
Print Assumptions C19_eq_reflexive.
Check (C19_eq_symmetric) : (forall x y, good x -> good y -> veq x y = veq y x).
Print Assumptions C19_eq_symmetric.
Check (C19_eq_transitive) : (forall x y z, good x -> good y -> good z -> veq x y = true -> veq y z = true -> veq x z = true).
Print Assumptions C19_eq_transitive.
Check (C19_equal_values_hash_equally) : (forall x y, good x -> good y -> veq x y = true -> vhash x = vhash y).
Print Assumptions C19_equal_values_hash_equally.
Check (C19_cmp_equal_iff_eq) : (forall x y, good x -> good y -> (vcmp x y = Eq <-> veq x y = true)).
Print Assumptions C19_cmp_equal_iff_eq.
Check (C19_cmp_antisymmetric) : (forall x y, good x -> good y -> vcmp y x = CompOpp (vcmp x y)).
Print Assumptions C19_cmp_antisymmetric.
Check (C19_cmp_transitive) : (forall x y z, good x -> good y -> good z -> vcmp x y = Lt -> vcmp y z = Lt -> vcmp x z = Lt).
Print Assumptions C19_cmp_transitive.
Check (C19_cmp_respects_equal) : (forall x y z, good x -> good y -> good z -> vcmp x y = Eq -> vcmp x z = vcmp y z /\ vcmp z x = vcmp z y).
Print Assumptions C19_cmp_respects_equal.
Check (C19_F1_int_vs_float_refuted) : (exists x y, wf x = true /\ wf y = true /\ vcmp x y = Eq /\ veq x y = false).
Print Assumptions C19_F1_int_vs_float_refuted.
Check (C19_F1_epsilon_band_refuted) : (exists x y z, vcmp x y = Eq /\ vcmp y z = Eq /\ vcmp x z = Lt).
Print Assumptions C19_F1_epsilon_band_refuted.
Check (C19_F1_bigint_float_refuted) : (exists x y, vcmp x y = Eq /\ vcmp y x = Gt).
Print Assumptions C19_F1_bigint_float_refuted.
Check (C19_F1_rounding_refuted) : (exists x y f, vcmp x f = Eq /\ vcmp f y = Eq /\ vcmp x y = Lt).
Print Assumptions C19_F1_rounding_refuted.
