(* Pinned statements for C20: a changed statement or a new axiom fails the check. *)
From SwimV Require Import Model.Links Proofs.LinksProofs Props.C20.
From SwimV Require Model.Counter Proofs.CounterProofs.
From SwimV Require Model.LinkReports Proofs.LinkReportsProofs.
Check (C20_reachable_invariant) : (forall a ops, ops_ok (init a) ops -> Inv (run_state (init a) ops)).
Print Assumptions C20_reachable_invariant.
Check (C20_step_preserves_invariant) : (forall l o, Inv l -> ok_op l o -> Inv (fst (step l o))).
Print Assumptions C20_step_preserves_invariant.
Check (C20_aggregate_count_exact) : (forall l a, Inv l -> agg l = Some a -> snd (step l (Snapshot 0)) = OSnap (Some (len (map fst (rel_of (forward l))), c_events a, c_commands a))).
Print Assumptions C20_aggregate_count_exact.
Check (C20_lane_count_exact) : (forall l rep c, Inv l -> (rep <> O \/ agg l = None) -> fwd_find_rep rep (forward l) = Some c -> snd (step l (Snapshot rep)) = OSnap (Some (c_links c, c_events c, c_commands c)) /\ exists lane ll, In (lane, ll) (forward l) /\ ll_reporter ll = Some (rep, c) /\ c_links c = len (ll_remotes ll)).
Print Assumptions C20_lane_count_exact.
Check (C20_broadcast_counts_links) : (forall l lane a ll, agg l = Some a -> alookup lane (forward l) = Some ll -> let l' := fst (step l (CountBroadcast lane)) in agg l' = Some (add_events (len (ll_remotes ll)) a) /\ alookup lane (forward l') = Some {| ll_remotes := ll_remotes ll; ll_reporter := ll_report (add_events (len (ll_remotes ll))) ll |}).
Print Assumptions C20_broadcast_counts_links.
Check (C20_single_counts_one) : (forall l lane a ll, agg l = Some a -> alookup lane (forward l) = Some ll -> let l' := fst (step l (CountSingle lane)) in agg l' = Some (add_events 1 a) /\ alookup lane (forward l') = Some {| ll_remotes := ll_remotes ll; ll_reporter := ll_report (add_events 1) ll |}).
Print Assumptions C20_single_counts_one.
Check (C20_counters_lose_nothing) : (forall sc s, (Counter.value s + Counter.snapped s = Counter.added s)%N -> (Counter.added (Counter.exec s sc) <= Counter.U64MAX)%N -> (Counter.value (Counter.exec s sc) + Counter.snapped (Counter.exec s sc) = Counter.added (Counter.exec s sc))%N).
Print Assumptions C20_counters_lose_nothing.
Check (C20_write_task_links_are_live) : (forall nl ops, LinkReportsProofs.links_live (LinkReportsProofs.wrun_state (Uplinks.wstate0 nl) ops)).
Print Assumptions C20_write_task_links_are_live.
Check (C20_write_task_reports_true_counts) : (forall nl ops, let w := LinkReportsProofs.wrun_state (Uplinks.wstate0 nl) ops in LinkReports.report w = LinkReports.true_report w).
Print Assumptions C20_write_task_reports_true_counts.
Check (C20_removed_remote_has_no_links) : (forall nl ops r, let w := LinkReportsProofs.wrun_state (Uplinks.wstate0 nl) (ops ++ [Uplinks.ORemoveRemote r]) in forall l, Uplinks.linked l r (Uplinks.w_links w) = false).
Print Assumptions C20_removed_remote_has_no_links.
