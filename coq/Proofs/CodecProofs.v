(* Per-codec instances of the streaming theorem (Proofs/Streaming.v) for Model/Codec.v. *)
From SwimV Require Import Model.Codec Proofs.Streaming.
From Coq Require Import ZifyN ZifyNat ZifyBool.
Open Scope N_scope.

(* ------------------------------------------------------------------------------------------ *)
(* big-endian fields, take / drop *)

Lemma be_length n v : length (be n v) = n.
Proof. induction n; simpl; auto. Qed.

Lemma len_app a b : len (a ++ b) = len a + len b.
Proof. unfold len. rewrite app_length. lia. Qed.

Lemma len_be n v : len (be n v) = N.of_nat n.
Proof. unfold len. now rewrite be_length. Qed.

Lemma len_cons x a : len (x :: a) = 1 + len a.
Proof. unfold len. simpl length. lia. Qed.

Lemma len_nil : len [] = 0.
Proof. reflexivity. Qed.

Lemma unbe_be n v : unbe (be n v) = v mod 256 ^ N.of_nat n.
Proof.
  induction n as [|k IH].
  - simpl. now rewrite N.mod_1_r.
  - cbn [be unbe]. rewrite be_length, IH.
    replace (N.of_nat (S k)) with (N.of_nat k + 1) by lia.
    rewrite N.pow_add_r, N.pow_1_r. rewrite (N.mod_mul_r v (256 ^ N.of_nat k) 256).
    + lia.
    + apply N.pow_nonzero. lia.
    + lia.
Qed.

Lemma unbe_be_small n v : v < 256 ^ N.of_nat n -> unbe (be n v) = v.
Proof. intros H. rewrite unbe_be. now apply N.mod_small. Qed.

Lemma take_app_exact a b : take (len a) (a ++ b) = a.
Proof.
  unfold take, len. rewrite Nat2N.id. rewrite firstn_app, Nat.sub_diag. simpl.
  rewrite firstn_all, app_nil_r. reflexivity.
Qed.

Lemma drop_app_exact a b : drop (len a) (a ++ b) = b.
Proof.
  unfold drop, len. rewrite Nat2N.id. rewrite skipn_app, Nat.sub_diag. simpl.
  rewrite skipn_all. reflexivity.
Qed.

Lemma take_n_app n a b : len a = n -> take n (a ++ b) = a.
Proof. intros <-. apply take_app_exact. Qed.

Lemma drop_n_app n a b : len a = n -> drop n (a ++ b) = b.
Proof. intros <-. apply drop_app_exact. Qed.

Lemma take_all n a : len a <= n -> take n a = a.
Proof. unfold take, len. intros H. apply firstn_all2. lia. Qed.

(* when two splits of one string agree, the shorter first part is a prefix of the longer *)
Lemma split_prefix (a b p q : bytes) : a ++ b = p ++ q -> len a <= len p ->
  exists r, p = a ++ r /\ b = r ++ q.
Proof.
  revert p. induction a as [|x a IH]; intros p H L.
  - exists p. auto.
  - destruct p as [|y p]; [rewrite len_cons, len_nil in L; lia|].
    simpl in H. inversion H; subst. rewrite !len_cons in L.
    destruct (IH p H2) as (r & A & B); [lia|]. exists r. subst. auto.
Qed.

Lemma split_prefix_rev (a b p q : bytes) : a ++ b = p ++ q -> len p < len a ->
  exists r, r <> [] /\ a = p ++ r /\ q = r ++ b.
Proof.
  revert a. induction p as [|y p IH]; intros a H L.
  - exists a. simpl in *. repeat split; auto. intros ->. rewrite len_nil in L. lia.
  - destruct a as [|x a]; [rewrite len_nil in L; lia|].
    simpl in H. inversion H; subst. rewrite !len_cons in L.
    destruct (IH a H2) as (r & N & A & B); [lia|]. exists r. subst. auto.
Qed.

Definition U64 (v : N) : Prop := v < 2 ^ 64.

Lemma pow256_8 : 256 ^ N.of_nat 8 = 2 ^ 64.  Proof. reflexivity. Qed.

Lemma unbe8 v : U64 v -> unbe (be 8 v) = v.
Proof. intros H. apply unbe_be_small. now rewrite pow256_8. Qed.

(* ------------------------------------------------------------------------------------------ *)
(* WithLengthBytesCodec *)

Arguments be : simpl never.
Arguments unbe : simpl never.

Definition valid_wl (m : msg) : Prop := exists b, m = WL b /\ len b + 8 <= USIZE_MAX.

Lemma dec_wl_complete body rest : len body + 8 <= USIZE_MAX ->
  dec_wl (enc_wl body ++ rest) = (rest, DSome (WL body)).
Proof.
  intros HV. unfold dec_wl, enc_wl. rewrite <- app_assoc.
  rewrite !len_app, len_be.
  destruct (N.ltb_spec (N.of_nat 8 + (len body + len rest)) 8); [lia|].
  rewrite (take_n_app 8 (be 8 (len body))) by apply len_be.
  rewrite unbe8 by (unfold U64, USIZE_MAX in *; lia).
  unfold uadd. destruct (N.leb_spec (8 + len body) USIZE_MAX); [|lia].
  destruct (N.leb_spec (8 + len body) (N.of_nat 8 + (len body + len rest))); [|lia].
  rewrite (drop_n_app 8 (be 8 (len body))) by apply len_be.
  rewrite take_app_exact. f_equal.
  replace (8 + len body) with (len (be 8 (len body) ++ body)) by (rewrite len_app, len_be; lia).
  rewrite app_assoc. apply drop_app_exact.
Qed.

Lemma dec_wl_partial body p q : len body + 8 <= USIZE_MAX ->
  enc_wl body = p ++ q -> q <> [] -> dec_wl p = (p, DNone).
Proof.
  intros HV HE HQ. unfold dec_wl. destruct (N.ltb_spec (len p) 8); [reflexivity|].
  unfold enc_wl in HE.
  destruct (split_prefix _ _ _ _ HE) as (r & A & B); [rewrite len_be; lia|].
  subst p. rewrite (take_n_app 8 (be 8 (len body))) by apply len_be.
  rewrite unbe8 by (unfold U64, USIZE_MAX in *; lia).
  unfold uadd. destruct (N.leb_spec (8 + len body) USIZE_MAX); [|lia].
  rewrite len_app, len_be.
  assert (len r < len body).
  { rewrite B, len_app. destruct q; [congruence|]. rewrite len_cons. lia. }
  destruct (N.leb_spec (8 + len body) (N.of_nat 8 + len r)); [lia|reflexivity].
Qed.

Lemma dec_wl_empty : dec_wl [] = ([], DNone).
Proof. reflexivity. Qed.

Definition no_unread (s : dstate) : bytes := [].

Theorem wl_any_chunking : forall chunks ms all,
  Forall valid_wl ms -> enc_all (encode CWL) ms = Some all -> concat chunks = all ->
  feed_items (dstep CWL) no_unread SHeader [] chunks = (ms, [], true).
Proof.
  intros chunks ms all HV HE HC.
  apply (feed_from_start (dstep CWL) (encode CWL) valid_wl no_unread) with (all := all); auto.
  - intros m e (b & -> & Hb) E. cbn [encode] in E. inversion E. unfold enc_wl.
    destruct (be 8 (len b)) eqn:EB; [|discriminate].
    apply (f_equal (@length N)) in EB. rewrite be_length in EB. discriminate.
  - intros s b m e rest (body & -> & Hb) E HU. cbn [encode] in E. inversion E; subst e.
    unfold no_unread in HU. cbn [app] in HU. subst b.
    unfold dstep, stateless. now rewrite dec_wl_complete.
  - intros s b m p q (body & -> & Hb) E HQ HU. cbn [encode] in E. inversion E as [E'].
    unfold no_unread in HU. cbn [app] in HU. subst b.
    exists SHeader, p. unfold dstep, stateless. rewrite (dec_wl_partial body p q Hb E' HQ). auto.
  - intros s b HU. unfold no_unread in HU. cbn [app] in HU. subst b. exists SHeader, []. auto.
Qed.

(* ------------------------------------------------------------------------------------------ *)
(* Stateless frame decoders: the four facts the streaming theorem needs *)

Record frame_spec (D : bytes -> bytes * dres) (E : msg -> option bytes) (V : msg -> Prop) : Prop := {
  fs_nonempty : forall m e, V m -> E m = Some e -> e <> [];
  fs_complete : forall m e rest, V m -> E m = Some e -> D (e ++ rest) = (rest, DSome m);
  fs_partial : forall m p q, V m -> E m = Some (p ++ q) -> q <> [] -> D p = (p, DNone);
  fs_empty : D [] = ([], DNone)
}.

Theorem stateless_any_chunking D E V :
  frame_spec D E V ->
  forall chunks ms all,
  Forall V ms -> enc_all E ms = Some all -> concat chunks = all ->
  feed_items (fun _ b => stateless (D b)) no_unread SHeader [] chunks = (ms, [], true).
Proof.
  intros [F1 F2 F3 F4] chunks ms all HV HE HC.
  apply (feed_from_start (fun _ b => stateless (D b)) E V no_unread) with (all := all); auto.
  - intros s b m e rest Vm Em HU. unfold no_unread in HU. cbn [app] in HU. subst b.
    unfold stateless. now rewrite (F2 m e rest Vm Em).
  - intros s b m p q Vm Em HQ HU. unfold no_unread in HU. cbn [app] in HU. subst b.
    exists SHeader, p. unfold stateless. rewrite (F3 m p q Vm Em HQ). auto.
  - intros s b HU. unfold no_unread in HU. cbn [app] in HU. subst b.
    exists SHeader, []. unfold stateless. now rewrite F4.
Qed.

Lemma wl_frame_spec : frame_spec dec_wl (encode CWL) valid_wl.
Proof.
  split.
  - intros m e (b & -> & Hb) E. cbn [encode] in E. inversion E. unfold enc_wl.
    destruct (be 8 (len b)) eqn:EB; [|discriminate].
    apply (f_equal (@length N)) in EB. rewrite be_length in EB. discriminate.
  - intros m e rest (body & -> & Hb) E. cbn [encode] in E. inversion E; subst e. now apply dec_wl_complete.
  - intros m p q (body & -> & Hb) E HQ. cbn [encode] in E. inversion E as [E']. now apply (dec_wl_partial body p q).
  - reflexivity.
Qed.

(* ------------------------------------------------------------------------------------------ *)
(* Raw map operations: every frame is  be8 total ++ tag :: payload  with |payload| + 1 = total *)

Lemma take_app_l n (a b : bytes) : n <= len a -> take n (a ++ b) = take n a.
Proof. unfold take, len. intros H. rewrite firstn_app. replace (N.to_nat n - length a)%nat with O by lia. simpl. apply app_nil_r. Qed.

Lemma drop_app_l n (a b : bytes) : n <= len a -> drop n (a ++ b) = drop n a ++ b.
Proof. unfold drop, len. intros H. rewrite skipn_app. replace (N.to_nat n - length a)%nat with O by lia. reflexivity. Qed.

Lemma drop_0 (a : bytes) : drop 0 a = a.  Proof. reflexivity. Qed.

Lemma drop_drop n m (a : bytes) : drop n (drop m a) = drop (m + n) a.
Proof.
  unfold drop. rewrite N2Nat.inj_add. generalize (N.to_nat n) (N.to_nat m). clear.
  intros n m. revert a. induction m; intros a; simpl; auto. destruct a; simpl; auto. now rewrite skipn_nil.
Qed.

Lemma nth_be8_tag total tag rest : nth 8 (be 8 total ++ tag :: rest) 0 = tag.
Proof. rewrite app_nth2; rewrite be_length; [|lia]. reflexivity. Qed.

Section MapFrame.
  Variables (total tag : N) (payload rest : bytes).
  Hypothesis Hlen : len payload + 1 = total.
  Hypothesis Hmax : total + 8 <= USIZE_MAX.
  Let b := be 8 total ++ tag :: payload ++ rest.

  Lemma mf_len : len b = 9 + len payload + len rest.
  Proof. unfold b. rewrite len_app, len_be, len_cons, len_app. lia. Qed.

  Lemma mf_total : unbe (take 8 b) = total.
  Proof.
    unfold b. rewrite (take_n_app 8 (be 8 total)) by apply len_be.
    apply unbe8. unfold U64, USIZE_MAX in *. lia.
  Qed.

  Lemma mf_tag : nth 8 b 0 = tag.
  Proof. apply nth_be8_tag. Qed.

  Lemma mf_frame : take total (drop 8 b) = tag :: payload.
  Proof.
    unfold b. rewrite (drop_n_app 8 (be 8 total)) by apply len_be.
    change (tag :: payload ++ rest) with ((tag :: payload) ++ rest).
    apply take_n_app. rewrite len_cons. lia.
  Qed.

  Lemma mf_rest : drop (8 + total) b = rest.
  Proof.
    unfold b. change (be 8 total ++ tag :: payload ++ rest) with (be 8 total ++ (tag :: payload) ++ rest).
    rewrite app_assoc. apply drop_n_app. rewrite len_app, len_be, len_cons. lia.
  Qed.
End MapFrame.

Definition valid_mapop (o : mapop) : Prop :=
  match o with
  | MUpdate k v => len k + len v + 17 <= USIZE_MAX
  | MRemove k => len k + 9 <= USIZE_MAX
  | MClear => True
  | _ => False
  end.

Definition valid_mo (m : msg) : Prop := exists o, m = MO o /\ valid_mapop o.

Lemma uadd_some a b : a + b <= USIZE_MAX -> uadd a b = Some (a + b).
Proof. intros H. unfold uadd. destruct (N.leb_spec (a + b) USIZE_MAX); [reflexivity|lia]. Qed.

Lemma some_inj {A} (a b : A) : Some a = Some b -> a = b.
Proof. congruence. Qed.

Lemma dec_mapop_complete o e rest : valid_mapop o -> enc_mapop o = Some e ->
  dec_mapop (e ++ rest) = (rest, DSome (MO o)).
Proof.
  intros HV HE. destruct o as [k v|k| |n|n]; simpl in HV; try contradiction; unfold enc_mapop in HE; try discriminate HE; apply some_inj in HE; subst e.
  - (* update *)
    set (payload := be 8 (len k) ++ k ++ v).
    assert (HL : len payload + 1 = len k + len v + 9) by (unfold payload; rewrite !len_app, len_be; lia).
    assert (HM : len k + len v + 9 + 8 <= USIZE_MAX) by lia.
    replace ((be 8 (len k + len v + 9) ++ [M_UPDATE] ++ payload) ++ rest)
      with (be 8 (len k + len v + 9) ++ M_UPDATE :: payload ++ rest)
      by (cbn [app]; now rewrite <- !app_assoc).
    unfold dec_mapop.
    rewrite (mf_len (len k + len v + 9) M_UPDATE payload rest), (mf_total (len k + len v + 9) M_UPDATE payload rest HL HM), mf_tag.
    destruct (N.ltb_spec (9 + len payload + len rest) 9); [lia|].
    change (M_UPDATE =? M_UPDATE) with true. cbv iota.
    destruct (N.ltb_spec (len k + len v + 9) 9); [lia|].
    rewrite uadd_some by lia.
    destruct (N.ltb_spec (9 + len payload + len rest) (8 + (len k + len v + 9))); [lia|].
    rewrite (mf_frame (len k + len v + 9) M_UPDATE payload rest HL), (mf_rest (len k + len v + 9) M_UPDATE payload rest HL).
    assert (EK : unbe (take 8 (drop 1 (M_UPDATE :: payload))) = len k).
    { change (drop 1 (M_UPDATE :: payload)) with payload. unfold payload.
      rewrite (take_n_app 8 (be 8 (len k))) by apply len_be.
      apply unbe8. unfold U64, USIZE_MAX in *. lia. }
    rewrite !EK. rewrite uadd_some by lia.
    destruct (N.ltb_spec (len k + len v + 9) (len k + 9)); [lia|].
    assert (E1 : take (len k) (drop 9 (M_UPDATE :: payload)) = k).
    { change (drop 9 (M_UPDATE :: payload)) with (drop 8 payload). unfold payload.
      rewrite (drop_n_app 8 (be 8 (len k))) by apply len_be. apply take_app_exact. }
    assert (E2 : drop (9 + len k) (M_UPDATE :: payload) = v).
    { replace (9 + len k) with (1 + (8 + len k)) by lia. rewrite <- drop_drop.
      change (drop 1 (M_UPDATE :: payload)) with payload. unfold payload.
      rewrite app_assoc. apply drop_n_app. rewrite len_app, len_be. lia. }
    rewrite E1, E2. reflexivity.
    all: try exact HL; try lia.
  - (* remove *)
    assert (HL : len k + 1 = len k + 1) by reflexivity.
    replace ((be 8 (len k + 1) ++ [M_REMOVE] ++ k) ++ rest) with (be 8 (len k + 1) ++ M_REMOVE :: k ++ rest)
      by (cbn [app]; now rewrite <- !app_assoc).
    unfold dec_mapop.
    rewrite (mf_len (len k + 1) M_REMOVE k rest), (mf_total (len k + 1) M_REMOVE k rest HL) by lia. rewrite mf_tag.
    destruct (N.ltb_spec (9 + len k + len rest) 9); [lia|].
    change (M_REMOVE =? M_UPDATE) with false. change (M_REMOVE =? M_REMOVE) with true. cbv iota.
    destruct (N.ltb_spec (len k + 1) 1); [lia|].
    rewrite uadd_some by lia.
    destruct (N.ltb_spec (9 + len k + len rest) (8 + (len k + 1))); [lia|].
    rewrite (mf_frame (len k + 1) M_REMOVE k rest HL), (mf_rest (len k + 1) M_REMOVE k rest HL). reflexivity.
    all: lia.
  - (* clear *)
    replace ((be 8 1 ++ [M_CLEAR]) ++ rest) with (be 8 1 ++ M_CLEAR :: [] ++ rest) by (cbn [app]; now rewrite <- !app_assoc).
    unfold dec_mapop.
    rewrite (mf_len 1 M_CLEAR [] rest), (mf_total 1 M_CLEAR [] rest) by (rewrite ?len_nil; unfold USIZE_MAX; lia).
    rewrite mf_tag. rewrite len_nil.
    destruct (N.ltb_spec (9 + 0 + len rest) 9); [lia|].
    change (M_CLEAR =? M_UPDATE) with false. change (M_CLEAR =? M_REMOVE) with false.
    change (M_CLEAR =? M_CLEAR) with true. change (1 =? 1) with true. cbv iota.
    reflexivity.
Qed.

Lemma mapop_partial_generic total tag payload p q :
  len payload + 1 = total -> total + 8 <= USIZE_MAX ->
  be 8 total ++ tag :: payload = p ++ q -> q <> [] ->
  (tag = M_UPDATE /\ 9 <= total) \/ (tag = M_REMOVE /\ 1 <= total) \/ (tag = M_CLEAR /\ total = 1) ->
  dec_mapop p = (p, DNone).
Proof.
  intros HL HM HE HQ HT. unfold dec_mapop.
  destruct (N.ltb_spec (len p) 9); [reflexivity|].
  change (be 8 total ++ tag :: payload) with (be 8 total ++ [tag] ++ payload) in HE.
  rewrite app_assoc in HE.
  destruct (split_prefix _ _ _ _ HE) as (r & A & B); [rewrite len_app, len_be, len_cons, len_nil; lia|].
  assert (HP : p = be 8 total ++ tag :: r ++ []) by (rewrite A, <- app_assoc, app_nil_r; reflexivity).
  assert (Hr : len r < len payload).
  { rewrite B, len_app. destruct q; [congruence|]. rewrite len_cons. lia. }
  assert (Hlen : len p = 9 + len r) by (rewrite A, !len_app, len_be, len_cons, len_nil; lia).
  assert (Htot : unbe (take 8 p) = total).
  { rewrite A, <- app_assoc. rewrite (take_n_app 8 (be 8 total)) by apply len_be.
    apply unbe8. unfold U64, USIZE_MAX in *. lia. }
  assert (Htag : nth 8 p 0 = tag).
  { rewrite A, <- app_assoc. apply nth_be8_tag. }
  rewrite Htot, Htag, Hlen.
  destruct HT as [[-> H9]|[[-> H1]|[-> H1]]].
  - change (M_UPDATE =? M_UPDATE) with true. cbv iota.
    destruct (N.ltb_spec total 9); [lia|]. rewrite uadd_some by lia.
    destruct (N.ltb_spec (9 + len r) (8 + total)); [reflexivity|lia].
  - change (M_REMOVE =? M_UPDATE) with false. change (M_REMOVE =? M_REMOVE) with true. cbv iota.
    destruct (N.ltb_spec total 1); [lia|]. rewrite uadd_some by lia.
    destruct (N.ltb_spec (9 + len r) (8 + total)); [reflexivity|lia].
  - exfalso. lia.
Qed.

Lemma dec_mapop_partial o p q : valid_mapop o -> enc_mapop o = Some (p ++ q) -> q <> [] ->
  dec_mapop p = (p, DNone).
Proof.
  intros HV HE HQ. destruct o as [k v|k| |n|n]; simpl in HV; try contradiction;
    unfold enc_mapop in HE; apply some_inj in HE.
  - apply (mapop_partial_generic (len k + len v + 9) M_UPDATE (be 8 (len k) ++ k ++ v) p q); auto;
      try (rewrite !len_app, len_be; lia); try lia; try (left; split; [reflexivity|lia]).
  - apply (mapop_partial_generic (len k + 1) M_REMOVE k p q); auto; try lia;
      try (right; left; split; [reflexivity|lia]).
  - apply (mapop_partial_generic 1 M_CLEAR [] p q); auto; try (unfold USIZE_MAX; lia);
      try (right; right; auto).
Qed.

Lemma mo_frame_spec : frame_spec dec_mapop (encode CMO) valid_mo.
Proof.
  split.
  - intros m e (o & -> & Ho) E. cbn [encode] in E.
    destruct o as [k v|k| |n|n]; simpl in Ho; try contradiction; unfold enc_mapop in E; apply some_inj in E;
      subst e; intros C; apply (f_equal (@length N)) in C; rewrite app_length, be_length in C; discriminate.
  - intros m e rest (o & -> & Ho) E. cbn [encode] in E. now apply dec_mapop_complete.
  - intros m p q (o & -> & Ho) E HQ. cbn [encode] in E. now apply (dec_mapop_partial o p q).
  - reflexivity.
Qed.

(* ------------------------------------------------------------------------------------------ *)
(* Raw map messages: operations plus take / drop *)

Definition valid_mm (m : msg) : Prop :=
  exists o, m = MM o /\ match o with MTake n | MDrop n => U64 n | other => valid_mapop other end.

Lemma enc_mapop_shape o e : valid_mapop o -> enc_mapop o = Some e ->
  exists total tag payload, e = be 8 total ++ tag :: payload /\
    (tag = M_UPDATE \/ tag = M_REMOVE \/ tag = M_CLEAR) /\ total < 2 ^ 64.
Proof.
  intros HV HE. destruct o as [k v|k| |n|n]; simpl in HV; try contradiction;
    unfold enc_mapop in HE; apply some_inj in HE; subst e.
  - exists (len k + len v + 9), M_UPDATE, (be 8 (len k) ++ k ++ v). repeat split; auto. unfold USIZE_MAX in HV. lia.
  - exists (len k + 1), M_REMOVE, k. repeat split; auto. unfold USIZE_MAX in HV. lia.
  - exists 1, M_CLEAR, []. repeat split; auto.
Qed.

Lemma take_drop_frame tag n rest : U64 n ->
  let b := (be 8 9 ++ [tag] ++ be 8 n) ++ rest in
  len b = 17 + len rest /\ unbe (take 8 b) = 9 /\ nth 8 b 0 = tag /\
  unbe (take 8 (drop 9 b)) = n /\ drop 17 b = rest.
Proof.
  intros Hn b. unfold b.
  assert (G1 : len ((be 8 9 ++ [tag] ++ be 8 n) ++ rest) = 17 + len rest)
    by (rewrite !len_app, !len_be, len_cons, len_nil; lia).
  assert (G2 : unbe (take 8 ((be 8 9 ++ [tag] ++ be 8 n) ++ rest)) = 9).
  { rewrite <- app_assoc. rewrite (take_n_app 8 (be 8 9)) by apply len_be. reflexivity. }
  assert (G3 : nth 8 ((be 8 9 ++ [tag] ++ be 8 n) ++ rest) 0 = tag).
  { rewrite <- app_assoc. apply nth_be8_tag. }
  assert (G4 : unbe (take 8 (drop 9 ((be 8 9 ++ [tag] ++ be 8 n) ++ rest))) = n).
  { replace ((be 8 9 ++ [tag] ++ be 8 n) ++ rest) with ((be 8 9 ++ [tag]) ++ be 8 n ++ rest)
      by (now rewrite <- !app_assoc).
    rewrite (drop_n_app 9) by (rewrite len_app, len_be, len_cons, len_nil; lia).
    rewrite (take_n_app 8 (be 8 n)) by apply len_be. now apply unbe8. }
  assert (G5 : drop 17 ((be 8 9 ++ [tag] ++ be 8 n) ++ rest) = rest).
  { apply drop_n_app. rewrite !len_app, !len_be, len_cons, len_nil. lia. }
  auto.
Qed.

Lemma dec_mapmsg_complete o rest :
  match o with MTake n | MDrop n => U64 n | other => valid_mapop other end ->
  dec_mapmsg (enc_mapmsg o ++ rest) = (rest, DSome (MM o)).
Proof.
  intros HV. destruct o as [k v|k| |n|n].
  1-3: (unfold enc_mapmsg;
        match goal with |- context [enc_mapop ?o] => destruct (enc_mapop o) as [e|] eqn:E end;
        [|simpl in E; discriminate];
        destruct (enc_mapop_shape _ _ HV E) as (total & tag & payload & -> & HT & _);
        pose proof (dec_mapop_complete _ _ rest HV E) as DC;
        unfold dec_mapmsg; rewrite <- app_assoc; cbn [app];
        rewrite len_app, len_be, len_cons;
        match goal with |- context [?a <? 9] => destruct (N.ltb_spec a 9); [lia|] end;
        rewrite nth_be8_tag;
        assert ((tag =? M_TAKE) || (tag =? M_DROP) = false) as ->
          by (destruct HT as [->|[->| ->]]; reflexivity);
        rewrite <- app_assoc in DC; cbn [app] in DC; rewrite DC; reflexivity).
  - destruct (take_drop_frame M_TAKE n rest HV) as (L & T & G & V & R).
    unfold enc_mapmsg, dec_mapmsg. rewrite L, T, G.
    destruct (N.ltb_spec (17 + len rest) 9); [lia|].
    change ((M_TAKE =? M_TAKE) || (M_TAKE =? M_DROP)) with true. change (9 =? 9) with true. cbv iota. cbn [negb].
    destruct (N.ltb_spec (17 + len rest) 17); [lia|]. rewrite V, R. reflexivity.
  - destruct (take_drop_frame M_DROP n rest HV) as (L & T & G & V & R).
    unfold enc_mapmsg, dec_mapmsg. rewrite L, T, G.
    destruct (N.ltb_spec (17 + len rest) 9); [lia|].
    change ((M_DROP =? M_TAKE) || (M_DROP =? M_DROP)) with true. change (9 =? 9) with true. cbv iota. cbn [negb].
    destruct (N.ltb_spec (17 + len rest) 17); [lia|]. rewrite V, R. reflexivity.
Qed.

Lemma header_of_prefix total tag payload p q :
  be 8 total ++ tag :: payload = p ++ q -> 9 <= len p -> total < 2 ^ 64 ->
  unbe (take 8 p) = total /\ nth 8 p 0 = tag /\ exists r, p = be 8 total ++ tag :: r /\ payload = r ++ q.
Proof.
  intros HE HL HT.
  change (be 8 total ++ tag :: payload) with (be 8 total ++ [tag] ++ payload) in HE.
  rewrite app_assoc in HE.
  destruct (split_prefix _ _ _ _ HE) as (r & A & B); [rewrite len_app, len_be, len_cons, len_nil; lia|].
  rewrite <- app_assoc in A. cbn [app] in A. repeat split.
  - rewrite A. rewrite (take_n_app 8 (be 8 total)) by apply len_be. now apply unbe8.
  - rewrite A. apply nth_be8_tag.
  - exists r. auto.
Qed.

Lemma dec_mapmsg_partial o p q :
  match o with MTake n | MDrop n => U64 n | other => valid_mapop other end ->
  enc_mapmsg o = p ++ q -> q <> [] -> dec_mapmsg p = (p, DNone).
Proof.
  intros HV HE HQ. unfold dec_mapmsg. destruct (N.ltb_spec (len p) 9); [reflexivity|].
  destruct o as [k v|k| |n|n].
  1-3: (unfold enc_mapmsg in HE;
        match type of HE with context [enc_mapop ?o] => destruct (enc_mapop o) as [e|] eqn:E end;
        [|simpl in E; discriminate];
        destruct (enc_mapop_shape _ _ HV E) as (total & tag & payload & -> & HT & HT64);
        destruct (header_of_prefix _ _ _ _ _ HE H HT64) as (_ & G & _);
        rewrite G;
        assert ((tag =? M_TAKE) || (tag =? M_DROP) = false) as ->
          by (destruct HT as [->|[->| ->]]; reflexivity);
        rewrite HE in E; rewrite (dec_mapop_partial _ p q HV E HQ); reflexivity).
  - unfold enc_mapmsg in HE. change (be 8 9 ++ [M_TAKE] ++ be 8 n) with (be 8 9 ++ M_TAKE :: be 8 n) in HE.
    destruct (header_of_prefix _ _ _ _ _ HE H) as (T & G & r & A & B); [lia|].
    rewrite T, G. change ((M_TAKE =? M_TAKE) || (M_TAKE =? M_DROP)) with true. change (9 =? 9) with true.
    cbv iota. cbn [negb].
    assert (len r < 8).
    { apply (f_equal len) in B. rewrite len_be, len_app in B. destruct q; [congruence|]. rewrite len_cons in B. lia. }
    assert (len p = 9 + len r) by (rewrite A, len_app, len_be, len_cons; lia).
    destruct (N.ltb_spec (len p) 17); [reflexivity|lia].
  - unfold enc_mapmsg in HE. change (be 8 9 ++ [M_DROP] ++ be 8 n) with (be 8 9 ++ M_DROP :: be 8 n) in HE.
    destruct (header_of_prefix _ _ _ _ _ HE H) as (T & G & r & A & B); [lia|].
    rewrite T, G. change ((M_DROP =? M_TAKE) || (M_DROP =? M_DROP)) with true. change (9 =? 9) with true.
    cbv iota. cbn [negb].
    assert (len r < 8).
    { apply (f_equal len) in B. rewrite len_be, len_app in B. destruct q; [congruence|]. rewrite len_cons in B. lia. }
    assert (len p = 9 + len r) by (rewrite A, len_app, len_be, len_cons; lia).
    destruct (N.ltb_spec (len p) 17); [reflexivity|lia].
Qed.

Lemma mm_frame_spec : frame_spec dec_mapmsg (encode CMM) valid_mm.
Proof.
  split.
  - intros m e (o & -> & Ho) E. cbn [encode] in E. apply some_inj in E. subst e.
    destruct o as [k v|k| |n|n]; unfold enc_mapmsg.
    1-3: (match goal with |- context [enc_mapop ?o] => destruct (enc_mapop o) as [e|] eqn:E end;
          [|simpl in E; discriminate];
          destruct (enc_mapop_shape _ _ Ho E) as (total & tag & payload & -> & _);
          intros C; apply (f_equal (@length N)) in C; rewrite app_length, be_length in C; discriminate).
    all: intros C; apply (f_equal (@length N)) in C; rewrite app_length, be_length in C; discriminate.
  - intros m e rest (o & -> & Ho) E. cbn [encode] in E. apply some_inj in E. subst e. now apply dec_mapmsg_complete.
  - intros m p q (o & -> & Ho) E HQ. cbn [encode] in E. apply some_inj in E. now apply (dec_mapmsg_partial o p q).
  - reflexivity.
Qed.

(* ------------------------------------------------------------------------------------------ *)
(* the three inner codecs *)

Definition valid_inner (i : inner) (m : msg) : Prop :=
  match i with IWL => valid_wl m | IMO => valid_mo m | IMM => valid_mm m end.

Lemma inner_spec i : frame_spec (dec_inner i) (enc_inner i) (valid_inner i).
Proof.
  destruct i; simpl.
  - destruct wl_frame_spec as [A B C D].
    split; [ intros m e (b & -> & Hb) E; apply (A (WL b) e); [exists b; auto|exact E]
           | intros m e rest (b & -> & Hb) E; apply (B (WL b) e rest); [exists b; auto|exact E]
           | intros m p q (b & -> & Hb) E; apply (C (WL b) p q); [exists b; auto|exact E]
           | exact D ].
  - destruct mo_frame_spec as [A B C D].
    split; [ intros m e (o & -> & Ho) E; apply (A (MO o) e); [exists o; auto|exact E]
           | intros m e rest (o & -> & Ho) E; apply (B (MO o) e rest); [exists o; auto|exact E]
           | intros m p q (o & -> & Ho) E; apply (C (MO o) p q); [exists o; auto|exact E]
           | exact D ].
  - destruct mm_frame_spec as [A B C D].
    split; [ intros m e (o & -> & Ho) E; apply (A (MM o) e); [exists o; auto|exact E]
           | intros m e rest (o & -> & Ho) E; apply (B (MM o) e rest); [exists o; auto|exact E]
           | intros m p q (o & -> & Ho) E; apply (C (MM o) p q); [exists o; auto|exact E]
           | exact D ].
Qed.

Lemma lift_inner_complete i x e rest wrap st :
  valid_inner i x -> enc_inner i x = Some e ->
  lift_inner i (e ++ rest) wrap st = (SHeader, rest, DSome (wrap x)).
Proof.
  intros V E. unfold lift_inner. destruct (inner_spec i) as [_ B _ _]. now rewrite (B x e rest V E).
Qed.

Lemma lift_inner_partial i x p q wrap st :
  valid_inner i x -> enc_inner i x = Some (p ++ q) -> q <> [] ->
  lift_inner i p wrap st = (st, p, DNone).
Proof.
  intros V E Q. unfold lift_inner. destruct (inner_spec i) as [_ _ C _]. now rewrite (C x p q V E Q).
Qed.

Lemma lift_inner_empty i wrap st : lift_inner i [] wrap st = (st, [], DNone).
Proof. unfold lift_inner. destruct (inner_spec i) as [_ _ _ D]. now rewrite D. Qed.

(* ------------------------------------------------------------------------------------------ *)
(* Lane responses: tag (+ 16-byte id) + inner frame, decoded with a resumable state *)

Definition U128 (v : N) : Prop := v < 2 ^ 128.
Lemma pow256_16 : 256 ^ N.of_nat 16 = 2 ^ 128.  Proof. reflexivity. Qed.
Lemma unbe16 v : U128 v -> unbe (be 16 v) = v.
Proof. intros H. apply unbe_be_small. now rewrite pow256_16. Qed.

Lemma be16_inj a b : U128 a -> U128 b -> be 16 a = be 16 b -> a = b.
Proof. intros Ha Hb E. rewrite <- (unbe16 a Ha), <- (unbe16 b Hb). now rewrite E. Qed.

Lemma app_same_len_inj (a b c d : bytes) : length a = length c -> a ++ b = c ++ d -> a = c /\ b = d.
Proof.
  revert c. induction a as [|x a IH]; intros [|y c] L H; simpl in *; try discriminate; auto.
  inversion H; subst. destruct (IH c) as [A B]; auto. subst. auto.
Qed.

Definition valid_lresp (i : inner) (m : msg) : Prop :=
  match m with
  | LRespEvent x => valid_inner i x
  | LRespInitialized => True
  | LRespSyncEvent id x => U128 id /\ valid_inner i x
  | LRespSynced id => U128 id
  | _ => False
  end.

Definition unread_lresp (s : dstate) : bytes :=
  match s with
  | SBody => [T_EVENT]
  | SSyncBody id => if id <? 2 ^ 128 then T_SYNC :: be 16 id else [255]
  | _ => []
  end.

Ltac first_byte H := (* H : x :: _ = y :: _ with distinct literal tags *)
  let E := fresh in assert (E := f_equal (fun l => hd 0 l) H); cbn [hd app] in E; discriminate E.

Lemma lresp_states i s :
  s = SBody \/ (exists id, s = SSyncBody id) \/
  (unread_lresp s = [] /\ forall b, dstep (CLaneResp i) s b = dstep (CLaneResp i) SHeader b).
Proof. destruct s; eauto; right; right; split; reflexivity. Qed.

Lemma lresp_complete i s b m e rest :
  valid_lresp i m -> encode (CLaneResp i) m = Some e -> unread_lresp s ++ b = e ++ rest ->
  dstep (CLaneResp i) s b = (SHeader, rest, DSome m).
Proof.
  intros HV HE HU.
  destruct (lresp_states i s) as [-> | [[id0 ->] | [HS0 HS1]]].
  - (* resuming an event body *)
    cbn [unread_lresp app] in HU.
    destruct m; simpl in HV; try contradiction; cbn [encode] in HE;
      try (destruct (enc_inner i m) as [ei|] eqn:EI; [|discriminate]);
      apply some_inj in HE; subst e; try first_byte HU.
    cbn [app] in HU. apply (f_equal (@tl N)) in HU. cbn [tl] in HU. subst b.
    cbn [dstep]. now apply lift_inner_complete.
  - (* resuming a sync event body *)
    cbn [unread_lresp] in HU. destruct (id0 <? 2 ^ 128) eqn:EID.
    2: { destruct m; simpl in HV; try contradiction; cbn [encode] in HE;
           try (destruct (enc_inner i m) as [ei|] eqn:EI; [|discriminate]);
           apply some_inj in HE; subst e; cbn [app] in HU; first_byte HU. }
    destruct m; simpl in HV; try contradiction; cbn [encode] in HE;
      try (destruct (enc_inner i m) as [ei|] eqn:EI; [|discriminate]);
      apply some_inj in HE; subst e; cbn [app] in HU; try first_byte HU.
    destruct HV as [Hid HV].
    apply (f_equal (@tl N)) in HU. cbn [tl] in HU. rewrite <- app_assoc in HU.
    apply app_same_len_inj in HU as [EB Eb]; [|now rewrite !be_length].
    apply N.ltb_lt in EID. apply be16_inj in EB; auto. subst id0 b.
    cbn [dstep]. now apply lift_inner_complete.
  - (* from the header *)
    rewrite HS1. rewrite HS0 in HU. cbn [app] in HU. subst b.
    destruct m; simpl in HV; try contradiction; cbn [encode] in HE;
      try (destruct (enc_inner i m) as [ei|] eqn:EI; [|discriminate]);
      apply some_inj in HE; subst e.
    + cbn [app dstep]. change (T_EVENT =? T_EVENT) with true. cbv iota. now apply lift_inner_complete.
    + reflexivity.
    + destruct HV as [Hid HV]. cbn [app dstep]. change (T_SYNC =? T_EVENT) with false.
      change (T_SYNC =? T_INITIALIZED) with false. change (T_SYNC =? T_SYNC) with true. cbv iota.
      rewrite <- !app_assoc. rewrite len_app, len_be.
      destruct (N.ltb_spec (N.of_nat 16 + len (ei ++ rest)) 16); [lia|].
      rewrite (take_n_app 16 (be 16 id)) by apply len_be. rewrite unbe16 by assumption.
      rewrite (drop_n_app 16 (be 16 id)) by apply len_be. now apply lift_inner_complete.
    + cbn [app dstep]. change (T_SYNC_COMPLETE =? T_EVENT) with false.
      change (T_SYNC_COMPLETE =? T_INITIALIZED) with false. change (T_SYNC_COMPLETE =? T_SYNC) with false.
      change (T_SYNC_COMPLETE =? T_SYNC_COMPLETE) with true. cbv iota.
      rewrite len_app, len_be. destruct (N.ltb_spec (N.of_nat 16 + len rest) 16); [lia|].
      rewrite (take_n_app 16 (be 16 id)) by apply len_be. rewrite unbe16 by assumption.
      rewrite (drop_n_app 16 (be 16 id)) by apply len_be. reflexivity.
Qed.

Lemma enc_inner_nonempty i x e : valid_inner i x -> enc_inner i x = Some e -> e <> [].
Proof. intros V E. destruct (inner_spec i) as [A _ _ _]. exact (A x e V E). Qed.

Lemma lresp_partial i s b m p q :
  valid_lresp i m -> encode (CLaneResp i) m = Some (p ++ q) -> q <> [] -> unread_lresp s ++ b = p ->
  exists s' b', dstep (CLaneResp i) s b = (s', b', DNone) /\ unread_lresp s' ++ b' = p.
Proof.
  intros HV HE HQ HU.
  destruct (lresp_states i s) as [-> | [[id0 ->] | [HS0 HS1]]].
  - cbn [unread_lresp app] in HU. subst p.
    destruct m; simpl in HV; try contradiction; cbn [encode] in HE;
      try (destruct (enc_inner i m) as [ei|] eqn:EI; [|discriminate]);
      apply some_inj in HE; cbn [app] in HE; try first_byte HE.
    apply (f_equal (@tl N)) in HE. cbn [tl] in HE. subst ei.
    exists SBody, b. cbn [dstep]. rewrite (lift_inner_partial i m b q _ SBody HV EI HQ). auto.
  - cbn [unread_lresp] in HU. destruct (id0 <? 2 ^ 128) eqn:EID.
    2: { subst p. destruct m; simpl in HV; try contradiction; cbn [encode] in HE;
           try (destruct (enc_inner i m) as [ei|] eqn:EI; [|discriminate]);
           apply some_inj in HE; cbn [app] in HE; first_byte HE. }
    subst p.
    destruct m; simpl in HV; try contradiction; cbn [encode] in HE;
      try (destruct (enc_inner i m) as [ei|] eqn:EI; [|discriminate]);
      apply some_inj in HE; cbn [app] in HE; try first_byte HE.
    destruct HV as [Hid HV]. apply (f_equal (@tl N)) in HE. cbn [tl] in HE. rewrite <- app_assoc in HE.
    apply app_same_len_inj in HE as [EB Eb]; [|now rewrite !be_length].
    apply N.ltb_lt in EID. apply be16_inj in EB; auto. subst id ei.
    exists (SSyncBody id0), b. cbn [dstep].
    rewrite (lift_inner_partial i m b q _ (SSyncBody id0) HV EI HQ). split; auto.
    cbn [unread_lresp]. apply N.ltb_lt in EID. now rewrite EID.
  - rewrite HS0 in HU. cbn [app] in HU. subst b. setoid_rewrite HS1.
    destruct p as [|t b'].
    { exists SHeader, []. auto. }
    destruct m; simpl in HV; try contradiction; cbn [encode] in HE;
      try (destruct (enc_inner i m) as [ei|] eqn:EI; [|discriminate]);
      apply some_inj in HE; cbn [app] in HE.
    + (* event *)
      pose proof (f_equal (fun l => hd 0 l) HE) as Ht; cbn [hd] in Ht; subst t;
      apply (f_equal (@tl N)) in HE; cbn [tl] in HE. subst ei. exists SBody, b'. cbn [dstep].
      change (T_EVENT =? T_EVENT) with true. cbv iota.
      rewrite (lift_inner_partial i m b' q _ SBody HV EI HQ). auto.
    + (* initialized: a one byte frame has no non-empty strict prefix *)
      apply (f_equal (@tl N)) in HE; cbn [tl] in HE. destruct b'; [|discriminate]. destruct q; [congruence|discriminate].
    + (* sync event *)
      destruct HV as [Hid HV]. pose proof (f_equal (fun l => hd 0 l) HE) as Ht; cbn [hd] in Ht; subst t;
      apply (f_equal (@tl N)) in HE; cbn [tl] in HE.
      cbn [dstep]. change (T_SYNC =? T_EVENT) with false. change (T_SYNC =? T_INITIALIZED) with false.
      change (T_SYNC =? T_SYNC) with true. cbv iota.
      destruct (N.ltb_spec (len b') 16).
      { exists SHeader, (T_SYNC :: b'). auto. }
      destruct (split_prefix _ _ _ _ HE) as (r & A & B); [rewrite len_be; lia|]. subst b'.
      rewrite (take_n_app 16 (be 16 id)) by apply len_be. rewrite unbe16 by assumption.
      rewrite (drop_n_app 16 (be 16 id)) by apply len_be.
      exists (SSyncBody id), r. rewrite (lift_inner_partial i m r q _ (SSyncBody id) HV); auto.
      * split; auto. cbn [unread_lresp]. assert (id <? 2 ^ 128 = true) as -> by (now apply N.ltb_lt).
        reflexivity.
      * now rewrite <- B.
    + (* synced *)
      pose proof (f_equal (fun l => hd 0 l) HE) as Ht; cbn [hd] in Ht; subst t;
      apply (f_equal (@tl N)) in HE; cbn [tl] in HE.
      cbn [dstep]. change (T_SYNC_COMPLETE =? T_EVENT) with false.
      change (T_SYNC_COMPLETE =? T_INITIALIZED) with false. change (T_SYNC_COMPLETE =? T_SYNC) with false.
      change (T_SYNC_COMPLETE =? T_SYNC_COMPLETE) with true. cbv iota.
      assert (len b' < 16).
      { apply (f_equal len) in HE. rewrite len_be, len_app in HE. destruct q; [congruence|]. rewrite len_cons in HE. lia. }
      destruct (N.ltb_spec (len b') 16); [|lia]. exists SHeader, (T_SYNC_COMPLETE :: b'). auto.
Qed.

Lemma lresp_empty i s b : unread_lresp s ++ b = [] ->
  exists s' b', dstep (CLaneResp i) s b = (s', b', DNone) /\ unread_lresp s' ++ b' = [].
Proof.
  intros HU. destruct (lresp_states i s) as [-> | [[id0 ->] | [HS0 HS1]]].
  - discriminate HU.
  - cbn [unread_lresp] in HU. destruct (id0 <? 2 ^ 128); discriminate HU.
  - rewrite HS0 in HU. cbn [app] in HU. subst b. rewrite HS1. exists SHeader, []. auto.
Qed.

Theorem lane_response_any_chunking i : forall chunks ms all,
  Forall (valid_lresp i) ms -> enc_all (encode (CLaneResp i)) ms = Some all -> concat chunks = all ->
  feed_items (dstep (CLaneResp i)) unread_lresp SHeader [] chunks = (ms, [], true).
Proof.
  intros chunks ms all HV HE HC.
  apply (feed_from_start (dstep (CLaneResp i)) (encode (CLaneResp i)) (valid_lresp i) unread_lresp)
    with (all := all); auto.
  - intros m e V E. destruct m; simpl in V; try contradiction; cbn [encode] in E;
      try (destruct (enc_inner i m) as [ei|] eqn:EI; [|discriminate]); apply some_inj in E; subst e; discriminate.
  - intros. now apply lresp_complete with (e := e).
  - intros. now apply lresp_partial with (m := m) (q := q).
  - intros. now apply lresp_empty.
Qed.

(* ------------------------------------------------------------------------------------------ *)
(* Lane requests and store initialisation messages: tag + inner frame / tag + id / bare tag *)

Definition valid_lreq (i : inner) (m : msg) : Prop :=
  match m with
  | LReqCommand x => valid_inner i x
  | LReqSync id => U128 id
  | LReqInitComplete => True
  | _ => False
  end.

Definition unread_cmd (s : dstate) : bytes := match s with SBody => [T_COMMAND] | _ => [] end.

Lemma lreq_states i s :
  s = SBody \/ (unread_cmd s = [] /\ forall b, dstep (CLaneReq i) s b = dstep (CLaneReq i) SHeader b).
Proof. destruct s; auto; right; split; reflexivity. Qed.

Lemma lreq_complete i s b m e rest :
  valid_lreq i m -> encode (CLaneReq i) m = Some e -> unread_cmd s ++ b = e ++ rest ->
  dstep (CLaneReq i) s b = (SHeader, rest, DSome m).
Proof.
  intros HV HE HU. destruct (lreq_states i s) as [-> | [HS0 HS1]].
  - cbn [unread_cmd app] in HU.
    destruct m; simpl in HV; try contradiction; cbn [encode] in HE;
      try (destruct (enc_inner i m) as [ei|] eqn:EI; [|discriminate]);
      apply some_inj in HE; subst e; try first_byte HU.
    cbn [app] in HU. apply (f_equal (@tl N)) in HU. cbn [tl] in HU. subst b.
    cbn [dstep]. now apply lift_inner_complete.
  - rewrite HS1. rewrite HS0 in HU. cbn [app] in HU. subst b.
    destruct m; simpl in HV; try contradiction; cbn [encode] in HE;
      try (destruct (enc_inner i m) as [ei|] eqn:EI; [|discriminate]);
      apply some_inj in HE; subst e.
    + cbn [app dstep]. change (T_COMMAND =? T_COMMAND) with true. cbv iota. now apply lift_inner_complete.
    + cbn [app dstep]. change (T_SYNC =? T_COMMAND) with false. change (T_SYNC =? T_SYNC) with true. cbv iota.
      rewrite len_cons, len_app, len_be. destruct (N.ltb_spec (1 + (N.of_nat 16 + len rest)) 17); [lia|].
      rewrite (take_n_app 16 (be 16 id)) by apply len_be. rewrite unbe16 by assumption.
      change (drop 17 (T_SYNC :: be 16 id ++ rest)) with (drop 16 (be 16 id ++ rest)).
      rewrite (drop_n_app 16 (be 16 id)) by apply len_be. reflexivity.
    + reflexivity.
Qed.

Lemma lreq_partial i s b m p q :
  valid_lreq i m -> encode (CLaneReq i) m = Some (p ++ q) -> q <> [] -> unread_cmd s ++ b = p ->
  exists s' b', dstep (CLaneReq i) s b = (s', b', DNone) /\ unread_cmd s' ++ b' = p.
Proof.
  intros HV HE HQ HU. destruct (lreq_states i s) as [-> | [HS0 HS1]].
  - cbn [unread_cmd app] in HU. subst p.
    destruct m; simpl in HV; try contradiction; cbn [encode] in HE;
      try (destruct (enc_inner i m) as [ei|] eqn:EI; [|discriminate]);
      apply some_inj in HE; cbn [app] in HE; try first_byte HE.
    apply (f_equal (@tl N)) in HE. cbn [tl] in HE. subst ei.
    exists SBody, b. cbn [dstep]. rewrite (lift_inner_partial i m b q _ SBody HV EI HQ). auto.
  - rewrite HS0 in HU. cbn [app] in HU. subst b. setoid_rewrite HS1.
    destruct p as [|t b'].
    { exists SHeader, []. auto. }
    destruct m; simpl in HV; try contradiction; cbn [encode] in HE;
      try (destruct (enc_inner i m) as [ei|] eqn:EI; [|discriminate]);
      apply some_inj in HE; cbn [app] in HE;
      pose proof (f_equal (fun l => hd 0 l) HE) as Ht; cbn [hd] in Ht; subst t;
      apply (f_equal (@tl N)) in HE; cbn [tl] in HE.
    + subst ei. exists SBody, b'. cbn [dstep]. change (T_COMMAND =? T_COMMAND) with true. cbv iota.
      rewrite (lift_inner_partial i m b' q _ SBody HV EI HQ). auto.
    + cbn [dstep]. change (T_SYNC =? T_COMMAND) with false. change (T_SYNC =? T_SYNC) with true. cbv iota.
      assert (len b' < 16).
      { apply (f_equal len) in HE. rewrite len_be, len_app in HE. destruct q; [congruence|]. rewrite len_cons in HE. lia. }
      rewrite len_cons. destruct (N.ltb_spec (1 + len b') 17); [|lia]. exists SHeader, (T_SYNC :: b'). auto.
    + destruct b'; [|discriminate]. destruct q; [congruence|discriminate].
Qed.

Lemma lreq_empty i s b : unread_cmd s ++ b = [] ->
  exists s' b', dstep (CLaneReq i) s b = (s', b', DNone) /\ unread_cmd s' ++ b' = [].
Proof.
  intros HU. destruct (lreq_states i s) as [-> | [HS0 HS1]]; [discriminate HU|].
  rewrite HS0 in HU. cbn [app] in HU. subst b. rewrite HS1. exists SHeader, []. auto.
Qed.

Theorem lane_request_any_chunking i : forall chunks ms all,
  Forall (valid_lreq i) ms -> enc_all (encode (CLaneReq i)) ms = Some all -> concat chunks = all ->
  feed_items (dstep (CLaneReq i)) unread_cmd SHeader [] chunks = (ms, [], true).
Proof.
  intros chunks ms all HV HE HC.
  apply (feed_from_start (dstep (CLaneReq i)) (encode (CLaneReq i)) (valid_lreq i) unread_cmd)
    with (all := all); auto.
  - intros m e V E. destruct m; simpl in V; try contradiction; cbn [encode] in E;
      try (destruct (enc_inner i m) as [ei|] eqn:EI; [|discriminate]); apply some_inj in E; subst e; discriminate.
  - intros. now apply lreq_complete with (e := e).
  - intros. now apply lreq_partial with (m := m) (q := q).
  - intros. now apply lreq_empty.
Qed.

(* ------------------------------------------------------------------------------------------ *)
(* Totality: no byte string makes these decoders panic (the Panic outcome of the model marks an
   arithmetic overflow / out-of-range split in the code) *)

Ltac crush_ifs :=
  repeat match goal with
         | |- context [if ?c then _ else _] => destruct c
         | |- context [match uadd ?a ?b with _ => _ end] => destruct (uadd a b)
         end.

Lemma dec_wl_no_panic b : snd (dec_wl b) <> DPanic.
Proof. unfold dec_wl. crush_ifs; simpl; discriminate. Qed.

Lemma dec_mapop_no_panic b : snd (dec_mapop b) <> DPanic.
Proof. unfold dec_mapop. crush_ifs; simpl; discriminate. Qed.

Lemma dec_mapmsg_no_panic b : snd (dec_mapmsg b) <> DPanic.
Proof.
  unfold dec_mapmsg. crush_ifs; simpl; try discriminate.
  pose proof (dec_mapop_no_panic b) as H. destruct (dec_mapop b) as [r [| m | |]]; simpl in *; try discriminate; try congruence.
  destruct m; discriminate.
Qed.

Lemma dec_proto_no_panic r b : snd (dec_proto r b) <> DPanic.
Proof. unfold dec_proto. crush_ifs; simpl; discriminate. Qed.

Lemma dec_inner_no_panic i b : snd (dec_inner i b) <> DPanic.
Proof. destruct i; simpl; [apply dec_wl_no_panic | apply dec_mapop_no_panic | apply dec_mapmsg_no_panic]. Qed.

Lemma lift_inner_no_panic i b w st : snd (lift_inner i b w st) <> DPanic.
Proof.
  unfold lift_inner. pose proof (dec_inner_no_panic i b) as H.
  destruct (dec_inner i b) as [r [| m | |]]; simpl in *; try discriminate; congruence.
Qed.

Definition panic_free (c : codec) : bool :=
  match c with CCmd => false | _ => true end.

Theorem no_panic c s b : panic_free c = true -> snd (dstep c s b) <> DPanic.
Proof.
  intros HP. destruct c; try discriminate HP; cbn [dstep stateless snd].
  - apply dec_wl_no_panic.
  - apply dec_mapop_no_panic.
  - apply dec_mapmsg_no_panic.
  - destruct s; try apply lift_inner_no_panic; destruct b as [|t r]; simpl; try discriminate;
      crush_ifs; simpl; try discriminate; apply lift_inner_no_panic.
  - destruct s; try apply lift_inner_no_panic; destruct b as [|t r]; simpl; try discriminate;
      crush_ifs; simpl; try discriminate; apply lift_inner_no_panic.
  - destruct s; try apply lift_inner_no_panic; destruct b as [|t r]; simpl; try discriminate;
      crush_ifs; simpl; try discriminate; apply lift_inner_no_panic.
  - destruct b as [|t r]; simpl; try discriminate. crush_ifs; simpl; discriminate.
  - destruct s; try apply lift_inner_no_panic; crush_ifs; simpl; try discriminate;
      destruct b as [|t r]; simpl; try discriminate; crush_ifs; simpl; try discriminate; apply lift_inner_no_panic.
  - apply dec_wl_no_panic.
  - apply dec_proto_no_panic.
  - apply dec_proto_no_panic.
Qed.

Example c10_nonvacuous :
  let ms := [LRespSyncEvent 7 (MO (MUpdate [1;2] [3])); LRespSynced 7; LRespEvent (MO MClear)] in
  Forall (valid_lresp IMO) ms /\
  exists all, enc_all (encode (CLaneResp IMO)) ms = Some all /\ length all = 64%nat /\
    feed_items (dstep (CLaneResp IMO)) unread_lresp SHeader []
               [firstn 5 all; firstn 30 (skipn 5 all); skipn 35 all] = (ms, [], true).
Proof.
  split.
  - repeat constructor; simpl; unfold U128, valid_mo, valid_mapop, USIZE_MAX; try lia;
      try (eexists; split; [reflexivity|simpl; unfold USIZE_MAX; try lia; exact I]).
  - eexists. split; [reflexivity|]. split; reflexivity.
Qed.
