(* C14, the agent's side of the command channel: whatever commanders an agent creates, whenever it creates them (during
   initialisation or later) and however it mixes sends through them with ad hoc sends, the messages it writes, resolved
   as the runtime resolves them, are each command once, in order, to the lane it was meant for. *)
From SwimV Require Import Model.Commanders.
Open Scope N_scope.

Lemma alookup_In k v m : alookup k m = Some v -> In (k, v) m.
Proof.
  induction m as [|[k' v'] t IH]; cbn [alookup]; [discriminate|].
  destruct (N.eqb_spec k k') as [->|NE]; intros H; [injection H as ->; now left|right; now apply IH].
Qed.

Definition Inv (a : agent) (table : list (N * N)) : Prop :=
  let c := a_ids a in
  (forall addr id, In (addr, id) (a_handles a) -> alookup addr (assigned c) = Some id) /\
  (forall a1 a2 i, alookup a1 (assigned c) = Some i -> alookup a2 (assigned c) = Some i -> a1 = a2) /\
  (forall addr i, alookup addr (assigned c) = Some i -> i < next_id c) /\
  (forall addr id, In (addr, id) (a_handles a) -> alookup id table = Some addr).

Lemma inv0 : Inv agent0 [].
Proof. repeat split; cbn; intros; try contradiction; discriminate. Qed.

(* creating a commander keeps the agent's handles, its table and the runtime's table in agreement *)
Lemma create_inv a table addr c id :
  Inv a table -> get_request (a_ids a) addr = Some (c, id) ->
  Inv {| a_ids := c; a_handles := (addr, id) :: a_handles a |} ((id, addr) :: table).
Proof.
  intros (I1 & I2 & I3 & I4) G. unfold get_request in G.
  destruct (alookup addr (assigned (a_ids a))) as [id0|] eqn:L.
  - (* the address has its identifier already *)
    injection G as <- <-. unfold Inv. cbn [a_ids a_handles].
    split; [|split; [exact I2|split; [exact I3|]]].
    + intros addr' id' [E|H]; [injection E as <- <-; exact L|now apply I1].
    + intros addr' id' [E|H]; cbn [alookup].
      * injection E as <- <-. now rewrite N.eqb_refl.
      * destruct (N.eqb_spec id' id0) as [->|NE]; [|now apply I4].
        f_equal. apply (I2 addr addr' id0); [exact L|now apply I1].
  - (* a fresh identifier *)
    destruct (N.eqb_spec (next_id (a_ids a)) ID_LIMIT) as [|NL]; [discriminate|]. injection G as <- <-.
    unfold Inv. cbn [a_ids a_handles assigned next_id].
    split; [|split; [|split]].
    + intros addr' id' [E|H]; cbn [alookup].
      * injection E as <- <-. now rewrite N.eqb_refl.
      * destruct (N.eqb_spec addr' addr) as [->|NE]; [|now apply I1].
        rewrite (I1 _ _ H) in L. discriminate.
    + intros a1 a2 i. cbn [alookup].
      destruct (N.eqb_spec a1 addr) as [->|N1]; destruct (N.eqb_spec a2 addr) as [->|N2]; intros H1 H2; try reflexivity.
      * injection H1 as <-. apply I3 in H2. lia.
      * injection H2 as <-. apply I3 in H1. lia.
      * now apply (I2 a1 a2 i).
    + intros addr' i. cbn [alookup]. destruct (N.eqb_spec addr' addr) as [->|NE]; intros H.
      * injection H as <-. lia.
      * apply I3 in H. lia.
    + intros addr' id' [E|H]; cbn [alookup].
      * injection E as <- <-. now rewrite N.eqb_refl.
      * pose proof (I3 _ _ (I1 _ _ H)) as Lt.
        destruct (N.eqb_spec id' (next_id (a_ids a))) as [->|NE]; [lia|now apply I4].
Qed.

Lemma run_resolves ops : forall a table ms,
  Inv a table -> arun a ops = Some ms -> resolve table ms = Some (intended ops).
Proof.
  induction ops as [|o ops IH]; intros a table ms I R; cbn [arun] in R.
  - injection R as <-. reflexivity.
  - destruct o as [addr | addr body ow | addr body]; cbn [astep] in R.
    + destruct (get_request (a_ids a) addr) as [[c id]|] eqn:G; [|discriminate].
      destruct (arun _ ops) as [rest|] eqn:R'; [|discriminate]. cbn [option_map app] in R. injection R as <-.
      cbn [resolve intended flat_map app].
      exact (IH _ _ _ (create_inv a table addr c id I G) R').
    + destruct (alookup addr (a_handles a)) as [id|] eqn:L; [|discriminate].
      destruct (arun a ops) as [rest|] eqn:R'; [|discriminate]. cbn [option_map app] in R. injection R as <-.
      cbn [resolve intended flat_map app].
      destruct I as (I1 & I2 & I3 & I4). rewrite (I4 _ _ (alookup_In _ _ _ L)).
      change (intended ops) with (intended ops).
      rewrite (IH a table rest (conj I1 (conj I2 (conj I3 I4))) R'). reflexivity.
    + destruct (arun a ops) as [rest|] eqn:R'; [|discriminate]. cbn [option_map app] in R. injection R as <-.
      cbn [resolve intended flat_map app]. rewrite (IH a table rest I R'). reflexivity.
Qed.

Theorem commands_reach_their_targets ops ms :
  arun agent0 ops = Some ms -> resolve [] ms = Some (intended ops).
Proof. exact (run_resolves ops agent0 [] ms inv0). Qed.

(* the identifiers: one address, one identifier, for the agent's whole life *)
Fixpoint ids_after (c : cids) (addrs : list N) : option cids :=
  match addrs with
  | [] => Some c
  | a :: t => match get_request c a with Some (c', _) => ids_after c' t | None => None end
  end.

Lemma get_request_inv c addr c' id :
  (forall a1 a2 i, alookup a1 (assigned c) = Some i -> alookup a2 (assigned c) = Some i -> a1 = a2) ->
  (forall a i, alookup a (assigned c) = Some i -> i < next_id c) ->
  get_request c addr = Some (c', id) ->
  (forall a1 a2 i, alookup a1 (assigned c') = Some i -> alookup a2 (assigned c') = Some i -> a1 = a2) /\
  (forall a i, alookup a (assigned c') = Some i -> i < next_id c') /\
  (forall a i, alookup a (assigned c) = Some i -> alookup a (assigned c') = Some i).
Proof.
  intros I2 I3 G.
  pose (ag := {| a_ids := c; a_handles := [] |}).
  assert (I : Inv ag []) by (repeat split; cbn; intros; try contradiction; eauto).
  destruct (create_inv ag [] addr c' id I G) as (_ & J2 & J3 & _). cbn [a_ids] in J2, J3.
  repeat split; [exact J2|exact J3|].
  intros a i H. unfold get_request in G. destruct (alookup addr (assigned c)) as [id0|] eqn:L.
  - injection G as <- <-. exact H.
  - destruct (next_id c =? ID_LIMIT); [discriminate|]. injection G as <- <-. cbn [assigned alookup].
    destruct (N.eqb_spec a addr) as [->|NE]; [congruence|exact H].
Qed.

(* an identifier, once given to an address, is that address's for good and no other address ever gets it *)
Theorem identifiers_are_stable c addrs c' :
  (forall a1 a2 i, alookup a1 (assigned c) = Some i -> alookup a2 (assigned c) = Some i -> a1 = a2) ->
  (forall a i, alookup a (assigned c) = Some i -> i < next_id c) ->
  ids_after c addrs = Some c' ->
  (forall a i, alookup a (assigned c) = Some i -> alookup a (assigned c') = Some i) /\
  (forall a1 a2 i, alookup a1 (assigned c') = Some i -> alookup a2 (assigned c') = Some i -> a1 = a2).
Proof.
  revert c. induction addrs as [|x t IH]; intros c I2 I3 R; cbn [ids_after] in R.
  - injection R as <-. split; [auto|exact I2].
  - destruct (get_request c x) as [[c1 id]|] eqn:G; [|discriminate].
    destruct (get_request_inv c x c1 id I2 I3 G) as (J2 & J3 & K).
    destruct (IH c1 J2 J3 R) as (K' & J). split; [intros a i H; apply K', K, H|exact J].
Qed.

Example commanders_witness :
  arun agent0 [ACreate 0; AAdHoc 1 5; ASend 0 7 false; ACreate 1; ASend 1 9 true; ASend 0 22 false; ACreate 0] =
    Some [MRegister 0 0; MAddressed 1 5 true; MRegistered 0 7 false; MRegister 1 1; MRegistered 1 9 true;
          MRegistered 0 22 false; MRegister 0 0]
  /\ resolve [] [MRegister 0 0; MRegistered 0 7 false; MRegister 1 0; MRegistered 0 22 false] =
       Some [(0, 7%Z, false); (1, 22%Z, false)].        (* an identifier given twice: the later command goes astray *)
Proof. split; vm_compute; reflexivity. Qed.
