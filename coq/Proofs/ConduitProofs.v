(* Proofs about Model/Conduit.v (byte channel). *)
From SwimV Require Import Model.Conduit.

Definition Inv (c : chan) : Prop :=
  readlog c ++ data c = written c /\
  length (data c) <= cap c /\
  1 <= cap c /\
  (rd_parked c = true -> waker c = Some Rd /\ data c = [] /\ closed c = false) /\
  (wr_parked c = true -> waker c = Some Wr /\ length (data c) = cap c /\ closed c = false).

Lemma inv_init n : 1 <= n -> Inv (init n).
Proof. intros H. unfold Inv, init; simpl. repeat split; auto; try lia; discriminate. Qed.

Lemma firstn_skipn_app {A} n (l : list A) : firstn n l ++ skipn n l = l.
Proof. apply firstn_skipn. Qed.

Lemma skipn_length_le {A} n (l : list A) : length (skipn n l) <= length l.
Proof. rewrite skipn_length. lia. Qed.

Ltac use_parked H4 H5 :=
  repeat match goal with
  | W : _ && _ = true |- _ => apply andb_true_iff in W; destruct W
  | W : rd_parked _ = true |- _ => destruct (H4 W) as (? & ? & ?); clear W
  | W : wr_parked _ = true |- _ => destruct (H5 W) as (? & ? & ?); clear W
  end.

Ltac rw_waker :=
  repeat match goal with
  | Hw : waker ?c = Some _, W2 : context [waker ?c] |- _ =>
      lazymatch type of W2 with
      | waker c = _ => fail
      | _ => rewrite Hw in W2; simpl in W2
      end
  end.

Ltac fin H4 H5 :=
  use_parked H4 H5; rw_waker; simpl in *;
  try congruence; try lia; auto;
  try (match goal with D : data _ = [] |- _ => rewrite D in *; simpl in *; lia end).

Lemma step_inv c o : Inv c -> Inv (fst (step c o)).
Proof.
  intros HI. pose proof HI as (H1 & H2 & H3 & H4 & H5). unfold step.
  destruct o as [n|bs| | | | |b].
  - (* PollRead *)
    destruct (rd_alive c); simpl; [|exact HI].
    destruct (consume (budget c)) as [b1 [|]]; simpl.
    { unfold Inv; simpl. repeat split; fin H4 H5. }
    destruct (data c) as [|x xs] eqn:ED.
    + destruct (closed c) eqn:EC; unfold Inv; simpl; rewrite ?ED; simpl; repeat split; fin H4 H5.
    + destruct (Nat.min (length (x :: xs)) n =? 0) eqn:EM; unfold Inv; cbn [fst data cap waker closed
        budget rd_alive wr_alive written readlog rd_parked wr_parked unpark].
      * rewrite ?ED. repeat split; fin H4 H5.
      * remember (Nat.min (length (x :: xs)) n) as k eqn:Ek. clear Ek.
        repeat split; fin H4 H5.
        -- rewrite <- app_assoc, firstn_skipn. exact H1.
        -- pose proof (skipn_length_le k (x :: xs)). simpl in *. lia.
  - (* PollWrite *)
    destruct (wr_alive c); simpl; [|exact HI].
    destruct (consume (budget c)) as [b1 [|]]; simpl.
    { unfold Inv; simpl. repeat split; fin H4 H5. }
    destruct (closed c) eqn:EC.
    { unfold Inv; simpl. rewrite ?EC. repeat split; fin H4 H5. }
    destruct bs as [|y ys].
    { unfold Inv; simpl. rewrite ?EC. repeat split; fin H4 H5. }
    destruct (cap c - length (data c) =? 0) eqn:EA.
    + apply Nat.eqb_eq in EA. unfold Inv; simpl. rewrite ?EC. repeat split; fin H4 H5.
    + apply Nat.eqb_neq in EA. unfold Inv; cbn [fst data cap waker closed
        budget rd_alive wr_alive written readlog rd_parked wr_parked unpark]. rewrite ?EC.
      pose proof (Nat.le_min_r (length (y :: ys)) (cap c - length (data c))) as Hk.
      remember (Nat.min (length (y :: ys)) (cap c - length (data c))) as k eqn:Ek. clear Ek.
      repeat split; fin H4 H5.
      * rewrite app_assoc. now rewrite H1.
      * rewrite app_length, firstn_length. lia.
  - (* Flush *)
    destruct (wr_alive c); simpl; [|exact HI].
    destruct (consume (budget c)) as [b1 [|]]; simpl; unfold Inv; simpl; repeat split; fin H4 H5.
  - (* Shutdown *)
    destruct (wr_alive c); simpl; [|exact HI].
    destruct (consume (budget c)) as [b1 [|]]; simpl; unfold Inv; simpl; repeat split; fin H4 H5.
  - (* DropReader *)
    destruct (rd_alive c); simpl; [|exact HI]. unfold Inv; simpl.
    repeat split; fin H4 H5.
  - (* DropWriter *)
    destruct (wr_alive c); simpl; [|exact HI]. unfold Inv; simpl.
    repeat split; fin H4 H5.
  - (* SetBudget *)
    unfold Inv; simpl. repeat split; fin H4 H5.
Qed.

Lemma run_state_inv ops : forall c, Inv c -> Inv (run_state c ops).
Proof. induction ops as [|o rest IH]; simpl; intros c H; auto. apply IH. now apply step_inv. Qed.

(* ------------------------------------------------------------------------------------------ *)
(* The ghost logs are exactly what the API returned. *)

Definition read_bytes (r : res * list side) : list N :=
  match fst r with RRead bs => bs | _ => [] end.

Definition wrote_bytes (o : op) (r : res * list side) : list N :=
  match o, fst r with PollWrite bs, RWrote k => firstn k bs | _, _ => [] end.

Fixpoint reads_of (outs : list (res * list side)) : list N :=
  match outs with [] => [] | r :: t => read_bytes r ++ reads_of t end.

Fixpoint writes_of (ops : list op) (outs : list (res * list side)) : list N :=
  match ops, outs with
  | o :: ops', r :: t => wrote_bytes o r ++ writes_of ops' t
  | _, _ => []
  end.

Lemma step_logs c o :
  readlog (fst (step c o)) = readlog c ++ read_bytes (snd (step c o)) /\
  written (fst (step c o)) = written c ++ wrote_bytes o (snd (step c o)).
Proof.
  unfold step, read_bytes, wrote_bytes.
  destruct o as [n|bs| | | | |b]; simpl.
  - destruct (rd_alive c); simpl; [|now rewrite !app_nil_r].
    destruct (consume (budget c)) as [b1 [|]]; simpl; [now rewrite !app_nil_r|].
    destruct (data c) as [|x xs]; [destruct (closed c); simpl; now rewrite !app_nil_r|].
    destruct (Nat.min (length (x :: xs)) n =? 0); simpl; now rewrite ?app_nil_r.
  - destruct (wr_alive c); simpl; [|now rewrite !app_nil_r].
    destruct (consume (budget c)) as [b1 [|]]; simpl; [now rewrite !app_nil_r|].
    destruct (closed c); simpl; [now rewrite !app_nil_r|].
    destruct bs as [|y ys]; simpl; [now rewrite !app_nil_r|].
    destruct (cap c - length (data c) =? 0); simpl; now rewrite ?app_nil_r.
  - destruct (wr_alive c); simpl; [|now rewrite !app_nil_r].
    destruct (consume (budget c)) as [b1 [|]]; simpl; now rewrite !app_nil_r.
  - destruct (wr_alive c); simpl; [|now rewrite !app_nil_r].
    destruct (consume (budget c)) as [b1 [|]]; simpl; now rewrite !app_nil_r.
  - destruct (rd_alive c); simpl; now rewrite !app_nil_r.
  - destruct (wr_alive c); simpl; now rewrite !app_nil_r.
  - now rewrite !app_nil_r.
Qed.

Lemma run_logs ops : forall c,
  readlog (run_state c ops) = readlog c ++ reads_of (run c ops) /\
  written (run_state c ops) = written c ++ writes_of ops (run c ops).
Proof.
  induction ops as [|o rest IH]; simpl; intros c; [now rewrite !app_nil_r|].
  destruct (step c o) as [c' r] eqn:E. simpl.
  destruct (IH c') as [A B]. pose proof (step_logs c o) as [P Q]. rewrite E in P, Q. simpl in P, Q.
  rewrite A, B, P, Q, <- !app_assoc. auto.
Qed.

Lemma cap_run_state ops : forall c0, cap (run_state c0 ops) = cap c0.
Proof.
  induction ops as [|o rest IH]; simpl; intros c0; auto. rewrite IH.
  unfold step. destruct o as [n|bs| | | | |b]; simpl;
    repeat (match goal with
            | |- context [if ?b then _ else _] => destruct b; simpl; auto
            | |- context [let (_, _) := consume ?b in _] => destruct (consume b) as [? []]; simpl; auto
            | |- context [match data ?c with _ => _ end] => destruct (data c); simpl; auto
            | |- context [match ?bs with [] => _ | _ :: _ => _ end] => destruct bs; simpl; auto
            end); auto.
Qed.

(* C12 prefix / capacity, stated on what the API returned *)
Theorem reads_prefix_of_writes cp ops : 1 <= cp ->
  reads_of (run (init cp) ops) ++ data (run_state (init cp) ops) = writes_of ops (run (init cp) ops) /\
  length (data (run_state (init cp) ops)) <= cp.
Proof.
  intros H. pose proof (run_state_inv ops (init cp) (inv_init cp H)) as (I1 & I2 & _).
  destruct (run_logs ops (init cp)) as [A B]. simpl in A, B.
  rewrite <- A, <- B. split; auto.
  rewrite cap_run_state in I2. exact I2.
Qed.

(* ------------------------------------------------------------------------------------------ *)
(* No lost wake-ups *)

Theorem parked_reader_is_woken c o c' r ws :
  Inv c -> rd_parked c = true -> step c o = (c', (r, ws)) ->
  (data c' <> [] \/ closed c' = true) -> In Rd ws.
Proof.
  intros HI HP HS HC. pose proof (step_inv c o HI) as HI'. rewrite HS in HI'. simpl in HI'.
  destruct HI' as (_ & _ & _ & H4' & _).
  destruct (rd_parked c') eqn:EP.
  { destruct (H4' eq_refl) as (_ & D & C). destruct HC; congruence. }
  (* the flag went from true to false: only a wake (or the reader's own poll) does that *)
  destruct HI as (_ & _ & _ & H4 & _). destruct (H4 HP) as (Hw & Hd & Hc).
  unfold step in HS. destruct o as [n|bs| | | | |b].
  - destruct (rd_alive c); simpl in HS; [|inversion HS; subst; congruence].
    destruct (consume (budget c)) as [b1 [|]]; simpl in HS.
    { inversion HS; subst. simpl. auto. }
    rewrite Hd, Hc in HS. inversion HS; subst. simpl in *. destruct HC; congruence.
  - destruct (wr_alive c); simpl in HS; [|inversion HS; subst; congruence].
    destruct (consume (budget c)) as [b1 [|]]; simpl in HS; [inversion HS; subst; simpl in *; congruence|].
    rewrite Hc in HS. destruct bs as [|y ys]; [inversion HS; subst; simpl in *; congruence|].
    destruct (cap c - length (data c) =? 0); [inversion HS; subst; simpl in *; congruence|].
    rewrite Hw in HS. simpl in HS. inversion HS; subst. simpl. auto.
  - destruct (wr_alive c); simpl in HS; [|inversion HS; subst; congruence].
    destruct (consume (budget c)) as [b1 [|]]; simpl in HS; inversion HS; subst; simpl in *; congruence.
  - destruct (wr_alive c); simpl in HS; [|inversion HS; subst; congruence].
    destruct (consume (budget c)) as [b1 [|]]; simpl in HS; [inversion HS; subst; simpl in *; congruence|].
    rewrite Hw in HS. simpl in HS. inversion HS; subst. simpl. auto.
  - destruct (rd_alive c); simpl in HS; [|inversion HS; subst; congruence].
    rewrite Hw in HS. simpl in HS. inversion HS; subst. simpl. auto.
  - destruct (wr_alive c); simpl in HS; [|inversion HS; subst; congruence].
    rewrite Hw in HS. simpl in HS. inversion HS; subst. simpl. auto.
  - inversion HS; subst; simpl in *; congruence.
Qed.

Theorem parked_writer_is_woken c o c' r ws :
  Inv c -> wr_parked c = true -> step c o = (c', (r, ws)) ->
  (length (data c') < cap c' \/ closed c' = true) -> In Wr ws.
Proof.
  intros HI HP HS HC. pose proof (step_inv c o HI) as HI'. rewrite HS in HI'. simpl in HI'.
  destruct HI' as (_ & _ & _ & _ & H5').
  destruct (wr_parked c') eqn:EP.
  { destruct (H5' eq_refl) as (_ & D & C). destruct HC; [lia|congruence]. }
  destruct HI as (_ & _ & H3 & _ & H5). destruct (H5 HP) as (Hw & Hd & Hc).
  unfold step in HS. destruct o as [n|bs| | | | |b].
  - destruct (rd_alive c); simpl in HS; [|inversion HS; subst; congruence].
    destruct (consume (budget c)) as [b1 [|]]; simpl in HS; [inversion HS; subst; simpl in *; congruence|].
    destruct (data c) as [|x xs] eqn:ED; [simpl in Hd; lia|].
    destruct (Nat.min (length (x :: xs)) n =? 0); [inversion HS; subst; simpl in *; congruence|].
    rewrite Hw in HS. simpl in HS. inversion HS; subst. simpl. auto.
  - destruct (wr_alive c); simpl in HS; [|inversion HS; subst; congruence].
    destruct (consume (budget c)) as [b1 [|]]; simpl in HS; [inversion HS; subst; simpl; auto|].
    rewrite Hc in HS. destruct bs as [|y ys].
    { inversion HS; subst. simpl in *. destruct HC; [lia|congruence]. }
    rewrite Hd, Nat.sub_diag in HS. simpl in HS. inversion HS; subst. simpl in *. congruence.
  - destruct (wr_alive c); simpl in HS; [|inversion HS; subst; congruence].
    destruct (consume (budget c)) as [b1 [|]]; simpl in HS; inversion HS; subst; simpl in *; auto.
    destruct HC; [lia|congruence].
  - destruct (wr_alive c); simpl in HS; [|inversion HS; subst; congruence].
    destruct (consume (budget c)) as [b1 [|]]; simpl in HS; [inversion HS; subst; simpl; auto|].
    rewrite Hw in HS. simpl in HS. inversion HS; subst. simpl. auto.
  - destruct (rd_alive c); simpl in HS; [|inversion HS; subst; congruence].
    rewrite Hw in HS. simpl in HS. inversion HS; subst. simpl. auto.
  - destruct (wr_alive c); simpl in HS; [|inversion HS; subst; congruence].
    rewrite Hw in HS. simpl in HS. inversion HS; subst. simpl. auto.
  - inversion HS; subst; simpl in *; congruence.
Qed.

(* what "parked" means: the side's poll returned Pending without waking itself *)
Theorem pending_read_parks c n c' ws :
  step c (PollRead n) = (c', (RPending, ws)) ->
  (ws = [Rd] /\ data c' = data c /\ waker c' = waker c)       (* budget exhausted: self-wake *)
  \/ (ws = [] /\ rd_parked c' = true /\ waker c' = Some Rd /\ data c = [] /\ closed c = false).
Proof.
  unfold step. destruct (rd_alive c); simpl; [|intros H; inversion H].
  destruct (consume (budget c)) as [b1 [|]]; simpl.
  { intros H; inversion H; subst; simpl. auto. }
  destruct (data c) as [|x xs] eqn:ED.
  - destruct (closed c) eqn:EC; intros H; inversion H; subst; simpl. right. auto.
  - destruct (Nat.min (length (x :: xs)) n =? 0); simpl.
    + intros H; inversion H.
    + unfold unpark. intros H; inversion H.
Qed.

Theorem pending_write_parks c bs c' ws :
  step c (PollWrite bs) = (c', (RPending, ws)) ->
  (ws = [Wr] /\ data c' = data c /\ waker c' = waker c)
  \/ (ws = [] /\ wr_parked c' = true /\ waker c' = Some Wr /\ length (data c) >= cap c /\ closed c = false).
Proof.
  unfold step. destruct (wr_alive c); simpl; [|intros H; inversion H].
  destruct (consume (budget c)) as [b1 [|]]; simpl.
  { intros H; inversion H; subst; simpl. auto. }
  destruct (closed c) eqn:EC; [intros H; inversion H|].
  destruct bs as [|y ys]; [intros H; inversion H|].
  destruct (cap c - length (data c) =? 0) eqn:EA.
  - apply Nat.eqb_eq in EA. intros H; inversion H; subst; simpl. right. repeat split; auto. lia.
  - unfold unpark. intros H; inversion H.
Qed.

(* ------------------------------------------------------------------------------------------ *)
(* End of stream and broken pipe *)

Theorem closed_is_permanent c o : closed c = true -> closed (fst (step c o)) = true.
Proof.
  intros H. unfold step. destruct o as [n|bs| | | | |b]; simpl;
    repeat (match goal with
            | |- context [if ?b then _ else _] => destruct b eqn:?; simpl; auto
            | |- context [let (_, _) := consume ?b in _] => destruct (consume b) as [? []]; simpl; auto
            | |- context [match data ?c with _ => _ end] => destruct (data c); simpl; auto
            | |- context [match ?bs with [] => _ | _ :: _ => _ end] => destruct bs; simpl; auto
            end); congruence.
Qed.

Theorem no_write_after_close c bs c' r ws :
  closed c = true -> step c (PollWrite bs) = (c', (r, ws)) ->
  data c' = data c /\ written c' = written c /\
  (r = RBroken \/ r = RSkip \/ (r = RPending /\ ws = [Wr])).
Proof.
  intros HC. unfold step. destruct (wr_alive c); simpl; [|intros H; inversion H; subst; auto].
  destruct (consume (budget c)) as [b1 [|]]; simpl; [intros H; inversion H; subst; simpl; auto 6|].
  rewrite HC. intros H; inversion H; subst; simpl; auto.
Qed.

Theorem read_after_close c n c' r ws :
  closed c = true -> rd_alive c = true -> step c (PollRead n) = (c', (r, ws)) ->
  (r = RPending /\ ws = [Rd] /\ data c' = data c)                         (* budget yield only *)
  \/ (exists bs, r = RRead bs /\ bs = firstn (Nat.min (length (data c)) n) (data c)
                 /\ data c' = skipn (Nat.min (length (data c)) n) (data c)).
Proof.
  intros HC HA. unfold step. rewrite HA. simpl.
  destruct (consume (budget c)) as [b1 [|]]; simpl; [intros H; inversion H; subst; simpl; auto|].
  destruct (data c) as [|x xs] eqn:ED.
  - rewrite HC. intros H; inversion H; subst; simpl. right. exists []. rewrite ?ED. simpl. auto.
  - destruct (Nat.min (length (x :: xs)) n =? 0) eqn:EM.
    + apply Nat.eqb_eq in EM. intros H; inversion H; subst. right. exists [].
      cbn [data]. rewrite EM. auto.
    + unfold unpark. intros H; inversion H; subst. right. eexists; split; eauto.
Qed.

(* a read that returns no bytes although bytes were asked for happens only at the true end *)
Theorem empty_read_means_eof c n c' ws :
  0 < n -> step c (PollRead n) = (c', (RRead [], ws)) -> data c = [] /\ closed c = true.
Proof.
  intros Hn. unfold step. destruct (rd_alive c); simpl; [|intros H; inversion H].
  destruct (consume (budget c)) as [b1 [|]]; simpl; [intros H; inversion H|].
  destruct (data c) as [|x xs] eqn:ED.
  - destruct (closed c); intros H; inversion H; auto.
  - destruct (Nat.min (length (x :: xs)) n =? 0) eqn:EM.
    + apply Nat.eqb_eq in EM. simpl in EM. destruct n; [lia|discriminate].
    + apply Nat.eqb_neq in EM. unfold unpark. intros H; inversion H.
      destruct (Nat.min (length (x :: xs)) n) eqn:E; [congruence|]. simpl in *. discriminate.
Qed.

Example nonvacuous_parked :
  let c := run_state (init 2) [PollRead 4; PollWrite [1;2;3]%N; PollWrite [3]%N] in
  Inv c /\ wr_parked c = true /\ data c = [1;2]%N /\
  snd (snd (step c (PollRead 1))) = [Wr].
Proof. repeat split; try reflexivity; try (simpl; lia); try discriminate. Qed.
