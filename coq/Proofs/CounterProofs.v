From SwimV Require Import Model.Counter.

Lemma added_mono_step s t m : added s <= added (mstep s t m).
Proof.
  unfold mstep. destruct (nth_error (pcs s) t) as [[|cur n|cur]|]; destruct m; simpl; try lia.
  - destruct (value s =? cur); simpl; lia.
  - destruct ((value s =? cur) && negb spurious); simpl; lia.
Qed.

Lemma added_mono sc : forall s, added s <= added (exec s sc).
Proof.
  induction sc as [|[t m] rest IH]; simpl; intros s; [lia|].
  pose proof (added_mono_step s t m). pose proof (IH (mstep s t m)). lia.
Qed.

Lemma conserve_step s t m :
  added (mstep s t m) <= U64MAX ->
  value s + snapped s = added s -> value (mstep s t m) + snapped (mstep s t m) = added (mstep s t m).
Proof.
  unfold mstep. destruct (nth_error (pcs s) t) as [[|cur n|cur]|]; destruct m; simpl; auto.
  - destruct (N.eqb_spec (value s) cur); simpl; auto. intros Hb Hc. unfold sat_add.
    subst cur. rewrite N.min_l by lia. lia.
  - destruct (N.eqb_spec (value s) cur); destruct spurious; simpl; auto. intros _ Hc. lia.
Qed.

(* nothing is lost: whatever the interleaving, as long as the total counted fits in 64 bits *)
Theorem counters_lose_nothing sc : forall s,
  value s + snapped s = added s -> added (exec s sc) <= U64MAX ->
  value (exec s sc) + snapped (exec s sc) = added (exec s sc).
Proof.
  induction sc as [|[t m] rest IH]; simpl; intros s Hc Hb; auto.
  apply IH; auto. apply conserve_step; auto.
  pose proof (added_mono rest (mstep s t m)). lia.
Qed.

Example counters_nonvacuous :
  let s := exec (init 2) [(O, MAddLoad 5); (1%nat, MSnapLoad); (O, MAddCas); (1%nat, MSnapCas false);
                          (1%nat, MSnapLoad); (O, MAddLoad 7); (1%nat, MSnapCas false); (O, MAddCas);
                          (O, MAddCas)] in
  value s = 7 /\ snapped s = 5 /\ added s = 12.
Proof. repeat split; reflexivity. Qed.
