(* C07, map downlinks: whatever the schedule of commands and completed writes, what the remote lane has been
   sent, followed by what is in flight and what is still queued, gives for every key the state all the
   commands imply; once the socket has taken everything the lane is in exactly that state. *)
From SwimV Require Import Model.DlMapWrite Proofs.MapQueueProofs.
Open Scope N_scope.

Definition applied (s : mwstate) : list entry := ops_of (mw_sent s) ++ pending_op s.

Record MInv (d : N) (s : mwstate) (given : list entry) : Prop := {
  mi_q : QI d (mw_queue s) (effs d given None) (effs d (applied s) None);
  mi_idle : mw_pending s = None -> events (mw_queue s) = [] /\ mw_needs_sync s = false;
  mi_len : len (events (mw_queue s)) <= len given
}.

Lemma ops_of_app a b : ops_of (a ++ b) = ops_of a ++ ops_of b.
Proof. unfold ops_of. now rewrite flat_map_app. Qed.

Lemma effs_app d a b cur : effs d (a ++ b) cur = effs d b (effs d a cur).
Proof. unfold effs. now rewrite fold_left_app. Qed.

Lemma effs_snoc d l x cur : effs d (l ++ [x]) cur = eff d x (effs d l cur).
Proof. unfold effs. rewrite fold_left_app. reflexivity. Qed.

Lemma ops_of_one f : ops_of [f] = match f with MFOp e => [e] | _ => [] end.
Proof. destruct f; reflexivity. Qed.

Lemma len_app_one {A} (l : list A) (x : A) : len (l ++ [x]) = len l + 1.
Proof. unfold len. rewrite app_length. cbn [length]. lia. Qed.

Lemma minv_step d s given e : MInv d s given -> len given + 2 < W ->
  MInv d (mwstep s e) (given ++ match e with MCommand op => [op] | _ => [] end).
Proof.
  intros [Hq Hidle Hlen] HB. unfold mwstep, applied, pending_op in *.
  destruct (mw_pending s) as [f|] eqn:Ep.
  - destruct e as [sync|op|].
    + (* a producer while writing *)
      rewrite app_nil_r. constructor; unfold applied, pending_op; cbn [mw_pending mw_queue mw_sent mw_needs_sync]; rewrite ?Ep; auto. discriminate.
    + (* a command while writing: queued *)
      destruct (QI_push d _ _ _ op false Hq) as [Hq' Hl]; [lia|].
      constructor; unfold applied, pending_op; cbn [mw_pending mw_queue mw_sent mw_needs_sync]; rewrite ?Ep.
      * rewrite effs_app. exact Hq'.
      * discriminate.
      * rewrite len_app_one. lia.
    + (* the write completes *)
      rewrite app_nil_r. destruct (mw_needs_sync s).
      * constructor; unfold applied, pending_op; cbn [mw_pending mw_queue mw_sent mw_needs_sync]; [|discriminate|exact Hlen].
        rewrite app_nil_r, ops_of_app, ops_of_one. exact Hq.
      * pose proof (QI_pop d _ _ _ Hq) as Hp. destruct (pop (mw_queue s)) as [q' [op|]].
        -- destruct Hp as [Hq' Hl]. constructor; unfold applied, pending_op; cbn [mw_pending mw_queue mw_sent mw_needs_sync]; [|discriminate|lia].
           rewrite effs_snoc, ops_of_app, ops_of_one. exact Hq'.
        -- destruct Hp as [-> He]. constructor; unfold applied, pending_op; cbn [mw_pending mw_queue mw_sent mw_needs_sync]; [|auto|exact Hlen].
           rewrite app_nil_r, ops_of_app, ops_of_one. exact Hq.
  - destruct (Hidle eq_refl) as [Hempty Hn]. destruct e as [[|]|op|].
    + rewrite app_nil_r. constructor; unfold applied, pending_op; cbn [mw_pending mw_queue mw_sent mw_needs_sync]; rewrite ?app_nil_r in *; auto; discriminate.
    + rewrite app_nil_r. constructor; unfold applied, pending_op; rewrite ?Ep; rewrite ?app_nil_r in *; auto.
    + (* idle: the command is written directly; the queue is empty *)
      constructor; unfold applied, pending_op; cbn [mw_pending mw_queue mw_sent mw_needs_sync]; [|discriminate|rewrite Hempty; unfold len; cbn; lia].
      rewrite app_nil_r in Hq. destruct Hq as (HS & HU & HC & HE). rewrite Hempty in HE. cbn [effs fold_left] in HE.
      split; [exact HS|]. split; [exact HU|]. split; [exact HC|]. rewrite Hempty. cbn [effs fold_left].
      rewrite !effs_snoc. now rewrite HE.
    + rewrite app_nil_r. constructor; unfold applied, pending_op; rewrite ?Ep; rewrite ?app_nil_r in *; auto.
Qed.

Lemma minv_init d h : h < W -> MInv d (mwstate0 h) [].
Proof.
  intros Hh. constructor; cbn [mwstate0 mw_pending mw_queue mw_sent mw_needs_sync].
  - unfold applied, pending_op. cbn. now apply QI_empty.
  - intros _. split; reflexivity.
  - unfold len. cbn. lia.
Qed.

Lemma ops_given_app a b : ops_given (a ++ b) = ops_given a ++ ops_given b.
Proof. unfold ops_given. now rewrite flat_map_app. Qed.

Lemma len_ops_given es : len (ops_given es) <= len es.
Proof.
  induction es as [|e t IH]; [unfold len; cbn; lia|]. unfold len in *.
  change (ops_given (e :: t)) with (match e with MCommand op => [op] | _ => [] end ++ ops_given t).
  destruct e; cbn [app length]; lia.
Qed.

Lemma minv_fold d es : forall s given, MInv d s given -> len given + len es + 2 < W ->
  MInv d (fold_left mwstep es s) (given ++ ops_given es).
Proof.
  induction es as [|e t IH]; intros s given H HB; cbn [fold_left ops_given flat_map]; [now rewrite app_nil_r|].
  assert (HL : len (e :: t) = len t + 1) by (unfold len; cbn [length]; lia). rewrite HL in HB.
  apply (minv_step d _ _ e) in H; [|lia].
  specialize (IH _ _ H). rewrite <- app_assoc in IH. destruct e as [sync|op|]; apply IH; rewrite ?app_nil_r; try lia.
  rewrite len_app_one. lia.
Qed.

(* at every moment, for every key: what was sent, then what is in flight, then what is queued gives the state
   the commands imply; once everything has been written, the remote lane is in that state *)
Theorem map_commands_converge d h es : h < W -> len es + 2 < W ->
  let s := mwrun h es in
  effs d (events (mw_queue s)) (effs d (applied s) None) = effs d (ops_given es) None /\
  (mw_pending s = None -> effs d (ops_of (mw_sent s)) None = effs d (ops_given es) None).
Proof.
  intros Hh HB. cbn zeta. unfold mwrun.
  pose proof (minv_fold d es (mwstate0 h) [] (minv_init d h Hh)) as H. cbn [app] in H.
  assert (Hl : len (@nil entry) + len es + 2 < W) by (unfold len at 1; cbn [length]; lia).
  specialize (H Hl). destruct H as [(HS & HU & HC & HE) Hidle _]. split; [exact HE|].
  intros Hp. destruct (Hidle Hp) as [Hempty _]. rewrite Hempty in HE. cbn [effs fold_left] in HE.
  unfold applied, pending_op in HE. rewrite Hp, app_nil_r in HE. exact HE.
Qed.
