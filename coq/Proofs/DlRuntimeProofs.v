(* C07: the shared read task gives every consumer exactly the session it is owed, whatever the other consumers
   do and whenever they attach; the write task never reorders commands, drops only superseded ones, ends with
   the last one, and asks for a sync whenever a consumer needs one. *)
From SwimV Require Import Model.DlRuntime.
Open Scope N_scope.

(* ---- counting a consumer in the read task's lists ---- *)
Definition cnt (c : N) (l : list consumer) : nat := length (filter (fun k => c_id k =? c) l).
Definition cntf (c : N) (b : bool) (l : list consumer) : nat :=
  length (filter (fun k => (c_id k =? c) && Bool.eqb (c_sync k) b) l).

Lemma cnt_app c a b : cnt c (a ++ b) = (cnt c a + cnt c b)%nat.
Proof. unfold cnt. now rewrite filter_app, app_length. Qed.
Lemma cntf_app c f a b : cntf c f (a ++ b) = (cntf c f a + cntf c f b)%nat.
Proof. unfold cntf. now rewrite filter_app, app_length. Qed.

Lemma cnt_split c l : cnt c l = (cntf c true l + cntf c false l)%nat.
Proof.
  unfold cnt, cntf. induction l as [|k t IH]; [reflexivity|]. cbn [filter].
  destruct (c_id k =? c); cbn [andb]; [|exact IH].
  destruct (c_sync k); cbn [Bool.eqb length]; lia.
Qed.

Lemma cnt_filter_sync c l : cnt c (filter c_sync l) = cntf c true l.
Proof.
  unfold cnt, cntf. induction l as [|k t IH]; [reflexivity|]. cbn [filter].
  destruct (c_sync k) eqn:E; cbn [filter]; destruct (c_id k =? c); cbn [andb Bool.eqb length]; auto.
Qed.

Lemma cnt_filter_nosync c l : cnt c (filter (fun k => negb (c_sync k)) l) = cntf c false l.
Proof.
  unfold cnt, cntf. induction l as [|k t IH]; [reflexivity|]. cbn [filter].
  destruct (c_sync k) eqn:E; cbn [negb filter]; destruct (c_id k =? c); cbn [andb Bool.eqb length]; auto.
Qed.

Lemma seen_by_app c a b : seen_by c (a ++ b) = seen_by c a ++ seen_by c b.
Proof. unfold seen_by. now rewrite flat_map_app. Qed.

Lemma seen_to_all c l n : seen_by c (to_all l n) = repeat n (cnt c l).
Proof.
  unfold seen_by, to_all, cnt. induction l as [|k t IH]; [reflexivity|]. cbn [map flat_map filter fst snd].
  destruct (c_id k =? c); cbn [app length repeat]; now rewrite IH.
Qed.

Lemma seen_sync_current c l b :
  seen_by c (flat_map (fun k => [(c_id k, NEvent b); (c_id k, NSynced)]) l) =
  concat (repeat [NEvent b; NSynced] (cnt c l)).
Proof.
  unfold seen_by, cnt. induction l as [|k t IH]; [reflexivity|]. cbn [flat_map filter app fst snd].
  destruct (c_id k =? c); cbn [app length repeat concat]; now rewrite IH.
Qed.

(* ---- the simulation ---- *)
Definition is_init (d : dlstate) : bool := match d with DInit => true | _ => false end.

Definition Rel (c : N) (sync : bool) (r : rstate) (s : sess) : Prop :=
  s_last s = (if r_sync_event r then Some (r_current r) else None) /\
  match s_phase s with
  | PDone => r_stopped r = true
  | PAbsent =>
      r_stopped r = false /\ s_link_up s = negb (is_init (r_dl r)) /\
      cnt c (r_awaiting_linked r) = O /\ cnt c (r_awaiting_synced r) = O /\ cnt c (r_registered r) = O
  | PWaitLinked =>
      r_stopped r = false /\
      cntf c sync (r_awaiting_linked r) = 1%nat /\ cntf c (negb sync) (r_awaiting_linked r) = O /\
      cnt c (r_awaiting_synced r) = O /\ cnt c (r_registered r) = O
  | PWaitSynced =>
      r_stopped r = false /\
      cnt c (r_awaiting_linked r) = O /\ cnt c (r_awaiting_synced r) = 1%nat /\ cnt c (r_registered r) = O
  | PRegistered =>
      r_stopped r = false /\
      cnt c (r_awaiting_linked r) = O /\ cnt c (r_awaiting_synced r) = O /\ cnt c (r_registered r) = 1%nat
  end.

(* the consumer attaches at most once, with the options it really has *)
Fixpoint attaches (c : N) (es : list rev) : nat :=
  match es with
  | [] => O
  | RConsumer c' _ :: t => if c' =? c then S (attaches c t) else attaches c t
  | _ :: t => attaches c t
  end.
Fixpoint flags_ok (c : N) (sync : bool) (es : list rev) : Prop :=
  match es with
  | [] => True
  | RConsumer c' b :: t => (c' = c -> b = sync) /\ flags_ok c sync t
  | _ :: t => flags_ok c sync t
  end.

Definition may_attach (s : sess) (c : N) (es : list rev) : Prop :=
  match s_phase s with PAbsent => (attaches c es <= 1)%nat | PDone => True | _ => attaches c es = O end.

Lemma negb_sync_cases sync : (sync = true /\ negb sync = false) \/ (sync = false /\ negb sync = true).
Proof. destruct sync; auto. Qed.

Lemma cnt_snoc c c' b l :
  cnt c (l ++ [{| c_id := c'; c_sync := b |}]) = (cnt c l + (if (c' =? c)%N then 1 else 0))%nat.
Proof. rewrite cnt_app. unfold cnt at 2. cbn [filter c_id]. destruct (c' =? c); reflexivity. Qed.

Lemma cntf_snoc c f c' b l :
  cntf c f (l ++ [{| c_id := c'; c_sync := b |}]) = (cntf c f l + (if ((c' =? c)%N && Bool.eqb b f)%bool then 1 else 0))%nat.
Proof. rewrite cntf_app. unfold cntf at 2. cbn [filter c_id c_sync]. destruct ((c' =? c) && Bool.eqb b f); reflexivity. Qed.

Lemma cnt_one c c' b : cnt c [{| c_id := c'; c_sync := b |}] = if (c' =? c)%N then 1%nat else O.
Proof. unfold cnt. cbn [filter c_id]. destruct (c' =? c); reflexivity. Qed.

Lemma cntf_one c f c' b :
  cntf c f [{| c_id := c'; c_sync := b |}] = if ((c' =? c)%N && Bool.eqb b f)%bool then 1%nat else O.
Proof. unfold cntf. cbn [filter c_id c_sync]. destruct ((c' =? c) && Bool.eqb b f); reflexivity. Qed.

Lemma seen_single c c' n : seen_by c [(c', n)] = if c' =? c then [n] else [].
Proof. unfold seen_by. cbn [flat_map fst snd]. destruct (c' =? c); reflexivity. Qed.

Ltac rel_simpl :=
  cbn [s_phase s_link_up s_last r_dl r_current r_sync_event r_awaiting_linked r_awaiting_synced r_registered
       r_stopped is_init negb];
  rewrite ?cnt_app, ?cntf_app, ?cnt_filter_sync, ?cnt_filter_nosync, ?cnt_one, ?cntf_one, ?N.eqb_refl.

Ltac out_simpl :=
  rewrite ?seen_by_app, ?seen_to_all, ?seen_sync_current, ?seen_single.
Lemma sim_linked single c sync r s :
  r_stopped r = false -> Rel c sync r s ->
  let (r', o) := rstep single r (RMessage RLinked) in
  let (s', o') := sess_step single c sync s (RMessage RLinked) in
  Rel c sync r' s' /\ seen_by c o = o'.
Proof.
  intros Hstop [Hlast Hph]. unfold rstep. rewrite Hstop.
  pose proof (cnt_split c (r_awaiting_linked r)) as Hsplit.
  unfold sess_step.
  destruct (s_phase s) eqn:Ep.
  - destruct Hph as (_ & Hl & Ha & Hs & Hr). split.
    + split; [exact Hlast|]. rel_simpl. repeat split; auto; lia.
    + out_simpl. rewrite Ha. reflexivity.
  - destruct Hph as (_ & Hf & Hnf & Hs & Hr). split.
    + split; [exact Hlast|]. destruct sync; cbn [negb] in *; rel_simpl; repeat split; auto; lia.
    + out_simpl. rewrite Hsplit. destruct sync; cbn [negb] in *; rewrite Hf, Hnf; reflexivity.
  - destruct Hph as (_ & Ha & Hs & Hr). split.
    + split; [exact Hlast|]. rel_simpl. repeat split; auto; lia.
    + out_simpl. rewrite Ha. reflexivity.
  - destruct Hph as (_ & Ha & Hs & Hr). split.
    + split; [exact Hlast|]. rel_simpl. repeat split; auto; lia.
    + out_simpl. rewrite Ha. reflexivity.
  - congruence.
Qed.

Lemma sim_synced single c sync r s :
  r_stopped r = false -> Rel c sync r s ->
  let (r', o) := rstep single r (RMessage RSynced) in
  let (s', o') := sess_step single c sync s (RMessage RSynced) in
  Rel c sync r' s' /\ seen_by c o = o'.
Proof.
  intros Hstop [Hlast Hph]. unfold rstep. rewrite Hstop. unfold sess_step.
  destruct (s_phase s) eqn:Ep.
  - destruct Hph as (_ & Hl & Ha & Hs & Hr). split.
    + split; [exact Hlast|]. rel_simpl. repeat split; auto; lia.
    + destruct (single && r_sync_event r); out_simpl; rewrite Hs; reflexivity.
  - destruct Hph as (_ & Hf & Hnf & Hs & Hr). split.
    + split; [exact Hlast|]. rel_simpl. repeat split; auto; lia.
    + destruct (single && r_sync_event r); out_simpl; rewrite Hs; reflexivity.
  - destruct Hph as (_ & Ha & Hs & Hr). split.
    + split; [exact Hlast|]. rel_simpl. repeat split; auto; lia.
    + rewrite Hlast. destruct single, (r_sync_event r); cbn [andb]; out_simpl; rewrite Hs; reflexivity.
  - destruct Hph as (_ & Ha & Hs & Hr). split.
    + split; [exact Hlast|]. rel_simpl. repeat split; auto; lia.
    + destruct (single && r_sync_event r); out_simpl; rewrite Hs; reflexivity.
  - congruence.
Qed.

Lemma sim_event single c sync r s b :
  r_stopped r = false -> Rel c sync r s ->
  let (r', o) := rstep single r (RMessage (REvent b)) in
  let (s', o') := sess_step single c sync s (RMessage (REvent b)) in
  Rel c sync r' s' /\ seen_by c o = o'.
Proof.
  intros Hstop [Hlast Hph]. unfold rstep. rewrite Hstop. unfold sess_step.
  destruct (s_phase s) eqn:Ep.
  - destruct Hph as (_ & Hl & Ha & Hs & Hr). split.
    + split; [reflexivity|]. rel_simpl. repeat split; auto.
    + destruct single; out_simpl; rewrite ?Hs, Hr; reflexivity.
  - destruct Hph as (_ & Hf & Hnf & Hs & Hr). split.
    + split; [reflexivity|]. rel_simpl. repeat split; auto.
    + destruct single; out_simpl; rewrite ?Hs, Hr; reflexivity.
  - destruct Hph as (_ & Ha & Hs & Hr). split.
    + split; [reflexivity|]. rel_simpl. repeat split; auto.
    + destruct single; out_simpl; rewrite ?Hs, Hr; reflexivity.
  - destruct Hph as (_ & Ha & Hs & Hr). split.
    + split; [reflexivity|]. rel_simpl. repeat split; auto.
    + destruct single; out_simpl; rewrite ?Hs, Hr; reflexivity.
  - congruence.
Qed.

Lemma sim_unlinked single c sync r s :
  r_stopped r = false -> Rel c sync r s ->
  let (r', o) := rstep single r (RMessage RUnlinked) in
  let (s', o') := sess_step single c sync s (RMessage RUnlinked) in
  Rel c sync r' s' /\ seen_by c o = o'.
Proof.
  intros Hstop [Hlast Hph]. unfold rstep. rewrite Hstop. unfold sess_step.
  pose proof (cnt_split c (r_awaiting_linked r)) as Hsplit.
  destruct (s_phase s) eqn:Ep.
  - destruct Hph as (_ & Hl & Ha & Hs & Hr). split; [split; [exact Hlast|reflexivity]|].
    out_simpl. rewrite Ha, Hs, Hr. reflexivity.
  - destruct Hph as (_ & Hf & Hnf & Hs & Hr). split; [split; [exact Hlast|reflexivity]|].
    out_simpl. rewrite Hsplit, Hs, Hr. destruct sync; cbn [negb] in *; rewrite Hf, Hnf; reflexivity.
  - destruct Hph as (_ & Ha & Hs & Hr). split; [split; [exact Hlast|reflexivity]|].
    out_simpl. rewrite Ha, Hs, Hr. reflexivity.
  - destruct Hph as (_ & Ha & Hs & Hr). split; [split; [exact Hlast|reflexivity]|].
    out_simpl. rewrite Ha, Hs, Hr. reflexivity.
  - congruence.
Qed.

Lemma sim_other_consumer single c sync r s c' b :
  r_stopped r = false -> Rel c sync r s -> (c' =? c) = false ->
  let (r', o) := rstep single r (RConsumer c' b) in
  let (s', o') := sess_step single c sync s (RConsumer c' b) in
  Rel c sync r' s' /\ seen_by c o = o'.
Proof.
  intros Hstop [Hlast Hph] Ec. unfold rstep. rewrite Hstop. unfold sess_step. rewrite Ec.
  assert (Ef : forall f, ((c' =? c) && Bool.eqb b f)%bool = false) by (intros f; now rewrite Ec).
  destruct (s_phase s) eqn:Ep; [| | | |congruence].
  all: destruct (r_dl r) eqn:Ed; (split; [split; [exact Hlast|]|]).
  all: try (rewrite ?Ep; destruct b; rel_simpl; rewrite ?Ec, ?Ef, ?Nat.add_0_r; cbn [is_init negb] in *; tauto).
  all: try (out_simpl; rewrite ?Ec; reflexivity).
  all: try reflexivity.
Qed.

Lemma sim_this_consumer single c sync r s :
  r_stopped r = false -> Rel c sync r s -> s_phase s = PAbsent ->
  let (r', o) := rstep single r (RConsumer c sync) in
  let (s', o') := sess_step single c sync s (RConsumer c sync) in
  Rel c sync r' s' /\ seen_by c o = o'.
Proof.
  intros Hstop [Hlast Hph] Ep. unfold rstep. rewrite Hstop. unfold sess_step. rewrite Ep, N.eqb_refl.
  rewrite Ep in Hph. destruct Hph as (_ & Hl & Ha & Hs & Hr).
  pose proof (cnt_split c (r_awaiting_linked r)) as Hsplit.
  destruct (r_dl r) eqn:Ed; cbn [is_init negb] in Hl; rewrite Hl.
  - split; [|reflexivity]. split; [exact Hlast|]. rel_simpl. destruct sync; cbn [Bool.eqb andb negb]; repeat split; auto; lia.
  - split; [|out_simpl; now rewrite N.eqb_refl]. split; [exact Hlast|].
    destruct sync; rel_simpl; repeat split; auto; lia.
  - split; [|out_simpl; now rewrite N.eqb_refl]. split; [exact Hlast|].
    destruct sync; rel_simpl; repeat split; auto; lia.
Qed.

Lemma sim_stopped single c sync r s e :
  r_stopped r = true -> Rel c sync r s ->
  rstep single r e = (r, []) /\ sess_step single c sync s e = (s, []).
Proof.
  intros Hstop [Hlast Hph]. unfold rstep. rewrite Hstop. split; [reflexivity|].
  unfold sess_step. destruct (s_phase s) eqn:Ep.
  1-4: destruct Hph as [Hs _]; congruence.
  destruct e as [[| | |]|]; reflexivity.
Qed.

Lemma sess_step_phase_consumer single c sync s c' b s' o :
  sess_step single c sync s (RConsumer c' b) = (s', o) -> (c' =? c) = false -> s_phase s' = s_phase s.
Proof.
  unfold sess_step. intros H Ec. rewrite Ec in H. destruct (s_phase s) eqn:Ep; injection H as <- _; now rewrite ?Ep.
Qed.

(* every consumer gets exactly the session it is owed, whatever the others do and whenever they attach *)
Theorem read_task_serves_sessions single c sync : forall es r s,
  Rel c sync r s -> may_attach s c es -> flags_ok c sync es ->
  seen_by c (snd (rrun single r es)) = session single c sync s es.
Proof.
  induction es as [|e t IH]; intros r s HR Hatt Hfl; [reflexivity|].
  cbn [rrun session].
  destruct (rstep single r e) as [r1 o1] eqn:E1. destruct (rrun single r1 t) as [r2 o2] eqn:E2.
  destruct (sess_step single c sync s e) as [s1 o1'] eqn:E3. cbn [snd]. rewrite seen_by_app.
  assert (Hstep : Rel c sync r1 s1 /\ seen_by c o1 = o1' /\ may_attach s1 c t /\ flags_ok c sync t).
  { destruct (r_stopped r) eqn:Hstop.
    - destruct (sim_stopped single c sync r s e Hstop HR) as [H1 H2]. rewrite H1 in E1. rewrite H2 in E3.
      injection E1 as <- <-. injection E3 as <- <-.
      assert (Hd : s_phase s = PDone).
      { destruct HR as [_ Hph]. destruct (s_phase s) eqn:Ep; [| | | |reflexivity]; destruct Hph as [Hs _]; congruence. }
      split; [exact HR|]. split; [reflexivity|]. split; [unfold may_attach; now rewrite Hd|].
      destruct e as [m|c' b]; [destruct m; exact Hfl|exact (proj2 Hfl)].
    - destruct e as [[| |b|]|c' b].
      + pose proof (sim_linked single c sync r s Hstop HR) as H. rewrite E1, E3 in H. destruct H as [H1 H2].
        split; [exact H1|]. split; [exact H2|]. split; [|exact Hfl]. unfold may_attach in *. cbn [attaches] in Hatt.
        unfold sess_step in E3. destruct (s_phase s) eqn:Ep; injection E3 as <- _; cbn [s_phase]; rewrite ?Ep; auto; destruct sync; auto.
      + pose proof (sim_synced single c sync r s Hstop HR) as H. rewrite E1, E3 in H. destruct H as [H1 H2].
        split; [exact H1|]. split; [exact H2|]. split; [|exact Hfl]. unfold may_attach in *. cbn [attaches] in Hatt.
        unfold sess_step in E3. destruct (s_phase s) eqn:Ep; injection E3 as <- _; cbn [s_phase]; rewrite ?Ep; auto.
      + pose proof (sim_event single c sync r s b Hstop HR) as H. rewrite E1, E3 in H. destruct H as [H1 H2].
        split; [exact H1|]. split; [exact H2|]. split; [|exact Hfl]. unfold may_attach in *. cbn [attaches] in Hatt.
        unfold sess_step in E3. destruct (s_phase s) eqn:Ep; injection E3 as <- _; cbn [s_phase]; rewrite ?Ep; auto.
      + pose proof (sim_unlinked single c sync r s Hstop HR) as H. rewrite E1, E3 in H. destruct H as [H1 H2].
        split; [exact H1|]. split; [exact H2|]. split; [|exact Hfl]. unfold may_attach in *.
        unfold sess_step in E3. destruct (s_phase s) eqn:Ep; injection E3 as <- _; cbn [s_phase]; rewrite ?Ep; auto.
      + cbn [flags_ok] in Hfl. destruct Hfl as [Hb Hfl]. destruct (c' =? c) eqn:Ec.
        * apply N.eqb_eq in Ec. subst c'. specialize (Hb eq_refl). subst b.
          unfold may_attach in Hatt. cbn [attaches] in Hatt. rewrite N.eqb_refl in Hatt.
          destruct (s_phase s) eqn:Ep; try discriminate.
          -- pose proof (sim_this_consumer single c sync r s Hstop HR Ep) as H. rewrite E1, E3 in H. destruct H as [H1 H2].
             split; [exact H1|]. split; [exact H2|]. split; [|exact Hfl]. unfold may_attach.
             unfold sess_step in E3. rewrite Ep, N.eqb_refl in E3.
             destruct (s_link_up s); injection E3 as <- _; cbn [s_phase]; [destruct sync|]; lia.
          -- destruct HR as [_ Hph]. rewrite Ep in Hph. congruence.
        * pose proof (sim_other_consumer single c sync r s c' b Hstop HR Ec) as H. rewrite E1, E3 in H. destruct H as [H1 H2].
          split; [exact H1|]. split; [exact H2|]. split; [|exact Hfl]. unfold may_attach in *. cbn [attaches] in Hatt. rewrite Ec in Hatt.
          now rewrite (sess_step_phase_consumer _ _ _ _ _ _ _ _ E3 Ec). }
  destruct Hstep as (HR1 & Ho & Hatt1 & Hfl1). rewrite Ho. f_equal.
  specialize (IH r1 s1 HR1 Hatt1 Hfl1). now rewrite E2 in IH.
Qed.

Lemma rel_initial c sync : Rel c sync rstate0 sess0.
Proof. split; [reflexivity|]. cbn. repeat split; reflexivity. Qed.

Corollary shared_runtime_is_private_sessions single c sync es :
  (attaches c es <= 1)%nat -> flags_ok c sync es ->
  seen_by c (snd (rrun single rstate0 es)) = session single c sync sess0 es.
Proof. intros Ha Hf. apply read_task_serves_sessions; [apply rel_initial|exact Ha|exact Hf]. Qed.


(* ---- a consumer that joins (at any moment) does not change what the others are told ---- *)
Lemma session_skip single c sync s c' b t : (c' =? c) = false ->
  session single c sync s (RConsumer c' b :: t) = session single c sync s t.
Proof.
  intros Ec. cbn [session]. unfold sess_step. rewrite Ec. destruct (s_phase s); reflexivity.
Qed.

Lemma session_insert single c sync c' b es1 : forall s es2, (c' =? c) = false ->
  session single c sync s (es1 ++ RConsumer c' b :: es2) = session single c sync s (es1 ++ es2).
Proof.
  induction es1 as [|e t IH]; intros s es2 Ec; cbn [app]; [now apply session_skip|].
  cbn [session]. destruct (sess_step single c sync s e) as [s1 o]. now rewrite IH.
Qed.

Lemma attaches_insert c c' b es1 es2 : (c' =? c) = false ->
  attaches c (es1 ++ RConsumer c' b :: es2) = attaches c (es1 ++ es2).
Proof.
  intros Ec. induction es1 as [|e t IH]; cbn [app attaches]; [now rewrite Ec|].
  destruct e as [m|c0 b0]; [exact IH|]. destruct (c0 =? c); now rewrite IH.
Qed.

Lemma flags_insert c sync c' b es1 es2 : flags_ok c sync (es1 ++ RConsumer c' b :: es2) -> flags_ok c sync (es1 ++ es2).
Proof.
  induction es1 as [|e t IH]; cbn [app flags_ok]; [tauto|].
  destruct e as [m|c0 b0]; [exact IH|]. intros [H1 H2]. split; auto.
Qed.

Theorem joiner_does_not_disturb_the_others single c sync c' b es1 es2 :
  c' <> c -> (attaches c (es1 ++ RConsumer c' b :: es2) <= 1)%nat -> flags_ok c sync (es1 ++ RConsumer c' b :: es2) ->
  seen_by c (snd (rrun single rstate0 (es1 ++ RConsumer c' b :: es2))) =
  seen_by c (snd (rrun single rstate0 (es1 ++ es2))).
Proof.
  intros Hne Ha Hf. assert (Ec : (c' =? c) = false) by now apply N.eqb_neq.
  rewrite (shared_runtime_is_private_sessions single c sync _ Ha Hf).
  rewrite (shared_runtime_is_private_sessions single c sync (es1 ++ es2)).
  - now apply session_insert.
  - now rewrite <- (attaches_insert c c' b es1 es2 Ec).
  - eapply flags_insert. exact Hf.
Qed.

Example session_witness :
  session true 1 true sess0 [RConsumer 0 true; RMessage RLinked; RMessage (REvent 5); RMessage RSynced; RConsumer 1 true;
                             RMessage (REvent 6); RMessage RSynced; RMessage (REvent 7); RMessage RUnlinked]
  = [NLinked; NEvent 6; NSynced; NEvent 7; NUnlinked] /\
  session true 2 false sess0 [RMessage RLinked; RConsumer 2 false; RMessage (REvent 6)] = [NLinked; NEvent 6].
Proof. split; vm_compute; reflexivity. Qed.
