(* C07, the write task of the downlink runtime: commands are never reordered, only superseded ones are dropped,
   the last one is always sent, the link request comes first and every consumer that needs a sync gets one. *)
From SwimV Require Import Model.DlRuntime.
Open Scope N_scope.

(* ------------------------------------------------------------------------------------------ *)
(* the write task *)
Inductive Subseq : list Z -> list Z -> Prop :=
| sub_nil l : Subseq [] l
| sub_take x a b : Subseq a b -> Subseq (x :: a) (x :: b)
| sub_skip x a b : Subseq a b -> Subseq a (x :: b).

Lemma Subseq_refl l : Subseq l l.
Proof. induction l; constructor; auto. Qed.

Lemma Subseq_snoc_both a b x : Subseq a b -> Subseq (a ++ [x]) (b ++ [x]).
Proof. induction 1; cbn [app]; try (constructor; auto). induction l; cbn [app]; constructor; auto. constructor. Qed.

Lemma Subseq_snoc_skip a b x : Subseq a b -> Subseq a (b ++ [x]).
Proof. induction 1; cbn [app]; constructor; auto. Qed.

Lemma Subseq_prefix a l b : Subseq (a ++ l) b -> Subseq a b.
Proof.
  revert b. induction a as [|x a IH]; intros b H; [constructor|].
  cbn [app] in H. induction b as [|y b IHb]; [inversion H|].
  inversion H; subst; [apply sub_take; auto|apply sub_skip; auto].
Qed.

Lemma Subseq_nil_r a : Subseq a [] -> a = [].
Proof. inversion 1; reflexivity. Qed.

Definition pend (s : wstate) : list Z := match w_pending s with Some (FCommand b) => [b] | _ => [] end.
Definition lat (s : wstate) : list Z := match w_latest s with Some b => [b] | None => [] end.
Definition wseq (s : wstate) : list Z := commands_of (w_sent s) ++ pend s ++ lat s.

Definition count_sync (fs : list frame) : nat := length (filter (fun f => match f with FSync => true | _ => false end) fs).
Definition owed (s : wstate) : Prop := w_needs_sync s = true \/ w_pending s = Some FSync.

Record WInv (s : wstate) (given : list Z) : Prop := {
  wi_sub : Subseq (wseq s) given;
  wi_last : forall d, last (wseq s) d = last given d;
  wi_idle : w_pending s = None -> w_latest s = None /\ w_needs_sync s = false;
  wi_link : exists rest, w_sent s = FLink :: rest
}.

Lemma commands_of_app a b : commands_of (a ++ b) = commands_of a ++ commands_of b.
Proof. unfold commands_of. now rewrite flat_map_app. Qed.
Lemma commands_in_app a b : commands_in (a ++ b) = commands_in a ++ commands_in b.
Proof. unfold commands_in. now rewrite flat_map_app. Qed.

Lemma last_snoc (l : list Z) x d : last (l ++ [x]) d = x.
Proof. apply last_last. Qed.

Ltac crush_state s :=
  destruct s as [p n l sent]; destruct p as [[| |?b1]|]; destruct n; destruct l as [?b0|];
  cbn [w_pending w_needs_sync w_latest w_sent] in *.

Lemma wseq_step_other s e : (w_pending s = None -> w_latest s = None /\ w_needs_sync s = false) ->
  match e with WCommand _ => True | _ => wseq (wstep s e) = wseq s end.
Proof.
  intros Hidle. destruct e as [[|]|b|]; [| |exact I|].
  all: crush_state s; try (destruct (Hidle eq_refl); discriminate);
    unfold wstep, wseq, pend, lat; cbn [w_pending w_needs_sync w_latest w_sent orb];
    rewrite ?commands_of_app; cbn [commands_of flat_map app]; rewrite ?app_nil_r, <- ?app_assoc; reflexivity.
Qed.

Lemma wseq_step_cmd s b : (w_pending s = None -> w_latest s = None /\ w_needs_sync s = false) ->
  exists x, wseq s = x ++ lat s /\ wseq (wstep s (WCommand b)) = x ++ [b].
Proof.
  intros Hidle. exists (commands_of (w_sent s) ++ pend s). split; [unfold wseq; now rewrite app_assoc|].
  crush_state s; try (destruct (Hidle eq_refl); discriminate);
    unfold wstep, wseq, pend, lat; cbn [w_pending w_needs_sync w_latest w_sent];
    rewrite ?app_nil_r, <- ?app_assoc; reflexivity.
Qed.

Lemma idle_step s e : (w_pending s = None -> w_latest s = None /\ w_needs_sync s = false) ->
  w_pending (wstep s e) = None -> w_latest (wstep s e) = None /\ w_needs_sync (wstep s e) = false.
Proof.
  intros Hidle. destruct e as [[|]|b|]; crush_state s; try (destruct (Hidle eq_refl); discriminate);
    unfold wstep; cbn [w_pending w_needs_sync w_latest w_sent]; intros H; try discriminate; auto.
Qed.

Lemma sent_grows s e : exists l, w_sent (wstep s e) = w_sent s ++ l.
Proof.
  destruct e as [[|]|b|]; crush_state s; unfold wstep; cbn [w_pending w_needs_sync w_latest w_sent];
    try (exists []; now rewrite app_nil_r); eexists; reflexivity.
Qed.

Lemma winv_step s given e : WInv s given ->
  WInv (wstep s e) (given ++ match e with WCommand b => [b] | _ => [] end).
Proof.
  intros [Hsub Hlast Hidle [rest Hlink]].
  constructor.
  - destruct e as [[|]|b|]; rewrite ?app_nil_r;
      try (pose proof (wseq_step_other s _ Hidle) as H; cbn beta iota in H; first [now rewrite H | idtac]).
    + pose proof (wseq_step_other s (WProducer true) Hidle) as H. cbn beta iota in H. now rewrite H.
    + pose proof (wseq_step_other s (WProducer false) Hidle) as H. cbn beta iota in H. now rewrite H.
    + destruct (wseq_step_cmd s b Hidle) as (x & E1 & E2). rewrite E2. apply Subseq_snoc_both.
      rewrite E1 in Hsub. eapply Subseq_prefix. exact Hsub.
    + pose proof (wseq_step_other s WWritten Hidle) as H. cbn beta iota in H. now rewrite H.
  - intros d. destruct e as [[|]|b|]; rewrite ?app_nil_r.
    + pose proof (wseq_step_other s (WProducer true) Hidle) as H. cbn beta iota in H. rewrite H. apply Hlast.
    + pose proof (wseq_step_other s (WProducer false) Hidle) as H. cbn beta iota in H. rewrite H. apply Hlast.
    + destruct (wseq_step_cmd s b Hidle) as (x & E1 & E2). rewrite E2. now rewrite !last_snoc.
    + pose proof (wseq_step_other s WWritten Hidle) as H. cbn beta iota in H. rewrite H. apply Hlast.
  - now apply idle_step.
  - destruct (sent_grows s e) as [l Hl]. rewrite Hl, Hlink. now exists (rest ++ l).
Qed.

Lemma winv_fold es : forall s g, WInv s g -> WInv (fold_left wstep es s) (g ++ commands_in es).
Proof.
  induction es as [|e es IH]; intros s g H; cbn [fold_left commands_in flat_map]; [now rewrite app_nil_r|].
  apply (winv_step _ _ e) in H. specialize (IH _ _ H). rewrite <- app_assoc in IH.
  destruct e; exact IH.
Qed.

Lemma winv_run es : WInv (wrun es) (commands_in es).
Proof.
  unfold wrun. apply (winv_fold es wstate0 []).
  constructor; cbn; try constructor; auto. eauto.
Qed.

(* commands are never reordered: at every moment what has been sent is, in order, part of what was given *)
Theorem commands_never_reordered es : Subseq (commands_of (w_sent (wrun es))) (commands_in es).
Proof.
  destruct (winv_run es) as [Hsub _ _ _]. unfold wseq in Hsub. eapply Subseq_prefix. exact Hsub.
Qed.

(* only superseded commands are dropped: once the socket has taken all it is owed, the last command sent is
   the last command given (the lane ends in the same state as if all had been sent) *)
Theorem last_command_is_sent es d : w_pending (wrun es) = None ->
  last (commands_of (w_sent (wrun es))) d = last (commands_in es) d.
Proof.
  intros Hp. destruct (winv_run es) as [_ Hlast Hidle _]. destruct (Hidle Hp) as [Hl _].
  rewrite <- Hlast. unfold wseq, pend, lat. now rewrite Hp, Hl, !app_nil_r.
Qed.

Theorem link_is_sent_first es : exists rest, w_sent (wrun es) = FLink :: rest.
Proof. now destruct (winv_run es). Qed.

(* a consumer that needs a sync gets one sent for it, however busy the socket was when it joined *)
Lemma count_sync_app a b : count_sync (a ++ b) = (count_sync a + count_sync b)%nat.
Proof. unfold count_sync. now rewrite filter_app, app_length. Qed.

Lemma count_sync_snoc l f : count_sync (l ++ [f]) = (count_sync l + match f with FSync => 1 | _ => 0 end)%nat.
Proof. rewrite count_sync_app. destruct f; reflexivity. Qed.

Definition Owing (n0 : nat) (s : wstate) : Prop :=
  (n0 <= count_sync (w_sent s))%nat /\ ((n0 < count_sync (w_sent s))%nat \/ owed s).

Lemma owed_step s e n0 : (w_pending s = None -> w_needs_sync s = false) -> Owing n0 s -> Owing n0 (wstep s e).
Proof.
  intros Hidle [Hle H]. unfold Owing, owed in *.
  destruct e as [[|]|b|]; crush_state s; unfold wstep; cbn [w_pending w_needs_sync w_latest w_sent orb];
    rewrite ?count_sync_snoc;
    try (specialize (Hidle eq_refl); discriminate);
    (split; [lia|]);
    destruct H as [H|[H|H]]; try discriminate;
    first [ left; lia | right; left; reflexivity | right; right; reflexivity ].
Qed.

Lemma wrun_app a b : wrun (a ++ b) = fold_left wstep b (wrun a).
Proof. unfold wrun. now rewrite fold_left_app. Qed.

Lemma owed_fold n0 es : forall s g, WInv s g -> Owing n0 s -> Owing n0 (fold_left wstep es s).
Proof.
  induction es as [|e es IH]; intros s g Hinv H; cbn [fold_left]; [exact H|].
  apply (IH _ _ (winv_step _ _ e Hinv)). apply owed_step; [|exact H].
  intros Hn. now destruct (wi_idle _ _ Hinv Hn).
Qed.

Theorem sync_is_sent_for_a_joiner es1 es2 :
  w_pending (wrun (es1 ++ WProducer true :: es2)) = None ->
  (count_sync (w_sent (wrun es1)) < count_sync (w_sent (wrun (es1 ++ WProducer true :: es2))))%nat.
Proof.
  intros Hp. rewrite wrun_app in *. cbn [fold_left] in *.
  pose proof (winv_run es1) as Hinv.
  assert (Ho : Owing (count_sync (w_sent (wrun es1))) (wstep (wrun es1) (WProducer true))).
  { unfold Owing, owed, wstep. destruct (w_pending (wrun es1)) eqn:Ep; cbn [w_needs_sync w_pending w_sent];
      (split; [lia|right]); [left; apply orb_true_r|now right]. }
  destruct (owed_fold _ es2 _ _ (winv_step _ _ (WProducer true) Hinv) Ho) as [_ [Hc|[Hn|Hf]]];
    [exact Hc| |congruence].
  assert (Hinv2 : WInv (fold_left wstep es2 (wstep (wrun es1) (WProducer true))) ((commands_in es1 ++ []) ++ commands_in es2)).
  { apply winv_fold. exact (winv_step _ _ (WProducer true) Hinv). }
  destruct (wi_idle _ _ Hinv2 Hp) as [_ Hn']. congruence.
Qed.

(* the socket only has to take three more frames for the task to become idle *)
Lemma wdrain_idle s : (w_pending s = None -> w_latest s = None /\ w_needs_sync s = false) ->
  w_pending (wdrain 3 s) = None.
Proof.
  intros Hidle. crush_state s; try (destruct (Hidle eq_refl); discriminate); reflexivity.
Qed.

Example write_witness :
  w_sent (wdrain 3 (wrun [WProducer true; WCommand 1; WCommand 2; WProducer true; WCommand 3; WWritten])) =
  [FLink; FSync; FSync; FCommand 3].
Proof. vm_compute. reflexivity. Qed.
