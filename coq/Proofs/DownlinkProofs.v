(* Proofs for C08 (Model/Downlink.v): on every sequence a well-behaved link can produce, the client and
   the hosted downlinks produce exactly the callbacks of the specification (the fold of the
   notifications since linking), hence hold its state and agree with each other. *)
From SwimV Require Import Model.Downlink.
Open Scope N_scope.

Lemma kv_remove_absent k m : kv_get k m = None -> kv_remove k m = m.
Proof.
  induction m as [|[k' v'] t IH]; simpl; [reflexivity|]. destruct (k =? k'); [discriminate|].
  intros H. now rewrite IH.
Qed.

Lemma remove_each_fst ks : forall m d,
  fst (remove_each ks m d) = fold_left (fun acc k => kv_remove k acc) ks m.
Proof.
  induction ks as [|k r IH]; intros m d; simpl; [reflexivity|].
  destruct (kv_get k m) as [v|] eqn:EG.
  - specialize (IH (kv_remove k m) d). destruct (remove_each r (kv_remove k m) d) as [m2 cs]. exact IH.
  - rewrite (kv_remove_absent k m EG). apply IH.
Qed.

Lemma remove_each_silent ks : forall m, snd (remove_each ks m false) = [].
Proof.
  induction ks as [|k r IH]; intros m; simpl; [reflexivity|].
  destruct (kv_get k m) as [v|]; [|apply IH].
  specialize (IH (kv_remove k m)). destruct (remove_each r (kv_remove k m) false). exact IH.
Qed.

Lemma remove_each_pair ks m d :
  remove_each ks m d = (fold_left (fun acc k => kv_remove k acc) ks m,
                        if d then snd (remove_each ks m true) else []).
Proof.
  rewrite <- (remove_each_fst ks m d). destruct d.
  - now destruct (remove_each ks m true).
  - rewrite <- (remove_each_silent ks m). now destruct (remove_each ks m false).
Qed.

(* the client's on_event is the specification's: the message is always applied, only the dispatch
   of callbacks is conditional *)
Lemma c_on_event_spec m e d : c_on_event m e d = (apply_msg m e, if d then spec_cbs m e else []).
Proof.
  destruct e as [k v|k| |n|n]; simpl.
  - now destruct d.
  - destruct (kv_get k m) as [v|] eqn:EG; [now destruct d|]. rewrite (kv_remove_absent k m EG). now destruct d.
  - now destruct d.
  - apply remove_each_pair.
  - apply remove_each_pair.
Qed.

Definition crel (s : cstate) (ss : sstate) : Prop :=
  match s, ss with
  | CsUnlinked, None => True
  | CsLinked m, Some (false, m') => m = m'
  | CsSynced m, Some (true, m') => m = m'
  | _, _ => False
  end.

Lemma client_sim cfg ns : forall s ss, crel s ss -> legal ss ns = true ->
  c_run cfg s ns = spec_run cfg ss ns.
Proof.
  induction ns as [|n t IH]; intros s ss R L; [reflexivity|].
  destruct n as [| |e| |e]; cbn [c_run spec_run legal] in *.
  - (* linked *)
    destruct ss as [[b m]|]; [discriminate|]. destruct s; simpl in R; try contradiction.
    simpl. f_equal. apply IH; [reflexivity|exact L].
  - destruct ss as [[[|] m]|]; try discriminate. destruct s as [|m0|m0]; simpl in R; try contradiction. subst m0.
    simpl. f_equal. apply IH; [reflexivity|exact L].
  - destruct ss as [[b m]|]; [|discriminate].
    destruct s as [|m0|m0]; destruct b; simpl in R; try contradiction; subst m0; simpl.
    + rewrite c_on_event_spec. simpl. f_equal. apply IH; [reflexivity|exact L].
    + rewrite c_on_event_spec. simpl. f_equal. apply IH; [reflexivity|exact L].
  - destruct ss as [[b m]|]; [|discriminate]. simpl.
    destruct (terminate_on_unlinked cfg); simpl; [reflexivity|]. f_equal. apply IH; [reflexivity|exact L].
  - simpl. destruct ss as [[b m]|]; simpl; f_equal; apply IH; auto.
Qed.

Theorem client_is_spec cfg ns : legal None ns = true -> c_run cfg CsUnlinked ns = spec_run cfg None ns.
Proof. intros L. apply client_sim; [exact I|exact L]. Qed.

(* ---- hosted ---- *)
Definition hrel (s : hstate) (ss : sstate) : Prop :=
  match ss with
  | None => h_dl s = DlUnlinked /\ h_map s = []
  | Some (false, m) => h_dl s = DlLinked /\ h_map s = m
  | Some (true, m) => h_dl s = DlSynced /\ h_map s = m
  end.

Definition whole_drop (m : kv) (e : msg) : bool :=
  match e with MDrop k => Nat.leb (length m) (N.to_nat k) | _ => false end.

Lemma h_take_spec m n lc : h_take m n lc = remove_each (skipn n (map fst m)) m lc.
Proof.
  unfold h_take. destruct (Nat.ltb_spec 0 (length m - n)); [reflexivity|].
  rewrite skipn_all2 by (rewrite map_length; lia). reflexivity.
Qed.

Lemma h_on_event_spec m e lc : whole_drop m e = false ->
  h_on_event m e lc = (apply_msg m e, if lc then spec_cbs m e else []).
Proof.
  intros W. destruct e as [k v|k| |n|n]; simpl.
  - now destruct lc.
  - destruct (kv_get k m) as [v|] eqn:EG; [now destruct lc|]. rewrite (kv_remove_absent k m EG). now destruct lc.
  - now destruct lc.
  - rewrite h_take_spec. apply remove_each_pair.
  - unfold h_drop. simpl in W. rewrite W. apply remove_each_pair.
Qed.

Definition any_cfg : config := {| events_when_not_synced := true; terminate_on_unlinked := false |}.

Lemma spec_state_cfg cfg cfg' s n : fst (spec_step cfg s n) = fst (spec_step cfg' s n).
Proof. destruct n as [| |e| |e]; destruct s as [[[|] m]|]; reflexivity. Qed.

Lemma hosted_sim cfg ns : forall s ss, hrel s ss -> legal ss ns = true -> has_whole_drop ss ns = false ->
  h_run cfg s ns = spec_run cfg ss ns.
Proof.
  induction ns as [|n t IH]; intros s ss R L W; [reflexivity|].
  destruct n as [| |e| |e]; cbn [h_run spec_run legal has_whole_drop] in *.
  - destruct ss as [[b m]|]; [discriminate|]. destruct R as (Rd & Rm). destruct s as [d mm]. simpl in *. subst.
    f_equal. apply IH; [split; reflexivity|exact L|exact W].
  - destruct ss as [[[|] m]|]; try discriminate. destruct R as (Rd & Rm). destruct s as [d mm]. simpl in *. subst.
    f_equal. apply IH; [split; reflexivity|exact L|exact W].
  - destruct ss as [[b m]|]; [|discriminate]. destruct s as [d mm].
    assert (mm = m /\ dl_is_synced d = b) as (-> & Hb) by (destruct b; destruct R as (Rd & Rm); simpl in *; subst; auto).
    assert (whole_drop m e = false /\ has_whole_drop (Some (b, apply_msg m e)) t = false) as (W1 & W2).
    { destruct e as [k v|k| |k|k]; simpl in W |- *; auto. apply orb_false_iff in W. exact W. }
    simpl. rewrite h_on_event_spec by exact W1. rewrite Hb. simpl. f_equal.
    apply IH; [|exact L|exact W2]. destruct b; destruct R as (Rd & Rm); simpl in *; subst; split; reflexivity.
  - destruct ss as [[b m]|]; [|discriminate]. simpl.
    destruct (terminate_on_unlinked cfg); simpl; [reflexivity|]. f_equal.
    apply IH; [split; reflexivity|exact L|exact W].
  - simpl. assert (has_whole_drop ss t = false) as W' by (destruct ss as [[b m]|]; exact W).
    destruct ss as [[b m]|]; simpl; f_equal; apply IH; auto; destruct s; exact R.
Qed.

Theorem hosted_is_spec cfg ns : legal None ns = true -> has_whole_drop None ns = false ->
  h_run cfg h0 ns = spec_run cfg None ns.
Proof. intros L W. apply hosted_sim; [split; reflexivity|exact L|exact W]. Qed.

Theorem client_eq_hosted cfg ns : legal None ns = true -> has_whole_drop None ns = false ->
  c_run cfg CsUnlinked ns = h_run cfg h0 ns.
Proof. intros L W. now rewrite client_is_spec, hosted_is_spec. Qed.

(* ---- the specification's state is the fold; on_synced fires exactly at the transition ---- *)
Fixpoint spec_state (s : sstate) (ns : list note) : sstate :=
  match ns with [] => s | n :: t => spec_state (fst (spec_step any_cfg s n)) t end.

Lemma spec_state_events b m es :
  spec_state (Some (b, m)) (map NEvent es) = Some (b, fold_left apply_msg es m).
Proof. revert m. induction es as [|e t IH]; intros m; simpl; [reflexivity|apply IH]. Qed.

Theorem synced_sees_fold cfg es :
  spec_run cfg None (NLinked :: map NEvent es ++ [NSynced]) =
  [CLinked] :: map (fun p => if events_when_not_synced cfg then spec_cbs (fst p) (snd p) else [])
                   ((fix go m es := match es with [] => [] | e :: t => (m, e) :: go (apply_msg m e) t end) [] es)
  ++ [[CSynced (fold_left apply_msg es [])]].
Proof.
  simpl. f_equal. generalize (@nil (N * N)) as m. induction es as [|e t IH]; intros m; simpl; [reflexivity|].
  f_equal. apply IH.
Qed.

(* ---- value downlinks ---- *)
Definition cvrel (s : cvstate) (ss : svstate) : Prop :=
  match s, ss with
  | CvUnlinked, None => True
  | CvLinked v, Some (false, v') => v = v'
  | CvSynced v, Some (true, Some v') => v = v'
  | _, _ => False
  end.

Lemma client_value_sim cfg ns : forall s ss, cvrel s ss -> vlegal ss ns = true ->
  cv_run cfg s ns = vspec_run cfg ss ns.
Proof.
  induction ns as [|n t IH]; intros s ss R L; [reflexivity|].
  destruct n as [| |b|]; cbn [cv_run vspec_run vlegal] in *.
  - destruct ss as [[b0 v]|]; [discriminate|]. destruct s; simpl in R; try contradiction.
    simpl. f_equal. apply IH; [reflexivity|exact L].
  - destruct ss as [[[|] [v|]]|]; try discriminate. destruct s as [|v0|v0]; simpl in R; try contradiction. subst v0.
    simpl. f_equal. apply IH; [reflexivity|exact L].
  - destruct ss as [[b0 v]|]; [|discriminate].
    destruct s as [|v0|v0]; destruct b0; simpl in R; try contradiction.
    + subst v0. simpl. f_equal. apply IH; [reflexivity|exact L].
    + destruct v as [v|]; [|contradiction]. subst v0. simpl. f_equal. apply IH; [reflexivity|exact L].
  - destruct ss as [[b0 v]|]; [|discriminate]. simpl.
    destruct (terminate_on_unlinked cfg); simpl; [reflexivity|]. f_equal. apply IH; [reflexivity|exact L].
Qed.

Theorem client_value_is_spec cfg ns : vlegal None ns = true -> cv_run cfg CvUnlinked ns = vspec_run cfg None ns.
Proof. intros L. apply client_value_sim; [exact I|exact L]. Qed.

Definition hvrel (s : hvstate) (ss : svstate) : Prop :=
  match ss with
  | None => hv_dl s = DlUnlinked /\ hv_val s = None
  | Some (false, v) => hv_dl s = DlLinked /\ hv_val s = v
  | Some (true, v) => hv_dl s = DlSynced /\ hv_val s = v
  end.

Lemma hosted_value_sim cfg ns : forall s ss, hvrel s ss -> vlegal ss ns = true ->
  hv_run cfg s ns = vspec_run cfg ss ns.
Proof.
  induction ns as [|n t IH]; intros s ss R L; [reflexivity|].
  destruct n as [| |b|]; cbn [hv_run vspec_run vlegal] in *.
  - destruct ss as [[b0 v]|]; [discriminate|]. destruct R as (Rd & Rv). destruct s as [d vv]. simpl in *. subst.
    f_equal. apply IH; [split; reflexivity|exact L].
  - destruct ss as [[[|] [v|]]|]; try discriminate. destruct R as (Rd & Rv). destruct s as [d vv]. simpl in *. subst.
    f_equal. apply IH; [split; reflexivity|exact L].
  - destruct ss as [[b0 v]|]; [|discriminate]. destruct s as [d vv].
    assert (vv = v /\ dl_is_synced d = b0) as (-> & Hb) by (destruct b0; destruct R as (Rd & Rv); simpl in *; subst; auto).
    simpl. rewrite Hb. f_equal.
    apply IH; [|exact L]. destruct b0; destruct R as (Rd & Rv); simpl in *; subst; split; reflexivity.
  - destruct ss as [[b0 v]|]; [|discriminate]. simpl.
    destruct (terminate_on_unlinked cfg); simpl; [reflexivity|]. f_equal. apply IH; [split; reflexivity|exact L].
Qed.

Theorem hosted_value_is_spec cfg ns : vlegal None ns = true -> hv_run cfg hv0 ns = vspec_run cfg None ns.
Proof. intros L. apply hosted_value_sim; [split; reflexivity|exact L]. Qed.
