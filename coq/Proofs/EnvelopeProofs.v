(* Proofs for the WARP text envelopes (Model/Envelope.v): whatever the node URI, lane name and body, the
   header written by the encoder is read back as the same kind, node and lane, and the body is handed on
   unchanged (up to the blanks in front of it, which the reader skips). *)
From SwimV Require Import Model.Envelope Proofs.ReconTextProofs.
Open Scope N_scope.

Definition blank (c : N) : bool := (c =? 32) || (c =? 9) || (c =? 10) || (c =? 13).

Lemma ident_start_not_blank c : is_identifier_start c = true -> blank c = false.
Proof.
  intros H. unfold blank.
  destruct (N.eqb_spec c 32) as [->|]; [vm_compute in H; discriminate|].
  destruct (N.eqb_spec c 9) as [->|]; [vm_compute in H; discriminate|].
  destruct (N.eqb_spec c 10) as [->|]; [vm_compute in H; discriminate|].
  destruct (N.eqb_spec c 13) as [->|]; [vm_compute in H; discriminate|]. reflexivity.
Qed.

(* the printed form of a text starts with a quote or an identifier start, never with a blank *)
Lemma printed_head t : exists c r, write_string_literal t = c :: r /\
  ((c =? 34) || is_identifier_start c = true) /\ blank c = false.
Proof.
  unfold write_string_literal. destruct (is_identifier t) eqn:EI.
  - unfold is_identifier in EI. destruct (str_eqb t s_true || str_eqb t s_false); [discriminate|].
    destruct t as [|c r]; [discriminate|]. apply andb_prop in EI as (Hs & _).
    exists c, r. split; [reflexivity|]. split; [now rewrite Hs, orb_true_r|now apply ident_start_not_blank].
  - eexists 34, _. split; [reflexivity|]. split; reflexivity.
Qed.

Lemma skip_multi_head c r : blank c = false -> skip_multi (c :: r) = c :: r.
Proof. unfold blank. intros H. simpl. now rewrite H. Qed.

Lemma skip_blanks_head c r : blank c = false -> skip_blanks (c :: r) = c :: r.
Proof.
  unfold blank. intros H. apply orb_false_iff in H as (H & _). apply orb_false_iff in H as (H & _). simpl. now rewrite H.
Qed.

Lemma firstn_consumed {A} (a b : list A) : firstn (length (a ++ b) - length b) (a ++ b) = a.
Proof.
  rewrite app_length. replace (length a + length b - length b)%nat with (length a) by lia.
  rewrite firstn_app, Nat.sub_diag, firstn_all. simpl. now rewrite app_nil_r.
Qed.

Lemma tok_result_printed t : tok_result (write_string_literal t) = Some t.
Proof.
  unfold tok_result. rewrite skip_blanks_printed.
  pose proof (text_roundtrip t [] I) as H. rewrite app_nil_r in H. rewrite H. reflexivity.
Qed.

(* the value of a slot, as source text: exactly the printed form, whatever non-identifier character follows *)
Lemma value_span_printed t c rest : is_identifier_char c = false ->
  value_span (write_string_literal t ++ c :: rest) = Some (write_string_literal t, c :: rest).
Proof.
  intros Hc. destruct (printed_head t) as (h & r & E & Hh & _). unfold value_span.
  rewrite E. cbn [app]. rewrite Hh. rewrite <- E. change (h :: r ++ c :: rest) with ((h :: r) ++ c :: rest). rewrite <- E.
  rewrite (text_roundtrip t (c :: rest) Hc). now rewrite firstn_consumed.
Qed.

Lemma read_name_ident t c rest : is_identifier t = true -> is_identifier_char c = false ->
  read_name (t ++ c :: rest) = Some (t, c :: rest).
Proof. intros Ht Hc. unfold read_name. now rewrite (identifier_reads_back t (c :: rest) Ht Hc). Qed.

Lemma kind_of_tag_of k : kind_of_tag (tag_of k) = Some k.
Proof. destruct k; reflexivity. Qed.

Lemma tag_is_identifier k : is_identifier (tag_of k) = true.
Proof. destruct k; reflexivity. Qed.

Lemma skip_blanks_put_body body : skip_blanks (put_body body) = skip_blanks body.
Proof.
  destruct body as [|c r]; [reflexivity|]. unfold put_body. destruct (N.eqb_spec c 64) as [->|]; reflexivity.
Qed.

(* one slot: an identifier name, a colon, a printed text, then a comma or the closing parenthesis *)
Lemma ident_head name : is_identifier name = true ->
  exists c r, name = c :: r /\ is_identifier_start c = true.
Proof.
  unfold is_identifier. destruct (str_eqb name s_true || str_eqb name s_false); [discriminate|].
  destruct name as [|c r]; [discriminate|]. intros H. apply andb_prop in H as (Hs & _). now exists c, r.
Qed.

Lemma ident_start_not_paren c : is_identifier_start c = true -> (c =? 41) = false.
Proof. intros H. destruct (N.eqb_spec c 41) as [->|]; [vm_compute in H; discriminate|reflexivity]. Qed.

Lemma read_slot_step fuel name t sep after h :
  is_identifier name = true -> (sep = 44 \/ sep = 41) ->
  read_slots (S fuel) (name ++ 58 :: write_string_literal t ++ sep :: after) h =
  if sep =? 41 then Some (feed_slot h name (write_string_literal t), after)
  else read_slots fuel after (feed_slot h name (write_string_literal t)).
Proof.
  intros Hn Hsep. destruct (ident_head name Hn) as (c & r & En & Hc).
  assert (Hsepc : is_identifier_char sep = false) by (destruct Hsep; subst; reflexivity).
  cbn [read_slots]. rewrite En. cbn [app].
  rewrite (skip_multi_head c _ (ident_start_not_blank c Hc)).
  rewrite (ident_start_not_paren c Hc).
  change (c :: r ++ 58 :: write_string_literal t ++ sep :: after) with ((c :: r) ++ 58 :: write_string_literal t ++ sep :: after).
  rewrite <- En. rewrite (read_name_ident name 58) by (assumption || reflexivity).
  cbn [skip_multi N.eqb Pos.eqb orb].
  destruct (printed_head t) as (ht & rt & Et & _ & Bt).
  assert (skip_multi (write_string_literal t ++ sep :: after) = write_string_literal t ++ sep :: after) as ->
    by (rewrite Et; cbn [app]; now apply skip_multi_head).
  rewrite (value_span_printed t sep after Hsepc).
  destruct Hsep; subst sep; cbn [skip_blanks N.eqb Pos.eqb orb]; reflexivity.
Qed.

Lemma read_slots_header fuel node lane after :
  read_slots (S (S fuel))
    (s_node ++ 58 :: write_string_literal node ++ 44 :: s_lane ++ 58 :: write_string_literal lane ++ 41 :: after)
    header0 =
  Some ({| h_node := Some (write_string_literal node); h_lane := Some (write_string_literal lane); h_bad := false |}, after).
Proof.
  rewrite (read_slot_step (S fuel) s_node node 44) by (reflexivity || now left).
  cbn [N.eqb Pos.eqb].
  rewrite (read_slot_step fuel s_lane lane 41) by (reflexivity || now right).
  reflexivity.
Qed.

Theorem envelope_roundtrip k node lane body :
  peel_envelope (enc_envelope k node lane body) = Some (k, node, lane, skip_blanks body).
Proof.
  unfold enc_envelope, enc_header, peel_envelope. cbn [app N.eqb Pos.eqb].
  rewrite <- !app_assoc. cbn [app].
  rewrite (read_name_ident (tag_of k) 40) by (try apply tag_is_identifier; reflexivity).
  rewrite kind_of_tag_of. cbn [N.eqb Pos.eqb].
  set (after := put_body body).
  repeat (rewrite <- app_assoc || rewrite <- app_comm_cons). cbn [app].
  set (inp := s_node ++ 58 :: write_string_literal node ++ 44 :: s_lane ++ 58 :: write_string_literal lane ++ 41 :: after).
  assert (exists f, S (length inp) = S (S f)) as (f & ->).
  { unfold inp, s_node. cbn [app length]. eexists. reflexivity. }
  unfold inp. rewrite read_slots_header. cbn [h_bad h_node h_lane].
  rewrite !tok_result_printed. unfold after. now rewrite skip_blanks_put_body.
Qed.
