(* C16 for the integer Form types: whichever way a number reaches the recognizer of i32 / i64 / u32 / u64 / usize /
   NonZeroUsize / BigInt / BigUint (directly from the text, through the model, from MessagePack), the answer depends on
   the number alone: it is accepted exactly when the type holds it, and the value produced is that number. *)
From SwimV Require Import Model.FormInt Proofs.ReconNumProofs Proofs.MsgPackProofs.
From Coq Require Import Lia ZArith ZifyN ZifyNat ZifyBool.
Open Scope Z_scope.

Definition by_number (t : ity) (z : Z) : option Z := if in_ty t z then Some z else None.

(* the recognizers never look at the kind of a number event beyond what the kind says about the range *)
Theorem recognize_by_number t v : well_kinded v = true -> recognize t v = by_number t (nz v).
Proof.
  destruct v as [k z]. unfold well_kinded, recognize, by_number, fits_i64, fits_u64, in_ty. cbn [nk nz].
  intros W. destruct t, k; try reflexivity;
    repeat match goal with |- context [if ?c then _ else _] => destruct c eqn:? end; try reflexivity; lia.
Qed.

Lemma event_of_value_number v : nz (event_of_value (value_of_literal v)) = nz v.
Proof. unfold value_of_literal. destruct (value_kind v); reflexivity. Qed.

Lemma event_of_literal_well_kinded v : well_kinded v = true -> well_kinded (event_of_value (value_of_literal v)) = true.
Proof.
  destruct v as [k z]. unfold value_of_literal, value_kind, well_kinded, fits_i64, fits_u64. cbn [nk nz].
  intros W. destruct k;
    repeat match goal with |- context [if ?c then _ else _] => destruct c eqn:? end; cbn [event_of_value nk nz]; lia.
Qed.

(* converting to the model and back returns the value unchanged *)
Theorem model_roundtrip t z : in_ty t z = true -> try_from_value t (to_value t z) = Some z.
Proof.
  intros H. unfold try_from_value. rewrite recognize_by_number.
  - unfold by_number. destruct t; cbn [to_value event_of_value nz]; now rewrite H.
  - unfold in_ty in H. destruct t; unfold well_kinded, fits_i64, fits_u64; cbn [to_value event_of_value nk nz]; lia.
Qed.

(* the two reading paths agree, on acceptance and on the value, for every text and every integer type *)
Lemma first_int_well_kinded inp v : first_int inp = Some v -> well_kinded v = true.
Proof.
  unfold first_int. destruct (num_token (skip_blanks inp)) as [[w|] rest] eqn:T; [|discriminate].
  intros E. injection E as <-. eapply num_token_well_kinded; exact T.
Qed.

Lemma int_of_text_first inp v : int_of_text inp = Some v -> first_int inp = Some v.
Proof.
  unfold int_of_text, first_int. destruct (num_token (skip_blanks inp)) as [[w|] rest]; [|discriminate].
  destruct (skip_blanks rest); [|discriminate]. exact (fun E => E).
Qed.

Theorem reading_paths_agree t inp : read_direct t inp = read_via_model t inp.
Proof.
  unfold read_direct, read_via_model, try_from_value. destruct (first_int inp) as [v|] eqn:E; [|reflexivity].
  pose proof (first_int_well_kinded inp v E) as W.
  rewrite (recognize_by_number t v W).
  rewrite (recognize_by_number t _ (event_of_literal_well_kinded v W)). now rewrite event_of_value_number.
Qed.

(* ... and what they accept is exactly the texts whose number the type holds *)
Corollary reading_by_number t inp v : first_int inp = Some v -> read_direct t inp = by_number t (nz v).
Proof.
  intros E. unfold read_direct. rewrite E. apply recognize_by_number. exact (first_int_well_kinded inp v E).
Qed.

(* a printed value of the type reads back, by either path *)
Corollary printed_value_reads_back t z : in_ty t z = true ->
  read_direct t (print_int z) = Some z /\ read_via_model t (print_int z) = Some z.
Proof.
  intros H. destruct (printed_integer_is_an_integer_text z) as [v [E Hz]].
  rewrite <- reading_paths_agree. rewrite (reading_by_number t _ v (int_of_text_first _ _ E)), Hz. unfold by_number. now rewrite H.
Qed.

(* ---- MessagePack ---- *)
Definition fixed_width (t : ity) : bool := match t with TBigInt | TBigUint => false | _ => true end.

Lemma scalar_event_well_kinded m v : wf m -> event_of_scalar m = Some v -> well_kinded v = true.
Proof.
  destruct m; cbn [event_of_scalar wf]; intros W E; try discriminate; injection E as <-;
    unfold well_kinded, fits_i64, fits_u64; cbn [nk nz].
  - destruct (n <? 256)%N eqn:?; lia.
  - lia.
  - reflexivity.
  - lia.
Qed.

Lemma scalar_event_number t z : in_ty t z = true ->
  exists v, event_of_scalar (scalar_of_value (to_value t z)) = Some v /\ nz v = z.
Proof.
  intros H. unfold in_ty in H.
  destruct t; cbn [to_value scalar_of_value];
    try (destruct (z <? 0) eqn:?); cbn [event_of_scalar]; eexists; (split; [reflexivity|]); cbn [nz]; lia.
Qed.

Lemma fixed_scalar_wf t z : fixed_width t = true -> in_ty t z = true -> wf (scalar_of_value (to_value t z)).
Proof.
  intros F H. unfold in_ty in H.
  destruct t; try discriminate; cbn [to_value scalar_of_value];
    try (destruct (z <? 0) eqn:?); cbn [wf]; lia.
Qed.

(* a value written as MessagePack and read back is unchanged: every fixed-width integer type ... *)
Theorem msgpack_roundtrip t z : fixed_width t = true -> in_ty t z = true ->
  read_msgpack t (write_msgpack t z) = Some z.
Proof.
  intros F H. unfold read_msgpack, write_msgpack.
  pose proof (fixed_scalar_wf t z F H) as W.
  pose proof (scalar_roundtrip _ [] W) as R. rewrite app_nil_r in R. rewrite R.
  destruct (scalar_event_number t z H) as [v [E Hz]]. rewrite E.
  rewrite (recognize_by_number t v (scalar_event_well_kinded _ v W E)), Hz. unfold by_number. now rewrite H.
Qed.

(* ... and the big integers whose magnitude fits the extension's 32 bit length *)
Theorem msgpack_roundtrip_big t z : in_ty t z = true -> wf (scalar_of_value (to_value t z)) ->
  read_msgpack t (write_msgpack t z) = Some z.
Proof.
  intros H W. unfold read_msgpack, write_msgpack.
  pose proof (scalar_roundtrip _ [] W) as R. rewrite app_nil_r in R. rewrite R.
  destruct (scalar_event_number t z H) as [v [E Hz]]. rewrite E.
  rewrite (recognize_by_number t v (scalar_event_well_kinded _ v W E)), Hz. unfold by_number. now rewrite H.
Qed.

(* bytes that were written for one integer type are read by another exactly when it holds the number *)
Theorem msgpack_across_types t u z : fixed_width t = true -> in_ty t z = true ->
  read_msgpack u (write_msgpack t z) = by_number u z.
Proof.
  intros F H. unfold read_msgpack, write_msgpack.
  pose proof (fixed_scalar_wf t z F H) as W.
  pose proof (scalar_roundtrip _ [] W) as R. rewrite app_nil_r in R. rewrite R.
  destruct (scalar_event_number t z H) as [v [E Hz]]. rewrite E.
  now rewrite (recognize_by_number u v (scalar_event_well_kinded _ v W E)), Hz.
Qed.

Example form_int_witness :
  read_direct TI32 [50; 49; 52; 55; 52; 56; 51; 54; 52; 56]%N = None /\            (* 2147483648 *)
  read_via_model TI32 [50; 49; 52; 55; 52; 56; 51; 54; 52; 56]%N = None /\
  read_direct TU32 [50; 49; 52; 55; 52; 56; 51; 54; 52; 56]%N = Some 2147483648 /\
  read_direct TNonZeroUsize [48]%N = None /\ read_direct TUsize [48]%N = Some 0 /\
  read_direct TU64 [45; 49]%N = None /\ read_direct TBigUint [45; 49]%N = None /\ read_direct TBigInt [45; 49]%N = Some (-1) /\
  write_msgpack TI64 (-1) = [255]%N /\ write_msgpack TU64 300 = [205; 1; 44]%N /\
  read_msgpack TI32 (write_msgpack TU64 300) = Some 300 /\ read_msgpack TU32 (write_msgpack TI64 (-1)) = None /\
  in_ty TI64 (-9223372036854775808) = true /\ fixed_width TI64 = true.
Proof. repeat split; vm_compute; reflexivity. Qed.
