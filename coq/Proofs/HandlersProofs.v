(* C06: the handler machine ([run], the model of run_handler over the combinators' state machines)
   computes exactly what the depth-first reference interpreter ([eval]) says. *)
From SwimV Require Import Model.Handlers.
Open Scope N_scope.

Definition result := (outcome * store * list event)%type.

Section Lc.
Variable lc : lifecycle.

(* ---- more fuel never changes a result ---- *)
Lemma conseq_mono (k1 k2 : handler -> store -> list event -> option result) m st tr r :
  (forall c st tr r, k1 c st tr = Some r -> k2 c st tr = Some r) ->
  conseq k1 lc m st tr = Some r -> conseq k2 lc m st tr = Some r.
Proof.
  intros Hk. unfold conseq. destruct m as [it|]; [|auto].
  destruct (item_event lc st it) as [[c|] st2]; auto.
Qed.

Lemma run_mono g : forall s st tr r, run g lc s st tr = Some r -> forall k, run (g + k) lc s st tr = Some r.
Proof.
  induction g as [|g IH]; intros s st tr r H k; [discriminate|].
  cbn [Nat.add run] in *.
  destruct (step s st tr) as [[[[kind m] s'] st1] tr1].
  destruct kind.
  - destruct (conseq (fun c => run g lc (init c)) lc m st1 tr1) as [[[o st3] tr3]|] eqn:E; [|discriminate].
    rewrite (conseq_mono _ (fun c => run (g + k) lc (init c)) _ _ _ _ (fun c st tr r Hc => IH _ _ _ _ Hc k) E).
    destruct o; [|exact H]. now apply IH.
  - destruct (conseq (fun c => run g lc (init c)) lc m st1 tr1) as [[[o st3] tr3]|] eqn:E; [|discriminate].
    rewrite (conseq_mono _ (fun c => run (g + k) lc (init c)) _ _ _ _ (fun c st tr r Hc => IH _ _ _ _ Hc k) E).
    exact H.
  - exact H.
Qed.

Lemma run_mono_le g g' s st tr r : run g lc s st tr = Some r -> (g <= g')%nat -> run g' lc s st tr = Some r.
Proof. intros H L. replace g' with (g + (g' - g))%nat by lia. now apply run_mono. Qed.

Lemma eval_mono f : forall h st tr r, eval f lc h st tr = Some r -> forall k, eval (f + k) lc h st tr = Some r.
Proof.
  induction f as [|f IH]; intros h st tr r H k; [discriminate|].
  cbn [Nat.add eval] in *.
  assert (Hc : forall m st tr r, conseq (eval f lc) lc m st tr = Some r -> conseq (eval (f + k) lc) lc m st tr = Some r).
  { intros m0 st0 tr0 r0. apply conseq_mono. intros c st' tr' r' Hc. now apply IH. }
  destruct h; auto.
  all: destruct (eval f lc h1 st tr) as [[[o st1] tr1]|] eqn:E; [|discriminate].
  all: rewrite (IH _ _ _ _ E k); destruct o; auto.
Qed.

Lemma eval_mono_le f f' h st tr r : eval f lc h st tr = Some r -> (f <= f')%nat -> eval f' lc h st tr = Some r.
Proof. intros H L. replace f' with (f + (f' - f))%nat by lia. now apply eval_mono. Qed.

Lemma run_unfold g s st tr :
  run (S g) lc s st tr =
  match step s st tr with
  | (RFail, _, _, st1, tr1) => Some (Failed, st1, tr1)
  | (r, m, h', st1, tr1) =>
      match conseq (fun c => run g lc (init c)) lc m st1 tr1 with
      | None => None
      | Some (Failed, st3, tr3) => Some (Failed, st3, tr3)
      | Some (Ok, st3, tr3) => match r with RCont => run g lc h' st3 tr3 | _ => Some (Ok, st3, tr3) end
      end
  end.
Proof. reflexivity. Qed.

(* ---- FollowedBy::Second is transparent ---- *)
Lemma run_second g : forall sb st tr, run g lc (SSecond sb) st tr = run g lc sb st tr.
Proof.
  induction g as [|g IH]; intros sb st tr; [reflexivity|].
  cbn [run step]. destruct (step sb st tr) as [[[[kind m] s'] st1] tr1].
  destruct kind; try reflexivity.
  destruct (conseq (fun c => run g lc (init c)) lc m st1 tr1) as [[[o st3] tr3]|]; [|reflexivity].
  destruct o; [|reflexivity]. apply IH.
Qed.

(* ---- FollowedBy::First: the first handler, then (if it did not fail) the second ---- *)
Lemma run_first g : forall sa b st tr o st1 tr1,
  run g lc sa st tr = Some (o, st1, tr1) ->
  match o with
  | Failed => run g lc (SFirst sa b) st tr = Some (Failed, st1, tr1)
  | Ok => forall gb r, run gb lc (init b) st1 tr1 = Some r -> run (g + gb) lc (SFirst sa b) st tr = Some r
  end.
Proof.
  induction g as [|g IH]; intros sa b st tr o st1 tr1 H; [discriminate|].
  cbn [run] in H.
  assert (Hc : forall gb m st2 tr2 r, conseq (fun c => run g lc (init c)) lc m st2 tr2 = Some r ->
                 conseq (fun c => run (g + gb) lc (init c)) lc m st2 tr2 = Some r).
  { intros gb m0 st0 tr0 r0. apply conseq_mono. intros c st' tr' r' Hr. now apply run_mono. }
  destruct (step sa st tr) as [[[[kind m] sa'] st2] tr2] eqn:Es.
  destruct kind.
  - (* the first handler continues *)
    destruct (conseq (fun c => run g lc (init c)) lc m st2 tr2) as [[[o3 st3] tr3]|] eqn:E; [|discriminate].
    destruct o3.
    + specialize (IH sa' b st3 tr3 o st1 tr1 H). destruct o.
      * intros gb r Hb. cbn [Nat.add run step]. rewrite Es, (Hc gb _ _ _ _ E). now apply IH.
      * cbn [run step]. rewrite Es, E. exact IH.
    + injection H as Ho Hs Ht. subst. cbn [run step]. now rewrite Es, E.
  - (* the first handler completes: on to the second *)
    destruct (conseq (fun c => run g lc (init c)) lc m st2 tr2) as [[[o3 st3] tr3]|] eqn:E; [|discriminate].
    destruct o3.
    + injection H as Ho Hs Ht. subst. intros gb r Hb. cbn [Nat.add run step]. rewrite Es, (Hc gb _ _ _ _ E).
      rewrite run_second. apply run_mono_le with gb; [exact Hb|lia].
    + injection H as Ho Hs Ht. subst. cbn [run step]. now rewrite Es, E.
  - injection H as Ho Hs Ht. subst. cbn [run step]. now rewrite Es.
Qed.

(* the converse: a run of FollowedBy splits into a run of the first and (unless that failed) of the second *)
Lemma run_first_inv g : forall sa b st tr r,
  run g lc (SFirst sa b) st tr = Some r ->
  (exists st1 tr1, run g lc sa st tr = Some (Ok, st1, tr1) /\ run g lc (init b) st1 tr1 = Some r)
  \/ (exists st1 tr1, r = (Failed, st1, tr1) /\ run g lc sa st tr = Some r).
Proof.
  induction g as [|g IH]; intros sa b st tr r H; [discriminate|].
  cbn [run step] in H. rewrite (run_unfold g sa).
  destruct (step sa st tr) as [[[[kind m] sa'] st2] tr2].
  destruct kind.
  - destruct (conseq (fun c => run g lc (init c)) lc m st2 tr2) as [[[o3 st3] tr3]|] eqn:E; [|discriminate].
    destruct o3.
    + destruct (IH _ _ _ _ _ H) as [(st1 & tr1 & Ha & Hb)|(st1 & tr1 & -> & Ha)].
      * left. exists st1, tr1. split; [exact Ha|]. apply run_mono_le with g; [exact Hb|lia].
      * right. exists st1, tr1. auto.
    + injection H as Hr. subst r. right. eauto.
  - destruct (conseq (fun c => run g lc (init c)) lc m st2 tr2) as [[[o3 st3] tr3]|] eqn:E; [|discriminate].
    destruct o3.
    + rewrite run_second in H. left. exists st3, tr3. split; [reflexivity|].
      apply run_mono_le with g; [exact H|lia].
    + injection H as Hr. subst r. right. eauto.
  - injection H as Hr. subst r. right. eauto.
Qed.

(* ---- the machine reaches every result of the reference interpreter ---- *)
Theorem eval_run f : forall h st tr r, eval f lc h st tr = Some r -> exists g, run g lc (init h) st tr = Some r.
Proof.
  induction f as [|f IH]; intros h st tr r H; [discriminate|].
  (* a modification made by a primitive that completes in one step *)
  assert (Hmod : forall it st1, conseq (eval f lc) lc (Some it) st1 tr = Some r ->
            exists g, conseq (fun c => run g lc (init c)) lc (Some it) st1 tr = Some r).
  { intros it st1 Hc. unfold conseq in *. destruct (item_event lc st1 it) as [[c|] st2].
    - destruct (IH _ _ _ _ Hc) as [g Hg]. now exists g.
    - now exists 0%nat. }
  cbn [eval] in H. destruct h.
  - exists 1%nat. exact H.
  - exists 1%nat. exact H.
  - exists 1%nat. exact H.
  - destruct (Hmod _ _ H) as [g Hg]. exists (S g). cbn [run init step]. rewrite Hg. now destruct r as [[[] ?] ?].
  - exists 2%nat. exact H.
  - destruct (Hmod _ _ H) as [g Hg]. exists (S (S g)). cbn [run init step conseq].
    unfold conseq in Hg. rewrite Hg. now destruct r as [[[] ?] ?].
  - destruct (Hmod _ _ H) as [g Hg]. exists (S g). cbn [run init step]. rewrite Hg. now destruct r as [[[] ?] ?].
  - destruct (Hmod _ _ H) as [g Hg]. exists (S g). cbn [run init step]. rewrite Hg. now destruct r as [[[] ?] ?].
  - destruct (Hmod _ _ H) as [g Hg]. exists (S g). cbn [run init step]. rewrite Hg. now destruct r as [[[] ?] ?].
  - destruct (Hmod _ _ H) as [g Hg]. exists (S g). cbn [run init step]. rewrite Hg. now destruct r as [[[] ?] ?].
  - exists 2%nat. exact H.
  - destruct (eval f lc h1 st tr) as [[[o st1] tr1]|] eqn:Ea; [|discriminate].
    destruct (IH _ _ _ _ Ea) as [ga Ha]. cbn [init].
    pose proof (run_first ga (init h1) h2 st tr o st1 tr1 Ha) as Hf. destruct o.
    + destruct (IH _ _ _ _ H) as [gb Hb]. exists (ga + gb)%nat. now apply Hf.
    + injection H as <-. exists ga. exact Hf.
  - destruct (eval f lc h1 st tr) as [[[o st1] tr1]|] eqn:Ea; [|discriminate].
    destruct (IH _ _ _ _ Ea) as [ga Ha]. cbn [init].
    pose proof (run_first ga (init h1) h2 st tr o st1 tr1 Ha) as Hf. destruct o.
    + destruct (IH _ _ _ _ H) as [gb Hb]. exists (ga + gb)%nat. now apply Hf.
    + injection H as <-. exists ga. exact Hf.
  - (* a result transformer is transparent *)
    destruct (IH _ _ _ _ H) as [g Hg]. exists g. cbn [init]. now rewrite run_second.
Qed.

(* ---- and produces no other ---- *)
Theorem run_eval g : forall h st tr r, run g lc (init h) st tr = Some r -> exists f, eval f lc h st tr = Some r.
Proof.
  induction g as [g IHg] using lt_wf_ind. intros h. induction h as [| e | | l v | l | src dst d | l k v | l k | l | l k d | l k | a IHa b IHb | a IHa b IHb | a IHa];
    intros st tr r H.
  1-11: (destruct g as [|g]; [discriminate|]; cbn [run init step conseq] in H).
  - exists 1%nat. exact H.
  - exists 1%nat. exact H.
  - exists 1%nat. exact H.
  - (* HSetV *)
    destruct (item_event lc (do_set st l v) (IVal l)) as [[c|] st2] eqn:Ei.
    + destruct (run g lc (init c) st2 tr) as [[[o st3] tr3]|] eqn:Ec; [|discriminate].
      destruct (IHg g (Nat.lt_succ_diag_r g) _ _ _ _ Ec) as [f Hf]. exists (S f). cbn [eval conseq]. rewrite Ei, Hf.
      now destruct o.
    + exists 1%nat. cbn [eval conseq]. rewrite Ei. exact H.
  - (* HGetV *)
    destruct g as [|g]; [discriminate|]. exists 1%nat. exact H.
  - (* HCopy *)
    destruct g as [|g]; [discriminate|]. cbn [run step conseq] in H.
    destruct (item_event lc (do_set st dst (v_content (vget st src) + d)) (IVal dst)) as [[c|] st2] eqn:Ei.
    + destruct (run g lc (init c) st2 tr) as [[[o st3] tr3]|] eqn:Ec; [|discriminate].
      assert (Hlt : (g < S (S g))%nat) by lia.
      destruct (IHg g Hlt _ _ _ _ Ec) as [f Hf]. exists (S f). cbn [eval conseq]. rewrite Ei, Hf. now destruct o.
    + exists 1%nat. cbn [eval conseq]. rewrite Ei. exact H.
  - (* HUpdM *)
    destruct (item_event lc (do_update st l k v) (IMap l)) as [[c|] st2] eqn:Ei.
    + destruct (run g lc (init c) st2 tr) as [[[o st3] tr3]|] eqn:Ec; [|discriminate].
      destruct (IHg g (Nat.lt_succ_diag_r g) _ _ _ _ Ec) as [f Hf]. exists (S f). cbn [eval conseq]. rewrite Ei, Hf.
      now destruct o.
    + exists 1%nat. cbn [eval conseq]. rewrite Ei. exact H.
  - (* HRemM *)
    destruct (item_event lc (do_remove st l k) (IMap l)) as [[c|] st2] eqn:Ei.
    + destruct (run g lc (init c) st2 tr) as [[[o st3] tr3]|] eqn:Ec; [|discriminate].
      destruct (IHg g (Nat.lt_succ_diag_r g) _ _ _ _ Ec) as [f Hf]. exists (S f). cbn [eval conseq]. rewrite Ei, Hf.
      now destruct o.
    + exists 1%nat. cbn [eval conseq]. rewrite Ei. exact H.
  - (* HClrM *)
    destruct (item_event lc (do_clear st l) (IMap l)) as [[c|] st2] eqn:Ei.
    + destruct (run g lc (init c) st2 tr) as [[[o st3] tr3]|] eqn:Ec; [|discriminate].
      destruct (IHg g (Nat.lt_succ_diag_r g) _ _ _ _ Ec) as [f Hf]. exists (S f). cbn [eval conseq]. rewrite Ei, Hf.
      now destruct o.
    + exists 1%nat. cbn [eval conseq]. rewrite Ei. exact H.
  - (* HTrnM *)
    destruct (item_event lc (do_transform st l k d) (IMap l)) as [[c|] st2] eqn:Ei.
    + destruct (run g lc (init c) st2 tr) as [[[o st3] tr3]|] eqn:Ec; [|discriminate].
      destruct (IHg g (Nat.lt_succ_diag_r g) _ _ _ _ Ec) as [f Hf]. exists (S f). cbn [eval conseq]. rewrite Ei, Hf.
      now destruct o.
    + exists 1%nat. cbn [eval conseq]. rewrite Ei. exact H.
  - (* HGetM *)
    destruct g as [|g]; [discriminate|]. exists 1%nat. exact H.
  - (* HSeq *)
    cbn [init] in H. destruct (run_first_inv _ _ _ _ _ _ H) as [(st1 & tr1 & Ha & Hb)|(st1 & tr1 & -> & Ha)].
    + destruct (IHa _ _ _ Ha) as [fa Hfa]. destruct (IHb _ _ _ Hb) as [fb Hfb].
      exists (S (fa + fb)). cbn [eval]. rewrite (eval_mono _ _ _ _ _ Hfa fb).
      apply eval_mono_le with fb; [exact Hfb|lia].
    + destruct (IHa _ _ _ Ha) as [fa Hfa]. exists (S fa). cbn [eval]. now rewrite Hfa.
  - (* HThen *)
    cbn [init] in H. destruct (run_first_inv _ _ _ _ _ _ H) as [(st1 & tr1 & Ha & Hb)|(st1 & tr1 & -> & Ha)].
    + destruct (IHa _ _ _ Ha) as [fa Hfa]. destruct (IHb _ _ _ Hb) as [fb Hfb].
      exists (S (fa + fb)). cbn [eval]. rewrite (eval_mono _ _ _ _ _ Hfa fb).
      apply eval_mono_le with fb; [exact Hfb|lia].
    + destruct (IHa _ _ _ Ha) as [fa Hfa]. exists (S fa). cbn [eval]. now rewrite Hfa.
  - (* HWrap *)
    cbn [init] in H. rewrite run_second in H. destruct (IHa _ _ _ H) as [fa Hfa]. exists (S fa). exact Hfa.
Qed.

(* both directions *)
Theorem machine_is_depth_first h st tr r :
  (exists g, run g lc (init h) st tr = Some r) <-> (exists f, eval f lc h st tr = Some r).
Proof. split; intros [x Hx]; [eapply run_eval|eapply eval_run]; eauto. Qed.

(* and_then over a handler that produces nothing is sequencing: the modifications of its first half are
   acted on exactly as those of followed_by *)
(* discard / Some(..) / map around a handler change nothing of what it does: every modification it reports is
   acted on, in the same place *)
Lemma wrap_is_transparent g a st tr :
  run g lc (init (HWrap a)) st tr = run g lc (init a) st tr.
Proof. cbn [init]. apply run_second. Qed.

Lemma and_then_is_sequencing g a b st tr :
  run g lc (init (HThen a b)) st tr = run g lc (init (HSeq a b)) st tr.
Proof. reflexivity. Qed.

(* results do not depend on the fuel *)
Lemma run_deterministic g1 g2 s st tr r1 r2 :
  run g1 lc s st tr = Some r1 -> run g2 lc s st tr = Some r2 -> r1 = r2.
Proof.
  intros H1 H2. apply (run_mono_le _ (Nat.max g1 g2)) in H1; [|lia].
  apply (run_mono_le _ (Nat.max g1 g2)) in H2; [|lia]. congruence.
Qed.

End Lc.

(* ------------------------------------------------------------------------------------------ *)
(* consequences of the depth-first semantics *)
Section Spec.
Variable lc : lifecycle.

Lemma lookup_update {A} l (x : A) xs : lookup l (update l x xs) = Some x.
Proof.
  induction xs as [|[k v] t IH]; cbn [update lookup].
  - now rewrite N.eqb_refl.
  - destruct (k =? l) eqn:E; cbn [lookup]; rewrite E; auto.
Qed.

Lemma vget_vput st l x : vget (vput st l x) l = x.
Proof. unfold vget, vput. cbn [vals]. now rewrite lookup_update. Qed.

Lemma update_update {A} l (x y : A) xs : update l y (update l x xs) = update l y xs.
Proof.
  induction xs as [|[k v] t IH]; cbn [update].
  - now rewrite N.eqb_refl.
  - destruct (k =? l) eqn:E; cbn [update]; rewrite E; [reflexivity|now rewrite IH].
Qed.

(* the store after the lane's lifecycle handler has been handed its `previous` *)
Definition settled (st : store) (l : N) (v : Z) : store := vput st l {| v_content := v; v_prev := None |}.

(* a set triggers, exactly once and before the setter goes on: on_event(new), its body, then
   on_set(new, the value the lane held just before), its body *)
Theorem set_triggers_event_then_set f st tr l v :
  eval (S f) lc (HSetV l v) st tr =
  eval f lc (HSeq (HSeq (HRecord (EOnEvent l v)) (lc_event lc l))
                  (HSeq (HRecord (EOnSet l v (Some (v_content (vget st l))))) (lc_set lc l)))
       (settled st l v) tr.
Proof.
  cbn [eval conseq item_event]. unfold do_set. rewrite vget_vput. cbn [v_content v_prev].
  unfold settled, vput. cbn [vals maps]. now rewrite update_update.
Qed.

(* every handler only ever appends to the trace *)
Lemma trace_extends f : forall h st tr o st' tr', eval f lc h st tr = Some (o, st', tr') -> exists s, tr' = tr ++ s.
Proof.
  induction f as [|f IH]; intros h st tr o st' tr' H; [discriminate|].
  assert (Hc : forall m st1, conseq (eval f lc) lc m st1 tr = Some (o, st', tr') -> exists s, tr' = tr ++ s).
  { intros m st1 Hm. unfold conseq in Hm. destruct m as [it|].
    - destruct (item_event lc st1 it) as [[c|] st2]; [eauto|].
      injection Hm as _ _ <-. exists []. now rewrite app_nil_r.
    - injection Hm as _ _ <-. exists []. now rewrite app_nil_r. }
  cbn [eval] in H. destruct h; eauto.
  - injection H as _ _ <-. exists []. now rewrite app_nil_r.
  - injection H as _ _ <-. eauto.
  - injection H as _ _ <-. exists []. now rewrite app_nil_r.
  - injection H as _ _ <-. eauto.
  - injection H as _ _ <-. eauto.
  - destruct (eval f lc h1 st tr) as [[[o1 st1] tr1]|] eqn:Ea; [|discriminate].
    destruct (IH _ _ _ _ _ _ Ea) as [s1 ->]. destruct o1.
    + destruct (IH _ _ _ _ _ _ H) as [s2 ->]. exists (s1 ++ s2). now rewrite app_assoc.
    + injection H as _ _ <-. eauto.
  - destruct (eval f lc h1 st tr) as [[[o1 st1] tr1]|] eqn:Ea; [|discriminate].
    destruct (IH _ _ _ _ _ _ Ea) as [s1 ->]. destruct o1.
    + destruct (IH _ _ _ _ _ _ H) as [s2 ->]. exists (s1 ++ s2). now rewrite app_assoc.
    + injection H as _ _ <-. eauto.
Qed.

(* the nesting of a value lane's handlers inside the setter: the whole of on_event's cascade lies between
   the two lifecycle events, the whole of on_set's after the second, and the setter resumes after both *)
Theorem set_cascade_is_nested f st tr l v st' tr' :
  eval (S (S (S f))) lc (HSetV l v) st tr = Some (Ok, st', tr') ->
  exists st1 t1 t2,
    eval f lc (lc_event lc l) (settled st l v) (tr ++ [EOnEvent l v]) = Some (Ok, st1, (tr ++ [EOnEvent l v]) ++ t1) /\
    eval f lc (lc_set lc l) st1 (((tr ++ [EOnEvent l v]) ++ t1) ++ [EOnSet l v (Some (v_content (vget st l)))])
      = Some (Ok, st', (((tr ++ [EOnEvent l v]) ++ t1) ++ [EOnSet l v (Some (v_content (vget st l)))]) ++ t2) /\
    tr' = (((tr ++ [EOnEvent l v]) ++ t1) ++ [EOnSet l v (Some (v_content (vget st l)))]) ++ t2.
Proof.
  rewrite set_triggers_event_then_set. intros H.
  cbn [eval] in H.
  destruct f as [|f]; [discriminate|].
  change (eval (S f) lc (HRecord (EOnEvent l v)) (settled st l v) tr) with (Some (Ok, settled st l v, tr ++ [EOnEvent l v])) in H.
  cbn match in H.
  destruct (eval (S f) lc (lc_event lc l) (settled st l v) (tr ++ [EOnEvent l v])) as [[[o1 st1] tr1]|] eqn:E1; [|discriminate].
  destruct o1; [|discriminate].
  destruct (trace_extends _ _ _ _ _ _ _ E1) as [t1 ->].
  change (eval (S f) lc (HRecord ?e) ?s ?t) with (Some (Ok, s, t ++ [e])) in H. cbn match in H.
  destruct (trace_extends _ _ _ _ _ _ _ H) as [t2 ->].
  exists st1, t1, t2. auto.
Qed.

(* when a handler fails nothing further of it is executed ... *)
Theorem failure_stops_the_rest f a b st tr st1 tr1 :
  eval f lc a st tr = Some (Failed, st1, tr1) -> eval (S f) lc (HSeq a b) st tr = Some (Failed, st1, tr1).
Proof. intros H. cbn [eval]. now rewrite H. Qed.

(* ... nor of the handler it interrupted: a failing lifecycle handler fails the setter at that point *)
Theorem failure_in_cascade_fails_the_setter f st tr l v st1 tr1 :
  eval f lc (HSeq (HSeq (HRecord (EOnEvent l v)) (lc_event lc l))
                  (HSeq (HRecord (EOnSet l v (Some (v_content (vget st l))))) (lc_set lc l)))
       (settled st l v) tr = Some (Failed, st1, tr1) ->
  forall rest, eval (S (S f)) lc (HSeq (HSetV l v) rest) st tr = Some (Failed, st1, tr1).
Proof.
  intros H rest. apply failure_stops_the_rest. now rewrite set_triggers_event_then_set.
Qed.

(* a handler that does not change a lane triggers nothing *)
Theorem reads_trigger_nothing f st tr l :
  eval (S f) lc (HGetV l) st tr = Some (Ok, st, tr ++ [EGot l (v_content (vget st l))]).
Proof. reflexivity. Qed.

(* removing a key that is not there changes nothing and triggers nothing *)
Lemma mget_mput st l x : mget (mput st l x) l = x.
Proof. unfold mget, mput. cbn [maps]. now rewrite lookup_update. Qed.

Theorem remove_absent_triggers_nothing f st tr l k :
  m_prev (mget st l) = None -> zlookup k (m_content (mget st l)) = None ->
  eval (S f) lc (HRemM l k) st tr = Some (Ok, st, tr).
Proof.
  intros Hp Hk. cbn [eval conseq item_event]. unfold do_remove. rewrite Hk, Hp. reflexivity.
Qed.

(* an update triggers on_update with the true previous entry, exactly once *)
Theorem update_triggers_on_update f st tr l k v :
  eval (S f) lc (HUpdM l k v) st tr =
  eval f lc (HSeq (HRecord (EOnUpdate l k (zlookup k (m_content (mget st l)))
                                     (match zlookup k (zinsert k v (m_content (mget st l))) with Some x => x | None => 0%Z end)))
                  (lc_update lc l))
       (mput st l {| m_content := zinsert k v (m_content (mget st l)); m_prev := None |}) tr.
Proof.
  cbn [eval conseq item_event]. unfold do_update. rewrite mget_mput. cbn [m_prev m_content].
  unfold mput. cbn [vals maps]. now rewrite update_update.
Qed.

Lemma zlookup_zinsert k v m : zlookup k (zinsert k v m) = Some v.
Proof.
  induction m as [|[k' v'] t IH]; cbn [zinsert zlookup].
  - now rewrite Z.eqb_refl.
  - destruct (k' =? k)%Z eqn:E; cbn [zlookup].
    + now rewrite Z.eqb_refl.
    + destruct (k <? k')%Z; cbn [zlookup]; [now rewrite Z.eqb_refl|]. now rewrite E.
Qed.

(* ---- the agent: top-level handlers one after the other ---- *)
Lemma run_all_app g hs1 : forall hs2 st tr,
  run_all g lc (hs1 ++ hs2) st tr =
  match run_all g lc hs1 st tr with
  | Some (Ok, st1, tr1) => run_all g lc hs2 st1 tr1
  | ow => ow
  end.
Proof.
  induction hs1 as [|[h|h] t IH]; intros hs2 st tr; cbn [app run_all]; [reflexivity| |].
  - destruct (run g lc (init h) st tr) as [[[[] st1] tr1]|]; auto.
  - destruct (run g lc (init h) st tr) as [[[o st1] tr1]|]; auto.
Qed.

(* a failure of on_start, of a suspended handler or of on_stop is final: nothing runs after it *)
Theorem agent_failure_is_final g hs1 h hs2 st tr st1 tr1 st2 tr2 :
  run_all g lc hs1 st tr = Some (Ok, st1, tr1) ->
  run g lc (init h) st1 tr1 = Some (Failed, st2, tr2) ->
  run_all g lc (hs1 ++ TMain h :: hs2) st tr = Some (Failed, st2, tr2).
Proof. intros H1 H2. rewrite run_all_app, H1. cbn [run_all]. now rewrite H2. Qed.

(* a failing handler of a lane command is abandoned where it failed; the agent goes on from that state *)
Theorem command_failure_is_contained g hs1 h hs2 st tr st1 tr1 st2 tr2 :
  run_all g lc hs1 st tr = Some (Ok, st1, tr1) ->
  run g lc (init h) st1 tr1 = Some (Failed, st2, tr2) ->
  run_all g lc (hs1 ++ TCmd h :: hs2) st tr = run_all g lc hs2 st2 tr2.
Proof. intros H1 H2. rewrite run_all_app, H1. cbn [run_all]. now rewrite H2. Qed.

End Spec.

(* ------------------------------------------------------------------------------------------ *)
(* acyclic programs terminate: if every lifecycle handler of an item only modifies items of lower rank, every
   handler runs to completion (or failure) - there is no endless cascade *)
Section Termination.
Variable lc : lifecycle.
Variable rank : item -> nat.

Fixpoint modifies_below (r : nat) (h : handler) : Prop :=
  match h with
  | HSetV l _ => (rank (IVal l) < r)%nat
  | HCopy _ dst _ => (rank (IVal dst) < r)%nat
  | HUpdM l _ _ | HRemM l _ | HClrM l | HTrnM l _ _ => (rank (IMap l) < r)%nat
  | HSeq a b | HThen a b => modifies_below r a /\ modifies_below r b
  | HWrap a => modifies_below r a
  | _ => True
  end.

Definition stratified : Prop :=
  forall l,
    modifies_below (rank (IVal l)) (lc_event lc l) /\ modifies_below (rank (IVal l)) (lc_set lc l) /\
    modifies_below (rank (IMap l)) (lc_update lc l) /\ modifies_below (rank (IMap l)) (lc_remove lc l) /\
    modifies_below (rank (IMap l)) (lc_clear lc l).

Lemma item_event_below st it c st' : stratified -> item_event lc st it = (Some c, st') -> modifies_below (rank it) c.
Proof.
  intros Hs H. destruct it as [l|l]; cbn [item_event] in H.
  - injection H as <- _. destruct (Hs l) as (H1 & H2 & _). cbn [modifies_below]. tauto.
  - destruct (m_prev (mget st l)) as [[k old|k old|old]|]; [| | |discriminate]; injection H as <- _;
      destruct (Hs l) as (_ & _ & H3 & H4 & H5); cbn [modifies_below]; tauto.
Qed.

Theorem acyclic_programs_terminate : stratified ->
  forall r h, modifies_below r h -> forall st tr, exists f res, eval f lc h st tr = Some res.
Proof.
  intros Hs r. induction r as [r IHr] using lt_wf_ind.
  (* a modification of an item of rank below r *)
  assert (Hmod : forall it st1 tr, (rank it < r)%nat ->
            exists f res, conseq (eval f lc) lc (Some it) st1 tr = Some res).
  { intros it st1 tr Hlt. unfold conseq. destruct (item_event lc st1 it) as [[c|] st2] eqn:Ei.
    - destruct (IHr _ Hlt c (item_event_below _ _ _ _ Hs Ei) st2 tr) as (f & res & Hf). now exists f, res.
    - exists O. eauto. }
  induction h as [| e | | l v | l | src dst d | l k v | l k | l | l k d | l k | a IHa b IHb | a IHa b IHb | a IHa]; intros Hb st tr.
  - exists 1%nat. eexists. reflexivity.
  - exists 1%nat. eexists. reflexivity.
  - exists 1%nat. eexists. reflexivity.
  - destruct (Hmod (IVal l) (do_set st l v) tr Hb) as (f & res & Hf). exists (S f), res. exact Hf.
  - exists 1%nat. eexists. reflexivity.
  - destruct (Hmod (IVal dst) (do_set st dst (v_content (vget st src) + d)%Z) tr Hb) as (f & res & Hf). exists (S f), res. exact Hf.
  - destruct (Hmod (IMap l) (do_update st l k v) tr Hb) as (f & res & Hf). exists (S f), res. exact Hf.
  - destruct (Hmod (IMap l) (do_remove st l k) tr Hb) as (f & res & Hf). exists (S f), res. exact Hf.
  - destruct (Hmod (IMap l) (do_clear st l) tr Hb) as (f & res & Hf). exists (S f), res. exact Hf.
  - destruct (Hmod (IMap l) (do_transform st l k d) tr Hb) as (f & res & Hf). exists (S f), res. exact Hf.
  - exists 1%nat. eexists. reflexivity.
  - destruct Hb as [Ha Hb]. destruct (IHa Ha st tr) as (fa & [[oa st1] tr1] & Hfa). destruct oa.
    + destruct (IHb Hb st1 tr1) as (fb & rb & Hfb). exists (S (fa + fb)), rb. cbn [eval].
      rewrite (eval_mono lc _ _ _ _ _ Hfa fb). apply (eval_mono_le lc fb); [exact Hfb|lia].
    + exists (S fa). eexists. cbn [eval]. rewrite Hfa. reflexivity.
  - destruct Hb as [Ha Hb]. destruct (IHa Ha st tr) as (fa & [[oa st1] tr1] & Hfa). destruct oa.
    + destruct (IHb Hb st1 tr1) as (fb & rb & Hfb). exists (S (fa + fb)), rb. cbn [eval].
      rewrite (eval_mono lc _ _ _ _ _ Hfa fb). apply (eval_mono_le lc fb); [exact Hfb|lia].
    + exists (S fa). eexists. cbn [eval]. rewrite Hfa. reflexivity.
  - cbn [modifies_below] in Hb. destruct (IHa Hb st tr) as (fa & ra & Hfa). exists (S fa), ra. exact Hfa.
Qed.

End Termination.
