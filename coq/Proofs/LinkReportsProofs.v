(* C20 at the level of the write task: whatever sequence of operations the write task's state goes through, every
   recorded link belongs to a remote that is attached, so what the reporters show (the recorded links) is the number of
   remotes actually linked, for every lane and for the agent. *)
From SwimV Require Import Model.LinkReports Proofs.UplinksProofs.
From Coq Require Import Lia.
Open Scope N_scope.

Definition wrun_state (w : wstate) (ops : list wop) : wstate := fold_left (fun w o => fst (wstep w o)) ops w.

(* every recorded link belongs to an attached remote *)
Definition links_live (w : wstate) : Prop := forall p, In p (w_links w) -> has_remote w (snd p) = true.

(* ---- what the helpers leave alone ---- *)
Lemma start_links w r t : w_links (start w r t) = w_links w.
Proof. destruct t; reflexivity. Qed.
Lemma start_has w r t x : has_remote (start w r t) x = has_remote w x.
Proof. destruct t; reflexivity. Qed.
Lemma start_nlanes w r t : w_nlanes (start w r t) = w_nlanes w.
Proof. destruct t; reflexivity. Qed.

Lemma with_remote_links w r f : w_links (with_remote w r f) = w_links w.
Proof. unfold with_remote. destruct (aget r (w_remotes w)); [|reflexivity]. destruct (f u). now rewrite start_links. Qed.

Lemma with_remote_nlanes w r f : w_nlanes (with_remote w r f) = w_nlanes w.
Proof. unfold with_remote. destruct (aget r (w_remotes w)); [|reflexivity]. destruct (f u). now rewrite start_nlanes. Qed.

Lemma with_remote_has w r f x : has_remote (with_remote w r f) x = has_remote w x.
Proof.
  unfold with_remote. destruct (aget r (w_remotes w)) as [u|] eqn:E; [|reflexivity].
  destruct (f u) as [u' t]. rewrite start_has. unfold has_remote. cbn [w_remotes].
  rewrite aget_aput. destruct (N.eqb_spec x r) as [->|NE]; [now rewrite E|reflexivity].
Qed.

Lemma set_links_has w ls x : has_remote (set_links w ls) x = has_remote w x.
Proof. reflexivity. Qed.

(* a fold of [with_remote] over any list of pairs changes neither the links nor which remotes are attached *)
Lemma fold_with_remote_same (g : wstate -> N * N -> wstate) :
  (forall w p, w_links (g w p) = w_links w /\ (forall x, has_remote (g w p) x = has_remote w x)) ->
  forall ps w, w_links (fold_left g ps w) = w_links w /\ (forall x, has_remote (fold_left g ps w) x = has_remote w x).
Proof.
  intros H ps. induction ps as [|p ps IH]; intros w; cbn [fold_left]; [split; reflexivity|].
  destruct (IH (g w p)) as [A B]. destruct (H w p) as [C D]. split; [now rewrite A|intros x; now rewrite B].
Qed.

Lemma In_link_add l r ls p : In p (link_add l r ls) -> In p ls \/ p = (l, r).
Proof.
  unfold link_add. destruct (linked l r ls); [now left|]. intros H. apply in_app_or in H as [H|[H|[]]]; [now left|now right].
Qed.

Lemma In_link_del l r ls p : In p (link_del l r ls) -> In p ls.
Proof. unfold link_del. intros H. now apply filter_In in H. Qed.

(* ---- one operation ---- *)
Lemma step_links_live w o : links_live w -> links_live (fst (wstep w o)).
Proof.
  intros L. unfold links_live in *. destruct o as [r | r name | r name | r name | lane [r|] rs | r | lane | | r]; cbn [wstep fst].
  - (* attach *) intros p Hp. unfold has_remote. cbn [w_remotes w_links] in *. rewrite aget_aput.
    destruct (snd p =? r); [reflexivity|]. exact (L p Hp).
  - (* link *) destruct ((name <? w_nlanes w) && has_remote w r) eqn:G; cbn [fst]; [|exact L].
    apply andb_true_iff in G as [_ G]. intros p Hp. rewrite with_remote_links in Hp. rewrite with_remote_has, set_links_has.
    cbn [set_links w_links] in Hp. apply In_link_add in Hp as [Hp| ->]; [exact (L p Hp)|exact G].
  - (* unlink *) destruct ((name <? w_nlanes w) && linked name r (w_links w)); cbn [fst]; [|exact L].
    intros p Hp. rewrite with_remote_links in Hp. rewrite with_remote_has, set_links_has.
    cbn [set_links w_links] in Hp. apply In_link_del in Hp. exact (L p Hp).
  - (* unknown lane *) intros p Hp. rewrite with_remote_links in Hp. rewrite with_remote_has. exact (L p Hp).
  - (* an answer for one remote *)
    destruct (has_remote w r) eqn:G; cbn [negb fst]; [|exact L].
    destruct (linked lane r (w_links w)); cbn [fst].
    + intros p Hp. rewrite with_remote_links in Hp. rewrite with_remote_has. exact (L p Hp).
    + intros p Hp. rewrite !with_remote_links in Hp. rewrite !with_remote_has, set_links_has.
      cbn [set_links w_links] in Hp. apply In_link_add in Hp as [Hp| ->]; [exact (L p Hp)|exact G].
  - (* a broadcast *)
    match goal with |- forall p, In p (w_links (fold_left ?g ?ps ?w0)) -> _ =>
      assert (HG : forall w1 p, w_links (g w1 p) = w_links w1 /\ (forall x, has_remote (g w1 p) x = has_remote w1 x)); [|destruct (fold_with_remote_same g HG ps w0) as [A B]] end.
    { intros w1 p. destruct (fst p =? lane); [|split; reflexivity]. split; [apply with_remote_links|apply with_remote_has]. }
    intros p Hp. rewrite A in Hp. rewrite B. exact (L p Hp).
  - (* a write completes *)
    destruct (aget r (w_inflight w)); cbn [fst]; [|exact L].
    intros p Hp. rewrite with_remote_links in Hp. rewrite with_remote_has. exact (L p Hp).
  - (* a lane fails *)
    match goal with |- forall p, In p (w_links (fold_left ?g ?ps ?w0)) -> _ =>
      assert (HG : forall w1 p, w_links (g w1 p) = w_links w1 /\ (forall x, has_remote (g w1 p) x = has_remote w1 x)); [|destruct (fold_with_remote_same g HG ps w0) as [A B]] end.
    { intros w1 p. destruct (fst p =? lane); [|split; reflexivity]. split; [apply with_remote_links|apply with_remote_has]. }
    intros p Hp. rewrite A in Hp. rewrite B, set_links_has. cbn [set_links w_links] in Hp.
    apply filter_In in Hp as [Hp _]. exact (L p Hp).
  - (* all links closed *)
    match goal with |- forall p, In p (w_links (fold_left ?g ?ps ?w0)) -> _ =>
      assert (HG : forall w1 p, w_links (g w1 p) = w_links w1 /\ (forall x, has_remote (g w1 p) x = has_remote w1 x)); [|destruct (fold_with_remote_same g HG ps w0) as [A B]] end.
    { intros w1 p. split; [apply with_remote_links|apply with_remote_has]. }
    intros p Hp. rewrite A in Hp. cbn [set_links w_links] in Hp. destruct Hp.
  - (* a remote goes away: its links go with it *)
    intros p Hp. cbn [w_links] in Hp. apply filter_In in Hp as [Hp Hr].
    unfold has_remote. cbn [w_remotes]. rewrite aget_adel. apply negb_true_iff in Hr. rewrite Hr. exact (L p Hp).
Qed.

Theorem links_live_reachable nl ops : links_live (wrun_state (wstate0 nl) ops).
Proof.
  assert (G : forall ops w, links_live w -> links_live (wrun_state w ops)).
  { clear. intros ops. induction ops as [|o ops IH]; intros w L; [exact L|]. apply IH, step_links_live, L. }
  apply G. intros p [].
Qed.

Lemma filter_all_true {A} (f : A -> bool) l : (forall x, In x l -> f x = true) -> filter f l = l.
Proof.
  induction l as [|a l IH]; intros H; [reflexivity|]. cbn [filter]. rewrite (H a (or_introl eq_refl)).
  f_equal. apply IH. intros x Hx. apply H. now right.
Qed.

(* what the reporters show is what is true: for every lane and for the agent, after any sequence of operations *)
Theorem reported_counts_are_true nl ops :
  let w := wrun_state (wstate0 nl) ops in report w = true_report w.
Proof.
  intros w. pose proof (links_live_reachable nl ops) as L. fold w in L.
  assert (E : live_links w = w_links w) by (apply filter_all_true; exact L).
  unfold report, true_report, lane_links, live_lane_links, all_links. now rewrite E.
Qed.

(* the run used by the correspondence is this run *)
Lemma wrun_reports_state ops : forall w, map fst (wrun_reports w ops) =
  map (fun k => report (wrun_state w (firstn (S k) ops))) (seq 0 (length ops)).
Proof.
  induction ops as [|o ops IH]; intros w; [reflexivity|].
  cbn [wrun_reports map length seq fst firstn]. f_equal.
  rewrite IH, <- seq_shift, map_map. reflexivity.
Qed.

(* a remote that goes away takes its links with it, whatever the lanes *)
Theorem removed_remote_has_no_links nl ops r :
  let w := wrun_state (wstate0 nl) (ops ++ [ORemoveRemote r]) in forall l, linked l r (w_links w) = false.
Proof.
  intros w l. destruct (linked l r (w_links w)) eqn:E; [|reflexivity]. exfalso.
  assert (In (l, r) (w_links w)).
  { clear -E. induction (w_links w) as [|p t IH]; [discriminate|]. cbn [linked] in E. apply orb_true_iff in E as [E|E].
    - left. unfold pair_eqb in E. apply andb_true_iff in E as [A B]. apply N.eqb_eq in A, B. destruct p; cbn in *; now subst.
    - right. now apply IH. }
  subst w. unfold wrun_state in H. rewrite fold_left_app in H. cbn [fold_left wstep fst w_links] in H.
  apply filter_In in H as [_ H]. cbn [snd] in H. now rewrite N.eqb_refl in H.
Qed.

Example link_reports_witness :
  let ops := [OAddRemote 1; OLink 1 0; OLink 2 0; OEvent 1 (Some 2) (RValue [7]); OAddRemote 2; OLink 2 0;
              OEvent 0 None (RValue [8]); ORemoveRemote 1; OEvent 0 (Some 1) (RSynced KValue)] in
  map fst (wrun_reports (wstate0 2) ops) =
    [([0; 0], 0); ([1; 0], 1); ([1; 0], 1); ([1; 0], 1); ([1; 0], 1); ([2; 0], 2); ([2; 0], 2); ([1; 0], 1); ([1; 0], 1)]
  /\ map snd (wrun_reports (wstate0 2) ops) = [None; None; None; None; None; None; Some (0, 2); None; None].
Proof. vm_compute. split; reflexivity. Qed.
