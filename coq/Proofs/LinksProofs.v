(* Proofs about Model/Links.v: the link counts reported for each lane and for the agent are exact. *)
From SwimV Require Import Model.Links.
From Coq Require Import ZifyNat ZifyN ZifyBool.

(* ---- sets ---- *)
Fixpoint lt_all (x : N) (s : list N) : Prop :=
  match s with [] => True | y :: t => x < y /\ lt_all x t end.
Fixpoint sortedN (s : list N) : Prop :=
  match s with [] => True | x :: t => lt_all x t /\ sortedN t end.

Lemma lt_all_trans x y s : x < y -> lt_all y s -> lt_all x s.
Proof. induction s as [|z t IH]; simpl; auto. intros H [H1 H2]. split; [lia|auto]. Qed.

Lemma lt_all_not_mem x s : lt_all x s -> set_mem x s = false.
Proof.
  induction s as [|y t IH]; simpl; auto. intros [H1 H2]. rewrite IH by auto.
  destruct (N.eqb_spec x y); [lia|reflexivity].
Qed.

Lemma set_insert_lt_all z x s : z < x -> lt_all z s -> lt_all z (set_insert x s).
Proof.
  induction s as [|y t IH]; simpl; intros Hz H.
  - auto.
  - destruct H as [H1 H2]. destruct (x <? y); [simpl; auto|].
    destruct (x =? y); simpl; auto.
Qed.

Lemma set_insert_sorted x s : sortedN s -> sortedN (set_insert x s).
Proof.
  induction s as [|y t IH]; simpl; auto. intros [H1 H2].
  destruct (N.ltb_spec x y).
  - simpl. repeat split; auto. apply lt_all_trans with y; auto.
  - destruct (N.eqb_spec x y); simpl; auto. split; auto.
    apply set_insert_lt_all; auto. lia.
Qed.

Lemma len_cons x s : len (x :: s) = N.succ (len s).
Proof. unfold len. cbn [length]. now rewrite Nat2N.inj_succ. Qed.
Lemma len_nil : len [] = 0.
Proof. reflexivity. Qed.
Lemma len_app a b : len (a ++ b) = len a + len b.
Proof. unfold len. rewrite app_length. lia. Qed.
Lemma len_map_fst_pairs (lane : N) rs : len (map fst (map (fun r : N => (lane, r)) rs)) = len rs.
Proof. unfold len. now rewrite !map_length. Qed.
Global Opaque len.

Lemma set_insert_len x s : sortedN s ->
  len (set_insert x s) = if set_mem x s then len s else len s + 1.
Proof.
  induction s as [|y t IH]; cbn [set_insert set_mem sortedN]; intros H.
  - rewrite !len_cons, len_nil. lia.
  - destruct H as [H1 H2]. destruct (N.ltb_spec x y).
    + assert (x =? y = false) as -> by (apply N.eqb_neq; lia). cbn [orb].
      rewrite (lt_all_not_mem x t) by (apply lt_all_trans with y; auto). rewrite !len_cons. lia.
    + destruct (N.eqb_spec x y); cbn [orb].
      * reflexivity.
      * specialize (IH H2). rewrite !len_cons. destruct (set_mem x t); lia.
Qed.

Lemma set_remove_lt_all z x s : lt_all z s -> lt_all z (set_remove x s).
Proof.
  induction s as [|y t IH]; simpl; auto. intros [H1 H2]. destruct (x =? y); simpl; auto.
Qed.

Lemma set_remove_sorted x s : sortedN s -> sortedN (set_remove x s).
Proof.
  induction s as [|y t IH]; simpl; auto. intros [H1 H2]. destruct (x =? y); simpl; auto.
  split; auto. now apply set_remove_lt_all.
Qed.

Lemma set_mem_len_pos x s : set_mem x s = true -> 0 < len s.
Proof. destruct s; cbn [set_mem]; [discriminate|]. rewrite len_cons. lia. Qed.

Lemma set_remove_len x s :
  len (set_remove x s) = if set_mem x s then N.pred (len s) else len s.
Proof.
  induction s as [|y t IH]; cbn [set_remove set_mem]; auto.
  destruct (x =? y); cbn [orb]; rewrite ?len_cons; [lia|].
  destruct (set_mem x t) eqn:E; [|lia]. pose proof (set_mem_len_pos _ _ E). lia.
Qed.

(* ---- association lists ---- *)
Definition fsum (f : list (N * lanelinks)) : N :=
  fold_right (fun e acc => len (ll_remotes (snd e)) + acc) 0 f.

Lemma fsum_aset_some k ll ll' f : alookup k f = Some ll ->
  fsum (aset k ll' f) + len (ll_remotes ll) = fsum f + len (ll_remotes ll').
Proof.
  induction f as [|[k0 v0] t IH]; simpl; [discriminate|].
  destruct (k =? k0); simpl.
  - intros H; inversion H; subst. lia.
  - intros H. specialize (IH H). lia.
Qed.

Lemma fsum_aset_none k ll' f : alookup k f = None ->
  fsum (aset k ll' f) = fsum f + len (ll_remotes ll').
Proof.
  induction f as [|[k0 v0] t IH]; simpl; [lia|].
  destruct (k =? k0); simpl; [discriminate|]. intros H. rewrite IH by auto. lia.
Qed.

Lemma fsum_aremove k ll f : alookup k f = Some ll ->
  fsum (aremove k f) + len (ll_remotes ll) = fsum f.
Proof.
  induction f as [|[k0 v0] t IH]; simpl; [discriminate|].
  destruct (k =? k0); simpl.
  - intros H; inversion H; subst. lia.
  - intros H. specialize (IH H). lia.
Qed.

Lemma Forall_aset {A} (P : N * A -> Prop) k v f :
  (forall k', P (k', v)) -> Forall P f -> Forall P (aset k v f).
Proof.
  intros Hv. induction f as [|[k0 v0] t IH]; simpl; intros H.
  - constructor; auto.
  - inversion H; subst. destruct (k =? k0); constructor; auto.
Qed.

Lemma Forall_aremove {A} (P : N * A -> Prop) k f : Forall P f -> Forall P (aremove k f).
Proof.
  induction f as [|[k0 v0] t IH]; simpl; intros H; auto.
  inversion H; subst. destruct (k =? k0); auto.
Qed.

Lemma Forall_alookup {A} (P : N * A -> Prop) k v f :
  (forall k1 k2 x, P (k1, x) -> P (k2, x)) -> Forall P f -> alookup k f = Some v -> P (k, v).
Proof.
  intros Hk. induction f as [|[k0 v0] t IH]; simpl; intros H; [discriminate|].
  inversion H; subst. destruct (k =? k0).
  - intros E; inversion E; subst. eapply Hk; eauto.
  - auto.
Qed.

(* ---- the invariant ---- *)
Definition entry_sorted (e : N * lanelinks) : Prop := sortedN (ll_remotes (snd e)).
Definition entry_count_ok (e : N * lanelinks) : Prop :=
  match ll_reporter (snd e) with
  | Some (_, c) => c_links c = len (ll_remotes (snd e))
  | None => True
  end.

Definition Inv (l : links) : Prop :=
  total l = fsum (forward l) /\
  Forall entry_sorted (forward l) /\
  Forall entry_count_ok (forward l) /\
  match agg l with Some a => c_links a = total l | None => True end.

(* register_lane hands out fresh lane ids: the lane has no links when its reporter is attached *)
Definition ok_op (l : links) (o : op) : Prop :=
  match o with
  | RegisterLane lane true => ll_remotes (fwd_get l lane) = []
  | _ => True
  end.

Lemma inv_init a : Inv (init a).
Proof. unfold Inv, init; destruct a; simpl; repeat split; auto. Qed.

Lemma fwd_get_sorted l lane : Forall entry_sorted (forward l) -> sortedN (ll_remotes (fwd_get l lane)).
Proof.
  intros H. unfold fwd_get. destruct (alookup lane (forward l)) eqn:E; simpl; auto.
  apply (Forall_alookup entry_sorted lane l0 (forward l)); auto.
Qed.

Lemma fwd_get_count l lane : Forall entry_count_ok (forward l) ->
  match ll_reporter (fwd_get l lane) with
  | Some (_, c) => c_links c = len (ll_remotes (fwd_get l lane)) | None => True end.
Proof.
  intros H. unfold fwd_get. destruct (alookup lane (forward l)) eqn:E; simpl; auto.
  apply (Forall_alookup entry_count_ok lane l0 (forward l)); auto.
Qed.

Lemma fsum_fwd_get l lane ll' :
  fsum (aset lane ll' (forward l)) + len (ll_remotes (fwd_get l lane)) =
  fsum (forward l) + len (ll_remotes ll').
Proof.
  unfold fwd_get. destruct (alookup lane (forward l)) eqn:E.
  - now apply fsum_aset_some.
  - rewrite fsum_aset_none by auto. cbn [ll_default ll_remotes]. rewrite len_nil. lia.
Qed.

Lemma agg_links_report n a : match agg_report (set_uplinks n) a with Some c => c_links c = n | None => True end.
Proof. destruct a; simpl; auto. Qed.

Lemma ll_remove_spec ll remote tot ll' tot' :
  ll_remove ll remote tot = (ll', tot') ->
  sortedN (ll_remotes ll) -> entry_count_ok (0, ll) -> len (ll_remotes ll) <= tot ->
  sortedN (ll_remotes ll') /\ entry_count_ok (0, ll') /\
  tot' + len (ll_remotes ll) = tot + len (ll_remotes ll') /\
  (ll_reporter ll = None <-> ll_reporter ll' = None).
Proof.
  unfold ll_remove, entry_count_ok, ll_report. simpl. intros H Hs Hc Hle.
  destruct (set_mem remote (ll_remotes ll)) eqn:EM; inversion H; subst; clear H; simpl.
  - pose proof (set_remove_len remote (ll_remotes ll)) as HL. rewrite EM in HL.
    pose proof (set_mem_len_pos _ _ EM) as HP.
    repeat split.
    + now apply set_remove_sorted.
    + destruct (ll_reporter ll) as [[k c]|]; simpl; auto.
    + lia.
    + destruct (ll_reporter ll) as [[k c]|]; simpl; auto; discriminate.
    + destruct (ll_reporter ll) as [[k c]|]; simpl; auto; discriminate.
  - repeat split; auto.
Qed.

Lemma entry_ok_key {P : N * lanelinks -> Prop} :
  (P = entry_sorted \/ P = entry_count_ok) -> forall k1 k2 x, P (k1, x) -> P (k2, x).
Proof. intros [->| ->]; auto. Qed.

Lemma fsum_ge_lookup k ll f : alookup k f = Some ll -> len (ll_remotes ll) <= fsum f.
Proof.
  induction f as [|[k0 v0] t IH]; simpl; [discriminate|]. destruct (k =? k0).
  - intros H; inversion H; subst. lia.
  - intros H. specialize (IH H). lia.
Qed.

Lemma remove_remote_loop_spec remote lanes : forall f tot f' tot',
  remove_remote_loop f tot remote lanes = (f', tot') ->
  tot = fsum f -> Forall entry_sorted f -> Forall entry_count_ok f ->
  tot' = fsum f' /\ Forall entry_sorted f' /\ Forall entry_count_ok f'.
Proof.
  induction lanes as [|lane t IH]; simpl; intros f tot f' tot' H Ht Hs Hc.
  - inversion H; subst. auto.
  - destruct (alookup lane f) as [ll|] eqn:E; [|eapply IH; eauto].
    destruct (ll_remove ll remote tot) as [ll' tot1] eqn:ER.
    assert (Hs0 : sortedN (ll_remotes ll)) by
      (apply (Forall_alookup entry_sorted lane ll f); auto).
    assert (Hc0 : entry_count_ok (0, ll)) by
      (apply (Forall_alookup entry_count_ok lane ll f); auto).
    pose proof (fsum_ge_lookup _ _ _ E) as Hge.
    destruct (ll_remove_spec _ _ _ _ _ ER Hs0 Hc0) as (S1 & C1 & T1 & R1); [lia|].
    eapply IH; [exact H| | |].
    + destruct (ll_remotes ll') eqn:ERs; [destruct (ll_reporter ll') eqn:ERp|].
      * pose proof (fsum_aset_some lane ll ll' f E) as F. try rewrite ERs in *. rewrite ?len_nil in *. lia.
      * pose proof (fsum_aremove lane ll f E) as F. try rewrite ERs in *. rewrite ?len_nil in *. lia.
      * pose proof (fsum_aset_some lane ll ll' f E) as F. try rewrite ERs in *. lia.
    + destruct (ll_remotes ll') eqn:ERs; [destruct (ll_reporter ll') eqn:ERp|];
        try (apply Forall_aset; auto; intros; unfold entry_sorted; simpl; rewrite ?ERs; auto);
        try (apply Forall_aremove; auto).
      all: unfold entry_sorted in *; simpl in *; rewrite ERs in S1; exact S1.
    + destruct (ll_remotes ll') eqn:ERs; [destruct (ll_reporter ll') eqn:ERp|];
        try (apply Forall_aset; auto; intros; exact C1);
        try (apply Forall_aremove; auto).
Qed.

Lemma take_all_spec f : forall f' ps, take_all f = (f', ps) ->
  fsum f' = 0 /\ len (map fst ps) = fsum f /\ Forall entry_sorted f' /\ Forall entry_count_ok f'.
Proof.
  induction f as [|[lane ll] t IH]; simpl; intros f' ps H.
  - inversion H; subst. simpl. repeat split; auto.
  - destruct (take_all t) as [t' ps'] eqn:E. inversion H; subst; clear H.
    destruct (IH _ _ eq_refl) as (A & B & C & D). simpl. repeat split.
    + rewrite len_nil. lia.
    + rewrite map_app, len_app, len_map_fst_pairs. lia.
    + constructor; auto. unfold entry_sorted; simpl; auto.
    + constructor; auto. unfold entry_count_ok, ll_report; simpl.
      destruct (ll_reporter ll) as [[k c]|]; simpl; auto.
Qed.

Lemma fwd_upd_rep_spec rep g f :
  (forall c, c_links (g c) = c_links c) ->
  fsum (fwd_upd_rep rep g f) = fsum f /\
  (Forall entry_sorted f -> Forall entry_sorted (fwd_upd_rep rep g f)) /\
  (Forall entry_count_ok f -> Forall entry_count_ok (fwd_upd_rep rep g f)).
Proof.
  intros Hg. induction f as [|[lane ll] t IH]; simpl; [auto|].
  destruct IH as (A & B & C).
  destruct (ll_reporter ll) as [[k c]|] eqn:ER.
  - destruct (Nat.eqb k rep); simpl.
    + repeat split; auto; intros H; inversion H; subst; constructor; auto.
      unfold entry_count_ok in *; simpl in *. rewrite ER in *. rewrite Hg. auto.
    + rewrite A. repeat split; auto; intros H; inversion H; subst; constructor; auto.
  - simpl. rewrite A. repeat split; auto; intros H; inversion H; subst; constructor; auto.
Qed.

Ltac inv4 := unfold Inv; cbn [fst forward backwards total agg next_rep with_fwd_agg];
             split; [|split; [|split]].

Theorem step_inv l o : Inv l -> ok_op l o -> Inv (fst (step l o)).
Proof.
  intros HI Hok. pose proof HI as (Ht & Hs & Hc & Ha). unfold step.
  destruct o as [lane wr|lane remote|lane remote|remote|lane| |lane|lane|rep n|rep|lane|remote|remote lane].
  - (* RegisterLane *)
    destruct wr; [|exact HI]. simpl in Hok. inv4.
    + pose proof (fsum_fwd_get l lane {| ll_remotes := ll_remotes (fwd_get l lane);
                                        ll_reporter := Some (next_rep l, cell0) |}) as F.
      cbn [ll_remotes] in F. lia.
    + apply Forall_aset; auto. intros. unfold entry_sorted; simpl. now apply fwd_get_sorted.
    + apply Forall_aset; auto. intros. unfold entry_count_ok; simpl. rewrite Hok. now rewrite len_nil.
    + exact Ha.
  - (* Insert *)
    pose proof (fwd_get_sorted l lane Hs) as S0. pose proof (fwd_get_count l lane Hc) as C0.
    pose proof (set_insert_len remote _ S0) as L.
    set (ll := fwd_get l lane) in *.
    inv4.
    + pose proof (fsum_fwd_get l lane {| ll_remotes := set_insert remote (ll_remotes ll);
         ll_reporter := if negb (set_mem remote (ll_remotes ll))
                        then ll_report (set_uplinks (len (set_insert remote (ll_remotes ll)))) ll
                        else ll_reporter ll |}) as F.
      cbn [ll_remotes] in F. fold ll in F. destruct (set_mem remote (ll_remotes ll)); cbn [negb] in *; lia.
    + apply Forall_aset; auto. intros. unfold entry_sorted; simpl. now apply set_insert_sorted.
    + apply Forall_aset; auto. intros. unfold entry_count_ok, ll_report; cbn [snd ll_remotes ll_reporter].
      destruct (set_mem remote (ll_remotes ll)); cbn [negb].
      * destruct (ll_reporter ll) as [[k c]|]; auto. lia.
      * destruct (ll_reporter ll) as [[k c]|]; simpl; auto.
    + apply agg_links_report.
  - (* Remove *)
    destruct (alookup lane (forward l)) as [ll|] eqn:E.
    + destruct (ll_remove ll remote (total l)) as [ll' tot] eqn:ER.
      destruct (bwd_drop (backwards l) remote lane) as [b1 prune].
      assert (Hs0 : sortedN (ll_remotes ll)) by (apply (Forall_alookup entry_sorted lane ll (forward l)); auto).
      assert (Hc0 : entry_count_ok (0, ll)) by (apply (Forall_alookup entry_count_ok lane ll (forward l)); auto).
      pose proof (fsum_ge_lookup _ _ _ E) as Hge.
      destruct (ll_remove_spec _ _ _ _ _ ER Hs0 Hc0) as (S1 & C1 & T1 & R1); [lia|].
      inv4.
      * pose proof (fsum_aset_some lane ll ll' _ E). lia.
      * apply Forall_aset; auto.
      * apply Forall_aset; auto.
      * apply agg_links_report.
    + destruct (bwd_drop (backwards l) remote lane) as [b1 prune]. inv4; auto.
  - (* RemoveRemote *)
    destruct (remove_remote_loop (forward l) (total l) remote
                match alookup remote (backwards l) with Some x => x | None => [] end) as [f1 tot] eqn:E.
    destruct (remove_remote_loop_spec _ _ _ _ _ _ E Ht Hs Hc) as (A & B & C).
    inv4; auto. apply agg_links_report.
  - (* RemoveLane *)
    destruct (alookup lane (forward l)) as [ll|] eqn:E; [|exact HI].
    destruct (remove_lane_loop (backwards l) lane (ll_remotes ll)) as [b1 outs].
    inv4.
    + pose proof (fsum_aremove lane ll _ E). lia.
    + now apply Forall_aremove.
    + now apply Forall_aremove.
    + apply agg_links_report.
  - (* RemoveAll *)
    destruct (take_all (forward l)) as [f1 ps] eqn:E.
    destruct (take_all_spec _ _ _ E) as (A & B & C & D).
    inv4; auto.
    + lia.
    + pose proof (agg_links_report 0 (agg l)) as G. destruct (agg_report (set_uplinks 0) (agg l)); auto. lia.
  - (* CountSingle *)
    destruct (agg l) as [a|] eqn:EA; [|exact HI].
    destruct (alookup lane (forward l)) as [ll|] eqn:E; [|exact HI].
    inv4.
    + pose proof (fsum_aset_some lane ll {| ll_remotes := ll_remotes ll;
         ll_reporter := ll_report (add_events 1) ll |} _ E) as F. cbn [ll_remotes] in F. lia.
    + apply Forall_aset; auto. intros. unfold entry_sorted; simpl.
      apply (Forall_alookup entry_sorted lane ll (forward l)); auto.
    + apply Forall_aset; auto. intros. unfold entry_count_ok, ll_report; cbn [snd ll_remotes ll_reporter].
      pose proof (Forall_alookup entry_count_ok lane ll (forward l) (fun _ _ _ H => H) Hc E) as G.
      unfold entry_count_ok in G; cbn [snd] in G. destruct (ll_reporter ll) as [[k c]|]; simpl; auto.
    + exact Ha.
  - (* CountBroadcast *)
    destruct (agg l) as [a|] eqn:EA; [|exact HI].
    destruct (alookup lane (forward l)) as [ll|] eqn:E; [|exact HI].
    inv4.
    + pose proof (fsum_aset_some lane ll {| ll_remotes := ll_remotes ll;
         ll_reporter := ll_report (add_events (len (ll_remotes ll))) ll |} _ E) as F. cbn [ll_remotes] in F. lia.
    + apply Forall_aset; auto. intros. unfold entry_sorted; simpl.
      apply (Forall_alookup entry_sorted lane ll (forward l)); auto.
    + apply Forall_aset; auto. intros. unfold entry_count_ok, ll_report; cbn [snd ll_remotes ll_reporter].
      pose proof (Forall_alookup entry_count_ok lane ll (forward l) (fun _ _ _ H => H) Hc E) as G.
      unfold entry_count_ok in G; cbn [snd] in G. destruct (ll_reporter ll) as [[k c]|]; simpl; auto.
    + exact Ha.
  - (* CountCommands *)
    destruct (fwd_upd_rep_spec rep (add_commands n) (forward l)) as (A & B & C); [reflexivity|].
    destruct rep as [|rep']; [destruct (agg l) as [a|] eqn:EA|]; inv4; auto; try lia;
      try exact Ha; try exact I.
  - (* Snapshot *)
    destruct (fwd_upd_rep_spec rep take_counts (forward l)) as (A & B & C); [reflexivity|].
    destruct rep as [|rep']; [destruct (agg l) as [a|] eqn:EA|].
    + inv4; auto.
    + destruct (fwd_find_rep 0 (forward l)); [|exact HI]. inv4; auto; try lia.
    + destruct (fwd_find_rep (S rep') (forward l)); [|exact HI]. inv4; auto; try lia.
  - exact HI.
  - exact HI.
  - exact HI.
Qed.

(* ------------------------------------------------------------------------------------------ *)
Fixpoint ops_ok (l : links) (ops : list op) : Prop :=
  match ops with
  | [] => True
  | o :: rest => ok_op l o /\ ops_ok (fst (step l o)) rest
  end.

Theorem reachable_inv ops : forall l, Inv l -> ops_ok l ops -> Inv (run_state l ops).
Proof.
  induction ops as [|o rest IH]; simpl; intros l HI Hok; auto.
  destruct Hok as [H1 H2]. apply IH; auto. now apply step_inv.
Qed.

(* the (lane, remote) pairs the registry holds *)
Definition rel_of (f : list (N * lanelinks)) : list (N * N) :=
  flat_map (fun e => map (fun r => (fst e, r)) (ll_remotes (snd e))) f.

Lemma fsum_counts_links f : fsum f = len (map fst (rel_of f)).
Proof.
  induction f as [|[lane ll] t IH]; simpl.
  - now rewrite len_nil.
  - rewrite map_app, len_app, len_map_fst_pairs, IH. reflexivity.
Qed.

Theorem aggregate_snapshot_exact l a :
  Inv l -> agg l = Some a ->
  snd (step l (Snapshot 0)) = OSnap (Some (len (map fst (rel_of (forward l))), c_events a, c_commands a)).
Proof.
  intros (Ht & _ & _ & Ha) E. unfold step. rewrite E in *. simpl.
  rewrite Ha, Ht, fsum_counts_links. reflexivity.
Qed.

Lemma find_rep_entry rep f c : fwd_find_rep rep f = Some c ->
  exists lane ll, In (lane, ll) f /\ ll_reporter ll = Some (rep, c).
Proof.
  induction f as [|[lane ll] t IH]; simpl; [discriminate|].
  destruct (ll_reporter ll) as [[k c0]|] eqn:ER.
  - destruct (Nat.eqb_spec k rep).
    + intros H; inversion H; subst. exists lane, ll. split; auto.
    + intros H. destruct (IH H) as (la & l2 & A & B). exists la, l2. split; auto.
  - intros H. destruct (IH H) as (la & l2 & A & B). exists la, l2. split; auto.
Qed.

Theorem lane_snapshot_exact l rep c :
  Inv l -> (rep <> O \/ agg l = None) -> fwd_find_rep rep (forward l) = Some c ->
  snd (step l (Snapshot rep)) = OSnap (Some (c_links c, c_events c, c_commands c)) /\
  exists lane ll, In (lane, ll) (forward l) /\ ll_reporter ll = Some (rep, c) /\
                  c_links c = len (ll_remotes ll).
Proof.
  intros (Ht & _ & Hc & Ha) Hr HF. split.
  - unfold step. destruct rep as [|rep'].
    + destruct Hr as [Hr|Hr]; [congruence|]. rewrite Hr, HF. reflexivity.
    + rewrite HF. reflexivity.
  - destruct (find_rep_entry _ _ _ HF) as (lane & ll & A & B). exists lane, ll. repeat split; auto.
    rewrite Forall_forall in Hc. specialize (Hc _ A). unfold entry_count_ok in Hc. simpl in Hc.
    now rewrite B in Hc.
Qed.

Lemma alookup_aset_same {A} k (v : A) f : alookup k (aset k v f) = Some v.
Proof.
  induction f as [|[k0 v0] t IH]; simpl.
  - now rewrite N.eqb_refl.
  - destruct (k =? k0) eqn:EK; simpl; [now rewrite N.eqb_refl | now rewrite EK].
Qed.

(* counting: a broadcast adds exactly the number of linked remotes, a targeted event exactly one,
   to the lane's cell and to the aggregate cell alike *)
Theorem count_broadcast_adds l lane a ll :
  agg l = Some a -> alookup lane (forward l) = Some ll ->
  let l' := fst (step l (CountBroadcast lane)) in
  agg l' = Some (add_events (len (ll_remotes ll)) a) /\
  alookup lane (forward l') =
    Some {| ll_remotes := ll_remotes ll; ll_reporter := ll_report (add_events (len (ll_remotes ll))) ll |}.
Proof.
  intros EA E. unfold step. rewrite EA, E. simpl. split; auto. apply alookup_aset_same.
Qed.

Theorem count_single_adds l lane a ll :
  agg l = Some a -> alookup lane (forward l) = Some ll ->
  let l' := fst (step l (CountSingle lane)) in
  agg l' = Some (add_events 1 a) /\
  alookup lane (forward l') =
    Some {| ll_remotes := ll_remotes ll; ll_reporter := ll_report (add_events 1) ll |}.
Proof.
  intros EA E. unfold step. rewrite EA, E. simpl. split; auto. apply alookup_aset_same.
Qed.

Example links_nonvacuous :
  let ops := [RegisterLane 0 true; Insert 0 1; Insert 0 2; RemoveRemote 1; RemoveRemote 2; Insert 0 3;
              CountBroadcast 0; Snapshot 1; Snapshot 0] in
  ops_ok (init true) ops /\
  run (init true) ops = [OReg (Some 1%nat); OUnit; OUnit; OUnit; OUnit; OUnit; OUnit;
                         OSnap (Some (1, 1, 0)); OSnap (Some (1, 1, 0))].
Proof. split; [simpl; repeat split; reflexivity | reflexivity]. Qed.
