(* Proofs about the map-lane model (Model/MapLane.v): the key order used by drop / take, the exact
   effect of drop / take on the map, and convergence of a consumer of the lane's standard events. *)
From SwimV Require Import Model.MapLane Proofs.MapQueueProofs.
From Coq Require Import Permutation Sorted.
Open Scope N_scope.

Definition kle (a b : key) : Prop := fst a <= fst b.
Definition klt (a b : key) : Prop := fst a < fst b.

(* ---- the sort ---- *)
Lemma insert_key_perm x l : Permutation (insert_key x l) (x :: l).
Proof.
  induction l as [|a t IH]; simpl; [reflexivity|]. destruct (lt_key a x); [|reflexivity].
  rewrite IH. apply perm_swap.
Qed.

Lemma sort_keys_perm l : Permutation (sort_keys l) l.
Proof. induction l as [|a t IH]; simpl; [constructor|]. rewrite insert_key_perm. now constructor. Qed.

Lemma insert_key_sorted x l : StronglySorted kle l -> StronglySorted kle (insert_key x l).
Proof.
  induction 1 as [|a t HS IH HF]; simpl; [repeat constructor|].
  unfold lt_key. destruct (N.ltb_spec (fst a) (fst x)) as [L|L].
  - constructor; [exact IH|]. rewrite insert_key_perm.
    constructor; [unfold kle; lia|exact HF].
  - constructor; [constructor; assumption|]. constructor; [exact L|].
    eapply Forall_impl; [|exact HF]. unfold kle. intros b Hb. lia.
Qed.

Lemma sort_keys_sorted l : StronglySorted kle (sort_keys l).
Proof. induction l as [|a t IH]; simpl; [constructor|]. now apply insert_key_sorted. Qed.

Lemma sorted_strict l : StronglySorted kle l -> NoDup (map fst l) -> StronglySorted klt l.
Proof.
  induction 1 as [|a t HS IH HF]; intros ND; [constructor|]. inversion ND as [|x xs NI ND']; subst.
  constructor; [now apply IH|]. rewrite Forall_forall in *. intros b Hb. specialize (HF b Hb).
  unfold kle, klt in *. assert (fst a <> fst b); [|lia]. intros E. apply NI. rewrite E. now apply in_map.
Qed.

Lemma strict_sorted_unique l1 : forall l2, StronglySorted klt l1 -> StronglySorted klt l2 ->
  Permutation l1 l2 -> l1 = l2.
Proof.
  induction l1 as [|a t1 IH]; intros l2 S1 S2 P.
  - apply Permutation_nil in P. now subst.
  - destruct l2 as [|b t2]; [apply Permutation_sym, Permutation_nil in P; discriminate|].
    inversion S1 as [|? ? S1' F1]; subst. inversion S2 as [|? ? S2' F2]; subst.
    assert (a = b) as ->.
    { assert (In a (b :: t2)) as Ia by (eapply Permutation_in; [exact P|now left]).
      assert (In b (a :: t1)) as Ib by (eapply Permutation_in; [symmetry; exact P|now left]).
      destruct Ia as [E|Ia]; [now subst|]. destruct Ib as [E|Ib]; [now subst|].
      rewrite Forall_forall in F1, F2. specialize (F1 b Ib). specialize (F2 a Ia). unfold klt in *. lia. }
    f_equal. apply IH; auto. now apply Permutation_cons_inv in P.
Qed.

(* the keys chosen by drop / take do not depend on the order in which the map yields its keys *)
Theorem sort_keys_order_independent ks ks' : NoDup (map fst ks) -> Permutation ks ks' ->
  sort_keys ks = sort_keys ks'.
Proof.
  intros ND P. apply strict_sorted_unique.
  - apply sorted_strict; [apply sort_keys_sorted|].
    eapply Permutation_NoDup; [|exact ND]. apply Permutation_map. symmetry. apply sort_keys_perm.
  - apply sorted_strict; [apply sort_keys_sorted|].
    eapply Permutation_NoDup; [|exact ND]. apply Permutation_map.
    rewrite sort_keys_perm. exact P.
  - rewrite !sort_keys_perm. exact P.
Qed.

Theorem drop_or_take_order_independent ks ks' kind n : NoDup (map fst ks) -> Permutation ks ks' ->
  drop_or_take ks kind n = drop_or_take ks' kind n.
Proof. intros ND P. unfold drop_or_take. now rewrite (sort_keys_order_independent ks ks' ND P). Qed.

Theorem drop_take_split ks n : drop_or_take ks KDrop n ++ drop_or_take ks KTake n = sort_keys ks.
Proof. apply firstn_skipn. Qed.

Lemma sorted_app_order (l1 l2 : list key) : StronglySorted klt (l1 ++ l2) ->
  forall a b, In a l1 -> In b l2 -> klt a b.
Proof.
  induction l1 as [|x t IH]; simpl; intros S a b Ia Ib; [contradiction|].
  inversion S as [|? ? S' F]; subst. destruct Ia as [->|Ia].
  - rewrite Forall_forall in F. apply F. apply in_or_app. now right.
  - now apply IH.
Qed.

(* every key a drop removes (a take keeps) comes before every key it keeps (removes) *)
Theorem drop_take_boundary ks n a b : NoDup (map fst ks) ->
  In a (drop_or_take ks KDrop n) -> In b (drop_or_take ks KTake n) -> fst a < fst b.
Proof.
  intros ND Ia Ib. apply (sorted_app_order (drop_or_take ks KDrop n) (drop_or_take ks KTake n)); auto.
  rewrite drop_take_split. apply sorted_strict; [apply sort_keys_sorted|].
  eapply Permutation_NoDup; [|exact ND]. apply Permutation_map. symmetry. apply sort_keys_perm.
Qed.

Theorem drop_take_counts ks n :
  length (drop_or_take ks KDrop n) = Nat.min n (length ks) /\
  length (drop_or_take ks KTake n) = (length ks - n)%nat.
Proof.
  unfold drop_or_take. rewrite firstn_length, skipn_length.
  rewrite (Permutation_length (sort_keys_perm ks)). auto.
Qed.

(* ---- what drop / take does to the map ---- *)
Lemma em_remove_absent k m : em_get k m = None -> em_remove k m = m.
Proof.
  induction m as [|[k' e] t IH]; simpl; [reflexivity|]. destruct (keq k k'); [discriminate|].
  intros H. now rewrite IH.
Qed.

Lemma lane_remove_map l k : l_map (lane_remove l k) = em_remove k (l_map l).
Proof.
  unfold lane_remove. destruct (em_get k (l_map l)) eqn:E; [reflexivity|]. now rewrite em_remove_absent.
Qed.

Lemma lane_removes_map ks : forall l,
  l_map (fold_left lane_remove ks l) = fold_left (fun m k => em_remove k m) ks (l_map l).
Proof. induction ks as [|k t IH]; intros l; simpl; [reflexivity|]. now rewrite IH, lane_remove_map. Qed.

Lemma lookup_remove_all d ks : forall m, NoDup (em_classes m) ->
  lookup d (fold_left (fun m k => em_remove k m) ks m) =
  if existsb (fun k => fst k =? d) ks then None else lookup d m.
Proof.
  induction ks as [|k t IH]; intros m ND; simpl; [reflexivity|].
  rewrite IH by now apply em_remove_classes_nodup. unfold lookup. rewrite em_get_remove by assumption.
  simpl. rewrite (N.eqb_sym d). destruct (fst k =? d); simpl; [|reflexivity].
  match goal with |- (if ?b then _ else _) = _ => now destruct b end.
Qed.

(* a drop / take removes exactly the designated entries and leaves every other entry as it was *)
Theorem take_drop_exact l kind n d : NoDup (em_classes (l_map l)) ->
  lookup d (l_map (lane_drop_take l kind n)) =
  if existsb (fun k => fst k =? d) (drop_or_take (map fst (l_map l)) kind n) then None
  else lookup d (l_map l).
Proof. intros ND. unfold lane_drop_take. rewrite lane_removes_map. now apply lookup_remove_all. Qed.

(* ---- a queued entry decides its own key ---- *)
Lemma tail_untouched d a o b : unique_cls (a ++ o :: b) -> clear_only_first (a ++ o :: b) -> cls o = Some d ->
  forall j, (j < length b)%nat -> exists x, cls (nth j b EClear) = Some x /\ x <> d.
Proof.
  intros U C Ho j Hj. destruct (cls (nth j b EClear)) as [x|] eqn:Ex.
  - exists x. split; auto. intros ->.
    assert (length a = length a + S j)%nat as K; [|lia].
    apply (U (length a) (length a + S j)%nat d).
    + rewrite app_nth2, Nat.sub_diag by lia. exact Ho.
    + rewrite app_nth2 by lia. replace (length a + S j - length a)%nat with (S j) by lia. exact Ex.
    + rewrite app_length. simpl. lia.
    + rewrite app_length. simpl. lia.
  - exfalso. apply (C (length a + S j)%nat); [lia|rewrite app_length; simpl; lia|].
    rewrite app_nth2 by lia. replace (length a + S j - length a)%nat with (S j) by lia. exact Ex.
Qed.

Lemma queued_entry_decides d es e cur : unique_cls es -> clear_only_first es -> In e es -> cls e = Some d ->
  effs d es cur = eff d e cur.
Proof.
  intros U C I Hc. apply in_split in I as (a & b & ->).
  rewrite effs_app_gen, effs_cons, effs_untouched by (now apply (tail_untouched d a e b)).
  now apply eff_own_class.
Qed.

(* ---- the lane invariant ---- *)
Definition evq (l : lane) : queue := wq_events (l_wq l).
Definition phi (l : lane) : N := len (events (evq l)) + len (l_map l).

Definition LIw (m : list (key * N)) (q : queue) (rep0 : list (key * N)) : Prop :=
  NoDup (em_classes m) /\ NoDup (em_classes rep0) /\ forall d, QI d q (lookup d m) (lookup d rep0).
Definition LI (l : lane) (rep0 : list (key * N)) : Prop := LIw (l_map l) (evq l) rep0.

(* the ghost value of a queued update is the value the map holds: to_operation finds the key and
   reads exactly the value the entry stands for *)
Theorem queued_value_is_current m q rep0 k v : LIw m q rep0 -> In (EUpdate k v) (events q) ->
  em_get k m = Some v.
Proof.
  intros (_ & _ & HQ) I. destruct (HQ (fst k)) as (_ & U & C & HE).
  rewrite (queued_entry_decides (fst k) _ (EUpdate k v)) in HE by auto.
  simpl in HE. rewrite N.eqb_refl in HE. unfold lookup in HE. now rewrite em_get_key_irrelevant.
Qed.

Theorem queued_remove_is_current m q rep0 k : LIw m q rep0 -> In (ERemove k) (events q) ->
  em_get k m = None.
Proof.
  intros (_ & _ & HQ) I. destruct (HQ (fst k)) as (_ & U & C & HE).
  rewrite (queued_entry_decides (fst k) _ (ERemove k)) in HE by auto.
  simpl in HE. rewrite N.eqb_refl in HE. unfold lookup in HE. now rewrite em_get_key_irrelevant.
Qed.

Lemma LIw_push m q rep0 e : LIw m q rep0 -> len (events q) + 1 < W ->
  LIw (apply_op m e) (push q e false) rep0 /\ len (events (push q e false)) <= len (events q) + 1.
Proof.
  intros (NM & NR & HQ) HB. split.
  - split; [now apply (apply_op_eff 0)|]. split; [exact NR|]. intros d.
    destruct (apply_op_eff d m e NM) as (-> & _). now apply QI_push.
  - now destruct (QI_push 0 q _ _ e false (HQ 0) HB).
Qed.

Lemma r_put_length k v m : len (r_put k v m) <= len m + 1.
Proof.
  unfold len. induction m as [|[k' e'] t IH]; simpl; [lia|]. destruct (keq k k'); simpl; lia.
Qed.

Lemma em_remove_length k m x : em_get k m = Some x -> len (em_remove k m) + 1 = len m.
Proof.
  unfold len. induction m as [|[k' e'] t IH]; simpl; [discriminate|]. destruct (keq k k'); simpl; [lia|].
  intros H. specialize (IH H). lia.
Qed.

Lemma LI_update l rep0 k v : LI l rep0 -> phi l + 2 < W ->
  LI (lane_update l k v) rep0 /\ phi (lane_update l k v) <= phi l + 2.
Proof.
  intros H HB. unfold LI, phi, evq in *.
  destruct (LIw_push _ _ _ (EUpdate k v) H) as (H' & HL); [lia|]. split; [exact H'|].
  simpl in *. pose proof (r_put_length k v (l_map l)). lia.
Qed.

Lemma LI_remove l rep0 k : LI l rep0 -> phi l + 2 < W ->
  LI (lane_remove l k) rep0 /\ phi (lane_remove l k) <= phi l.
Proof.
  intros H HB. unfold lane_remove. destruct (em_get k (l_map l)) as [x|] eqn:EG; [|split; [exact H|lia]].
  unfold LI, phi, evq in *. destruct (LIw_push _ _ _ (ERemove k) H) as (H' & HL); [lia|]. split; [exact H'|].
  simpl in *. pose proof (em_remove_length k (l_map l) x EG). lia.
Qed.

Lemma LI_clear l rep0 : LI l rep0 -> phi l + 2 < W ->
  LI (lane_clear l) rep0 /\ phi (lane_clear l) <= phi l + 2.
Proof.
  intros H HB. unfold LI, phi, evq in *. destruct (LIw_push _ _ _ EClear H) as (H' & HL); [lia|].
  split; [exact H'|]. simpl. unfold len. simpl. lia.
Qed.

Lemma LI_removes ks : forall l rep0, LI l rep0 -> phi l + 2 < W ->
  LI (fold_left lane_remove ks l) rep0 /\ phi (fold_left lane_remove ks l) <= phi l.
Proof.
  induction ks as [|k t IH]; intros l rep0 H HB; simpl; [split; [exact H|lia]|].
  destruct (LI_remove l rep0 k H HB) as (H' & HP). destruct (IH _ rep0 H') as (H'' & HP'); [lia|].
  split; [exact H''|lia].
Qed.

(* ---- writing ---- *)
Lemma wq_pop_cases w :
  (exists e, snd (wq_pop w) = Some (WEvent e) /\ pop (wq_events w) = (wq_events (fst (wq_pop w)), Some e)) \/
  (wq_events (fst (wq_pop w)) = wq_events w /\ forall e, snd (wq_pop w) <> Some (WEvent e)).
Proof.
  unfold wq_pop.
  destruct ((wq_next_event w && negb match events (wq_events w) with [] => true | _ => false end)
            || match wq_syncs w with [] => true | _ => false end).
  - destruct (pop (wq_events w)) as [q' [e|]] eqn:EP; simpl.
    + left. exists e. auto.
    + right. split; [|intros e; discriminate]. unfold pop in EP. destruct (events (wq_events w)); now inversion EP.
  - right. destruct (nth_error (wq_syncs w) (wq_index w)) as [sq|]; [destruct (sq_keys sq)|]; simpl;
      (split; [reflexivity|intros e; discriminate]).
Qed.

Definition consume1 (rep0 : list (key * N)) (r : option lresp) : list (key * N) :=
  match r with Some (LStd e) => apply_op rep0 e | _ => rep0 end.

Lemma lane_pop_LI m fuel : forall w rep0, LIw m (wq_events w) rep0 ->
  LIw m (wq_events (fst (lane_pop fuel m w))) (consume1 rep0 (snd (lane_pop fuel m w))) /\
  len (events (wq_events (fst (lane_pop fuel m w)))) <= len (events (wq_events w)).
Proof.
  induction fuel as [|f IH]; intros w rep0 H; [cbn [lane_pop fst snd consume1]; split; [exact H|lia]|].
  cbn [lane_pop]. pose proof (wq_pop_cases w) as HC. destruct (wq_pop w) as [w' r]. simpl in HC.
  destruct HC as [(e & -> & EP)|(EQ & NE)].
  - (* an event left the queue *)
    destruct H as (NM & NR & HQ).
    assert (HP : forall d, QI d (wq_events w') (lookup d m) (eff d e (lookup d rep0)) /\
                           len (events (wq_events w')) + 1 = len (events (wq_events w))).
    { intros d. pose proof (QI_pop d _ _ _ (HQ d)) as HP. now rewrite EP in HP. }
    assert (Hin : In e (events (wq_events w))).
    { unfold pop in EP. destruct (events (wq_events w)) as [|x t]; inversion EP; subst. now left. }
    assert (H' : LIw m (wq_events w') (apply_op rep0 e)).
    { split; [exact NM|]. split; [now apply (apply_op_eff 0)|]. intros d.
      destruct (apply_op_eff d rep0 e NR) as (-> & _). apply HP. }
    destruct e as [k v|k|].
    + rewrite (queued_value_is_current m (wq_events w) rep0 k v); [|now split|exact Hin].
      simpl. split; [exact H'|]. destruct (HP 0). lia.
    + simpl. split; [exact H'|]. destruct (HP 0). lia.
    + simpl. split; [exact H'|]. destruct (HP 0). lia.
  - (* a sync entry, or nothing: the event queue is untouched *)
    rewrite <- EQ in H. destruct r as [[e|id k|id]|].
    + exfalso. now apply (NE e).
    + destruct (em_get k m).
      * simpl. split; [exact H|rewrite EQ; lia].
      * destruct (IH w' rep0 H) as (H1 & H2). split; [exact H1|rewrite <- EQ; exact H2].
    + simpl. split; [exact H|rewrite EQ; lia].
    + simpl. split; [exact H|rewrite EQ; lia].
Qed.

(* ---- whole runs ---- *)
Definition consume_out (rep0 : list (key * N)) (o : lout) : list (key * N) :=
  match o with LOWrite r _ => consume1 rep0 r | _ => rep0 end.

Fixpoint ltrack (l : lane) (rep0 : list (key * N)) (ops : list lop) : lane * list (key * N) :=
  match ops with
  | [] => (l, rep0)
  | o :: t => let (l', out) := lstep l o in ltrack l' (consume_out rep0 out) t
  end.

Lemma LI_step l rep0 o : LI l rep0 -> phi l + 2 < W ->
  LI (fst (lstep l o)) (consume_out rep0 (snd (lstep l o))) /\ phi (fst (lstep l o)) <= phi l + 2.
Proof.
  intros H HB. destruct o as [k v|k| |kind n|id| |]; cbn [lstep fst snd consume_out].
  - now apply LI_update.
  - destruct (LI_remove l rep0 k H HB). split; [assumption|lia].
  - now apply LI_clear.
  - unfold lane_drop_take. destruct (LI_removes (drop_or_take (map fst (l_map l)) kind (N.to_nat n)) l rep0 H HB).
    split; [assumption|lia].
  - split; [exact H|]. unfold phi, evq. simpl. lia.
  - pose proof (lane_pop_LI (l_map l) (S (wq_size (l_wq l))) (l_wq l) rep0 H) as (H1 & H2).
    destruct (lane_pop (S (wq_size (l_wq l))) (l_map l) (l_wq l)) as [w' r]. cbn [fst snd consume_out] in *.
    split; [exact H1|]. unfold phi, evq in *. simpl. lia.
  - split; [exact H|lia].
Qed.

Lemma ltrack_invariant ops : forall l rep0, LI l rep0 -> phi l + 2 * len ops + 2 < W ->
  let (l', rep') := ltrack l rep0 ops in LI l' rep'.
Proof.
  induction ops as [|o t IH]; intros l rep0 H HB; [exact H|].
  assert (len (o :: t) = len t + 1) as HL by (unfold len; simpl; lia). rewrite HL in HB.
  cbn [ltrack]. destruct (LI_step l rep0 o H) as (H' & HP); [lia|].
  destruct (lstep l o) as [l' out]. cbn [fst snd] in *. apply IH; [exact H'|lia].
Qed.

Lemma LI_lane0 : LI lane0 [].
Proof.
  split; [constructor|]. split; [constructor|]. intros d. apply (QI_empty d 0). unfold W. lia.
Qed.

(* C02, lane level: for every command sequence (update / remove / clear / drop / take, sync requests and
   writes interleaved in any way), a consumer that applies every standard event the lane writes holds,
   after what is still queued is applied, exactly the lane's map; once the event queue is empty it
   holds the lane's map. *)
Theorem lane_converges ops : 2 * len ops + 2 < W ->
  let (l, rep0) := ltrack lane0 [] ops in
  (forall d, effs d (events (evq l)) (lookup d rep0) = lookup d (l_map l)) /\
  (events (evq l) = [] -> forall d, lookup d rep0 = lookup d (l_map l)).
Proof.
  intros HB. pose proof (ltrack_invariant ops lane0 [] LI_lane0) as HT.
  assert (phi lane0 = 0) as HP by reflexivity. rewrite HP in HT. specialize (HT ltac:(lia)).
  destruct (ltrack lane0 [] ops) as [l rep0]. destruct HT as (_ & _ & HQ).
  split.
  - intros d. now destruct (HQ d) as (_ & _ & _ & HE).
  - intros EE d. destruct (HQ d) as (_ & _ & _ & HE). now rewrite EE in HE.
Qed.

(* ---- per-key order of what a consumer sees ---- *)
(* a popped keyed entry carries the value its key holds in the source at the moment of the pop *)
Theorem popped_entry_is_current d q src rep q' e : QI d q src rep -> pop q = (q', Some e) -> cls e = Some d ->
  eff d e rep = src.
Proof.
  intros (_ & U & C & HE) EP Hc. unfold pop in EP. destruct (events q) as [|x t] eqn:EE; [discriminate|].
  injection EP as _ Hx. subst x. rewrite <- HE. symmetry. apply queued_entry_decides; auto. now left.
Qed.

(* a clear empties the queue and then waits at its head: nothing older can follow it and nothing
   pushed later can get in front of it *)
Theorem clear_pushed_alone q keep : events (push q EClear keep) = [EClear].
Proof. reflexivity. Qed.

Lemma spush_keeps_clear_first es e : hd_error es = Some EClear -> hd_error (spush es e) = Some EClear.
Proof.
  destruct es as [|x t]; simpl; intros H; [discriminate|]. inversion H; subst x. unfold spush.
  destruct (cls e) as [c|] eqn:Ec; [|reflexivity].
  simpl. destruct (find_index c t) as [j|]; reflexivity.
Qed.

Theorem clear_not_overtaken q e keep : SI q -> len (events q) + 1 < W ->
  hd_error (events q) = Some EClear -> hd_error (events (push q e keep)) = Some EClear.
Proof.
  intros HS HB H. destruct (push_refines_gen q e keep HS HB) as (e' & _ & _ & -> & _).
  now apply spush_keeps_clear_first.
Qed.
