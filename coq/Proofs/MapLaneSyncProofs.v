(* C03, the lane side of a map sync: a remote that asks a map lane to sync builds its replica from the sync events
   addressed to it and from every standard event written from then on; when it is told synced, its replica
   followed by what is still queued in the lane gives the lane's map, key by key - whatever the commands, the
   other remotes' syncs and the writes were, and however they were interleaved. *)
From SwimV Require Import Model.MapLane Proofs.MapQueueProofs Proofs.MapLaneProofs.
From Coq Require Import Permutation.
Open Scope N_scope.

(* ---- the sync queues as a table: id -> keys still to be sent ---- *)
Fixpoint pend (id : N) (qs : list sync_queue) : option (list key) :=
  match qs with
  | [] => None
  | q :: t => if sq_id q =? id then Some (sq_keys q) else pend id t
  end.

Definition ids (qs : list sync_queue) : list N := map sq_id qs.

Lemma pend_none id qs : ~ In id (ids qs) -> pend id qs = None.
Proof.
  induction qs as [|q t IH]; cbn; [reflexivity|]. intros H. destruct (sq_id q =? id) eqn:E.
  - apply N.eqb_eq in E. tauto.
  - apply IH. tauto.
Qed.

Lemma pend_in id qs K : pend id qs = Some K -> In id (ids qs).
Proof.
  induction qs as [|q t IH]; cbn; [discriminate|]. destruct (sq_id q =? id) eqn:E.
  - apply N.eqb_eq in E. tauto.
  - intros H. right. now apply IH.
Qed.

Lemma ids_usq qs e : ids (update_sync_queues qs e) = ids qs.
Proof. unfold update_sync_queues, ids. destruct (entry_key e); rewrite map_map; reflexivity. Qed.

Definition adjust (e : entry) (K : list key) : list key :=
  match entry_key e with Some k => remove_first k K | None => [] end.

Lemma pend_usq id qs e : pend id (update_sync_queues qs e) = option_map (adjust e) (pend id qs).
Proof.
  unfold update_sync_queues, adjust. destruct (entry_key e) as [k|]; induction qs as [|q t IH]; cbn; try reflexivity;
    destruct (sq_id q =? id); auto.
Qed.

Lemma ids_set_nth qs : forall i sq x, nth_error qs i = Some sq -> sq_id x = sq_id sq -> ids (set_nth i x qs) = ids qs.
Proof.
  induction qs as [|q t IH]; intros [|i] sq x; cbn; try discriminate.
  - intros [= ->] E. now rewrite E.
  - intros H E. unfold ids in IH. now rewrite (IH i sq x H E).
Qed.

Lemma pend_nth id qs : NoDup (ids qs) -> forall i sq, nth_error qs i = Some sq -> sq_id sq = id -> pend id qs = Some (sq_keys sq).
Proof.
  induction qs as [|q t IH]; intros ND [|i] sq; cbn; try discriminate.
  - intros [= ->] ->. now rewrite N.eqb_refl.
  - intros H E. inversion ND as [|? ? Hn ND']; subst. destruct (sq_id q =? sq_id sq) eqn:E2.
    + apply N.eqb_eq in E2. exfalso. apply Hn. rewrite E2. apply in_map. now apply nth_error_In in H.
    + now apply (IH ND' i sq).
Qed.

Lemma pend_set_nth id qs : NoDup (ids qs) -> forall i sq x, nth_error qs i = Some sq -> sq_id x = sq_id sq ->
  pend id (set_nth i x qs) = if sq_id sq =? id then Some (sq_keys x) else pend id qs.
Proof.
  induction qs as [|q t IH]; intros ND [|i] sq x; cbn; try discriminate.
  - intros [= ->] E. rewrite E. destruct (sq_id sq =? id); reflexivity.
  - intros H E. inversion ND as [|? ? Hn ND']; subst. rewrite (IH ND' i sq x H E).
    destruct (sq_id q =? id) eqn:E1; [|reflexivity]. destruct (sq_id sq =? id) eqn:E2; [|reflexivity].
    apply N.eqb_eq in E1, E2. exfalso. apply Hn. rewrite E1, <- E2. apply in_map. now apply nth_error_In in H.
Qed.

Lemma ids_remove_nth i qs : ids (remove_nth i qs) = remove_nth i (ids qs).
Proof. revert i. induction qs as [|q t IH]; intros [|i]; cbn; try reflexivity. now rewrite IH. Qed.

Lemma In_remove_nth {A} i (l : list A) x : In x (remove_nth i l) -> In x l.
Proof. revert i. induction l as [|h t IH]; intros [|i]; cbn; try tauto. intros [H|H]; [tauto|]. right. now apply (IH i). Qed.

Lemma NoDup_remove_nth {A} i (l : list A) : NoDup l -> NoDup (remove_nth i l).
Proof.
  revert i. induction l as [|h t IH]; intros [|i] H; cbn; try constructor; inversion H as [|? ? Hn Ht]; subst; auto.
  - intros Hin. apply Hn. now apply In_remove_nth in Hin.
Qed.

Lemma pend_remove_nth id qs : NoDup (ids qs) -> forall i sq, nth_error qs i = Some sq ->
  pend id (remove_nth i qs) = if sq_id sq =? id then None else pend id qs.
Proof.
  induction qs as [|q t IH]; intros ND [|i] sq; cbn; try discriminate.
  - intros [= ->]. inversion ND as [|? ? Hn ND']; subst. destruct (sq_id sq =? id) eqn:E; [|reflexivity].
    apply N.eqb_eq in E. apply pend_none. now rewrite <- E.
  - intros H. inversion ND as [|? ? Hn ND']; subst. rewrite (IH ND' i sq H).
    destruct (sq_id q =? id) eqn:E1; [|reflexivity]. destruct (sq_id sq =? id) eqn:E2; [|reflexivity].
    apply N.eqb_eq in E1, E2. exfalso. apply Hn. rewrite E1, <- E2. apply in_map. now apply nth_error_In in H.
Qed.

Lemma pend_snoc id qs q : pend id (qs ++ [q]) = match pend id qs with Some K => Some K | None => if sq_id q =? id then Some (sq_keys q) else None end.
Proof. induction qs as [|h t IH]; cbn; [reflexivity|]. destruct (sq_id h =? id); [reflexivity|exact IH]. Qed.

(* ---- what popping does to the table ---- *)
Lemma wq_pop_spec w : NoDup (ids (wq_syncs w)) ->
  NoDup (ids (wq_syncs (fst (wq_pop w)))) /\
  match snd (wq_pop w) with
  | Some (WEvent e) =>
      pop (wq_events w) = (wq_events (fst (wq_pop w)), Some e) /\
      forall id, pend id (wq_syncs (fst (wq_pop w))) = option_map (adjust e) (pend id (wq_syncs w))
  | Some (WSyncEvent i k) =>
      wq_events (fst (wq_pop w)) = wq_events w /\
      exists rest, pend i (wq_syncs w) = Some (k :: rest) /\
        forall id, pend id (wq_syncs (fst (wq_pop w))) = if i =? id then Some rest else pend id (wq_syncs w)
  | Some (WSynced i) =>
      wq_events (fst (wq_pop w)) = wq_events w /\ pend i (wq_syncs w) = Some [] /\
      forall id, pend id (wq_syncs (fst (wq_pop w))) = if i =? id then None else pend id (wq_syncs w)
  | None =>
      wq_events (fst (wq_pop w)) = wq_events w /\
      forall id, pend id (wq_syncs (fst (wq_pop w))) = pend id (wq_syncs w)
  end.
Proof.
  intros ND. unfold wq_pop.
  destruct ((wq_next_event w && negb match events (wq_events w) with [] => true | _ => false end)
            || match wq_syncs w with [] => true | _ => false end).
  - destruct (pop (wq_events w)) as [q' [e|]] eqn:EP; cbn [fst snd wq_syncs wq_events].
    + split; [now rewrite ids_usq|]. split; [reflexivity|]. intros id. apply pend_usq.
    + split; [exact ND|]. split; [|reflexivity]. unfold pop in EP. destruct (events (wq_events w)); now inversion EP.
  - destruct (nth_error (wq_syncs w) (wq_index w)) as [sq|] eqn:En; [|cbn [fst snd wq_syncs wq_events]; split; [exact ND|]; split; [reflexivity|]; intros; reflexivity].
    destruct (sq_keys sq) as [|k rest] eqn:Ek; cbn [fst snd wq_syncs wq_events].
    + split; [rewrite ids_remove_nth; now apply NoDup_remove_nth|]. split; [reflexivity|].
      split; [rewrite <- Ek; now apply (pend_nth _ _ ND (wq_index w))|]. intros id. now apply pend_remove_nth.
    + split; [now rewrite (ids_set_nth _ _ sq)|]. split; [reflexivity|]. exists rest.
      split; [rewrite <- Ek; now apply (pend_nth _ _ ND (wq_index w))|]. intros id.
      now rewrite (pend_set_nth id _ ND (wq_index w) sq).
Qed.

(* ---- effects of a queue on one key ---- *)
Lemma effs_idem d es : forall a b, effs d es a = b -> effs d es b = b.
Proof.
  induction es as [|e t IH]; intros a b H; cbn in *; [reflexivity|]. fold (effs d t (eff d e a)) in H. fold (effs d t (eff d e b)).
  destruct (cls e) as [c|] eqn:Ec.
  - destruct (N.eq_dec c d) as [->|Hne].
    + now rewrite (eff_own_class d e b a Ec).
    + rewrite (eff_other_class d c e a Ec Hne) in H. rewrite (eff_other_class d c e b Ec Hne). now apply (IH a).
  - destruct e; try discriminate. exact H.
Qed.

Lemma effs_none d es : forall a, effs d es a = None -> effs d es None = None.
Proof.
  induction es as [|e t IH]; intros a H; cbn in *; [reflexivity|]. fold (effs d t (eff d e a)) in H. fold (effs d t (eff d e None)).
  destruct (cls e) as [c|] eqn:Ec.
  - destruct (N.eq_dec c d) as [->|Hne].
    + now rewrite (eff_own_class d e None a Ec).
    + rewrite (eff_other_class d c e a Ec Hne) in H. rewrite (eff_other_class d c e None Ec Hne). now apply (IH a).
  - destruct e; try discriminate. exact H.
Qed.

Lemma qi_with m q rep0 d x : LIw m q rep0 -> effs d (events q) x = lookup d m -> QI d q (lookup d m) x.
Proof. intros (_ & _ & HQ) H. destruct (HQ d) as (H1 & H2 & H3 & _). exact (conj H1 (conj H2 (conj H3 H))). Qed.

(* the queue applied to the map's own value of a key gives that value back *)
Lemma effs_current m q rep0 d : LIw m q rep0 -> effs d (events q) (lookup d m) = lookup d m.
Proof. intros (_ & _ & HQ). destruct (HQ d) as (_ & _ & _ & H). now apply (effs_idem d _ (lookup d rep0)). Qed.

Lemma effs_absent m q rep0 d : LIw m q rep0 -> lookup d m = None -> effs d (events q) None = None.
Proof. intros (_ & _ & HQ) Hn. destruct (HQ d) as (_ & _ & _ & H). rewrite Hn in H. now apply (effs_none d _ (lookup d rep0)). Qed.

(* ---- key lists ---- *)
Definition inK (d : N) (K : list key) : bool := existsb (fun k => fst k =? d) K.

Lemma inK_remove_first k K d : NoDup (map fst K) -> inK d (remove_first k K) = inK d K && negb (fst k =? d).
Proof.
  unfold inK. induction K as [|h t IH]; cbn [remove_first existsb map]; intros ND; [reflexivity|]. inversion ND as [|? ? Hn ND']; subst.
  unfold keq. destruct (fst k =? fst h) eqn:E.
  - apply N.eqb_eq in E. destruct (fst h =? d) eqn:E2.
    + apply N.eqb_eq in E2. subst d. rewrite E, N.eqb_refl. cbn.
      destruct (existsb (fun k0 => fst k0 =? fst h) t) eqn:Ex; [|reflexivity]. exfalso. apply Hn.
      apply existsb_exists in Ex as (y & Hy & Ey). apply N.eqb_eq in Ey. rewrite <- Ey. now apply in_map.
    + rewrite E, E2. cbn. now rewrite andb_true_r.
  - cbn [existsb]. rewrite (IH ND'). destruct (fst h =? d) eqn:E2; cbn; [|reflexivity].
    apply N.eqb_eq in E2. subst d. now rewrite E.
Qed.

Lemma nodup_remove_first k K : NoDup (map fst K) -> NoDup (map fst (remove_first k K)).
Proof.
  induction K as [|h t IH]; cbn [remove_first map]; intros ND; [constructor|]. inversion ND as [|? ? Hn ND']; subst.
  destruct (keq k h); [exact ND'|]. cbn [map]. constructor; [|now apply IH].
  intros Hin. apply Hn. clear - Hin. induction t as [|a t IH]; cbn [remove_first map] in *; [contradiction|].
  destruct (keq k a); [now right|]. cbn [map] in Hin. destruct Hin as [H|H]; [now left|right; now apply IH].
Qed.

Lemma inK_sorted d ks : inK d (sort_keys ks) = inK d ks.
Proof.
  unfold inK. pose proof (sort_keys_perm ks) as P.
  destruct (existsb (fun k => fst k =? d) ks) eqn:E.
  - apply existsb_exists in E as (x & Hx & Ex). apply existsb_exists. exists x. split; [|exact Ex]. eapply Permutation_in; [symmetry; exact P|exact Hx].
  - destruct (existsb (fun k => fst k =? d) (sort_keys ks)) eqn:E2; [|reflexivity].
    apply existsb_exists in E2 as (x & Hx & Ex). assert (existsb (fun k => fst k =? d) ks = true); [|congruence].
    apply existsb_exists. exists x. split; [|exact Ex]. eapply Permutation_in; [exact P|exact Hx].
Qed.

Lemma lookup_not_inK d m : inK d (map fst m) = false -> lookup d m = None.
Proof.
  unfold inK, lookup. induction m as [|[k v] t IH]; cbn [map existsb em_get fst]; [reflexivity|]. intros H.
  apply orb_false_iff in H as [H1 H2]. unfold keq. cbn [fst]. rewrite N.eqb_sym, H1. now apply IH.
Qed.

Lemma nodup_sort_keys m : NoDup (em_classes m) -> NoDup (map fst (sort_keys (map fst m))).
Proof.
  intros ND. eapply Permutation_NoDup; [apply Permutation_map; symmetry; apply sort_keys_perm|].
  unfold em_classes in ND. now rewrite map_map.
Qed.

(* ---- the invariant for one syncing remote ---- *)
Inductive sst := SNone | SSyncing | SSynced.

Definition KOK (d : N) (q : queue) (m rep : list (key * N)) (K : list key) : Prop :=
  (inK d K = true /\ lookup d rep = None) \/ effs d (events q) (lookup d rep) = lookup d m.

Definition SYI (id : N) (m : list (key * N)) (q : queue) (syncs : list sync_queue) (st : sst) (rep : list (key * N)) : Prop :=
  NoDup (em_classes rep) /\
  match st with
  | SNone => pend id syncs = None
  | SSyncing => exists K, pend id syncs = Some K /\ NoDup (map fst K) /\ forall d, KOK d q m rep K
  | SSynced => pend id syncs = None /\ forall d, effs d (events q) (lookup d rep) = lookup d m
  end.

Lemma push_key m q rep0 e d x : LIw m q rep0 -> len (events q) + 1 < W ->
  effs d (events q) x = lookup d m -> effs d (events (push q e false)) x = lookup d (apply_op m e).
Proof.
  intros HL HB H. pose proof (qi_with m q rep0 d x HL H) as HQ.
  destruct (QI_push d q _ _ e false HQ HB) as ((_ & _ & _ & HE) & _). rewrite HE.
  destruct HL as (NM & _). now destruct (apply_op_eff d m e NM) as (-> & _).
Qed.

Lemma syi_push id m q syncs st rep rep0 e : LIw m q rep0 -> len (events q) + 1 < W ->
  SYI id m q syncs st rep -> SYI id (apply_op m e) (push q e false) syncs st rep.
Proof.
  intros HL HB (NR & H). split; [exact NR|]. destruct st.
  - exact H.
  - destruct H as (K & HK & NK & HD). exists K. split; [exact HK|]. split; [exact NK|]. intros d.
    destruct (HD d) as [H1|H2]; [now left|right]. now apply (push_key m q rep0).
  - destruct H as (HP & HD). split; [exact HP|]. intros d. now apply (push_key m q rep0).
Qed.

(* what the remote does with what the lane writes *)
Definition sconsume (id : N) (st : sst) (rep : list (key * N)) (r : option lresp) : sst * list (key * N) :=
  match r with
  | Some (LStd e) => (st, match st with SNone => rep | _ => apply_op rep e end)
  | Some (LSyncEv i k v) => (st, if i =? id then r_put k v rep else rep)
  | Some (LSyncedR i) => (if i =? id then match st with SSyncing => SSynced | s => s end else st, rep)
  | None => (st, rep)
  end.

Lemma pop_key m q rep0 q' e d x : LIw m q rep0 -> pop q = (q', Some e) ->
  effs d (events q) x = lookup d m -> effs d (events q') (eff d e x) = lookup d m.
Proof.
  intros HL EP H. pose proof (QI_pop d q _ _ (qi_with m q rep0 d x HL H)) as HP. rewrite EP in HP.
  now destruct HP as ((_ & _ & _ & HE) & _).
Qed.

Lemma r_put_nodup k v rep : NoDup (em_classes rep) -> NoDup (em_classes (r_put k v rep)).
Proof. intros H. now destruct (apply_op_eff 0 rep (EUpdate k v) H). Qed.

Lemma lane_pop_SYI id m fuel : forall w rep0 st rep,
  LIw m (wq_events w) rep0 -> NoDup (ids (wq_syncs w)) -> SYI id m (wq_events w) (wq_syncs w) st rep ->
  let w' := fst (lane_pop fuel m w) in let r := snd (lane_pop fuel m w) in
  NoDup (ids (wq_syncs w')) /\
  SYI id m (wq_events w') (wq_syncs w') (fst (sconsume id st rep r)) (snd (sconsume id st rep r)).
Proof.
  induction fuel as [|f IH]; intros w rep0 st rep HL ND HS; [cbn [lane_pop fst snd sconsume]; now split|].
  cbn [lane_pop]. pose proof (wq_pop_spec w ND) as (ND' & HSpec). destruct (wq_pop w) as [w' r]. cbn [fst snd] in *.
  destruct r as [[e|i k|i]|].
  - (* an event leaves the queue *)
    destruct HSpec as (EP & HPend).
    assert (Hin : In e (events (wq_events w))).
    { unfold pop in EP. destruct (events (wq_events w)) as [|x t]; inversion EP; subst. now left. }
    (* the event as written: an update carries the map's value, which is the entry's *)
    assert (Hout : exists eo, (match e with
                               | EUpdate k _ => match em_get k m with Some v => (w', Some (LStd (EUpdate k v))) | None => lane_pop f m w' end
                               | _ => (w', Some (LStd e)) end) = (w', Some (LStd eo)) /\ (forall d x, eff d eo x = eff d e x)
                               /\ (entry_key eo = entry_key e)).
    { destruct e as [k v|k|].
      - rewrite (queued_value_is_current m (wq_events w) rep0 k v HL Hin). exists (EUpdate k v). now repeat split.
      - exists (ERemove k). now repeat split.
      - exists EClear. now repeat split. }
    destruct Hout as (eo & Eo & Heff & Hkey). rewrite Eo. cbn [fst snd sconsume].
    split; [exact ND'|]. destruct HS as (NR & HS). destruct st.
    + split; [exact NR|]. rewrite HPend, HS. reflexivity.
    + destruct HS as (K & HK & NK & HD). destruct (apply_op_eff 0 rep eo NR) as (_ & NR').
      split; [exact NR'|]. exists (adjust e K). rewrite HPend, HK. split; [reflexivity|].
      split; [unfold adjust; destruct (entry_key e); [now apply nodup_remove_first|constructor]|].
      intros d. destruct (apply_op_eff d rep eo NR) as (Hl & _). unfold KOK. rewrite Hl, Heff.
      destruct (cls e) as [c|] eqn:Ec.
      * destruct (N.eq_dec c d) as [->|Hne].
        -- (* the event is about this key: whatever the replica held, it now holds what the event says *)
           right. destruct HL as (NM & NR0 & HQ). destruct (HQ d) as (S1 & S2 & S3 & S4).
           rewrite (eff_own_class d e (lookup d rep) (lookup d rep0) Ec).
           apply (pop_key m (wq_events w) rep0 _ e d (lookup d rep0) (conj NM (conj NR0 HQ)) EP S4).
        -- rewrite (eff_other_class d c e _ Ec Hne). destruct (HD d) as [[H1 H2]|H2].
           ++ left. split; [|exact H2]. unfold adjust. unfold cls in Ec. destruct (entry_key e) as [k|]; [|discriminate].
              cbn in Ec. injection Ec as Ec. rewrite inK_remove_first by exact NK. rewrite H1. cbn.
              apply negb_true_iff. apply N.eqb_neq. congruence.
           ++ right. pose proof (pop_key m (wq_events w) rep0 _ e d _ HL EP H2) as H3.
              now rewrite (eff_other_class d c e _ Ec Hne) in H3.
      * (* a clear: every replica is emptied, all pending keys are dropped *)
        destruct e; try discriminate. right. cbn [eff].
        destruct HL as (NM & NR0 & HQ). destruct (HQ d) as (S1 & S2 & S3 & S4).
        pose proof (pop_key m (wq_events w) rep0 _ EClear d (lookup d rep0) (conj NM (conj NR0 HQ)) EP S4) as H3. exact H3.
    + destruct HS as (HP & HD). destruct (apply_op_eff 0 rep eo NR) as (_ & NR').
      split; [exact NR'|]. split; [rewrite HPend, HP; reflexivity|]. intros d.
      destruct (apply_op_eff d rep eo NR) as (Hl & _). rewrite Hl, Heff. now apply (pop_key m (wq_events w) rep0 _ e d).
  - (* a sync event *)
    destruct HSpec as (EQ & rest & HK0 & HPend).
    destruct (i =? id) eqn:Ei.
    + apply N.eqb_eq in Ei. subst i. destruct HS as (NR & HS). destruct st; try (rewrite HK0 in HS; try discriminate; destruct HS as [HS _]; discriminate).
      destruct HS as (K & HK & NK & HD). rewrite HK0 in HK. injection HK as <-. cbn [map] in NK. inversion NK as [|? ? Hnk NK']; subst.
      assert (Hother : forall d, d <> fst k -> inK d (k :: rest) = inK d rest).
      { intros d Hd. unfold inK. cbn [existsb]. apply N.eqb_neq in Hd. rewrite N.eqb_sym in Hd. now rewrite Hd. }
      destruct (em_get k m) as [v|] eqn:Eg.
      * (* delivered with the map's current value *)
        cbn [fst snd sconsume]. rewrite N.eqb_refl. split; [exact ND'|]. split; [now apply r_put_nodup|].
        exists rest. split; [rewrite HPend, N.eqb_refl; reflexivity|]. split; [exact NK'|]. intros d.
        unfold KOK. rewrite lookup_r_put, EQ. destruct (fst k =? d) eqn:Ed.
        -- apply N.eqb_eq in Ed. subst d. right.
           assert (Hm : lookup (fst k) m = Some v) by (unfold lookup; now rewrite <- em_get_key_irrelevant).
           rewrite <- Hm. now apply (effs_current m _ rep0).
        -- apply N.eqb_neq in Ed. destruct (HD d) as [[H1 H2]|H2].
           ++ left. split; [|exact H2]. rewrite <- Hother by congruence. exact H1.
           ++ right. exact H2.
      * (* the key has vanished from the map: nothing is sent for it *)
        assert (HS' : SYI id m (wq_events w') (wq_syncs w') SSyncing rep).
        { split; [exact NR|]. exists rest. split; [rewrite HPend, N.eqb_refl; reflexivity|]. split; [exact NK'|]. intros d.
          unfold KOK. rewrite EQ. destruct (N.eq_dec d (fst k)) as [->|Hd].
          - right. destruct (HD (fst k)) as [[_ H2]|H2].
            + rewrite H2. assert (Hm : lookup (fst k) m = None) by (unfold lookup; now rewrite <- em_get_key_irrelevant).
              rewrite Hm. now apply (effs_absent m _ rep0).
            + exact H2.
          - destruct (HD d) as [[H1 H2]|H2]; [left; split; [now rewrite <- Hother|exact H2]|right; exact H2]. }
        apply (IH w' rep0 SSyncing rep); [now rewrite EQ|exact ND'|exact HS'].
    + (* somebody else's *)
      assert (HS' : SYI id m (wq_events w') (wq_syncs w') st rep).
      { destruct HS as (NR & HS). split; [exact NR|]. rewrite EQ. destruct st.
        - rewrite HPend, Ei. exact HS.
        - destruct HS as (K & HK & HS). exists K. rewrite HPend, Ei. now split.
        - destruct HS as (HP & HS). rewrite HPend, Ei. now split. }
      destruct (em_get k m) as [v|].
      * cbn [fst snd sconsume]. rewrite Ei. now split.
      * apply (IH w' rep0 st rep); [now rewrite EQ|exact ND'|exact HS'].
  - (* synced *)
    destruct HSpec as (EQ & HK0 & HPend). cbn [fst snd sconsume]. split; [exact ND'|].
    destruct HS as (NR & HS). split; [destruct (i =? id); destruct st; exact NR|]. rewrite EQ.
    destruct (i =? id) eqn:Ei.
    + apply N.eqb_eq in Ei. subst i. destruct st; try (rewrite HK0 in HS; try discriminate; destruct HS as [HS _]; discriminate).
      destruct HS as (K & HK & NK & HD). rewrite HK0 in HK. injection HK as <-.
      split; [rewrite HPend, N.eqb_refl; reflexivity|]. intros d. destruct (HD d) as [[H1 _]|H2]; [discriminate|exact H2].
    + destruct st.
      * rewrite HPend, Ei. exact HS.
      * destruct HS as (K & HK & HS). exists K. rewrite HPend, Ei. now split.
      * destruct HS as (HP & HS). rewrite HPend, Ei. now split.
  - destruct HSpec as (EQ & HPend). cbn [fst snd sconsume]. split; [exact ND'|].
    destruct HS as (NR & HS). split; [exact NR|]. rewrite EQ. destruct st.
    + now rewrite HPend.
    + destruct HS as (K & HK & HS). exists K. rewrite HPend. now split.
    + destruct HS as (HP & HS). rewrite HPend. now split.
Qed.

Lemma NoDup_snoc_N (l : list N) x : NoDup l -> ~ In x l -> NoDup (l ++ [x]).
Proof.
  induction l as [|a l IH]; cbn; intros H Hn; [constructor; [tauto|constructor]|]. inversion H as [|? ? Ha Hl]; subst.
  constructor; [|apply IH; tauto]. intros Hin. apply in_app_or in Hin as [Hin|[Hin|[]]]; [tauto|subst; tauto].
Qed.

(* ---- the lane's operations ---- *)
Definition syncs_of (l : lane) : list sync_queue := wq_syncs (l_wq l).
Definition SY (id : N) (l : lane) (st : sst) (rep : list (key * N)) : Prop :=
  NoDup (ids (syncs_of l)) /\ SYI id (l_map l) (evq l) (syncs_of l) st rep.

Lemma SY_update id l rep0 st rep k v : LI l rep0 -> phi l + 2 < W -> SY id l st rep -> SY id (lane_update l k v) st rep.
Proof.
  intros HL HB (ND & HS). split; [exact ND|]. unfold LI, phi, evq in *.
  apply (syi_push id (l_map l) (wq_events (l_wq l)) (wq_syncs (l_wq l)) st rep rep0 (EUpdate k v) HL); [lia|exact HS].
Qed.

Lemma SY_remove id l rep0 st rep k : LI l rep0 -> phi l + 2 < W -> SY id l st rep -> SY id (lane_remove l k) st rep.
Proof.
  intros HL HB (ND & HS). unfold lane_remove. destruct (em_get k (l_map l)) eqn:EG; [|now split].
  split; [exact ND|]. unfold LI, phi, evq in *.
  apply (syi_push id (l_map l) (wq_events (l_wq l)) (wq_syncs (l_wq l)) st rep rep0 (ERemove k) HL); [lia|exact HS].
Qed.

Lemma SY_clear id l rep0 st rep : LI l rep0 -> phi l + 2 < W -> SY id l st rep -> SY id (lane_clear l) st rep.
Proof.
  intros HL HB (ND & HS). split; [exact ND|]. unfold LI, phi, evq in *.
  apply (syi_push id (l_map l) (wq_events (l_wq l)) (wq_syncs (l_wq l)) st rep rep0 EClear HL); [lia|exact HS].
Qed.

Lemma SY_removes id ks : forall l rep0 st rep, LI l rep0 -> phi l + 2 < W -> SY id l st rep ->
  SY id (fold_left lane_remove ks l) st rep.
Proof.
  induction ks as [|k t IH]; intros l rep0 st rep HL HB HS; cbn [fold_left]; [exact HS|].
  destruct (LI_remove l rep0 k HL HB) as (HL' & HP). apply (IH _ rep0); [exact HL'|lia|now apply (SY_remove id l rep0)].
Qed.

(* a sync request of this remote: its replica starts empty, every key of the map is to be sent *)
Lemma SY_sync_self id l rep0 : LI l rep0 -> ~ In id (ids (syncs_of l)) -> NoDup (ids (syncs_of l)) ->
  SY id (lane_sync l id) SSyncing [].
Proof.
  intros HL Hfresh ND. unfold SY, syncs_of, lane_sync, evq in *. cbn [l_wq l_map wq_syncs wq_events]. split.
  - unfold ids. rewrite map_app. cbn [map sq_id]. apply NoDup_snoc_N; [exact ND|exact Hfresh].
  - split; [constructor|]. exists (sort_keys (map fst (l_map l))).
    split; [rewrite pend_snoc, (pend_none id _ Hfresh); cbn [sq_id sq_keys]; now rewrite N.eqb_refl|].
    destruct HL as (NM & NR0 & HQ). split; [now apply nodup_sort_keys|]. intros d. unfold KOK.
    destruct (inK d (sort_keys (map fst (l_map l)))) eqn:Ein; [left; split; reflexivity|right].
    rewrite inK_sorted in Ein. rewrite (lookup_not_inK d _ Ein). change (lookup d []) with (@None N).
    apply (effs_absent (l_map l) _ rep0); [exact (conj NM (conj NR0 HQ))|now apply lookup_not_inK].
Qed.

Lemma SY_sync_other id l st rep i : i <> id -> ~ In i (ids (syncs_of l)) -> SY id l st rep -> SY id (lane_sync l i) st rep.
Proof.
  intros Hne Hfresh (ND & NR & HS). unfold SY, syncs_of, lane_sync, evq in *. cbn [l_wq l_map wq_syncs wq_events]. split.
  - unfold ids. rewrite map_app. cbn [map sq_id]. apply NoDup_snoc_N; [exact ND|exact Hfresh].
  - split; [exact NR|]. apply N.eqb_neq in Hne. destruct st.
    + rewrite pend_snoc, HS. cbn [sq_id]. now rewrite Hne.
    + destruct HS as (K & HK & HS). exists K. rewrite pend_snoc, HK. now split.
    + destruct HS as (HP & HS). rewrite pend_snoc, HP. cbn [sq_id]. rewrite Hne. now split.
Qed.

(* popping never adds a sync queue *)
Lemma wq_pop_ids w x : In x (ids (wq_syncs (fst (wq_pop w)))) -> In x (ids (wq_syncs w)).
Proof.
  unfold wq_pop.
  destruct ((wq_next_event w && negb match events (wq_events w) with [] => true | _ => false end)
            || match wq_syncs w with [] => true | _ => false end).
  - destruct (pop (wq_events w)) as [q' [e|]]; cbn [fst wq_syncs]; [now rewrite ids_usq|auto].
  - destruct (nth_error (wq_syncs w) (wq_index w)) as [sq|] eqn:En; [|cbn [fst wq_syncs]; auto].
    destruct (sq_keys sq) as [|k rest]; cbn [fst wq_syncs].
    + rewrite ids_remove_nth. apply In_remove_nth.
    + now rewrite (ids_set_nth _ _ sq).
Qed.

Lemma lane_pop_ids m fuel : forall w x, In x (ids (wq_syncs (fst (lane_pop fuel m w)))) -> In x (ids (wq_syncs w)).
Proof.
  induction fuel as [|f IH]; intros w x; cbn [lane_pop]; [auto|].
  pose proof (wq_pop_ids w x) as HP. destruct (wq_pop w) as [w' r]. cbn [fst] in HP.
  destruct r as [[e|i k|i]|]; cbn [fst]; auto.
  - destruct e as [k v|k|]; cbn [fst]; auto. destruct (em_get k m); cbn [fst]; auto.
  - destruct (em_get k m); cbn [fst]; auto.
Qed.

(* ---- whole runs ---- *)
Definition sync_ids (ops : list lop) : list N := flat_map (fun o => match o with LSync i => [i] | _ => [] end) ops.

Definition sstep (id : N) (l : lane) (st : sst) (rep : list (key * N)) (o : lop) : sst * list (key * N) :=
  match o with
  | LSync i => if i =? id then match st with SNone => (SSyncing, []) | _ => (st, rep) end else (st, rep)
  | LWrite => match snd (lstep l o) with LOWrite r _ => sconsume id st rep r | _ => (st, rep) end
  | _ => (st, rep)
  end.

Fixpoint strack (id : N) (l : lane) (rep0 : list (key * N)) (st : sst) (rep : list (key * N)) (ops : list lop)
  : lane * list (key * N) * sst * list (key * N) :=
  match ops with
  | [] => (l, rep0, st, rep)
  | o :: t =>
      let (st', rep') := sstep id l st rep o in
      strack id (fst (lstep l o)) (consume_out rep0 (snd (lstep l o))) st' rep' t
  end.

Definition FI (id : N) (seen : list N) (l : lane) (rep0 : list (key * N)) (st : sst) (rep : list (key * N)) : Prop :=
  LI l rep0 /\ SY id l st rep /\ (forall x, In x (ids (syncs_of l)) -> In x seen) /\ (st <> SNone -> In id seen).

Lemma FI_step id seen l rep0 st rep o : FI id seen l rep0 st rep -> phi l + 2 < W ->
  NoDup (seen ++ sync_ids [o]) ->
  FI id (seen ++ sync_ids [o]) (fst (lstep l o)) (consume_out rep0 (snd (lstep l o)))
     (fst (sstep id l st rep o)) (snd (sstep id l st rep o)).
Proof.
  intros (HL & HS & Hsub & Hst) HB HND.
  destruct (LI_step l rep0 o HL HB) as (HL' & _).
  assert (Hsub' : forall seen', (forall x, In x seen -> In x seen') -> forall x, In x (ids (syncs_of l)) -> In x seen') by auto.
  destruct o as [k v|k| |kind n|i| |]; cbn [sync_ids flat_map app] in *; rewrite ?app_nil_r in *.
  - split; [exact HL'|]. cbn [lstep fst snd sstep]. split; [now apply (SY_update id l rep0)|]. split; [exact Hsub|exact Hst].
  - split; [exact HL'|]. cbn [lstep fst snd sstep]. split; [now apply (SY_remove id l rep0)|]. split; [|exact Hst].
    unfold syncs_of, lane_remove. destruct (em_get k (l_map l)); exact Hsub.
  - split; [exact HL'|]. cbn [lstep fst snd sstep]. split; [now apply (SY_clear id l rep0)|]. split; [exact Hsub|exact Hst].
  - split; [exact HL'|]. cbn [lstep fst snd sstep]. split; [unfold lane_drop_take; now apply (SY_removes id _ l rep0)|]. split; [|exact Hst].
    assert (Hk : forall ks l0, syncs_of (fold_left lane_remove ks l0) = syncs_of l0).
    { induction ks as [|a ks IHk]; intros l0; cbn [fold_left]; [reflexivity|]. rewrite IHk. unfold syncs_of, lane_remove. now destruct (em_get a (l_map l0)). }
    unfold lane_drop_take. rewrite Hk. exact Hsub.
  - (* a sync request *)
    assert (Hfresh : ~ In i seen).
    { intros Hin. apply NoDup_remove_2 in HND. apply HND. rewrite app_nil_r. exact Hin. }
    assert (Hfresh' : ~ In i (ids (syncs_of l))) by (intros Hin; apply Hfresh; now apply Hsub).
    split; [exact HL'|]. cbn [lstep fst snd sstep]. destruct HS as (ND & HS0).
    assert (Hsubs : forall x, In x (ids (syncs_of (lane_sync l i))) -> In x (seen ++ [i])).
    { intros x. unfold syncs_of, lane_sync. cbn [l_wq wq_syncs]. unfold ids. rewrite map_app. cbn [map sq_id]. intros Hin.
      apply in_app_or in Hin as [Hin|[<-|[]]]; apply in_or_app; [left; now apply Hsub|right; now left]. }
    destruct (i =? id) eqn:Ei.
    + apply N.eqb_eq in Ei. subst i. destruct st.
      * cbn [fst snd]. split; [now apply (SY_sync_self id l rep0)|]. split; [exact Hsubs|]. intros _. apply in_or_app. right. now left.
      * exfalso. apply Hfresh. apply Hst. discriminate.
      * exfalso. apply Hfresh. apply Hst. discriminate.
    + cbn [fst snd]. apply N.eqb_neq in Ei. split; [apply SY_sync_other; [exact Ei|exact Hfresh'|exact (conj ND HS0)]|].
      split; [exact Hsubs|]. intros H. apply in_or_app. left. now apply Hst.
  - (* a write *)
    split; [exact HL'|]. unfold sstep. cbn [lstep].
    destruct HS as (ND & HS0).
    pose proof (lane_pop_SYI id (l_map l) (S (wq_size (l_wq l))) (l_wq l) rep0 st rep HL ND HS0) as (ND' & HS').
    pose proof (lane_pop_ids (l_map l) (S (wq_size (l_wq l))) (l_wq l)) as Hids.
    destruct (lane_pop (S (wq_size (l_wq l))) (l_map l) (l_wq l)) as [w' r]. cbn [fst snd] in *.
    split; [exact (conj ND' HS')|]. split; [intros x Hin; apply Hsub; now apply Hids|].
    intros Hne. apply Hst. destruct st; [|discriminate|discriminate]. exfalso. apply Hne.
    destruct r as [[e|i k v|i]|]; cbn [sconsume fst]; try reflexivity. now destruct (i =? id).
  - split; [exact HL'|]. cbn [lstep fst snd sstep]. split; [exact HS|]. split; [exact Hsub|exact Hst].
Qed.

Lemma NoDup_app_l {A} (a b : list A) : NoDup (a ++ b) -> NoDup a.
Proof. induction a as [|x a IH]; cbn; intros H; [constructor|]. inversion H as [|? ? Hn Ha]; subst. constructor; [|now apply IH]. intros Hin. apply Hn. apply in_or_app. now left. Qed.

Lemma sync_ids_cons o t : sync_ids (o :: t) = sync_ids [o] ++ sync_ids t.
Proof. unfold sync_ids. cbn [flat_map]. now rewrite app_nil_r. Qed.

Lemma strack_inv id ops : forall seen l rep0 st rep, FI id seen l rep0 st rep -> phi l + 2 * len ops + 2 < W ->
  NoDup (seen ++ sync_ids ops) ->
  let '(l', rep0', st', rep') := strack id l rep0 st rep ops in exists seen', FI id seen' l' rep0' st' rep'.
Proof.
  induction ops as [|o t IH]; intros seen l rep0 st rep HF HB HND; cbn [strack]; [now exists seen|].
  assert (HLn : len (o :: t) = len t + 1) by (unfold len; cbn [length]; lia). rewrite HLn in HB.
  rewrite sync_ids_cons, app_assoc in HND.
  assert (HND1 : NoDup (seen ++ sync_ids [o])) by (now apply NoDup_app_l in HND).
  pose proof (FI_step id seen l rep0 st rep o HF ltac:(lia) HND1) as HF'.
  destruct HF as (HL & _). destruct (LI_step l rep0 o HL ltac:(lia)) as (_ & HP).
  destruct (sstep id l st rep o) as [st' rep']. cbn [fst snd] in HF'.
  apply (IH (seen ++ sync_ids [o])); [exact HF'|lia|exact HND].
Qed.

Lemma FI0 id : FI id [] lane0 [] SNone [].
Proof.
  split; [apply LI_lane0|]. split; [|split; [intros x []|congruence]].
  split; [constructor|]. split; [constructor|reflexivity].
Qed.

(* C03 for map lanes: every sync id used once; commands, other remotes' syncs and writes in any order.  Once the
   remote has been told synced, its replica - built from its own sync events and every standard event written
   since its request - followed by what the lane still has queued is the lane's map, key by key; with nothing
   queued it is the lane's map. *)
Theorem sync_replica_converges id ops : NoDup (sync_ids ops) -> 2 * len ops + 2 < W ->
  let '(l, rep0, st, rep) := strack id lane0 [] SNone [] ops in
  st = SSynced ->
  (forall d, effs d (events (evq l)) (lookup d rep) = lookup d (l_map l)) /\
  (events (evq l) = [] -> forall d, lookup d rep = lookup d (l_map l)).
Proof.
  intros HND HB. pose proof (strack_inv id ops [] lane0 [] SNone [] (FI0 id)) as H.
  assert (HP : phi lane0 = 0) by reflexivity. rewrite HP in H. specialize (H ltac:(lia) HND).
  destruct (strack id lane0 [] SNone [] ops) as [[[l rep0] st] rep]. destruct H as (seen' & _ & (_ & _ & HS) & _).
  intros ->. destruct HS as (_ & HD). split; [exact HD|]. intros EE d. specialize (HD d). now rewrite EE in HD.
Qed.

(* while it is still syncing, every key it has been told about already agrees with the lane (up to what is queued);
   the others are still to come *)
Theorem syncing_replica_is_consistent id ops : NoDup (sync_ids ops) -> 2 * len ops + 2 < W ->
  let '(l, rep0, st, rep) := strack id lane0 [] SNone [] ops in
  st = SSyncing -> exists K, pend id (syncs_of l) = Some K /\
    forall d, (inK d K = true /\ lookup d rep = None) \/ effs d (events (evq l)) (lookup d rep) = lookup d (l_map l).
Proof.
  intros HND HB. pose proof (strack_inv id ops [] lane0 [] SNone [] (FI0 id)) as H.
  assert (HP : phi lane0 = 0) by reflexivity. rewrite HP in H. specialize (H ltac:(lia) HND).
  destruct (strack id lane0 [] SNone [] ops) as [[[l rep0] st] rep]. destruct H as (seen' & _ & (_ & _ & HS) & _).
  intros ->. destruct HS as (K & HK & _ & HD). now exists K.
Qed.

(* non-vacuity: a sync interleaved with changes; the synced replica equals the lane's map *)
Example sync_example :
  let ops := [LUpdate (1, 0) 5; LUpdate (2, 0) 6; LSync 9; LWrite; LWrite; LUpdate (3, 0) 7; LRemove (1, 0);
              LWrite; LWrite; LWrite; LWrite; LWrite; LWrite; LWrite; LWrite] in
  let '(l, rep0, st, rep) := strack 9 lane0 [] SNone [] ops in
  st = SSynced /\ events (evq l) = [] /\ lookup 1 rep = None /\ lookup 2 rep = Some 6 /\ lookup 3 rep = Some 7.
Proof. vm_compute. auto. Qed.
