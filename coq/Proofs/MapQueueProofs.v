(* Proofs about Model/MapQueue.v.
   1. The epoch-indexed queue (with wrapping usize arithmetic) refines a plain list queue that
      finds the entry of a key by searching the list.
   2. For the plain queue: replaying what was popped and then what is still queued gives, class by
      class, exactly the source map; so a replica fed from the queue equals the source whenever
      the queue is empty, however pushes and pops interleave (convergence under coalescing). *)
From SwimV Require Import Model.MapQueue.
From Coq Require Import ZifyN ZifyNat ZifyBool.
Open Scope N_scope.

Definition cls (e : entry) : option N := option_map fst (entry_key e).

(* ---- the reference queue ---- *)
Fixpoint find_index (c : N) (es : list entry) : option nat :=
  match es with
  | [] => None
  | e :: t => if match cls e with Some d => d =? c | None => false end then Some O
              else option_map S (find_index c t)
  end.

Definition spush (es : list entry) (e : entry) : list entry :=
  match cls e with
  | None => [EClear]
  | Some c => match find_index c es with
              | Some i => set_nth i e es
              | None => es ++ [e]
              end
  end.

Definition spop (es : list entry) : list entry * option entry :=
  match es with [] => ([], None) | e :: t => (t, Some e) end.

(* ---- list facts ---- *)
Lemma find_index_lt c es i : find_index c es = Some i -> (i < length es)%nat.
Proof.
  revert i. induction es as [|e t IH]; simpl; intros i H; [discriminate|].
  destruct (match cls e with Some d => d =? c | None => false end).
  - inversion H. lia.
  - destruct (find_index c t) as [j|]; [|discriminate]. inversion H. specialize (IH j eq_refl). lia.
Qed.

Lemma find_index_cls c es i : find_index c es = Some i -> cls (nth i es EClear) = Some c.
Proof.
  revert i. induction es as [|e t IH]; simpl; intros i H; [discriminate|].
  destruct (cls e) as [d|] eqn:E.
  - destruct (N.eqb_spec d c).
    + inversion H; subst. simpl. now rewrite E.
    + destruct (find_index c t) as [j|]; [|discriminate]. inversion H. simpl. now apply IH.
  - destruct (find_index c t) as [j|]; [|discriminate]. inversion H. simpl. now apply IH.
Qed.

Lemma find_index_set_nth c d es i e :
  find_index d es = Some i -> cls e = Some d -> find_index c (set_nth i e es) = find_index c es.
Proof.
  revert i. induction es as [|h t IH]; simpl; intros i H He; [discriminate|].
  destruct (cls h) as [x|] eqn:Eh.
  - destruct (N.eqb_spec x d).
    + inversion H; subst. simpl. rewrite He. reflexivity.
    + destruct (find_index d t) as [j|] eqn:Ej; [|discriminate]. inversion H; subst. simpl. rewrite Eh.
      now rewrite (IH j eq_refl He).
  - destruct (find_index d t) as [j|] eqn:Ej; [|discriminate]. inversion H; subst. simpl. rewrite Eh.
    now rewrite (IH j eq_refl He).
Qed.

Lemma find_index_app_none c es e : find_index c es = None ->
  find_index c (es ++ [e]) = if match cls e with Some d => d =? c | None => false end
                             then Some (length es) else None.
Proof.
  induction es as [|h t IH]; simpl; intros H.
  - destruct (match cls e with Some d => d =? c | None => false end); reflexivity.
  - destruct (match cls h with Some d => d =? c | None => false end); [discriminate|].
    destruct (find_index c t); [discriminate|]. rewrite IH by reflexivity.
    destruct (match cls e with Some d => d =? c | None => false end); reflexivity.
Qed.

Lemma find_index_app_some c es e i : find_index c es = Some i -> find_index c (es ++ [e]) = Some i.
Proof.
  revert i. induction es as [|h t IH]; simpl; intros i H; [discriminate|].
  destruct (match cls h with Some d => d =? c | None => false end); auto.
  destruct (find_index c t) as [j|]; [|discriminate]. now rewrite (IH j eq_refl).
Qed.

Lemma set_nth_length {A} i (x : A) l : length (set_nth i x l) = length l.
Proof. revert i; induction l; intros [|i]; simpl; auto. Qed.

(* ---- the epoch map ---- *)
Definition em_classes (m : list (key * N)) : list N := map (fun p => fst (fst p)) m.

Lemma em_get_insert_none k ep m c : em_get k m = None ->
  em_get (c, 0) (em_insert k ep m) = if c =? fst k then Some ep else em_get (c, 0) m.
Proof.
  induction m as [|[k' e'] t IH]; cbn [em_get em_insert]; intros H.
  - unfold keq. cbn [fst]. reflexivity.
  - unfold keq in H. destruct (N.eqb_spec (fst k) (fst k')) as [E|NE]; [discriminate|].
    specialize (IH H). unfold keq at 1. destruct (N.eqb_spec (fst k) (fst k')); [contradiction|].
    cbn [em_get]. unfold keq at 1. cbn [fst].
    destruct (N.eqb_spec c (fst k')) as [E1|NE1].
    + subst c. destruct (N.eqb_spec (fst k') (fst k)); [congruence|]. unfold keq. cbn [fst].
      now rewrite N.eqb_refl.
    + rewrite IH. unfold keq. cbn [fst]. destruct (N.eqb_spec c (fst k')); [contradiction|reflexivity].
Qed.

Lemma em_insert_classes_none k ep m : em_get k m = None -> em_classes (em_insert k ep m) = em_classes m ++ [fst k].
Proof.
  induction m as [|[k' e'] t IH]; simpl; intros H; auto.
  unfold keq in *. destruct (fst k =? fst k'); [discriminate|]. simpl. now rewrite IH.
Qed.

Lemma em_get_none_not_in k m : em_get k m = None -> ~ In (fst k) (em_classes m).
Proof.
  induction m as [|[k' e'] t IH]; simpl; intros H; auto.
  unfold keq in *. destruct (N.eqb_spec (fst k) (fst k')); [discriminate|].
  intros [E|I]; [simpl in E; congruence|now apply IH].
Qed.

Lemma em_get_remove k m c : NoDup (em_classes m) ->
  em_get (c, 0) (em_remove k m) = if c =? fst k then None else em_get (c, 0) m.
Proof.
  induction m as [|[k' e'] t IH]; simpl; intros ND.
  - destruct (c =? fst k); reflexivity.
  - inversion ND; subst. unfold keq in *. simpl in *.
    destruct (N.eqb_spec (fst k) (fst k')).
    + (* removed here: no other entry of that class *)
      destruct (N.eqb_spec c (fst k)).
      * subst. rewrite e. clear - H1. induction t as [|[k2 e2] t IH]; simpl; auto.
        unfold keq. simpl. destruct (N.eqb_spec (fst k') (fst k2)).
        -- exfalso. apply H1. left. simpl. congruence.
        -- apply IH. intros C. apply H1. now right.
      * destruct (N.eqb_spec c (fst k')); [congruence|reflexivity].
    + simpl. unfold keq. simpl. destruct (N.eqb_spec c (fst k')).
      * destruct (N.eqb_spec c (fst k)); [congruence|reflexivity].
      * now apply IH.
Qed.

Lemma em_remove_classes_nodup k m : NoDup (em_classes m) -> NoDup (em_classes (em_remove k m)).
Proof.
  induction m as [|[k' e'] t IH]; simpl; intros ND; auto. inversion ND; subst.
  destruct (keq k k'); auto. simpl. constructor; auto.
  intros C. apply H1. clear - C. induction t as [|[k2 e2] t IH]; simpl in *; auto.
  destruct (keq k k2); [now right|]. destruct C as [C|C]; [now left|right; auto].
Qed.

(* ---- refinement ---- *)
Definition unique_cls (es : list entry) : Prop :=
  forall i j c, cls (nth i es EClear) = Some c -> cls (nth j es EClear) = Some c ->
                (i < length es)%nat -> (j < length es)%nat -> i = j.

Definition SI (q : queue) : Prop :=
  head_epoch q < W /\ len (events q) < W /\ NoDup (em_classes (epoch_map q)) /\
  (forall c, em_get (c, 0) (epoch_map q) =
             option_map (fun i => (head_epoch q + N.of_nat i) mod W) (find_index c (events q))).

Lemma W_pos : 0 < W.  Proof. unfold W. lia. Qed.

Lemma index_recovered h i : h < W -> N.of_nat i < W -> ((h + N.of_nat i) mod W + W - h) mod W = N.of_nat i.
Proof.
  intros Hh Hi. pose proof W_pos.
  destruct (N.lt_ge_cases (h + N.of_nat i) W) as [L|G].
  - rewrite (N.mod_small (h + N.of_nat i)) by lia.
    replace (h + N.of_nat i + W - h) with (N.of_nat i + 1 * W) by lia.
    rewrite N.mod_add by lia. apply N.mod_small. lia.
  - assert ((h + N.of_nat i) mod W = h + N.of_nat i - W) as ->.
    { replace (h + N.of_nat i) with ((h + N.of_nat i - W) + 1 * W) at 1 by lia.
      rewrite N.mod_add by lia. apply N.mod_small. lia. }
    replace (h + N.of_nat i - W + W - h) with (N.of_nat i) by lia. apply N.mod_small. lia.
Qed.

Lemma em_get_key_irrelevant k m : em_get k m = em_get (fst k, 0) m.
Proof. induction m as [|[k' e'] t IH]; simpl; auto. unfold keq. simpl. now rewrite IH. Qed.

Lemma empty_SI h : SI (empty_at h).
Proof.
  unfold SI, empty_at. simpl. pose proof W_pos. split; [apply N.mod_lt; unfold W; lia|].
  split; [unfold len; simpl; exact H|]. split; [constructor|]. intros c. reflexivity.
Qed.

Lemma NoDup_snoc {A} (l : list A) x : NoDup l -> ~ In x l -> NoDup (l ++ [x]).
Proof.
  induction l as [|y l IH]; simpl; intros H NI.
  - constructor; auto.
  - inversion H; subst. constructor.
    + intros C. apply in_app_or in C as [C|[C|[]]]; [contradiction|subst; apply NI; now left].
    + apply IH; auto.
Qed.

(* the model's push / pop agree with the reference queue and keep the invariant *)
Lemma push_refines q e keep : SI q -> len (events q) + 1 < W -> keep = false ->
  events (push q e keep) = spush (events q) e /\ SI (push q e keep).
Proof.
  intros (H1 & H2 & H3 & H4) HB ->. pose proof W_pos as HW.
  destruct e as [k v|k|]; unfold push, spush; cbn [cls entry_key option_map].
  3: { split; [reflexivity|]. unfold SI. simpl. split; [exact HW|].
       split; [unfold len; simpl; unfold W; lia|]. split; [constructor|]. intros c. reflexivity. }
  all: rewrite em_get_key_irrelevant, (H4 (fst k));
    destruct (find_index (fst k) (events q)) as [i|] eqn:EF; cbn [option_map].
  all: try (pose proof (find_index_lt _ _ _ EF) as Hi;
            rewrite index_recovered by (unfold len in *; lia);
            assert (N.of_nat i <? len (events q) = true) as -> by (apply N.ltb_lt; unfold len; lia);
            rewrite Nat2N.id).
  - (* update, key queued *)
    assert (match nth i (events q) EClear with EUpdate k0 _ => EUpdate k v | _ => EUpdate k v end = EUpdate k v) as EE
      by (destruct (nth i (events q) EClear); reflexivity).
    simpl. rewrite EE. split; [reflexivity|]. unfold SI, len in *. simpl. rewrite set_nth_length. repeat split; auto.
    intros c. rewrite (find_index_set_nth c (fst k) _ i); auto.
  - (* update, key not queued *)
    simpl. split; [reflexivity|]. unfold SI. simpl. repeat split; auto.
    + unfold len in *. rewrite app_length. simpl. lia.
    + rewrite em_insert_classes_none by (rewrite em_get_key_irrelevant, H4, EF; reflexivity).
      apply NoDup_snoc; auto. apply em_get_none_not_in. rewrite em_get_key_irrelevant, H4, EF. reflexivity.
    + intros c. rewrite em_get_insert_none by (rewrite em_get_key_irrelevant, H4, EF; reflexivity).
      destruct (find_index c (events q)) as [j|] eqn:EC.
      * rewrite (find_index_app_some _ _ _ _ EC). rewrite H4, EC.
        destruct (N.eqb_spec c (fst k)); [subst; congruence|reflexivity].
      * rewrite (find_index_app_none _ _ _ EC). cbn [cls entry_key option_map]. rewrite H4, EC.
        rewrite (N.eqb_sym (fst k) c). destruct (c =? fst k); reflexivity.
  - (* remove, key queued *)
    simpl. split; [reflexivity|]. unfold SI, len in *. simpl. rewrite set_nth_length. repeat split; auto.
    intros c. rewrite (find_index_set_nth c (fst k) _ i); auto.
  - (* remove, key not queued *)
    simpl. split; [reflexivity|]. unfold SI. simpl. repeat split; auto.
    + unfold len in *. rewrite app_length. simpl. lia.
    + rewrite em_insert_classes_none by (rewrite em_get_key_irrelevant, H4, EF; reflexivity).
      apply NoDup_snoc; auto. apply em_get_none_not_in. rewrite em_get_key_irrelevant, H4, EF. reflexivity.
    + intros c. rewrite em_get_insert_none by (rewrite em_get_key_irrelevant, H4, EF; reflexivity).
      destruct (find_index c (events q)) as [j|] eqn:EC.
      * rewrite (find_index_app_some _ _ _ _ EC). rewrite H4, EC.
        destruct (N.eqb_spec c (fst k)); [subst; congruence|reflexivity].
      * rewrite (find_index_app_none _ _ _ EC). cbn [cls entry_key option_map]. rewrite H4, EC.
        rewrite (N.eqb_sym (fst k) c). destruct (c =? fst k); reflexivity.
Qed.

Lemma unique_find_none es e d : unique_cls (e :: es) -> cls e = Some d -> find_index d es = None.
Proof.
  intros U He. destruct (find_index d es) as [j|] eqn:EF; auto. exfalso.
  pose proof (find_index_lt _ _ _ EF) as Hj. pose proof (find_index_cls _ _ _ EF) as Hc.
  assert (O = S j) as C; [|discriminate].
  apply (U O (S j) d); simpl; auto; lia.
Qed.

Lemma pop_refines q : SI q -> unique_cls (events q) ->
  events (fst (pop q)) = fst (spop (events q)) /\ snd (pop q) = snd (spop (events q)) /\ SI (fst (pop q)).
Proof.
  intros (H1 & H2 & H3 & H4) U. pose proof W_pos as HW. unfold pop, spop.
  destruct (events q) as [|e rest] eqn:EE; simpl.
  - split; [exact EE|]. split; [reflexivity|]. unfold SI. rewrite EE. auto.
  - split; [reflexivity|]. split; [reflexivity|]. unfold SI. simpl.
    assert (Harith : forall j, (head_epoch q + N.of_nat (S j)) mod W = ((head_epoch q + 1) mod W + N.of_nat j) mod W).
    { intros j. rewrite N.add_mod_idemp_l by lia. f_equal. lia. }
    split; [apply N.mod_lt; lia|]. split; [unfold len in *; simpl in H2; lia|].
    destruct (entry_key e) as [k|] eqn:EK.
    + split; [now apply em_remove_classes_nodup|]. intros c. rewrite em_get_remove by assumption.
      specialize (H4 c). simpl in H4. unfold cls in H4. rewrite EK in H4. simpl in H4.
      destruct (N.eqb_spec (fst k) c) as [E|NE].
      * subst c. rewrite N.eqb_refl. rewrite (unique_find_none rest e (fst k)); auto.
        unfold cls. now rewrite EK.
      * destruct (N.eqb_spec c (fst k)); [congruence|]. rewrite H4.
        destruct (find_index c rest) as [j|]; cbn [option_map]; auto. now rewrite Harith.
    + split; [assumption|]. intros c. specialize (H4 c). simpl in H4. unfold cls in H4. rewrite EK in H4.
      simpl in H4. rewrite H4. destruct (find_index c rest) as [j|]; cbn [option_map]; auto. now rewrite Harith.
Qed.

(* ---- invariants of the reference queue ---- *)
Definition clear_only_first (es : list entry) : Prop :=
  forall i, (0 < i)%nat -> (i < length es)%nat -> cls (nth i es EClear) <> None.

Lemma nth_set_nth_same {A} i (x d : A) l : (i < length l)%nat -> nth i (set_nth i x l) d = x.
Proof. revert i; induction l as [|h t IH]; intros [|i] H; simpl in *; try lia; auto. apply IH; lia. Qed.

Lemma nth_set_nth_other {A} i j (x d : A) l : i <> j -> nth j (set_nth i x l) d = nth j l d.
Proof. revert i j; induction l as [|h t IH]; intros [|i] [|j] H; simpl; auto; try lia. Qed.

Lemma spush_unique es e : unique_cls es -> unique_cls (spush es e).
Proof.
  intros U. unfold spush. destruct (cls e) as [c|] eqn:Ec.
  - destruct (find_index c es) as [i|] eqn:EF.
    + pose proof (find_index_lt _ _ _ EF) as Hi. pose proof (find_index_cls _ _ _ EF) as Hc.
      intros a b d Ha Hb La Lb. rewrite set_nth_length in *.
      destruct (Nat.eq_dec i a) as [Ea|Na]; destruct (Nat.eq_dec i b) as [Eb|Nb]; try congruence.
      * subst a. rewrite nth_set_nth_same in Ha by assumption. rewrite nth_set_nth_other in Hb by assumption.
        rewrite Ec in Ha. inversion Ha; subst d. apply (U i b c); auto.
      * subst b. rewrite nth_set_nth_same in Hb by assumption. rewrite nth_set_nth_other in Ha by assumption.
        rewrite Ec in Hb. inversion Hb; subst d. apply (U a i c); auto.
      * rewrite nth_set_nth_other in Ha, Hb by assumption. apply (U a b d); auto.
    + intros a b d Ha Hb La Lb. rewrite app_length in *. simpl in *.
      assert (forall x, (x < length es)%nat -> nth x (es ++ [e]) EClear = nth x es EClear) as IN
        by (intros; now apply app_nth1).
      assert (nth (length es) (es ++ [e]) EClear = e) as LAST
        by (rewrite app_nth2, Nat.sub_diag by lia; reflexivity).
      destruct (Nat.eq_dec a (length es)) as [->|Na]; destruct (Nat.eq_dec b (length es)) as [->|Nb]; auto.
      * rewrite LAST in Ha. rewrite IN in Hb by lia. rewrite Ec in Ha. inversion Ha; subst d.
        exfalso. clear - EF Hb Lb Nb. assert (b < length es)%nat as L by lia. clear Lb Nb.
        revert b Hb L. induction es as [|h t IH]; simpl in *; intros b Hb L; [lia|].
        destruct (cls h) as [x|] eqn:Eh.
        -- destruct (N.eqb_spec x c); [discriminate|]. destruct (find_index c t) eqn:Et; [discriminate|].
           destruct b; [rewrite Eh in Hb; congruence|]. apply (IH eq_refl b); auto. lia.
        -- destruct (find_index c t) eqn:Et; [discriminate|].
           destruct b; [rewrite Eh in Hb; discriminate|]. apply (IH eq_refl b); auto. lia.
      * rewrite LAST in Hb. rewrite IN in Ha by lia. rewrite Ec in Hb. inversion Hb; subst d.
        exfalso. clear - EF Ha La Na. assert (a < length es)%nat as L by lia. clear La Na.
        revert a Ha L. induction es as [|h t IH]; simpl in *; intros a Ha L; [lia|].
        destruct (cls h) as [x|] eqn:Eh.
        -- destruct (N.eqb_spec x c); [discriminate|]. destruct (find_index c t) eqn:Et; [discriminate|].
           destruct a; [rewrite Eh in Ha; congruence|]. apply (IH eq_refl a); auto. lia.
        -- destruct (find_index c t) eqn:Et; [discriminate|].
           destruct a; [rewrite Eh in Ha; discriminate|]. apply (IH eq_refl a); auto. lia.
      * rewrite IN in Ha, Hb by lia. apply (U a b d); auto; lia.
  - intros a b d Ha Hb La Lb. simpl in *. lia.
Qed.

Lemma spush_clear_first es e : clear_only_first es -> clear_only_first (spush es e).
Proof.
  intros C. unfold spush. destruct (cls e) as [c|] eqn:Ec.
  - destruct (find_index c es) as [i|] eqn:EF.
    + pose proof (find_index_lt _ _ _ EF) as Hi.
      intros j Hj Lj. rewrite set_nth_length in Lj. destruct (Nat.eq_dec i j) as [->|N].
      * rewrite nth_set_nth_same by assumption. congruence.
      * rewrite nth_set_nth_other by assumption. now apply C.
    + intros j Hj Lj. rewrite app_length in Lj. simpl in Lj.
      destruct (Nat.eq_dec j (length es)) as [->|N].
      * rewrite app_nth2, Nat.sub_diag by lia. simpl. congruence.
      * rewrite app_nth1 by lia. apply C; lia.
  - intros j Hj Lj. simpl in Lj. lia.
Qed.

Lemma spop_unique e es : unique_cls (e :: es) -> unique_cls es.
Proof.
  intros U a b d Ha Hb La Lb. assert (S a = S b) as E; [|lia]. apply (U (S a) (S b) d); simpl; auto; lia.
Qed.

Lemma spop_clear_first e es : clear_only_first (e :: es) -> clear_only_first es.
Proof. intros C j Hj Lj. apply (C (S j)); simpl; lia. Qed.

(* ---- semantics, one key class at a time ---- *)
Definition eff (d : N) (e : entry) (cur : option N) : option N :=
  match e with
  | EUpdate k v => if fst k =? d then Some v else cur
  | ERemove k => if fst k =? d then None else cur
  | EClear => None
  end.

Definition effs (d : N) (es : list entry) (cur : option N) : option N := fold_left (fun c e => eff d e c) es cur.

Lemma effs_app d es e cur : effs d (es ++ [e]) cur = eff d e (effs d es cur).
Proof. unfold effs. now rewrite fold_left_app. Qed.

Lemma effs_app_gen d a b cur : effs d (a ++ b) cur = effs d b (effs d a cur).
Proof. unfold effs. now rewrite fold_left_app. Qed.

Lemma effs_cons d e es cur : effs d (e :: es) cur = effs d es (eff d e cur).
Proof. reflexivity. Qed.

Lemma eff_own_class d e cur cur' : cls e = Some d -> eff d e cur = eff d e cur'.
Proof.
  destruct e as [k v|k|]; simpl; intros H; try discriminate; inversion H; now rewrite N.eqb_refl.
Qed.

Lemma eff_other_class d c e cur : cls e = Some c -> c <> d -> eff d e cur = cur.
Proof.
  destruct e as [k v|k|]; simpl; intros H NE; try discriminate; inversion H; subst;
    destruct (N.eqb_spec (fst k) d); congruence.
Qed.

(* entries after position i are keyed and of other classes: they do not disturb class c *)
Lemma effs_untouched c es cur :
  (forall j, (j < length es)%nat -> exists x, cls (nth j es EClear) = Some x /\ x <> c) ->
  effs c es cur = cur.
Proof.
  revert cur. induction es as [|h t IH]; intros cur H; [reflexivity|]. simpl.
  destruct (H O) as (x & Hx & Nx); [simpl; lia|]. simpl in Hx.
  rewrite (eff_other_class c x h cur Hx Nx). apply IH. intros j Hj. apply (H (S j)). simpl. lia.
Qed.

Lemma effs_set_nth d c es i e' cur :
  unique_cls es -> clear_only_first es -> find_index c es = Some i -> cls e' = Some c ->
  effs d (set_nth i e' es) cur = eff d e' (effs d es cur).
Proof.
  intros U C EF Ec. pose proof (find_index_lt _ _ _ EF) as Hi. pose proof (find_index_cls _ _ _ EF) as Hc.
  destruct (N.eq_dec c d) as [->|NE].
  - (* the class of interest: the new entry decides, whatever came before; later entries are other keys *)
    assert (exists a o b, es = a ++ o :: b /\ length a = i) as (a & o & b & -> & La).
    { exists (firstn i es), (nth i es EClear), (skipn (S i) es). split.
      - rewrite <- (firstn_skipn i es) at 1. f_equal. clear - Hi. revert i Hi. induction es; intros [|i] H; simpl in *; try lia; auto.
        apply IHes. lia.
      - rewrite firstn_length. lia. }
    subst i. assert (set_nth (length a) e' (a ++ o :: b) = a ++ e' :: b) as ->.
    { clear. induction a; simpl; auto. now rewrite IHa. }
    assert (Ho : cls o = Some d) by (rewrite <- Hc, app_nth2, Nat.sub_diag by lia; reflexivity).
    assert (Hb : forall j, (j < length b)%nat -> exists x, cls (nth j b EClear) = Some x /\ x <> d).
    { intros j Hj. destruct (cls (nth j b EClear)) as [x|] eqn:Ex.
      - exists x. split; auto. intros ->.
        assert (length a = length a + S j)%nat as K; [|lia].
        apply (U (length a) (length a + S j)%nat d).
        + rewrite app_nth2, Nat.sub_diag by lia. exact Ho.
        + rewrite app_nth2 by lia. replace (length a + S j - length a)%nat with (S j) by lia. exact Ex.
        + rewrite app_length. simpl. lia.
        + rewrite app_length. simpl. lia.
      - exfalso. apply (C (length a + S j)%nat); [lia|rewrite app_length; simpl; lia|].
        rewrite app_nth2 by lia. replace (length a + S j - length a)%nat with (S j) by lia. exact Ex. }
    rewrite !effs_app_gen, !effs_cons, !effs_untouched by assumption.
    apply eff_own_class. exact Ec.
  - (* another class: neither the old nor the new entry matters *)
    rewrite (eff_other_class d c e' _ Ec NE).
    clear Hi Hc. revert i EF cur. induction es as [|h t IH]; intros i EF cur; [discriminate|].
    simpl in EF. destruct (cls h) as [x|] eqn:Eh.
    + destruct (N.eqb_spec x c).
      * inversion EF; subst. simpl. rewrite (eff_other_class d c e' cur Ec NE).
        now rewrite (eff_other_class d c h cur Eh NE).
      * destruct (find_index c t) as [j|] eqn:Ej; [|discriminate]. inversion EF; subst. simpl.
        apply IH; auto. now apply (spop_unique h). now apply (spop_clear_first h).
    + destruct (find_index c t) as [j|] eqn:Ej; [|discriminate]. inversion EF; subst. simpl.
      apply IH; auto. now apply (spop_unique h). now apply (spop_clear_first h).
Qed.

(* the key step: pushing into the queue = applying the operation after the queued ones *)
Theorem spush_effect d es e cur : unique_cls es -> clear_only_first es ->
  effs d (spush es e) cur = eff d e (effs d es cur).
Proof.
  intros U C. unfold spush. destruct (cls e) as [c|] eqn:Ec.
  - destruct (find_index c es) as [i|] eqn:EF.
    + now apply (effs_set_nth d c).
    + apply effs_app.
  - destruct e; simpl in Ec; try discriminate. reflexivity.
Qed.

(* MapOperationQueue's in-place value overwrite ([keep_old_key]): the same as pushing an update that
   carries the queued spelling of the key *)
Lemma push_keep_old q e : SI q -> len (events q) + 1 < W ->
  exists e', cls e' = cls e /\ (forall d cur, eff d e' cur = eff d e cur) /\ push q e true = push q e' false.
Proof.
  intros (H1 & H2 & H3 & H4) HB.
  destruct e as [k v|k|].
  2: { exists (ERemove k). split; [reflexivity|]. split; [reflexivity|]. unfold push.
       destruct (em_get k (epoch_map q)); auto. }
  2: { exists EClear. auto. }
  unfold push at 1. rewrite em_get_key_irrelevant, (H4 (fst k)).
  destruct (find_index (fst k) (events q)) as [i|] eqn:EF; cbn [option_map].
  - pose proof (find_index_lt _ _ _ EF) as Hi. pose proof (find_index_cls _ _ _ EF) as Hc.
    rewrite index_recovered by (unfold len in *; lia).
    assert (N.of_nat i <? len (events q) = true) as HL by (apply N.ltb_lt; unfold len; lia).
    rewrite HL, Nat2N.id.
    destruct (nth i (events q) EClear) as [k0 v0|k0|] eqn:EN.
    + assert (fst k0 = fst k) as Hk by (unfold cls in Hc; simpl in Hc; congruence).
      exists (EUpdate k0 v). split; [unfold cls; simpl; congruence|]. split; [intros d cur; simpl; now rewrite Hk|].
      unfold push. rewrite (em_get_key_irrelevant k0), Hk, (H4 (fst k)), EF. cbn [option_map].
      rewrite index_recovered by (unfold len in *; lia). rewrite HL, Nat2N.id, EN. reflexivity.
    + exists (EUpdate k v). split; [reflexivity|]. split; [reflexivity|].
      unfold push. rewrite em_get_key_irrelevant, (H4 (fst k)), EF. cbn [option_map].
      rewrite index_recovered by (unfold len in *; lia). rewrite HL, Nat2N.id, EN. reflexivity.
    + unfold cls in Hc; simpl in Hc. discriminate.
  - exists (EUpdate k v). split; [reflexivity|]. split; [reflexivity|].
    unfold push. rewrite em_get_key_irrelevant, (H4 (fst k)), EF. reflexivity.
Qed.

Lemma push_refines_gen q e keep : SI q -> len (events q) + 1 < W ->
  exists e', cls e' = cls e /\ (forall d cur, eff d e' cur = eff d e cur) /\
             events (push q e keep) = spush (events q) e' /\ SI (push q e keep).
Proof.
  intros HS HB. destruct keep.
  - destruct (push_keep_old q e HS HB) as (e' & Hc & He & ->). exists e'. split; [exact Hc|]. split; [exact He|].
    now apply push_refines.
  - exists e. split; [reflexivity|]. split; [reflexivity|]. now apply push_refines.
Qed.

(* ---- whole runs ---- *)
Lemma spush_length es e : (length (spush es e) <= S (length es))%nat.
Proof.
  unfold spush. destruct (cls e) as [c|].
  - destruct (find_index c es); [rewrite set_nth_length; lia|rewrite app_length; simpl; lia].
  - simpl. lia.
Qed.

(* follow one key class [d]: [src] is what the lane's map holds for it (every pushed operation applied
   as it is pushed), [rep] is what a consumer holds that applies each popped entry as it is popped *)
Fixpoint track (d : N) (q : queue) (src rep : option N) (ops : list qop) : queue * option N * option N :=
  match ops with
  | [] => (q, src, rep)
  | QPush e keep :: t => track d (push q e keep) (eff d e src) rep t
  | QPop :: t =>
      match pop q with
      | (q', Some e) => track d q' src (eff d e rep) t
      | (q', None) => track d q' src rep t
      end
  end.

Definition QI (d : N) (q : queue) (src rep : option N) : Prop :=
  SI q /\ unique_cls (events q) /\ clear_only_first (events q) /\ effs d (events q) rep = src.

Lemma QI_push d q src rep e keep : QI d q src rep -> len (events q) + 1 < W ->
  QI d (push q e keep) (eff d e src) rep /\ len (events (push q e keep)) <= len (events q) + 1.
Proof.
  intros (HS & HU & HC & HE) HB.
  destruct (push_refines_gen q e keep HS HB) as (e' & Hc & He & Hev & HS').
  split.
  - split; [exact HS'|]. rewrite Hev. split; [now apply spush_unique|]. split; [now apply spush_clear_first|].
    rewrite spush_effect by assumption. rewrite HE. apply He.
  - rewrite Hev. pose proof (spush_length (events q) e'). unfold len. lia.
Qed.

Lemma QI_pop d q src rep : QI d q src rep ->
  match pop q with
  | (q', Some e) => QI d q' src (eff d e rep) /\ len (events q') + 1 = len (events q)
  | (q', None) => q' = q /\ events q = []
  end.
Proof.
  intros (HS & HU & HC & HE). destruct (pop_refines q HS HU) as (Hev & Hout & HS').
  destruct (pop q) as [q' r] eqn:EP. simpl in *. unfold spop in *.
  destruct (events q) as [|e rest] eqn:EE; simpl in *; subst r.
  - split; auto. unfold pop in EP. rewrite EE in EP. now inversion EP.
  - split.
    + split; [exact HS'|]. rewrite Hev. split; [now apply (spop_unique e)|]. split; [now apply (spop_clear_first e)|].
      exact HE.
    + rewrite Hev. unfold len. simpl. lia.
Qed.

Lemma track_invariant d ops : forall q src rep,
  QI d q src rep -> len (events q) + len ops + 1 < W ->
  let '(q', src', rep') := track d q src rep ops in QI d q' src' rep'.
Proof.
  induction ops as [|o t IH]; intros q src rep HI HB; [exact HI|].
  assert (len (o :: t) = len t + 1) as HL by (unfold len; simpl; lia). rewrite HL in HB.
  destruct o as [e keep|]; cbn [track].
  - destruct (QI_push d q src rep e keep HI) as (HI' & HLen); [lia|]. apply IH; [exact HI'|lia].
  - pose proof (QI_pop d q src rep HI) as HP. destruct (pop q) as [q' [e|]].
    + destruct HP as (HI' & HLen). apply IH; [exact HI'|lia].
    + destruct HP as (-> & _). apply IH; [exact HI|lia].
Qed.

Lemma QI_empty d h : h < W -> QI d (empty_at h) None None.
Proof.
  intros Hh. split; [now apply empty_SI|]. simpl.
  split; [intros a b c _ _ La; simpl in La; lia|]. split; [intros i _ L; simpl in L; lia|reflexivity].
Qed.

(* C02: for every operation sequence (both queue flavours, any starting epoch, including across the
   u64 wrap), what is still queued, applied after what was already popped, gives the source map's value
   for every key class; in particular once the queue is drained the consumer agrees with the source. *)
Theorem queue_converges d h ops : h < W -> len ops + 1 < W ->
  let '(q, src, rep) := track d (empty_at h) None None ops in
  effs d (events q) rep = src /\ unique_cls (events q) /\ (events q = [] -> rep = src).
Proof.
  intros Hh HB. pose proof (track_invariant d ops (empty_at h) None None (QI_empty d h Hh)) as HT.
  simpl in HT. specialize (HT HB). destruct (track d (empty_at h) None None ops) as [[q src] rep].
  destruct HT as (_ & HU & _ & HE). split; [exact HE|]. split; [exact HU|]. intros EE. now rewrite EE in HE.
Qed.

(* at most one queued entry per key class: the queue never grows beyond the number of distinct keys (+ a Clear) *)
Lemma unique_cls_bound es : unique_cls es -> clear_only_first es ->
  NoDup (map cls (tl es)).
Proof.
  intros U C. apply NoDup_nth with (d := None). rewrite map_length. intros i j Hi Hj E.
  assert (forall x, (x < length (tl es))%nat -> nth x (map cls (tl es)) None = cls (nth x (tl es) EClear)) as HN.
  { intros x Hx. rewrite (nth_indep _ None (cls EClear)) by (now rewrite map_length). apply map_nth. }
  rewrite !HN in E by assumption.
  destruct es as [|h t]; [simpl in Hi; lia|]. simpl in *.
  destruct (cls (nth i t EClear)) as [c|] eqn:Ei.
  - assert (S i = S j) as K; [|lia]. apply (U (S i) (S j) c); simpl; auto; lia.
  - exfalso. apply (C (S i)); simpl; auto; lia.
Qed.

(* ---- the replica as an association map, and the oracle the harness runs on the implementation ---- *)
Lemma r_put_classes k v m : em_get k m = None -> em_classes (r_put k v m) = em_classes m ++ [fst k].
Proof.
  induction m as [|[k' e'] t IH]; simpl; intros H; [reflexivity|].
  unfold keq in *. destruct (fst k =? fst k'); [discriminate|]. simpl. now rewrite IH.
Qed.

Lemma r_put_classes_some k v m x : em_get k m = Some x -> em_classes (r_put k v m) = em_classes m.
Proof.
  induction m as [|[k' e'] t IH]; simpl; intros H; [discriminate|].
  unfold keq in *. destruct (fst k =? fst k'); [reflexivity|]. simpl. now rewrite IH.
Qed.

Lemma lookup_r_put d k v m : lookup d (r_put k v m) = if fst k =? d then Some v else lookup d m.
Proof.
  unfold lookup. induction m as [|[k' e'] t IH]; cbn [r_put em_get].
  - unfold keq. cbn [fst]. rewrite (N.eqb_sym d). destruct (fst k =? d); reflexivity.
  - unfold keq in *. cbn [fst] in *. destruct (N.eqb_spec (fst k) (fst k')) as [E|NE]; cbn [em_get]; unfold keq; cbn [fst].
    + rewrite <- E. destruct (N.eqb_spec d (fst k)); destruct (N.eqb_spec (fst k) d); congruence || reflexivity.
    + rewrite IH. destruct (N.eqb_spec d (fst k')); destruct (N.eqb_spec (fst k) d); congruence || reflexivity.
Qed.

Lemma apply_op_eff d m e : NoDup (em_classes m) ->
  lookup d (apply_op m e) = eff d e (lookup d m) /\ NoDup (em_classes (apply_op m e)).
Proof.
  intros ND. destruct e as [k v|k|]; simpl.
  - split; [apply lookup_r_put|]. destruct (em_get k m) as [x|] eqn:EG.
    + now rewrite (r_put_classes_some k v m x).
    + rewrite r_put_classes by assumption. apply NoDup_snoc; auto. now apply em_get_none_not_in.
  - split; [|now apply em_remove_classes_nodup]. unfold lookup, r_del. rewrite em_get_remove by assumption.
    simpl. rewrite (N.eqb_sym d). destruct (fst k =? d); reflexivity.
  - split; [reflexivity|constructor].
Qed.

Lemma agree_true (cs : list N) src rep : (forall c, lookup c src = lookup c rep) ->
  forallb (fun c => match lookup c src, lookup c rep with
                    | None, None => true
                    | Some a, Some b => a =? b
                    | _, _ => false
                    end) cs = true.
Proof.
  intros H. apply forallb_forall. intros c _. rewrite H. destruct (lookup c rep); auto. apply N.eqb_refl.
Qed.

Lemma oracle_holds_gen ops : forall q src rep cs,
  NoDup (em_classes src) -> NoDup (em_classes rep) ->
  (forall d, QI d q (lookup d src) (lookup d rep)) ->
  len (events q) + len ops + 1 < W ->
  oracle_run src rep ops (qrun q ops) cs = true.
Proof.
  induction ops as [|o t IH]; intros q src rep cs NS NR HI HB; [reflexivity|].
  assert (len (o :: t) = len t + 1) as HL by (unfold len; simpl; lia). rewrite HL in HB.
  destruct o as [e keep|]; cbn [qrun qstep].
  - cbn [oracle_run]. apply IH; auto.
    + now apply (apply_op_eff 0).
    + intros d. destruct (apply_op_eff d src e NS) as (-> & _). apply QI_push; [apply HI|lia].
    + destruct (QI_push 0 q _ _ e keep (HI 0)) as (_ & HLen); lia.
  - pose proof (fun d => QI_pop d q _ _ (HI d)) as HP. destruct (pop q) as [q' [e|]]; cbn [oracle_run].
    + apply IH; auto.
      * now apply (apply_op_eff 0).
      * intros d. destruct (apply_op_eff d rep e NR) as (-> & _). apply (HP d).
      * destruct (HP 0) as (_ & HLen). lia.
    + apply andb_true_intro. destruct (HP 0) as (-> & EE). split.
      * apply agree_true. intros c. destruct (HI c) as (_ & _ & _ & HE). rewrite EE in HE. simpl in HE. auto.
      * apply IH; auto. lia.
Qed.

(* the oracle that the harness evaluates on the implementation's trace can never fail on the model's *)
Theorem oracle_holds h ops cs : h < W -> len ops + 1 < W ->
  oracle_run [] [] ops (qrun (empty_at h) ops) cs = true.
Proof.
  intros Hh HB. apply oracle_holds_gen;
    [constructor|constructor|intros d; apply QI_empty; exact Hh|change (len (events (empty_at h))) with 0; lia].
Qed.
