(* C02, the two coalescing queues in series: the lane's event queue (agent side) feeds, across the byte channel,
   the remote's MapOperationQueue (runtime side).  Whatever the schedule of lane changes, lane writes and
   deliveries, for every key: what the remote has applied, followed by what waits in the runtime queue and then
   by what waits in the lane queue, gives the lane's value; once both queues are drained the remote's replica is
   the lane's map. *)
From SwimV Require Import Model.MapQueue Proofs.MapQueueProofs.
Open Scope N_scope.

Inductive tsop :=
| TChange (e : entry)       (* the lane's map changes: queued on the agent side *)
| TWrite                    (* the lane writes its next event; the runtime queues it for the (slow) remote *)
| TDeliver.                 (* the remote reads the next operation and applies it *)

Record ts := { t_lane : queue; t_rt : queue }.

Definition ts_step (keep1 keep2 : bool) (s : ts) (o : tsop) : ts :=
  match o with
  | TChange e => {| t_lane := push (t_lane s) e keep1; t_rt := t_rt s |}
  | TWrite =>
      match pop (t_lane s) with
      | (q', Some e) => {| t_lane := q'; t_rt := push (t_rt s) e keep2 |}
      | (q', None) => {| t_lane := q'; t_rt := t_rt s |}
      end
  | TDeliver => {| t_lane := t_lane s; t_rt := fst (pop (t_rt s)) |}
  end.

(* per key class [d]: the lane's value, what has crossed the channel, what the remote holds *)
Fixpoint ts_track (keep1 keep2 : bool) (d : N) (s : ts) (src mid rep : option N) (ops : list tsop)
  : ts * option N * option N * option N :=
  match ops with
  | [] => (s, src, mid, rep)
  | o :: t =>
      let s' := ts_step keep1 keep2 s o in
      match o with
      | TChange e => ts_track keep1 keep2 d s' (eff d e src) mid rep t
      | TWrite => ts_track keep1 keep2 d s' src (match snd (pop (t_lane s)) with Some e => eff d e mid | None => mid end) rep t
      | TDeliver => ts_track keep1 keep2 d s' src mid (match snd (pop (t_rt s)) with Some e => eff d e rep | None => rep end) t
      end
  end.

Definition TSInv (d : N) (s : ts) (src mid rep : option N) (n : N) : Prop :=
  QI d (t_lane s) src mid /\ QI d (t_rt s) mid rep /\ len (events (t_lane s)) <= n /\ len (events (t_rt s)) <= n.

Lemma ts_step_inv keep1 keep2 d s src mid rep n o : TSInv d s src mid rep n -> n + 2 < W ->
  match o with
  | TChange e => TSInv d (ts_step keep1 keep2 s o) (eff d e src) mid rep (n + 1)
  | TWrite => TSInv d (ts_step keep1 keep2 s o) src (match snd (pop (t_lane s)) with Some e => eff d e mid | None => mid end) rep (n + 1)
  | TDeliver => TSInv d (ts_step keep1 keep2 s o) src mid (match snd (pop (t_rt s)) with Some e => eff d e rep | None => rep end) (n + 1)
  end.
Proof.
  intros (H1 & H2 & L1 & L2) HB. destruct o as [e| |]; cbn [ts_step].
  - destruct (QI_push d _ _ _ e keep1 H1) as [H1' Hl]; [lia|].
    unfold TSInv; cbn [t_lane t_rt]. split; [exact H1'|]. split; [exact H2|]. lia.
  - pose proof (QI_pop d _ _ _ H1) as Hp. destruct (pop (t_lane s)) as [q' [e|]]; cbn [snd].
    + destruct Hp as [H1' Hl]. destruct (QI_push d _ _ _ e keep2 H2) as [H2' Hl2]; [lia|].
      unfold TSInv; cbn [t_lane t_rt]. split; [exact H1'|]. split; [exact H2'|]. lia.
    + destruct Hp as [-> He]. unfold TSInv; cbn [t_lane t_rt]. split; [exact H1|]. split; [exact H2|]. lia.
  - pose proof (QI_pop d _ _ _ H2) as Hp. destruct (pop (t_rt s)) as [q' [e|]]; cbn [fst snd].
    + destruct Hp as [H2' Hl]. unfold TSInv; cbn [t_lane t_rt]. split; [exact H1|]. split; [exact H2'|]. lia.
    + destruct Hp as [-> He]. unfold TSInv; cbn [t_lane t_rt]. split; [exact H1|]. split; [exact H2|]. lia.
Qed.

Lemma ts_track_inv keep1 keep2 d ops : forall s src mid rep n, TSInv d s src mid rep n -> n + 2 * len ops + 2 < W ->
  let '(s', src', mid', rep') := ts_track keep1 keep2 d s src mid rep ops in
  TSInv d s' src' mid' rep' (n + len ops).
Proof.
  induction ops as [|o ops IH]; intros s src mid rep n HI HB; cbn [ts_track].
  - unfold len. cbn. now rewrite N.add_0_r.
  - assert (Hl : len (o :: ops) = len ops + 1) by (unfold len; cbn [length]; lia). rewrite Hl in *.
    pose proof (ts_step_inv keep1 keep2 d s src mid rep n o HI) as Hs.
    destruct o as [e| |]; (specialize (Hs ltac:(lia)); specialize (IH _ _ _ _ _ Hs ltac:(lia));
      match goal with |- context [ts_track ?a ?b ?c ?st ?x ?y ?z ops] => destruct (ts_track a b c st x y z ops) as [[[s' src'] mid'] rep'] end;
      replace (n + (len ops + 1)) with (n + 1 + len ops) by lia; exact IH).
Qed.

(* the theorem: both queues from any starting epochs, both overwrite policies, any schedule *)
Theorem two_stage_converges keep1 keep2 d h1 h2 ops : h1 < W -> h2 < W -> 2 * len ops + 2 < W ->
  let '(s, src, mid, rep) := ts_track keep1 keep2 d {| t_lane := empty_at h1; t_rt := empty_at h2 |} None None None ops in
  effs d (events (t_lane s)) (effs d (events (t_rt s)) rep) = src
  /\ (events (t_lane s) = [] -> events (t_rt s) = [] -> rep = src).
Proof.
  intros Hh1 Hh2 HB.
  assert (H0 : TSInv d {| t_lane := empty_at h1; t_rt := empty_at h2 |} None None None 0).
  { unfold TSInv; cbn [t_lane t_rt]. split; [now apply QI_empty|]. split; [now apply QI_empty|]. unfold len; cbn; lia. }
  pose proof (ts_track_inv keep1 keep2 d ops _ _ _ _ _ H0 ltac:(lia)) as H.
  destruct (ts_track keep1 keep2 d {| t_lane := empty_at h1; t_rt := empty_at h2 |} None None None ops) as [[[s src] mid] rep].
  destruct H as ((_ & _ & _ & E1) & (_ & _ & _ & E2) & _). split.
  - now rewrite E2, E1.
  - intros Z1 Z2. rewrite Z1 in E1. rewrite Z2 in E2. cbn in E1, E2. congruence.
Qed.

(* non-vacuity: two updates of one key coalesce on the agent side, a third crosses separately *)
Example two_stage_example :
  let ops := [TChange (EUpdate (1, 0) 5); TChange (EUpdate (1, 0) 6); TWrite; TChange (EUpdate (1, 0) 7); TWrite; TDeliver; TDeliver] in
  let '(s, src, mid, rep) := ts_track false false 1 {| t_lane := empty_at 0; t_rt := empty_at 0 |} None None None ops in
  events (t_lane s) = [] /\ events (t_rt s) = [] /\ rep = Some 7 /\ src = Some 7.
Proof. vm_compute. auto. Qed.
