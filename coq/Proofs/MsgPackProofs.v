(* C16 (scalar wire form): what the MessagePack writer produces is read back as the same value, whatever
   follows it, and a cut-off encoding is reported as incomplete: never a different value, never a crash. *)
From SwimV Require Import Model.MsgPack Proofs.CodecProofs.
From Coq Require Import ZArith ZifyN ZifyNat ZifyBool.
Open Scope N_scope.
Ltac Zify.zify_post_hook ::= Z.div_mod_to_equations.

Arguments be : simpl never.
Arguments unbe : simpl never.
Arguments N.add : simpl never.
Arguments N.sub : simpl never.
Arguments N.ltb : simpl never.
Arguments N.leb : simpl never.
Arguments N.eqb : simpl never.
Arguments N.pow : simpl never.

Definition wf (v : mscalar) : Prop :=
  match v with
  | MNil | MBool _ => True
  | MPos n => n < 2 ^ 64
  | MNeg n => 1 <= n <= 2 ^ 63
  | MF64 bits => bits < 2 ^ 64
  | MBigInt neg mag => (neg = true -> mag <> 0) /\ len (mag_bytes mag) + 1 < 2 ^ 32
  | MBigUint mag => len (mag_bytes mag) < 2 ^ 32
  | MStr s | MBin s => len s < 2 ^ 32
  end.

Lemma p1 : 256 ^ N.of_nat 1 = 256.  Proof. reflexivity. Qed.
Lemma p2 : 256 ^ N.of_nat 2 = 65536.  Proof. reflexivity. Qed.
Lemma p4 : 256 ^ N.of_nat 4 = 4294967296.  Proof. reflexivity. Qed.
Lemma p8 : 256 ^ N.of_nat 8 = 18446744073709551616.  Proof. reflexivity. Qed.
Lemma t32 : 2 ^ 32 = 4294967296.  Proof. reflexivity. Qed.
Lemma t63 : 2 ^ 63 = 9223372036854775808.  Proof. reflexivity. Qed.
Lemma t64 : 2 ^ 64 = 18446744073709551616.  Proof. reflexivity. Qed.

Lemma ub1 v : v < 256 -> unbe (be 1 v) = v.  Proof. intros; apply unbe_be_small; rewrite p1; lia. Qed.
Lemma ub2 v : v < 65536 -> unbe (be 2 v) = v.  Proof. intros; apply unbe_be_small; rewrite p2; lia. Qed.
Lemma ub4 v : v < 4294967296 -> unbe (be 4 v) = v.  Proof. intros; apply unbe_be_small; rewrite p4; lia. Qed.
Lemma ub8 v : v < 18446744073709551616 -> unbe (be 8 v) = v.  Proof. intros; apply unbe_be_small; rewrite p8; lia. Qed.

(* ---- the magnitude bytes ---- *)
Lemma byte_len_bound fuel : forall n, n < 2 ^ N.of_nat fuel -> n < 256 ^ N.of_nat (byte_len fuel n).
Proof.
  induction fuel as [|f IH]; intros n H.
  - cbn [byte_len]. change (2 ^ N.of_nat 0) with 1 in H. rewrite p1. lia.
  - cbn [byte_len]. destruct (n <? 256) eqn:E.
    + rewrite p1. lia.
    + assert (Hd : n / 256 < 2 ^ N.of_nat f).
      { replace (N.of_nat (S f)) with (N.of_nat f + 1) in H by lia.
        rewrite N.pow_add_r, N.pow_1_r in H. apply N.div_lt_upper_bound; lia. }
      specialize (IH _ Hd).
      replace (N.of_nat (S (byte_len f (n / 256)))) with (N.of_nat (byte_len f (n / 256)) + 1) by lia.
      rewrite N.pow_add_r, N.pow_1_r.
      remember (256 ^ N.of_nat (byte_len f (n / 256))) as P. lia.
Qed.

Lemma unbe_mag n : unbe (mag_bytes n) = n.
Proof.
  unfold mag_bytes. apply unbe_be_small. apply byte_len_bound.
  rewrite N2Nat.id. apply N.size_gt.
Qed.

Lemma byte_len_pos fuel n : (1 <= byte_len fuel n)%nat.
Proof. destruct fuel; cbn [byte_len]; [lia|]. destruct (n <? 256); lia. Qed.

Lemma len_mag_pos n : 1 <= len (mag_bytes n).
Proof. unfold mag_bytes. rewrite len_be. pose proof (byte_len_pos (N.to_nat (N.size n)) n). lia. Qed.

(* ---- reading: one lemma per marker ---- *)
Lemma need_app n a rest k : len a = n -> need n (a ++ rest) k = k a rest.
Proof.
  intros H. unfold need. rewrite len_app.
  destruct (len a + len rest <? n) eqn:E; [lia|].
  now rewrite take_n_app, drop_n_app.
Qed.

Lemma need_short n p k : len p < n -> need n p k = MIncomplete.
Proof. intros H. unfold need. destruct (len p <? n) eqn:E; [reflexivity|lia]. Qed.

(* reading a field of n bytes from a cut-off input: incomplete, as long as the continuation is *)
Lemma need_stage n A B k p q : len A = n -> p ++ q = A ++ B -> q <> [] ->
  (forall p2, p2 ++ q = B -> k A p2 = MIncomplete) -> need n p k = MIncomplete.
Proof.
  intros HA H Hq Hk. destruct (len p <? n) eqn:E.
  - apply need_short. lia.
  - symmetry in H. destruct (split_prefix A B p q H) as (r & -> & HB); [lia|].
    rewrite need_app by exact HA. apply Hk. now symmetry.
Qed.

Lemma need_last n B k p q : len B = n -> p ++ q = B -> q <> [] -> need n p k = MIncomplete.
Proof.
  intros HB H Hq. apply need_short. subst B. rewrite len_app in HB.
  destruct q; [congruence|]. rewrite len_cons in HB. lia.
Qed.

Definition kstr := fun s rest => MOk (MStr s) rest.
Definition kbin := fun s rest => MOk (MBin s) rest.

Lemma dec_small mk r : mk < 128 -> dec_scalar (mk :: r) = MOk (MPos mk) r.
Proof. intros H. cbn [dec_scalar]. destruct (mk <? 128) eqn:E; [reflexivity|lia]. Qed.

Lemma dec_negfix mk r : 224 <= mk -> dec_scalar (mk :: r) = MOk (MNeg (256 - mk)) r.
Proof.
  intros H. cbn [dec_scalar]. destruct (mk <? 128) eqn:E; [lia|].
  destruct (224 <=? mk) eqn:E2; [reflexivity|lia].
Qed.

Lemma dec_fixstr l r : l < 32 -> dec_scalar (160 + l :: r) = need l r kstr.
Proof.
  intros H. cbn [dec_scalar]. destruct (160 + l <? 128) eqn:E; [lia|].
  destruct (224 <=? 160 + l) eqn:E2; [lia|].
  destruct ((160 <=? 160 + l) && (160 + l <? 192)) eqn:E3; [|lia].
  replace (160 + l - 160) with l by lia. reflexivity.
Qed.

Lemma dec_192 r : dec_scalar (192 :: r) = MOk MNil r.  Proof. reflexivity. Qed.
Lemma dec_194 r : dec_scalar (194 :: r) = MOk (MBool false) r.  Proof. reflexivity. Qed.
Lemma dec_195 r : dec_scalar (195 :: r) = MOk (MBool true) r.  Proof. reflexivity. Qed.
Lemma dec_196 r : dec_scalar (196 :: r) = need 1 r (fun l r1 => need (unbe l) r1 kbin).  Proof. reflexivity. Qed.
Lemma dec_197 r : dec_scalar (197 :: r) = need 2 r (fun l r1 => need (unbe l) r1 kbin).  Proof. reflexivity. Qed.
Lemma dec_198 r : dec_scalar (198 :: r) = need 4 r (fun l r1 => need (unbe l) r1 kbin).  Proof. reflexivity. Qed.
Lemma dec_199 r : dec_scalar (199 :: r) = need 1 r (fun l r1 => dec_ext (unbe l) r1).  Proof. reflexivity. Qed.
Lemma dec_200 r : dec_scalar (200 :: r) = need 2 r (fun l r1 => dec_ext (unbe l) r1).  Proof. reflexivity. Qed.
Lemma dec_201 r : dec_scalar (201 :: r) = need 4 r (fun l r1 => dec_ext (unbe l) r1).  Proof. reflexivity. Qed.
Lemma dec_203 r : dec_scalar (203 :: r) = need 8 r (fun x rest => MOk (MF64 (unbe x)) rest).  Proof. reflexivity. Qed.
Lemma dec_204 r : dec_scalar (204 :: r) = need 1 r (fun x rest => MOk (MPos (unbe x)) rest).  Proof. reflexivity. Qed.
Lemma dec_205 r : dec_scalar (205 :: r) = need 2 r (fun x rest => MOk (MPos (unbe x)) rest).  Proof. reflexivity. Qed.
Lemma dec_206 r : dec_scalar (206 :: r) = need 4 r (fun x rest => MOk (MPos (unbe x)) rest).  Proof. reflexivity. Qed.
Lemma dec_207 r : dec_scalar (207 :: r) = need 8 r (fun x rest => MOk (MPos (unbe x)) rest).  Proof. reflexivity. Qed.
Lemma dec_208 r : dec_scalar (208 :: r) = need 1 r (fun x rest => MOk (signed_of 1 (unbe x)) rest).  Proof. reflexivity. Qed.
Lemma dec_209 r : dec_scalar (209 :: r) = need 2 r (fun x rest => MOk (signed_of 2 (unbe x)) rest).  Proof. reflexivity. Qed.
Lemma dec_210 r : dec_scalar (210 :: r) = need 4 r (fun x rest => MOk (signed_of 4 (unbe x)) rest).  Proof. reflexivity. Qed.
Lemma dec_211 r : dec_scalar (211 :: r) = need 8 r (fun x rest => MOk (signed_of 8 (unbe x)) rest).  Proof. reflexivity. Qed.
Lemma dec_212 r : dec_scalar (212 :: r) = dec_ext 1 r.  Proof. reflexivity. Qed.
Lemma dec_213 r : dec_scalar (213 :: r) = dec_ext 2 r.  Proof. reflexivity. Qed.
Lemma dec_214 r : dec_scalar (214 :: r) = dec_ext 4 r.  Proof. reflexivity. Qed.
Lemma dec_215 r : dec_scalar (215 :: r) = dec_ext 8 r.  Proof. reflexivity. Qed.
Lemma dec_216 r : dec_scalar (216 :: r) = dec_ext 16 r.  Proof. reflexivity. Qed.
Lemma dec_217 r : dec_scalar (217 :: r) = need 1 r (fun l r1 => need (unbe l) r1 kstr).  Proof. reflexivity. Qed.
Lemma dec_218 r : dec_scalar (218 :: r) = need 2 r (fun l r1 => need (unbe l) r1 kstr).  Proof. reflexivity. Qed.
Lemma dec_219 r : dec_scalar (219 :: r) = need 4 r (fun l r1 => need (unbe l) r1 kstr).  Proof. reflexivity. Qed.

Lemma dec_nil : dec_scalar [] = MIncomplete.  Proof. reflexivity. Qed.

Global Opaque dec_scalar.

(* ---- integers ---- *)
Lemma signed_neg w n : 0 < n -> n <= 256 ^ N.of_nat w / 2 -> 2 <= 256 ^ N.of_nat w ->
  signed_of w (twos w n) = MNeg n.
Proof.
  intros H1 H2 H3. unfold signed_of, twos. remember (256 ^ N.of_nat w) as P.
  destruct (P - n <? P / 2) eqn:E; [lia|]. f_equal. lia.
Qed.

Lemma pos_roundtrip n rest : n < 2 ^ 64 -> dec_scalar (enc_int_pos n ++ rest) = MOk (MPos n) rest.
Proof.
  rewrite t64. intros H. unfold enc_int_pos.
  destruct (n <? 128) eqn:E1; [apply dec_small; lia|].
  destruct (n <? 256) eqn:E2.
  { cbn [app]. rewrite dec_204, need_app by apply len_be. rewrite ub1 by lia. reflexivity. }
  destruct (n <? 65536) eqn:E3.
  { cbn [app]. rewrite dec_205, need_app by apply len_be. rewrite ub2 by lia. reflexivity. }
  destruct (n <? 4294967296) eqn:E4.
  { cbn [app]. rewrite dec_206, need_app by apply len_be. rewrite ub4 by lia. reflexivity. }
  cbn [app]. rewrite dec_207, need_app by apply len_be. rewrite ub8 by lia. reflexivity.
Qed.

Lemma neg_roundtrip n rest : 1 <= n <= 2 ^ 63 -> dec_scalar (enc_int_neg n ++ rest) = MOk (MNeg n) rest.
Proof.
  rewrite t63. intros H. unfold enc_int_neg.
  destruct (n <=? 32) eqn:E1.
  { cbn [app]. rewrite dec_negfix by lia. do 2 f_equal. lia. }
  destruct (n <=? 128) eqn:E2.
  { cbn [app]. rewrite dec_208, need_app by apply len_be. unfold twos. rewrite p1, ub1 by lia.
    unfold signed_of. rewrite p1. change (256 / 2) with 128.
    destruct (256 - n <? 128) eqn:E; [lia|]. do 2 f_equal. lia. }
  destruct (n <=? 32768) eqn:E3.
  { cbn [app]. rewrite dec_209, need_app by apply len_be. unfold twos. rewrite p2, ub2 by lia.
    unfold signed_of. rewrite p2. change (65536 / 2) with 32768.
    destruct (65536 - n <? 32768) eqn:E; [lia|]. do 2 f_equal. lia. }
  destruct (n <=? 2147483648) eqn:E4.
  { cbn [app]. rewrite dec_210, need_app by apply len_be. unfold twos. rewrite p4, ub4 by lia.
    unfold signed_of. rewrite p4. change (4294967296 / 2) with 2147483648.
    destruct (4294967296 - n <? 2147483648) eqn:E; [lia|]. do 2 f_equal. lia. }
  cbn [app]. rewrite dec_211, need_app by apply len_be. unfold twos. rewrite p8, ub8 by lia.
  unfold signed_of. rewrite p8. change (18446744073709551616 / 2) with 9223372036854775808.
  destruct (18446744073709551616 - n <? 9223372036854775808) eqn:E; [lia|]. do 2 f_equal. lia.
Qed.

(* ---- texts and blobs ---- *)
Lemma str_roundtrip s rest : len s < 2 ^ 32 -> dec_scalar (enc_scalar (MStr s) ++ rest) = MOk (MStr s) rest.
Proof.
  rewrite t32. intros H. cbn [enc_scalar]. unfold enc_str_len. rewrite <- app_assoc.
  destruct (len s <? 32) eqn:E1.
  { cbn [app]. rewrite dec_fixstr by lia. now rewrite need_app. }
  destruct (len s <? 256) eqn:E2.
  { cbn [app]. rewrite dec_217, need_app by apply len_be. rewrite ub1 by lia. now rewrite need_app. }
  destruct (len s <? 65536) eqn:E3.
  { cbn [app]. rewrite dec_218, need_app by apply len_be. rewrite ub2 by lia. now rewrite need_app. }
  cbn [app]. rewrite dec_219, need_app by apply len_be. rewrite ub4 by lia. now rewrite need_app.
Qed.

Lemma bin_roundtrip s rest : len s < 2 ^ 32 -> dec_scalar (enc_scalar (MBin s) ++ rest) = MOk (MBin s) rest.
Proof.
  rewrite t32. intros H. cbn [enc_scalar]. unfold enc_bin_len. rewrite <- app_assoc.
  destruct (len s <? 256) eqn:E2.
  { cbn [app]. rewrite dec_196, need_app by apply len_be. rewrite ub1 by lia. now rewrite need_app. }
  destruct (len s <? 65536) eqn:E3.
  { cbn [app]. rewrite dec_197, need_app by apply len_be. rewrite ub2 by lia. now rewrite need_app. }
  cbn [app]. rewrite dec_198, need_app by apply len_be. rewrite ub4 by lia. now rewrite need_app.
Qed.

(* ---- extensions ---- *)
Lemma ext_meta_read l ty body :
  1 <= l < 2 ^ 32 -> dec_scalar (enc_ext_meta l ty ++ body) = dec_ext l (ty :: body).
Proof.
  rewrite t32. intros H. unfold enc_ext_meta. rewrite <- app_assoc. cbn [app].
  destruct (l =? 1) eqn:E1. { cbn [app]. rewrite dec_212. f_equal; lia. }
  destruct (l =? 2) eqn:E2. { cbn [app]. rewrite dec_213. f_equal; lia. }
  destruct (l =? 4) eqn:E4. { cbn [app]. rewrite dec_214. f_equal; lia. }
  destruct (l =? 8) eqn:E8. { cbn [app]. rewrite dec_215. f_equal; lia. }
  destruct (l =? 16) eqn:E16. { cbn [app]. rewrite dec_216. f_equal; lia. }
  destruct (l <? 256) eqn:L1.
  { cbn [app]. rewrite dec_199, need_app by apply len_be. now rewrite ub1 by lia. }
  destruct (l <? 65536) eqn:L2.
  { cbn [app]. rewrite dec_200, need_app by apply len_be. now rewrite ub2 by lia. }
  cbn [app]. rewrite dec_201, need_app by apply len_be. now rewrite ub4 by lia.
Qed.

Lemma unbe_single x : unbe [x] = x.
Proof. unfold unbe. cbn [length]. change (256 ^ N.of_nat 0) with 1. lia. Qed.

Lemma bigint_roundtrip neg mag rest : wf (MBigInt neg mag) ->
  dec_scalar (enc_scalar (MBigInt neg mag) ++ rest) = MOk (MBigInt neg mag) rest.
Proof.
  intros [Hz Hl]. cbn [enc_scalar]. pose proof (len_mag_pos mag) as Hp.
  rewrite <- app_assoc. rewrite ext_meta_read by lia.
  unfold dec_ext. change (0 :: ([if neg then 0 else 1] ++ mag_bytes mag) ++ rest)
    with ([0] ++ ([if neg then 0 else 1] ++ mag_bytes mag ++ rest)).
  rewrite need_app by reflexivity. rewrite unbe_single.
  change (0 =? 0) with true. cbn match.
  destruct (len (mag_bytes mag) + 1 =? 0) eqn:E0; [lia|].
  rewrite need_app by reflexivity.
  replace (len (mag_bytes mag) + 1 - 1) with (len (mag_bytes mag)) by lia.
  rewrite need_app by reflexivity. rewrite unbe_single, unbe_mag.
  f_equal. f_equal. destruct neg.
  - change (0 =? 0) with true. specialize (Hz eq_refl). destruct (mag =? 0) eqn:E; [lia|reflexivity].
  - reflexivity.
Qed.

Lemma biguint_roundtrip mag rest : wf (MBigUint mag) ->
  dec_scalar (enc_scalar (MBigUint mag) ++ rest) = MOk (MBigUint mag) rest.
Proof.
  intros Hl. cbn [wf] in Hl. cbn [enc_scalar]. pose proof (len_mag_pos mag) as Hp.
  rewrite <- app_assoc. rewrite ext_meta_read by lia.
  unfold dec_ext. change (1 :: mag_bytes mag ++ rest) with ([1] ++ (mag_bytes mag ++ rest)).
  rewrite need_app by reflexivity. rewrite unbe_single.
  change (1 =? 0) with false. change (1 =? 1) with true. cbn match.
  rewrite need_app by reflexivity. now rewrite unbe_mag.
Qed.

(* ---- the round trip ---- *)
Theorem scalar_roundtrip v rest : wf v -> dec_scalar (enc_scalar v ++ rest) = MOk v rest.
Proof.
  destruct v as [|b|n|n|bits|neg mag|mag|s|s]; intros H.
  - apply dec_192.
  - destruct b; [apply dec_195|apply dec_194].
  - now apply pos_roundtrip.
  - now apply neg_roundtrip.
  - cbn [enc_scalar app]. rewrite dec_203, need_app by apply len_be. cbn [wf] in H. rewrite t64 in H.
    now rewrite ub8 by lia.
  - now apply bigint_roundtrip.
  - now apply biguint_roundtrip.
  - now apply str_roundtrip.
  - now apply bin_roundtrip.
Qed.

(* two values with the same bytes are the same value *)
Corollary enc_scalar_injective a b : wf a -> wf b -> enc_scalar a = enc_scalar b -> a = b.
Proof.
  intros Ha Hb H. pose proof (scalar_roundtrip a [] Ha) as Ra. pose proof (scalar_roundtrip b [] Hb) as Rb.
  rewrite H in Ra. rewrite Ra in Rb. now inversion Rb.
Qed.

Example wf_witness : wf (MBigInt true 300) /\ wf (MNeg 129) /\ wf (MStr [104; 105]) /\
  dec_scalar (enc_scalar (MBigInt true 300)) = MOk (MBigInt true 300) [].
Proof. repeat split; vm_compute; try reflexivity; intros; discriminate. Qed.

(* ------------------------------------------------------------------------------------------ *)
(* a cut-off encoding *)
Lemma cons_inj {A} (x y : A) a b : x :: a = y :: b -> x = y /\ a = b.
Proof. intros H; now inversion H. Qed.

Ltac head_split H p :=
  destruct p as [|?x p]; [apply dec_nil|]; repeat rewrite <- app_comm_cons in H; rewrite ?app_nil_l in H; apply cons_inj in H; destruct H as [-> H].

Lemma pos_truncated n p q : n < 2 ^ 64 -> p ++ q = enc_int_pos n -> q <> [] -> dec_scalar p = MIncomplete.
Proof.
  intros _ H Hq. unfold enc_int_pos in H.
  destruct (n <? 128).
  { destruct p as [|x p]; [apply dec_nil|]. cbn [app] in H. injection H as -> H.
    destruct p; [|discriminate]. cbn [app] in H. congruence. }
  destruct (n <? 256). { head_split H p. rewrite dec_204. (eapply need_last; [| eassumption | assumption]; apply len_be). }
  destruct (n <? 65536). { head_split H p. rewrite dec_205. (eapply need_last; [| eassumption | assumption]; apply len_be). }
  destruct (n <? 4294967296). { head_split H p. rewrite dec_206. (eapply need_last; [| eassumption | assumption]; apply len_be). }
  head_split H p. rewrite dec_207. (eapply need_last; [| eassumption | assumption]; apply len_be).
Qed.

Lemma neg_truncated n p q : p ++ q = enc_int_neg n -> q <> [] -> dec_scalar p = MIncomplete.
Proof.
  intros H Hq. unfold enc_int_neg in H.
  destruct (n <=? 32).
  { destruct p as [|x p]; [apply dec_nil|]. cbn [app] in H. injection H as -> H.
    destruct p; [|discriminate]. cbn [app] in H. congruence. }
  destruct (n <=? 128). { head_split H p. rewrite dec_208. (eapply need_last; [| eassumption | assumption]; apply len_be). }
  destruct (n <=? 32768). { head_split H p. rewrite dec_209. (eapply need_last; [| eassumption | assumption]; apply len_be). }
  destruct (n <=? 2147483648). { head_split H p. rewrite dec_210. (eapply need_last; [| eassumption | assumption]; apply len_be). }
  head_split H p. rewrite dec_211. (eapply need_last; [| eassumption | assumption]; apply len_be).
Qed.

Lemma one_byte_truncated x p q : p ++ q = [x] -> q <> [] -> dec_scalar p = MIncomplete.
Proof.
  intros H Hq. destruct p as [|y p]; [apply dec_nil|]. cbn [app] in H. injection H as -> H.
  destruct p; [|discriminate]. cbn [app] in H. congruence.
Qed.

Lemma str_truncated s p q : len s < 2 ^ 32 -> p ++ q = enc_scalar (MStr s) -> q <> [] -> dec_scalar p = MIncomplete.
Proof.
  rewrite t32. intros L H Hq. cbn [enc_scalar] in H. unfold enc_str_len in H.
  destruct (len s <? 32) eqn:E1.
  { head_split H p. rewrite dec_fixstr by lia. eapply need_last; eauto. }
  destruct (len s <? 256) eqn:E2.
  { head_split H p. rewrite dec_217. (eapply need_stage; [| eassumption | assumption |]; [apply len_be|]).
    intros p2 H2. rewrite ub1 by lia. eapply need_last; eauto. }
  destruct (len s <? 65536) eqn:E3.
  { head_split H p. rewrite dec_218. (eapply need_stage; [| eassumption | assumption |]; [apply len_be|]).
    intros p2 H2. rewrite ub2 by lia. eapply need_last; eauto. }
  head_split H p. rewrite dec_219. (eapply need_stage; [| eassumption | assumption |]; [apply len_be|]).
  intros p2 H2. rewrite ub4 by lia. eapply need_last; eauto.
Qed.

Lemma bin_truncated s p q : len s < 2 ^ 32 -> p ++ q = enc_scalar (MBin s) -> q <> [] -> dec_scalar p = MIncomplete.
Proof.
  rewrite t32. intros L H Hq. cbn [enc_scalar] in H. unfold enc_bin_len in H.
  destruct (len s <? 256) eqn:E2.
  { head_split H p. rewrite dec_196. (eapply need_stage; [| eassumption | assumption |]; [apply len_be|]).
    intros p2 H2. rewrite ub1 by lia. eapply need_last; eauto. }
  destruct (len s <? 65536) eqn:E3.
  { head_split H p. rewrite dec_197. (eapply need_stage; [| eassumption | assumption |]; [apply len_be|]).
    intros p2 H2. rewrite ub2 by lia. eapply need_last; eauto. }
  head_split H p. rewrite dec_198. (eapply need_stage; [| eassumption | assumption |]; [apply len_be|]).
  intros p2 H2. rewrite ub4 by lia. eapply need_last; eauto.
Qed.

Lemma ext_meta_truncated l ty body p q :
  1 <= l < 2 ^ 32 -> p ++ q = enc_ext_meta l ty ++ body -> q <> [] ->
  (forall p2, p2 ++ q = ty :: body -> dec_ext l p2 = MIncomplete) -> dec_scalar p = MIncomplete.
Proof.
  rewrite t32. intros L H Hq Hk. unfold enc_ext_meta in H. rewrite <- app_assoc in H. cbn [app] in H.
  destruct (l =? 1) eqn:E1. { head_split H p. rewrite dec_212. replace 1 with l by lia. now apply Hk. }
  destruct (l =? 2) eqn:E2. { head_split H p. rewrite dec_213. replace 2 with l by lia. now apply Hk. }
  destruct (l =? 4) eqn:E4. { head_split H p. rewrite dec_214. replace 4 with l by lia. now apply Hk. }
  destruct (l =? 8) eqn:E8. { head_split H p. rewrite dec_215. replace 8 with l by lia. now apply Hk. }
  destruct (l =? 16) eqn:E16. { head_split H p. rewrite dec_216. replace 16 with l by lia. now apply Hk. }
  destruct (l <? 256) eqn:L1.
  { head_split H p. rewrite dec_199. (eapply need_stage; [| eassumption | assumption |]; [apply len_be|]).
    intros p2 H2. rewrite ub1 by lia. now apply Hk. }
  destruct (l <? 65536) eqn:L2.
  { head_split H p. rewrite dec_200. (eapply need_stage; [| eassumption | assumption |]; [apply len_be|]).
    intros p2 H2. rewrite ub2 by lia. now apply Hk. }
  head_split H p. rewrite dec_201. (eapply need_stage; [| eassumption | assumption |]; [apply len_be|]).
  intros p2 H2. rewrite ub4 by lia. now apply Hk.
Qed.

Lemma dec_ext_int_truncated l sign m p q :
  1 <= l -> len m = l - 1 -> p ++ q = 0 :: sign :: m -> q <> [] -> dec_ext l p = MIncomplete.
Proof.
  intros L Hm H Hq. unfold dec_ext.
  apply need_stage with (A := [0]) (B := sign :: m) (q := q); auto.
  intros p2 H2. rewrite unbe_single. change (0 =? 0) with true. cbn match.
  destruct (l =? 0) eqn:E; [lia|].
  apply need_stage with (A := [sign]) (B := m) (q := q); auto.
  intros p3 H3. eapply need_last; eauto.
Qed.

Lemma dec_ext_uint_truncated l m p q :
  len m = l -> p ++ q = 1 :: m -> q <> [] -> dec_ext l p = MIncomplete.
Proof.
  intros Hm H Hq. unfold dec_ext.
  apply need_stage with (A := [1]) (B := m) (q := q); auto.
  intros p2 H2. rewrite unbe_single. change (1 =? 0) with false. change (1 =? 1) with true. cbn match.
  eapply need_last; eauto.
Qed.

Theorem scalar_truncated v p q : wf v -> p ++ q = enc_scalar v -> q <> [] -> dec_scalar p = MIncomplete.
Proof.
  destruct v as [|b|n|n|bits|neg mag|mag|s|s]; intros W H Hq.
  - eapply one_byte_truncated; eauto.
  - destruct b; eapply one_byte_truncated; eauto.
  - eapply pos_truncated; eauto.
  - eapply neg_truncated; eauto.
  - cbn [enc_scalar] in H. head_split H p. rewrite dec_203. (eapply need_last; [| eassumption | assumption]; apply len_be).
  - destruct W as [Wz Wl]. cbn [enc_scalar] in H. pose proof (len_mag_pos mag) as Hp.
    eapply ext_meta_truncated; eauto; try lia.
    intros p2 H2. eapply dec_ext_int_truncated; eauto; lia.
  - cbn [wf] in W. cbn [enc_scalar] in H. pose proof (len_mag_pos mag) as Hp.
    eapply ext_meta_truncated; eauto; try lia.
    intros p2 H2. eapply dec_ext_uint_truncated; eauto.
  - eapply str_truncated; eauto.
  - eapply bin_truncated; eauto.
Qed.
