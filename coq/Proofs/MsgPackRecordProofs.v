(* C16, records on the MessagePack wire: what the writer produces for a model value - any nesting of
   attributes, array-like, map-like and mixed bodies - is read back as the same value. *)
From SwimV Require Import Model.MsgPack Proofs.CodecProofs Proofs.MsgPackProofs.
From Coq Require Import ZArith ZifyN ZifyNat ZifyBool.
Open Scope N_scope.
Ltac Zify.zify_post_hook ::= Z.div_mod_to_equations.

Arguments be : simpl never.
Arguments unbe : simpl never.
Arguments N.add : simpl never.
Arguments N.sub : simpl never.
Arguments N.ltb : simpl never.
Arguments N.leb : simpl never.
Arguments N.eqb : simpl never.
Arguments N.pow : simpl never.

(* ---- the induction principle for nested values ---- *)
Definition item_P (P : mval -> Prop) (it : option mval * mval) : Prop :=
  match fst it with Some k => P k | None => True end /\ P (snd it).

Section Ind.
  Variable P : mval -> Prop.
  Hypothesis HS : forall s, P (VS s).
  Hypothesis HR : forall attrs items,
    Forall (fun a => P (snd a)) attrs -> Forall (item_P P) items -> P (VR attrs items).

  Fixpoint mval_ind2 (v : mval) : P v :=
    match v with
    | VS s => HS s
    | VR attrs items =>
        HR attrs items
          ((fix go (l : list (bytes * mval)) : Forall (fun a => P (snd a)) l :=
              match l with
              | [] => Forall_nil _
              | a :: t => Forall_cons a (mval_ind2 (snd a)) (go t)
              end) attrs)
          ((fix go (l : list (option mval * mval)) : Forall (item_P P) l :=
              match l with
              | [] => Forall_nil _
              | (Some k0, x) :: t => Forall_cons (Some k0, x) (conj (mval_ind2 k0) (mval_ind2 x)) (go t)
              | (None, x) :: t => Forall_cons (None, x) (conj I (mval_ind2 x)) (go t)
              end) items)
    end.
End Ind.

(* ---- well-formed values: every count and length fits the 32 bit length fields ---- *)
Fixpoint WFV (v : mval) : Prop :=
  match v with
  | VS s => wf s
  | VR attrs items =>
      N.of_nat (length attrs) < 2 ^ 32 /\ N.of_nat (length items) < 2 ^ 32 /\
      (fix go (l : list (bytes * mval)) : Prop :=
         match l with [] => True | (name, x) :: t => len name < 2 ^ 32 /\ WFV x /\ go t end) attrs /\
      (fix go (l : list (option mval * mval)) : Prop :=
         match l with
         | [] => True
         | (Some k, x) :: t => WFV k /\ WFV x /\ go t
         | (None, x) :: t => WFV x /\ go t
         end) items
  end.

Definition attrs_wf (l : list (bytes * mval)) : Prop := Forall (fun a => len (fst a) < 2 ^ 32 /\ WFV (snd a)) l.
Definition items_wf (l : list (option mval * mval)) : Prop :=
  Forall (fun it => match fst it with Some k => WFV k | None => True end /\ WFV (snd it)) l.

Lemma WFV_record attrs items : WFV (VR attrs items) ->
  N.of_nat (length attrs) < 2 ^ 32 /\ N.of_nat (length items) < 2 ^ 32 /\ attrs_wf attrs /\ items_wf items.
Proof.
  cbn [WFV]. intros (Ha & Hi & Hattrs & Hitems). repeat split; auto.
  - clear Ha. induction attrs as [|[name x] t IH]; constructor; [cbn [fst snd]; tauto|apply IH; tauto].
  - clear Hi. induction items as [|[[k|] x] t IH]; constructor; try (cbn [fst snd]; tauto); apply IH; tauto.
Qed.

Ltac bool_cases :=
  repeat match goal with
         | |- context [?a <=? ?b] => destruct (N.leb_spec a b)
         | |- context [?a <? ?b] => destruct (N.ltb_spec a b)
         | |- context [?a =? ?b] => destruct (N.eqb_spec a b)
         end; cbn [andb orb negb]; try reflexivity; try lia.

Ltac head_goal := repeat split; try reflexivity; try lia; try (unfold is_map_marker; bool_cases).

(* ---- first bytes ---- *)
Lemma scalar_head s : wf s -> exists h t, enc_scalar s = h :: t /\ is_map_marker h = false /\ h <> 146.
Proof.
  intros W. destruct s as [|b|n|n|bits|neg mag|mag|str|str]; cbn [enc_scalar wf] in *.
  - exists 192, []. head_goal.
  - destruct b; [exists 195, []|exists 194, []]; head_goal.
  - unfold enc_int_pos.
    destruct (n <? 128) eqn:E1; [exists n, []; head_goal|].
    destruct (n <? 256); [eexists 204, _; head_goal|].
    destruct (n <? 65536); [eexists 205, _; head_goal|].
    destruct (n <? 4294967296); [eexists 206, _; head_goal|].
    eexists 207, _; head_goal.
  - unfold enc_int_neg.
    destruct (n <=? 32) eqn:E1; [exists (256 - n), []; head_goal|].
    destruct (n <=? 128); [eexists 208, _; head_goal|].
    destruct (n <=? 32768); [eexists 209, _; head_goal|].
    destruct (n <=? 2147483648); [eexists 210, _; head_goal|].
    eexists 211, _; head_goal.
  - eexists 203, _; head_goal.
  - unfold enc_ext_meta. set (l := len (mag_bytes mag) + 1).
    destruct (l =? 1); [eexists 212, _; head_goal|].
    destruct (l =? 2); [eexists 213, _; head_goal|].
    destruct (l =? 4); [eexists 214, _; head_goal|].
    destruct (l =? 8); [eexists 215, _; head_goal|].
    destruct (l =? 16); [eexists 216, _; head_goal|].
    destruct (l <? 256); [eexists 199, _; head_goal|].
    destruct (l <? 65536); [eexists 200, _; head_goal|].
    eexists 201, _; head_goal.
  - unfold enc_ext_meta. set (l := len (mag_bytes mag)).
    destruct (l =? 1); [eexists 212, _; head_goal|].
    destruct (l =? 2); [eexists 213, _; head_goal|].
    destruct (l =? 4); [eexists 214, _; head_goal|].
    destruct (l =? 8); [eexists 215, _; head_goal|].
    destruct (l =? 16); [eexists 216, _; head_goal|].
    destruct (l <? 256); [eexists 199, _; head_goal|].
    destruct (l <? 65536); [eexists 200, _; head_goal|].
    eexists 201, _; head_goal.
  - unfold enc_str_len.
    destruct (len str <? 32) eqn:E1; [exists (160 + len str), str; head_goal|].
    destruct (len str <? 256); [eexists 217, _; head_goal|].
    destruct (len str <? 65536); [eexists 218, _; head_goal|].
    eexists 219, _; head_goal.
  - unfold enc_bin_len.
    destruct (len str <? 256); [eexists 196, _; head_goal|].
    destruct (len str <? 65536); [eexists 197, _; head_goal|].
    eexists 198, _; head_goal.
Qed.

Lemma map_len_head n : exists h t, enc_map_len n = h :: t /\ is_map_marker h = true /\ h <> 146.
Proof.
  unfold enc_map_len.
  destruct (n <? 16) eqn:E1; [exists (128 + n), []; head_goal|].
  destruct (n <? 65536); [eexists 222, _; head_goal|].
  eexists 223, _; head_goal.
Qed.

Lemma enc_head v : WFV v -> exists h t, enc v = h :: t /\ h <> 146 /\
  is_map_marker h = match v with VS _ => false | VR _ _ => true end.
Proof.
  intros W. destruct v as [s|attrs items].
  - destruct (scalar_head s W) as (h & t & E & Hm & Hn). exists h, t. cbn [enc]. auto.
  - cbn [enc]. destruct (map_len_head (N.of_nat (length attrs))) as (h & t & E & Hm & Hn).
    rewrite E. cbn [app]. eexists h, _. split; [reflexivity|]. auto.
Qed.

(* ---- length headers and names ---- *)
Lemma dec_len_map n r : n < 2 ^ 32 -> dec_len 128 222 223 (enc_map_len n ++ r) = inl (Some (n, r)).
Proof.
  rewrite t32. intros H. unfold enc_map_len.
  destruct (n <? 16) eqn:E1.
  { cbn [app dec_len]. replace ((128 <=? 128 + n) && (128 + n <? 128 + 16)) with true by (symmetry; bool_cases).
    do 3 f_equal. lia. }
  destruct (n <? 65536) eqn:E2.
  { cbn [app dec_len]. change ((128 <=? 222) && (222 <? 128 + 16)) with false. change (222 =? 222) with true. cbn match.
    rewrite len_app, len_be. destruct (N.of_nat 2 + len r <? 2) eqn:E; [lia|].
    rewrite take_n_app, drop_n_app by apply len_be. now rewrite ub2 by lia. }
  cbn [app dec_len]. change ((128 <=? 223) && (223 <? 128 + 16)) with false. change (223 =? 222) with false.
  change (223 =? 223) with true. cbn match.
  rewrite len_app, len_be. destruct (N.of_nat 4 + len r <? 4) eqn:E; [lia|].
  rewrite take_n_app, drop_n_app by apply len_be. now rewrite ub4 by lia.
Qed.

Lemma dec_len_arr n r : n < 2 ^ 32 -> dec_len 144 220 221 (enc_array_len n ++ r) = inl (Some (n, r)).
Proof.
  rewrite t32. intros H. unfold enc_array_len.
  destruct (n <? 16) eqn:E1.
  { cbn [app dec_len]. replace ((144 <=? 144 + n) && (144 + n <? 144 + 16)) with true by (symmetry; bool_cases).
    do 3 f_equal. lia. }
  destruct (n <? 65536) eqn:E2.
  { cbn [app dec_len]. change ((144 <=? 220) && (220 <? 144 + 16)) with false. change (220 =? 220) with true. cbn match.
    rewrite len_app, len_be. destruct (N.of_nat 2 + len r <? 2) eqn:E; [lia|].
    rewrite take_n_app, drop_n_app by apply len_be. now rewrite ub2 by lia. }
  cbn [app dec_len]. change ((144 <=? 221) && (221 <? 144 + 16)) with false. change (221 =? 220) with false.
  change (221 =? 221) with true. cbn match.
  rewrite len_app, len_be. destruct (N.of_nat 4 + len r <? 4) eqn:E; [lia|].
  rewrite take_n_app, drop_n_app by apply len_be. now rewrite ub4 by lia.
Qed.

(* an array header is not a map header *)
Lemma dec_len_map_on_arr n r : dec_len 128 222 223 (enc_array_len n ++ r) = inr false.
Proof.
  unfold enc_array_len.
  destruct (n <? 16) eqn:E1.
  { cbn [app dec_len]. replace ((128 <=? 144 + n) && (144 + n <? 128 + 16)) with false by (symmetry; bool_cases).
    replace (144 + n =? 222) with false by (symmetry; bool_cases).
    replace (144 + n =? 223) with false by (symmetry; bool_cases). reflexivity. }
  destruct (n <? 65536); reflexivity.
Qed.

Lemma dec_name_ok name r : len name < 2 ^ 32 ->
  dec_name (enc_str_len (len name) ++ name ++ r) = inl (Some (name, r)).
Proof.
  rewrite t32. intros H. unfold enc_str_len.
  assert (Hw : forall l (r1 : bytes), l = len name -> r1 = name ++ r ->
            (if len r1 <? l then inl None else inl (Some (take l r1, drop l r1))) = (inl (Some (name, r)) : option (bytes * bytes) + bool)).
  { intros l r1 -> ->. rewrite len_app. destruct (len name + len r <? len name) eqn:E; [lia|].
    now rewrite take_app_exact, drop_app_exact. }
  destruct (len name <? 32) eqn:E1.
  { cbn [app dec_name]. replace ((160 <=? 160 + len name) && (160 + len name <? 192)) with true by (symmetry; bool_cases).
    apply Hw; [lia|reflexivity]. }
  destruct (len name <? 256) eqn:E2.
  { cbn [app dec_name]. change ((160 <=? 217) && (217 <? 192)) with false. change (217 =? 217) with true. cbn match.
    rewrite len_app, len_be. destruct (N.of_nat 1 + len (name ++ r) <? 1) eqn:E; [lia|].
    rewrite take_n_app, drop_n_app by apply len_be. rewrite ub1 by lia. now apply Hw. }
  destruct (len name <? 65536) eqn:E3.
  { cbn [app dec_name]. change ((160 <=? 218) && (218 <? 192)) with false. change (218 =? 217) with false.
    change (218 =? 218) with true. cbn match.
    rewrite len_app, len_be. destruct (N.of_nat 2 + len (name ++ r) <? 2) eqn:E; [lia|].
    rewrite take_n_app, drop_n_app by apply len_be. rewrite ub2 by lia. now apply Hw. }
  cbn [app dec_name]. change ((160 <=? 219) && (219 <? 192)) with false. change (219 =? 217) with false.
  change (219 =? 218) with false. change (219 =? 219) with true. cbn match.
  rewrite len_app, len_be. destruct (N.of_nat 4 + len (name ++ r) <? 4) eqn:E; [lia|].
  rewrite take_n_app, drop_n_app by apply len_be. rewrite ub4 by lia. now apply Hw.
Qed.

(* ---- the loops ---- *)
Definition enc_attr (a : bytes * mval) : bytes := let (name, x) := a in enc_str_len (len name) ++ name ++ enc x.
Definition enc_slot (it : option mval * mval) : bytes :=
  let (k, x) := it in match k with Some k => enc k ++ enc x | None => enc x end.
Definition enc_item (it : option mval * mval) : bytes :=
  let (k, x) := it in match k with Some k => 146 :: enc k ++ enc x | None => enc x end.

Definition decodes (d : bytes -> vres) (x : mval) : Prop := forall rest, d (enc x ++ rest) = VOk x rest.

Lemma dec_attrs_ok d attrs :
  Forall (fun a => len (fst a) < 2 ^ 32 /\ decodes d (snd a)) attrs ->
  forall acc tail, dec_attrs d (length attrs) (flat_map enc_attr attrs ++ tail) acc = inl (Some (rev acc ++ attrs, tail)).
Proof.
  induction 1 as [|[name x] t [Hn Hd] _ IH]; intros acc tail; cbn [length dec_attrs flat_map app].
  - now rewrite app_nil_r.
  - cbn [fst snd] in *. unfold enc_attr at 1. rewrite <- !app_assoc. rewrite dec_name_ok by exact Hn.
    rewrite Hd. rewrite IH. cbn [rev]. now rewrite <- app_assoc.
Qed.

Lemma dec_slots_ok d items :
  Forall (fun it => exists k, fst it = Some k /\ decodes d k /\ decodes d (snd it)) items ->
  forall acc tail, dec_slots d (length items) (flat_map enc_slot items ++ tail) acc = inl (Some (rev acc ++ items, tail)).
Proof.
  induction 1 as [|[ko x] t (k & Ek & Hk & Hx) _ IH]; intros acc tail; cbn [length dec_slots flat_map app].
  - now rewrite app_nil_r.
  - cbn [fst snd] in *. subst ko. unfold enc_slot at 1. rewrite <- !app_assoc. rewrite Hk, Hx, IH.
    cbn [rev]. now rewrite <- app_assoc.
Qed.

Definition head_ok (x : mval) : Prop := exists h t, enc x = h :: t /\ h <> 146.

Lemma dec_items_ok d items :
  Forall (fun it => match fst it with
                    | Some k => decodes d k /\ decodes d (snd it)
                    | None => decodes d (snd it) /\ head_ok (snd it)
                    end) items ->
  forall acc tail, dec_items d (length items) (flat_map enc_item items ++ tail) acc = inl (Some (rev acc ++ items, tail)).
Proof.
  induction 1 as [|[[k|] x] t Hit _ IH]; intros acc tail; cbn [length dec_items flat_map app].
  - now rewrite app_nil_r.
  - cbn [fst snd] in Hit. destruct Hit as [Hk Hx]. unfold enc_item at 1. cbn [app].
    change (146 =? 146) with true. cbn match. rewrite <- !app_assoc. rewrite Hk, Hx, IH.
    cbn [rev]. now rewrite <- app_assoc.
  - cbn [fst snd] in Hit. destruct Hit as [Hx (h & tl & Eh & Hne)].
    assert (Hb : (enc_item (None, x) ++ flat_map enc_item t) ++ tail = h :: (tl ++ flat_map enc_item t ++ tail)).
    { unfold enc_item at 1. rewrite Eh. cbn [app]. now rewrite <- app_assoc. }
    rewrite Hb. cbv iota. destruct (h =? 146) eqn:E; [apply N.eqb_eq in E; congruence|].
    replace (h :: tl ++ flat_map enc_item t ++ tail) with (enc x ++ flat_map enc_item t ++ tail) by (now rewrite Eh).
    rewrite Hx, IH. cbn [rev]. now rewrite <- app_assoc.
Qed.

(* ---- what kind of body ---- *)
Lemma kind_from_map items : forall k, (k = None \/ k = Some KMap) ->
  kind_from k items = Some KMap -> Forall (fun it => exists key, fst it = Some key) items.
Proof.
  induction items as [|[[key|] x] t IH]; intros k Hk H; [constructor| |].
  - constructor; [now exists key|]. cbn [kind_from] in H.
    destruct Hk as [->| ->]; apply (IH (Some KMap)); auto.
  - cbn [kind_from] in H. destruct Hk as [->| ->]; [|discriminate].
    exfalso. clear IH. revert H. generalize t. induction t0 as [|[[k2|] x2] t2 IH2]; cbn [kind_from]; intros H; try discriminate.
    now apply IH2.
Qed.

(* ---- depth of sub-values ---- *)
Lemma depth_attr (attrs : list (bytes * mval)) : forall a, In a attrs ->
  (depth (snd a) <= fold_right (fun (a : bytes * mval) m => Nat.max (depth (snd a)) m) O attrs)%nat.
Proof.
  induction attrs as [|b t IH]; intros a Hin; [destruct Hin|].
  destruct Hin as [->|Hin]; cbn [fold_right]; [lia|]. specialize (IH _ Hin). lia.
Qed.

Lemma depth_item (items : list (option mval * mval)) : forall it, In it items ->
  (match fst it with Some k => depth k | None => O end <=
   fold_right (fun (it : option mval * mval) m => Nat.max (match fst it with Some k => depth k | None => O end) (Nat.max (depth (snd it)) m)) O items)%nat /\
  (depth (snd it) <=
   fold_right (fun (it : option mval * mval) m => Nat.max (match fst it with Some k => depth k | None => O end) (Nat.max (depth (snd it)) m)) O items)%nat.
Proof.
  induction items as [|b t IH]; intros it Hin; [destruct Hin|].
  destruct Hin as [->|Hin]; cbn [fold_right]; [lia|]. specialize (IH _ Hin). lia.
Qed.

(* ---- the round trip ---- *)
Lemma enc_record attrs items :
  enc (VR attrs items) =
  enc_map_len (N.of_nat (length attrs)) ++ flat_map enc_attr attrs ++
  match body_kind items with
  | KMap => enc_map_len (N.of_nat (length items)) ++ flat_map enc_slot items
  | _ => enc_array_len (N.of_nat (length items)) ++ flat_map enc_item items
  end.
Proof. reflexivity. Qed.

Lemma dec_record f b mk r : b = mk :: r -> is_map_marker mk = true ->
  dec (S f) b =
  match dec_len 128 222 223 b with
  | inl (Some (n, r)) =>
      match dec_attrs (dec f) (N.to_nat n) r [] with
      | inl (Some (attrs, r1)) =>
          match dec_len 128 222 223 r1 with
          | inl (Some (m, r2)) =>
              match dec_slots (dec f) (N.to_nat m) r2 [] with
              | inl (Some (items, r3)) => VOk (VR attrs items) r3
              | inl None => VIncomplete
              | inr _ => VBad
              end
          | inl None => VIncomplete
          | inr _ =>
              match dec_len 144 220 221 r1 with
              | inl (Some (m, r2)) =>
                  match dec_items (dec f) (N.to_nat m) r2 [] with
                  | inl (Some (items, r3)) => VOk (VR attrs items) r3
                  | inl None => VIncomplete
                  | inr _ => VBad
                  end
              | inl None => VIncomplete
              | inr _ => VBad
              end
          end
      | inl None => VIncomplete
      | inr _ => VBad
      end
  | inl None => VIncomplete
  | inr _ => VBad
  end.
Proof. intros -> Hm. cbn [dec]. now rewrite Hm. Qed.

Lemma dec_scalar_case f b mk r : b = mk :: r -> is_map_marker mk = false ->
  dec (S f) b = match dec_scalar b with MOk s r => VOk (VS s) r | MIncomplete => VIncomplete | MBad => VBad end.
Proof. intros -> Hm. cbn [dec]. now rewrite Hm. Qed.

Theorem record_roundtrip : forall v, WFV v ->
  forall fuel rest, (depth v <= fuel)%nat -> dec fuel (enc v ++ rest) = VOk v rest.
Proof.
  induction v as [s|attrs items IHa IHi] using mval_ind2; intros W fuel rest Hd.
  - (* a scalar *)
    destruct fuel as [|f]; [cbn [depth] in Hd; lia|].
    cbn [WFV] in W. destruct (scalar_head s W) as (h & t & E & Hm & _).
    cbn [enc]. rewrite (dec_scalar_case f _ h (t ++ rest)); [|now rewrite E|exact Hm].
    now rewrite scalar_roundtrip.
  - (* a record *)
    destruct fuel as [|f]; [cbn [depth] in Hd; lia|].
    destruct (WFV_record _ _ W) as (Hla & Hli & Wa & Wi). unfold attrs_wf, items_wf in Wa, Wi.
    cbn [depth] in Hd. apply le_S_n in Hd.
    (* the sub-values are decoded by [dec f] *)
    assert (Da : Forall (fun a => len (fst a) < 2 ^ 32 /\ decodes (dec f) (snd a)) attrs).
    { rewrite Forall_forall in *. intros a Hin. destruct (Wa a Hin) as [Hn Hw]. split; [exact Hn|].
      intros rest'. apply (IHa a Hin Hw). pose proof (depth_attr attrs a Hin). lia. }
    assert (Di : Forall (fun it => match fst it with
                                   | Some k => decodes (dec f) k /\ decodes (dec f) (snd it)
                                   | None => decodes (dec f) (snd it) /\ head_ok (snd it)
                                   end) items).
    { rewrite Forall_forall in *. intros it Hin. destruct (Wi it Hin) as [Hk Hx].
      destruct (depth_item items it Hin) as [Dk Dx]. specialize (IHi it Hin). unfold item_P in IHi.
      destruct IHi as [IHk IHx]. destruct (fst it) as [k|] eqn:Ek.
      - split; intros rest'; [apply IHk|apply IHx]; auto; lia.
      - split; [intros rest'; apply IHx; auto; lia|].
        destruct (enc_head _ Hx) as (h & t & E & Hne & _). now exists h, t. }
    rewrite enc_record. destruct (map_len_head (N.of_nat (length attrs))) as (h & t & E & Hm & _).
    rewrite (dec_record f _ h (t ++ (flat_map enc_attr attrs ++
               match body_kind items with
               | KMap => enc_map_len (N.of_nat (length items)) ++ flat_map enc_slot items
               | _ => enc_array_len (N.of_nat (length items)) ++ flat_map enc_item items
               end) ++ rest)); [|rewrite E; cbn [app]; now rewrite <- app_assoc|exact Hm].
    rewrite <- !app_assoc. rewrite dec_len_map by exact Hla. rewrite Nat2N.id.
    rewrite (dec_attrs_ok _ _ Da). cbn [rev app].
    destruct (body_kind items) eqn:Ek.
    + (* an array of values *)
      rewrite <- app_assoc. rewrite dec_len_map_on_arr, dec_len_arr by exact Hli. rewrite Nat2N.id.
      rewrite (dec_items_ok _ _ Di). reflexivity.
    + (* a map of slots *)
      rewrite <- app_assoc. rewrite dec_len_map by exact Hli. rewrite Nat2N.id.
      assert (Ds : Forall (fun it => exists k, fst it = Some k /\ decodes (dec f) k /\ decodes (dec f) (snd it)) items).
      { unfold body_kind in Ek. destruct (kind_from None items) as [k0|] eqn:Ekf; [|discriminate]. subst k0.
        pose proof (kind_from_map items None (or_introl eq_refl) Ekf) as Hall.
        rewrite Forall_forall in *. intros it Hin. destruct (Hall it Hin) as [k Hk]. exists k. split; [exact Hk|].
        specialize (Di it Hin). now rewrite Hk in Di. }
      rewrite (dec_slots_ok _ _ Ds). reflexivity.
    + (* a mixed (or empty) body *)
      rewrite <- app_assoc. rewrite dec_len_map_on_arr, dec_len_arr by exact Hli. rewrite Nat2N.id.
      rewrite (dec_items_ok _ _ Di). reflexivity.
Qed.

(* different values never share an encoding *)
Corollary enc_injective a b : WFV a -> WFV b -> enc a = enc b -> a = b.
Proof.
  intros Wa Wb H.
  pose proof (record_roundtrip a Wa (Nat.max (depth a) (depth b)) [] (Nat.le_max_l _ _)) as Ra.
  pose proof (record_roundtrip b Wb (Nat.max (depth a) (depth b)) [] (Nat.le_max_r _ _)) as Rb.
  rewrite H in Ra. rewrite Ra in Rb. now inversion Rb.
Qed.

Example record_witness :
  let v := VR [([97], VS (MPos 1))] [(None, VS (MStr [104; 105])); (Some (VS (MPos 2)), VR [] [(None, VS MNil)])] in
  WFV v /\ dec 3 (enc v) = VOk v [] /\ enc v = [129; 161; 97; 1; 146; 162; 104; 105; 146; 2; 128; 145; 192].
Proof. cbn zeta. repeat split; try (vm_compute; reflexivity); vm_compute; try (intros; discriminate); auto. Qed.
