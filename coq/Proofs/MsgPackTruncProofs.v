(* C16, records on the MessagePack wire cut short: the encoding of a model value - any nesting of attributes
   and bodies - with its end missing, wherever the cut falls (inside a header, a name, a key, a nested record ...),
   is reported as incomplete: never read as some value, never rejected as malformed. *)
From SwimV Require Import Model.MsgPack Proofs.CodecProofs Proofs.MsgPackProofs Proofs.MsgPackRecordProofs.
From Coq Require Import ZArith ZifyN ZifyNat ZifyBool.
Open Scope N_scope.
Ltac Zify.zify_post_hook ::= Z.div_mod_to_equations.

Arguments be : simpl never.
Arguments unbe : simpl never.
Arguments N.add : simpl never.
Arguments N.sub : simpl never.
Arguments N.ltb : simpl never.
Arguments N.leb : simpl never.
Arguments N.eqb : simpl never.
Arguments N.pow : simpl never.

(* where a cut falls in a concatenation *)
Lemma cut_app (a b p q : bytes) : p ++ q = a ++ b ->
  (exists p2, p = a ++ p2 /\ p2 ++ q = b) \/ (exists q1, q1 <> [] /\ p ++ q1 = a /\ q = q1 ++ b).
Proof.
  intros H. destruct (N.le_gt_cases (len a) (len p)) as [L|L].
  - left. symmetry in H. destruct (split_prefix a b p q H L) as (r & -> & ->). now exists r.
  - right. symmetry in H. destruct (split_prefix_rev a b p q H L) as (r & Hr & -> & ->). now exists r.
Qed.

Lemma len_nonempty (q : bytes) : q <> [] -> 1 <= len q.
Proof. destruct q; [congruence|]. rewrite len_cons. lia. Qed.

Lemma cut_short (B p q : bytes) : p ++ q = B -> q <> [] -> len p < len B.
Proof. intros <- Hq. rewrite len_app. pose proof (len_nonempty q Hq). lia. Qed.

Lemma cut_single (x : N) (p q : bytes) : p ++ q = [x] -> q <> [] -> p = [].
Proof.
  intros H Hq. destruct p as [|y p]; [reflexivity|]. cbn [app] in H. injection H as -> H.
  destruct p; [|discriminate]. cbn [app] in H. congruence.
Qed.

(* ---- headers cut short ---- *)
Lemma dec_len_cut base m16 m32 p q w (n : N) mk :
  p ++ q = mk :: be w n -> q <> [] ->
  ((base <=? mk) && (mk <? base + 16) = false) ->
  ((mk =? m16) = true /\ w = 2%nat \/ (mk =? m16) = false /\ (mk =? m32) = true /\ w = 4%nat) ->
  dec_len base m16 m32 p = inl None.
Proof.
  intros H Hq Hsmall Hmk. destruct p as [|y p]; [reflexivity|]. cbn [app] in H. injection H as -> H.
  pose proof (cut_short _ _ _ H Hq) as L. rewrite len_be in L.
  cbn [dec_len]. rewrite Hsmall.
  destruct Hmk as [[E ->]|(E1 & E2 & ->)].
  - rewrite E. destruct (len p <? 2) eqn:E3; [reflexivity|lia].
  - rewrite E1, E2. destruct (len p <? 4) eqn:E3; [reflexivity|lia].
Qed.

Lemma dec_len_map_cut n p q : p ++ q = enc_map_len n -> q <> [] -> dec_len 128 222 223 p = inl None.
Proof.
  unfold enc_map_len. intros H Hq.
  destruct (n <? 16). { now rewrite (cut_single _ _ _ H Hq). }
  destruct (n <? 65536).
  - eapply dec_len_cut; [exact H|exact Hq|reflexivity|left; split; reflexivity].
  - eapply dec_len_cut; [exact H|exact Hq|reflexivity|right; repeat split; reflexivity].
Qed.

Lemma dec_len_arr_cut n p q : p ++ q = enc_array_len n -> q <> [] -> dec_len 144 220 221 p = inl None.
Proof.
  unfold enc_array_len. intros H Hq.
  destruct (n <? 16). { now rewrite (cut_single _ _ _ H Hq). }
  destruct (n <? 65536).
  - eapply dec_len_cut; [exact H|exact Hq|reflexivity|left; split; reflexivity].
  - eapply dec_len_cut; [exact H|exact Hq|reflexivity|right; repeat split; reflexivity].
Qed.

(* what is left of an array header is either nothing or still no map header *)
Lemma dec_len_map_on_arr_cut n p q : p ++ q = enc_array_len n -> q <> [] ->
  dec_len 128 222 223 p = inl None \/ dec_len 128 222 223 p = inr false.
Proof.
  unfold enc_array_len. intros H Hq.
  destruct (n <? 16). { left. now rewrite (cut_single _ _ _ H Hq). }
  destruct p as [|y p]; [now left|right]. cbn [app] in H.
  destruct (n <? 65536); injection H as -> H; reflexivity.
Qed.

Lemma dec_name_cut name p q : len name < 2 ^ 32 ->
  p ++ q = enc_str_len (len name) ++ name -> q <> [] -> dec_name p = inl None.
Proof.
  rewrite t32. intros L H Hq. unfold enc_str_len in H.
  assert (Hw : forall l (r1 : bytes) q', l = len name -> r1 ++ q' = name -> q' <> [] ->
            (if len r1 <? l then inl None else inl (Some (take l r1, drop l r1))) = (inl None : option (bytes * bytes) + bool)).
  { intros l r1 q' -> E Hq'. pose proof (cut_short _ _ _ E Hq'). destruct (len r1 <? len name) eqn:E2; [reflexivity|lia]. }
  (* a length field of w bytes after the marker *)
  assert (Hf : forall w (p' : bytes) (v : N), unbe (be w v) = v -> v = len name ->
            p' ++ q = be w v ++ name ->
            (if len p' <? N.of_nat w then inl None
             else (if len (drop (N.of_nat w) p') <? unbe (take (N.of_nat w) p') then inl None
                   else inl (Some (take (unbe (take (N.of_nat w) p')) (drop (N.of_nat w) p'),
                                   drop (unbe (take (N.of_nat w) p')) (drop (N.of_nat w) p')))))
            = (inl None : option (bytes * bytes) + bool)).
  { intros w p' v Hu Hv E. destruct (len p' <? N.of_nat w) eqn:E1; [reflexivity|].
    destruct (cut_app (be w v) name p' q E) as [(p2 & -> & E2)|(q1 & Hq1 & E2 & _)].
    - rewrite take_n_app, drop_n_app by apply len_be. rewrite Hu. now apply (Hw _ _ q).
    - pose proof (cut_short _ _ _ E2 Hq1) as L2. rewrite len_be in L2. lia. }
  destruct (len name <? 32) eqn:E1.
  { destruct p as [|y p]; [reflexivity|]. cbn [app] in H. injection H as -> H. cbn [dec_name].
    replace ((160 <=? 160 + len name) && (160 + len name <? 192)) with true by (symmetry; bool_cases).
    apply (Hw _ _ q); [lia|exact H|exact Hq]. }
  destruct (len name <? 256) eqn:E2.
  { destruct p as [|y p]; [reflexivity|]. cbn [app] in H. injection H as -> H. cbn [dec_name].
    change ((160 <=? 217) && (217 <? 192)) with false. change (217 =? 217) with true. cbn match.
    apply (Hf 1%nat p (len name)); [apply ub1; lia|reflexivity|exact H]. }
  destruct (len name <? 65536) eqn:E3.
  { destruct p as [|y p]; [reflexivity|]. cbn [app] in H. injection H as -> H. cbn [dec_name].
    change ((160 <=? 218) && (218 <? 192)) with false. change (218 =? 217) with false.
    change (218 =? 218) with true. cbn match.
    apply (Hf 2%nat p (len name)); [apply ub2; lia|reflexivity|exact H]. }
  destruct p as [|y p]; [reflexivity|]. cbn [app] in H. injection H as -> H. cbn [dec_name].
  change ((160 <=? 219) && (219 <? 192)) with false. change (219 =? 217) with false.
  change (219 =? 218) with false. change (219 =? 219) with true. cbn match.
  apply (Hf 4%nat p (len name)); [apply ub4; lia|reflexivity|exact H].
Qed.

(* ---- the loops cut short ---- *)
Definition cuts (d : bytes -> vres) (x : mval) : Prop :=
  forall p q, p ++ q = enc x -> q <> [] -> d p = VIncomplete.

Lemma dec_attrs_cut d attrs :
  Forall (fun a => len (fst a) < 2 ^ 32 /\ decodes d (snd a) /\ cuts d (snd a)) attrs ->
  forall p q acc, p ++ q = flat_map enc_attr attrs -> q <> [] -> dec_attrs d (length attrs) p acc = inl None.
Proof.
  induction 1 as [|[name x] t (Hn & Hd & Hc) _ IH]; intros p q acc H Hq; cbn [flat_map] in H.
  - destruct p; [|discriminate]. cbn [app] in H. congruence.
  - cbn [fst snd] in *. cbn [length dec_attrs].
    destruct (cut_app _ _ _ _ H) as [(p2 & -> & E2)|(q1 & Hq1 & E1 & _)].
    + (* this attribute is whole *)
      unfold enc_attr. rewrite <- !app_assoc. rewrite dec_name_ok by exact Hn. rewrite Hd. now apply (IH p2 q).
    + (* the cut is in this attribute: in its name or in its value *)
      unfold enc_attr in E1. rewrite app_assoc in E1.
      destruct (cut_app _ _ _ _ E1) as [(p3 & -> & E3)|(q2 & Hq2 & E3 & _)].
      * rewrite <- app_assoc. rewrite dec_name_ok by exact Hn. now rewrite (Hc p3 q1 E3 Hq1).
      * now rewrite (dec_name_cut name p q2 Hn E3 Hq2).
Qed.

Lemma dec_slots_cut d items :
  Forall (fun it => exists k, fst it = Some k /\ (decodes d k /\ cuts d k) /\ (decodes d (snd it) /\ cuts d (snd it))) items ->
  forall p q acc, p ++ q = flat_map enc_slot items -> q <> [] -> dec_slots d (length items) p acc = inl None.
Proof.
  induction 1 as [|[ko x] t (k & Ek & (Hk & Ck) & (Hx & Cx)) _ IH]; intros p q acc H Hq; cbn [flat_map] in H.
  - destruct p; [|discriminate]. cbn [app] in H. congruence.
  - cbn [fst snd] in *. subst ko. cbn [length dec_slots].
    destruct (cut_app _ _ _ _ H) as [(p2 & -> & E2)|(q1 & Hq1 & E1 & _)].
    + unfold enc_slot. rewrite <- !app_assoc. rewrite Hk, Hx. now apply (IH p2 q).
    + unfold enc_slot in E1.
      destruct (cut_app _ _ _ _ E1) as [(p3 & -> & E3)|(q2 & Hq2 & E3 & _)].
      * rewrite Hk. now rewrite (Cx p3 q1 E3 Hq1).
      * now rewrite (Ck p q2 E3 Hq2).
Qed.

Lemma dec_items_cut d items :
  Forall (fun it => match fst it with
                    | Some k => (decodes d k /\ cuts d k) /\ (decodes d (snd it) /\ cuts d (snd it))
                    | None => (decodes d (snd it) /\ cuts d (snd it)) /\ head_ok (snd it)
                    end) items ->
  forall p q acc, p ++ q = flat_map enc_item items -> q <> [] -> dec_items d (length items) p acc = inl None.
Proof.
  induction 1 as [|[[k|] x] t Hit _ IH]; intros p q acc H Hq; cbn [flat_map] in H.
  - destruct p; [|discriminate]. cbn [app] in H. congruence.
  - (* a slot among the items: 146, key, value *)
    cbn [fst snd] in Hit. destruct Hit as [[Hk Ck] [Hx Cx]]. cbn [length dec_items].
    destruct p as [|y p]; [reflexivity|].
    unfold enc_item at 1 in H. cbn [app] in H. injection H as -> H.
    change (146 =? 146) with true. cbn match.
    rewrite <- app_assoc in H.
    destruct (cut_app _ _ _ _ H) as [(p2 & -> & E2)|(q1 & Hq1 & E1 & _)].
    + rewrite Hk.
      destruct (cut_app _ _ _ _ E2) as [(p3 & -> & E3)|(q2 & Hq2 & E3 & _)].
      * rewrite Hx. now apply (IH p3 q).
      * now rewrite (Cx p2 q2 E3 Hq2).
    + now rewrite (Ck p q1 E1 Hq1).
  - (* a plain value *)
    cbn [fst snd] in Hit. destruct Hit as [[Hx Cx] (h & tl & Eh & Hne)]. cbn [length dec_items].
    destruct p as [|y p]; [reflexivity|].
    unfold enc_item at 1 in H.
    assert (Ey : y = h). { rewrite Eh in H. cbn [app] in H. now injection H. }
    subst y. destruct (h =? 146) eqn:E; [apply N.eqb_eq in E; congruence|].
    destruct (cut_app _ _ _ _ H) as [(p2 & E1 & E2)|(q1 & Hq1 & E1 & _)].
    + rewrite E1, Hx. now apply (IH p2 q).
    + now rewrite (Cx (h :: p) q1 E1 Hq1).
Qed.

(* ---- the theorem ---- *)
Theorem record_truncated : forall v, WFV v ->
  forall fuel p q, (depth v <= fuel)%nat -> p ++ q = enc v -> q <> [] -> dec fuel p = VIncomplete.
Proof.
  induction v as [s|attrs items IHa IHi] using mval_ind2; intros W fuel p q Hd H Hq.
  - (* a scalar *)
    destruct fuel as [|f]; [cbn [depth] in Hd; lia|].
    cbn [WFV] in W. cbn [enc] in H.
    destruct p as [|y p]; [reflexivity|].
    destruct (scalar_head s W) as (h & t & E & Hm & _).
    assert (Ey : y = h). { rewrite E in H. cbn [app] in H. now injection H. }
    subst y. rewrite (dec_scalar_case f _ h p eq_refl Hm).
    now rewrite (scalar_truncated s (h :: p) q W H Hq).
  - (* a record *)
    destruct fuel as [|f]; [cbn [depth] in Hd; lia|].
    destruct (WFV_record _ _ W) as (Hla & Hli & Wa & Wi). unfold attrs_wf, items_wf in Wa, Wi.
    cbn [depth] in Hd. apply le_S_n in Hd.
    assert (Da : Forall (fun a => len (fst a) < 2 ^ 32 /\ decodes (dec f) (snd a) /\ cuts (dec f) (snd a)) attrs).
    { rewrite Forall_forall in *. intros a Hin. destruct (Wa a Hin) as [Hn Hw].
      pose proof (depth_attr attrs a Hin) as Dp. split; [exact Hn|]. split.
      - intros rest'. apply record_roundtrip; [exact Hw|lia].
      - intros p' q' E' Hq'. apply (IHa a Hin Hw f p' q'); [lia|exact E'|exact Hq']. }
    assert (Di : Forall (fun it => match fst it with
                                   | Some k => (decodes (dec f) k /\ cuts (dec f) k) /\ (decodes (dec f) (snd it) /\ cuts (dec f) (snd it))
                                   | None => (decodes (dec f) (snd it) /\ cuts (dec f) (snd it)) /\ head_ok (snd it)
                                   end) items).
    { rewrite Forall_forall in *. intros it Hin. destruct (Wi it Hin) as [Hk Hx].
      destruct (depth_item items it Hin) as [Dk Dx]. specialize (IHi it Hin). unfold item_P in IHi.
      destruct IHi as [IHk IHx]. destruct (fst it) as [k|] eqn:Ek.
      - repeat split.
        + intros rest'. apply record_roundtrip; [exact Hk|lia].
        + intros p' q' E' Hq'. apply (IHk Hk f p' q'); [lia|exact E'|exact Hq'].
        + intros rest'. apply record_roundtrip; [exact Hx|lia].
        + intros p' q' E' Hq'. apply (IHx Hx f p' q'); [lia|exact E'|exact Hq'].
      - repeat split.
        + intros rest'. apply record_roundtrip; [exact Hx|lia].
        + intros p' q' E' Hq'. apply (IHx Hx f p' q'); [lia|exact E'|exact Hq'].
        + destruct (enc_head _ Hx) as (h & t & E & Hne & _). now exists h, t. }
    assert (Da' : Forall (fun a => len (fst a) < 2 ^ 32 /\ decodes (dec f) (snd a)) attrs).
    { eapply Forall_impl; [|exact Da]. cbv beta. tauto. }
    rewrite enc_record in H.
    destruct p as [|y p]; [reflexivity|].
    destruct (map_len_head (N.of_nat (length attrs))) as (h & t & E & Hm & _).
    assert (Ey : y = h). { rewrite E in H. cbn [app] in H. now injection H. }
    subst y. rewrite (dec_record f _ h p eq_refl Hm).
    (* the cut against the attribute count *)
    destruct (cut_app _ _ _ _ H) as [(p2 & -> & E2)|(q1 & Hq1 & E1 & _)];
      [|now rewrite (dec_len_map_cut _ _ _ E1 Hq1)].
    rewrite dec_len_map by exact Hla. rewrite Nat2N.id.
    (* against the attributes *)
    destruct (cut_app _ _ _ _ E2) as [(p3 & -> & E3)|(q2 & Hq2 & E3 & _)];
      [|now rewrite (dec_attrs_cut _ _ Da p2 q2 [] E3 Hq2)].
    rewrite (dec_attrs_ok _ _ Da'). cbn [rev app].
    (* against the body *)
    assert (Harr : p3 ++ q = enc_array_len (N.of_nat (length items)) ++ flat_map enc_item items ->
                   match dec_len 128 222 223 p3 with
                   | inl (Some (m, r2)) =>
                       match dec_slots (dec f) (N.to_nat m) r2 [] with
                       | inl (Some (its, r3)) => VOk (VR attrs its) r3
                       | inl None => VIncomplete
                       | inr _ => VBad
                       end
                   | inl None => VIncomplete
                   | inr _ =>
                       match dec_len 144 220 221 p3 with
                       | inl (Some (m, r2)) =>
                           match dec_items (dec f) (N.to_nat m) r2 [] with
                           | inl (Some (its, r3)) => VOk (VR attrs its) r3
                           | inl None => VIncomplete
                           | inr _ => VBad
                           end
                       | inl None => VIncomplete
                       | inr _ => VBad
                       end
                   end = VIncomplete).
    { intros E4.
      destruct (cut_app _ _ _ _ E4) as [(p4 & -> & E5)|(q3 & Hq3 & E5 & _)].
      - rewrite dec_len_map_on_arr, dec_len_arr by exact Hli. rewrite Nat2N.id.
        assert (Di' : Forall (fun it => match fst it with
                                        | Some k => (decodes (dec f) k /\ cuts (dec f) k) /\ (decodes (dec f) (snd it) /\ cuts (dec f) (snd it))
                                        | None => (decodes (dec f) (snd it) /\ cuts (dec f) (snd it)) /\ head_ok (snd it)
                                        end) items) by exact Di.
        now rewrite (dec_items_cut _ _ Di' p4 q [] E5 Hq).
      - destruct (dec_len_map_on_arr_cut _ _ _ E5 Hq3) as [-> | ->]; [reflexivity|].
        now rewrite (dec_len_arr_cut _ _ _ E5 Hq3). }
    destruct (body_kind items) eqn:Ek.
    + now apply Harr.
    + (* a map of slots *)
      assert (Ds : Forall (fun it => exists k, fst it = Some k /\ (decodes (dec f) k /\ cuts (dec f) k) /\
                                               (decodes (dec f) (snd it) /\ cuts (dec f) (snd it))) items).
      { unfold body_kind in Ek. destruct (kind_from None items) as [k0|] eqn:Ekf; [|discriminate]. subst k0.
        pose proof (kind_from_map items None (or_introl eq_refl) Ekf) as Hall.
        rewrite Forall_forall in *. intros it Hin. destruct (Hall it Hin) as [k Hk]. exists k. split; [exact Hk|].
        specialize (Di it Hin). now rewrite Hk in Di. }
      destruct (cut_app _ _ _ _ E3) as [(p4 & -> & E5)|(q3 & Hq3 & E5 & _)].
      * rewrite dec_len_map by exact Hli. rewrite Nat2N.id.
        now rewrite (dec_slots_cut _ _ Ds p4 q [] E5 Hq).
      * now rewrite (dec_len_map_cut _ _ _ E5 Hq3).
    + now apply Harr.
Qed.

(* a proper prefix of an encoding is never the encoding of a value: no value's wire form begins another's *)
Corollary enc_prefix_free a b q : WFV a -> WFV b -> enc a ++ q = enc b -> q = [].
Proof.
  intros Wa Wb H. destruct q as [|x q]; [reflexivity|exfalso].
  pose proof (record_truncated b Wb (Nat.max (depth a) (depth b)) (enc a) (x :: q) (Nat.le_max_r _ _) H ltac:(discriminate)) as T.
  pose proof (record_roundtrip a Wa (Nat.max (depth a) (depth b)) [] (Nat.le_max_l _ _)) as R.
  rewrite app_nil_r in R. rewrite R in T. discriminate.
Qed.

Example truncated_witness :
  let v := VR [([97], VS (MPos 1))] [(None, VS (MStr [104; 105])); (Some (VS (MPos 2)), VR [] [(None, VS MNil)])] in
  forallb (fun k => match dec 3 (firstn k (enc v)) with VIncomplete => true | _ => false end) (seq 0 (length (enc v))) = true.
Proof. vm_compute. reflexivity. Qed.
