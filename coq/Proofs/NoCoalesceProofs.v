(* Proofs for C14 (Model/NoCoalesce.v): supply lane and supply backpressure are FIFOs that deliver
   each item exactly once; the ad hoc command output never loses or duplicates a command that is not
   overwritable and only drops an overwritable command when a later one for the same target exists. *)
From SwimV Require Import Model.NoCoalesce Proofs.CodecProofs.
Open Scope N_scope.

(* ------------------------------------------------------------------------------------------ *)
(* Supply lane *)
Fixpoint sfinal (s : supply) (ops : list sop) : supply :=
  match ops with [] => s | o :: t => sfinal (fst (sstep s o)) t end.

Fixpoint pushed_of (ops : list sop) : list N :=
  match ops with [] => [] | SPush v :: t => v :: pushed_of t | _ :: t => pushed_of t end.
Fixpoint synced_of (ops : list sop) : list N :=
  match ops with [] => [] | SSync i :: t => i :: synced_of t | _ :: t => synced_of t end.
Fixpoint events_of (outs : list sout) : list N :=
  match outs with [] => [] | SWrote (Some (SEvent v)) _ :: t => v :: events_of t | _ :: t => events_of t end.
Fixpoint syncs_of (outs : list sout) : list N :=
  match outs with [] => [] | SWrote (Some (SSynced i)) _ :: t => i :: syncs_of t | _ :: t => syncs_of t end.

Lemma supply_exactly_once_gen ops : forall s,
  events_of (srun s ops) ++ s_events (sfinal s ops) = s_events s ++ pushed_of ops /\
  syncs_of (srun s ops) ++ s_syncs (sfinal s ops) = s_syncs s ++ synced_of ops.
Proof.
  induction ops as [|o t IH]; intros s; simpl; [now rewrite !app_nil_r|].
  destruct o as [v|i|]; simpl.
  - destruct (IH {| s_syncs := s_syncs s; s_events := s_events s ++ [v] |}) as (H1 & H2). simpl in *.
    rewrite H1, H2, <- app_assoc. auto.
  - destruct (IH {| s_syncs := s_syncs s ++ [i]; s_events := s_events s |}) as (H1 & H2). simpl in *.
    rewrite H1, H2, <- app_assoc. auto.
  - destruct (s_syncs s) as [|i rest] eqn:ES.
    + destruct (s_events s) as [|v rest] eqn:EE; simpl.
      * destruct (IH s) as (H1 & H2). rewrite ES, EE in *. auto.
      * destruct (IH {| s_syncs := []; s_events := rest |}) as (H1 & H2). simpl in *. rewrite H1, H2. auto.
    + simpl. destruct (IH {| s_syncs := rest; s_events := s_events s |}) as (H1 & H2). simpl in *.
      rewrite H1, H2. auto.
Qed.

(* every write reports truthfully whether anything is left *)
Lemma supply_flag s : match sstep s SWrite with
                      | (s', SWrote _ more) => more = nonempty (s_events s') || nonempty (s_syncs s')
                      | _ => False
                      end.
Proof.
  simpl. destruct (s_syncs s) as [|i rest] eqn:ES.
  - destruct (s_events s) as [|v rest] eqn:EE; simpl; [now rewrite ES, EE|now rewrite orb_false_r].
  - reflexivity.
Qed.

(* a write with something pending always emits something *)
Lemma supply_progress s : nonempty (s_events s) || nonempty (s_syncs s) = true ->
  match sstep s SWrite with (_, SWrote (Some _) _) => True | _ => False end.
Proof.
  simpl. destruct (s_syncs s); [|auto]. destruct (s_events s); simpl; [discriminate|auto].
Qed.

(* ------------------------------------------------------------------------------------------ *)
(* Supply backpressure *)
Definition frame (b : bytes) : bytes := be 8 (len b) ++ b.
Definition frames (bs : list bytes) : bytes := concat (map frame bs).

Lemma frames_snoc bs b : sb_push (frames bs) b = frames (bs ++ [b]).
Proof. unfold sb_push, frames. rewrite map_app, concat_app. simpl. now rewrite app_nil_r. Qed.

Lemma sb_prepare_nonempty buf : buf <> [] ->
  sb_prepare buf = (drop (unbe (take 8 buf)) (drop 8 buf), take (unbe (take 8 buf)) (drop 8 buf)).
Proof. destruct buf; [congruence|reflexivity]. Qed.

Lemma sb_prepare_frames b bs : U64 (len b) -> sb_prepare (frames (b :: bs)) = (frames bs, b).
Proof.
  intros HU. assert (frames (b :: bs) = be 8 (len b) ++ (b ++ frames bs)) as ->
    by (unfold frames; cbn [map concat]; unfold frame at 1; now rewrite <- app_assoc).
  rewrite sb_prepare_nonempty.
  - rewrite (take_n_app 8 (be 8 (len b))) by apply len_be.
    rewrite (drop_n_app 8 (be 8 (len b))) by apply len_be.
    rewrite unbe8 by exact HU. now rewrite take_app_exact, drop_app_exact.
  - pose proof (be_length 8 (len b)) as HL. destruct (be 8 (len b)); [discriminate|discriminate].
Qed.

Lemma nonempty_frames b bs : nonempty (frames (b :: bs)) = true.
Proof.
  unfold frames, frame. simpl. pose proof (be_length 8 (len b)) as HL.
  destruct (be 8 (len b)); [discriminate|reflexivity].
Qed.

Lemma bytes_eqb_refl (a : bytes) : bytes_eqb a a = true.
Proof. induction a as [|x t IH]; simpl; [reflexivity|]. now rewrite N.eqb_refl. Qed.

(* the byte buffer is a FIFO of bodies: for every push/prepare sequence every body comes out exactly
   once, whole, in push order, and has_data is exact (this is the oracle evaluated on the
   implementation; here it is proved of the model) *)
Theorem supplybp_fifo ops : forall pending,
  Forall (fun b => U64 (len b)) pending ->
  Forall (fun o => match o with BPush b => U64 (len b) | BPrepare => True end) ops ->
  supplybp_oracle pending ops (brun (frames pending) ops) = true.
Proof.
  induction ops as [|o t IH]; intros pending HP HO; [reflexivity|].
  inversion HO as [|? ? Ho HO']; subst. destruct o as [b|]; simpl.
  - rewrite frames_snoc. apply IH; auto. apply Forall_app. split; auto.
  - destruct pending as [|p rest].
    + simpl. apply (IH [] HP HO').
    + inversion HP as [|? ? Hp HP']; subst. rewrite sb_prepare_frames by exact Hp.
      rewrite bytes_eqb_refl. simpl. destruct rest as [|r rest'].
      * simpl. apply (IH [] HP' HO').
      * rewrite nonempty_frames. simpl. apply (IH (r :: rest') HP' HO').
Qed.

(* ------------------------------------------------------------------------------------------ *)
(* CommandOutput *)
Definition bodies (l : list rec) : list N := map r_body l.
Definition proj (t : N) (l : list rec) : list rec := filter (fun r => r_target r =? t) l.

(* [keeps A D]: D is what may be delivered of the appends A (body, overwritable) to one target: the
   appends in order, each at most once, where an append may be missing only if it is overwritable and
   is followed by a later append *)
Inductive keeps : list (N * bool) -> list N -> Prop :=
| K_nil : keeps [] []
| K_keep b ow A D : keeps A D -> keeps ((b, ow) :: A) (b :: D)
| K_drop b A D : keeps A D -> A <> [] -> keeps ((b, true) :: A) D.

Lemma keeps_app A1 D1 A2 D2 : keeps A1 D1 -> keeps A2 D2 -> A2 <> [] -> keeps (A1 ++ A2) (D1 ++ D2).
Proof.
  intros H1 H2 NE. induction H1 as [|b ow A D H IH|b A D H IH NA]; simpl; [exact H2| |].
  - now constructor.
  - constructor; [exact IH|]. destruct A; [congruence|discriminate].
Qed.

Lemma keeps_app_nil A1 D1 : keeps A1 D1 -> keeps (A1 ++ []) (D1 ++ []).
Proof. now rewrite !app_nil_r. Qed.

Definition all_ow (X : list (N * bool)) : Prop := Forall (fun e => snd e = true) X.

Lemma keeps_all_ow X b o : all_ow X -> keeps (X ++ [(b, o)]) [b].
Proof.
  induction 1 as [|[b0 o0] X Hx HX IH]; simpl; [repeat constructor|].
  simpl in Hx. subst o0. constructor; [exact IH|]. destruct X; discriminate.
Qed.

(* nothing is delivered more often than it was appended, and order is kept *)
Lemma keeps_sublist A D : keeps A D -> exists mask, length mask = length A /\
  D = map fst (map snd (filter fst (combine mask A))).
Proof.
  induction 1 as [|b ow A D H (m & Hl & ->)|b A D H (m & Hl & ->) NA].
  - exists []. auto.
  - exists (true :: m). simpl. auto.
  - exists (false :: m). simpl. auto.
Qed.

(* a non-overwritable append is never missing *)
Lemma keeps_non_ow A D : keeps A D -> forall b, In (b, false) A -> In b D.
Proof.
  induction 1 as [|b0 ow A D H IH|b0 A D H IH NA]; intros b I; [contradiction| |].
  - destruct I as [E|I]; [inversion E; now left|right; now apply IH].
  - destruct I as [E|I]; [discriminate|now apply IH].
Qed.

(* the most recent append is never missing *)
Lemma keeps_last A D : keeps A D -> forall A' b o, A = A' ++ [(b, o)] -> exists D', D = D' ++ [b].
Proof.
  induction 1 as [|b0 ow A D H IH|b0 A D H IH NA]; intros A' b o E.
  - destruct A'; discriminate.
  - destruct A' as [|x A'']; simpl in E.
    + inversion E; subst. inversion H; subst. now exists [].
    + inversion E; subst. destruct (IH A'' b o eq_refl) as (D' & ->). now exists (b0 :: D').
  - destruct A' as [|x A'']; simpl in E.
    + inversion E; subst. congruence.
    + inversion E; subst. apply (IH A'' b o eq_refl).
Qed.

(* ---- buffers ---- *)
Lemma get_set_same t b bs : get_buf t (set_buf t b bs) = b.
Proof.
  induction bs as [|[t' b'] r IH]; simpl; [now rewrite N.eqb_refl|].
  destruct (N.eqb_spec t t'); simpl; [now rewrite N.eqb_refl|].
  destruct (N.eqb_spec t t'); [congruence|exact IH].
Qed.

Lemma get_set_other t t' b bs : t <> t' -> get_buf t (set_buf t' b bs) = get_buf t bs.
Proof.
  intros NE. induction bs as [|[t'' b''] r IH]; simpl.
  - destruct (N.eqb_spec t t'); [congruence|reflexivity].
  - destruct (N.eqb_spec t' t''); simpl.
    + subst. destruct (N.eqb_spec t t''); [congruence|reflexivity].
    + destruct (N.eqb_spec t t''); [reflexivity|exact IH].
Qed.

Definition pure (bs : list (N * lanebuf)) : Prop :=
  forall t r, In r (lb_buf (get_buf t bs)) -> r_target r = t.

Lemma proj_all t l : (forall r, In r l -> r_target r = t) -> proj t l = l.
Proof.
  induction l as [|x r IH]; intros H; simpl; [reflexivity|].
  rewrite (H x) by now left. rewrite N.eqb_refl. f_equal. apply IH. intros y Hy. apply H. now right.
Qed.

Lemma proj_none t t' l : t <> t' -> (forall r, In r l -> r_target r = t') -> proj t l = [].
Proof.
  intros NE. induction l as [|x r IH]; intros H; simpl; [reflexivity|].
  rewrite (H x) by now left. destruct (N.eqb_spec t' t); [congruence|]. apply IH. intros y Hy. apply H. now right.
Qed.

Lemma proj_app t a b : proj t (a ++ b) = proj t a ++ proj t b.
Proof. apply filter_app. Qed.

Lemma pure_set t b bs : pure bs -> (forall r, In r (lb_buf b) -> r_target r = t) -> pure (set_buf t b bs).
Proof.
  intros P H t' r I. destruct (N.eq_dec t' t) as [->|NE].
  - rewrite get_set_same in I. now apply H.
  - rewrite get_set_other in I by assumption. now apply P.
Qed.

Definition mem (t : N) (d : list N) : bool := existsb (N.eqb t) d.

Lemma drain_dirty_spec d : forall bs acc, pure bs ->
  (forall t, get_buf t (fst (drain_dirty d bs acc)) = if mem t d then lanebuf0 else get_buf t bs) /\
  (forall t, proj t (snd (drain_dirty d bs acc)) = proj t acc ++ (if mem t d then lb_buf (get_buf t bs) else [])) /\
  pure (fst (drain_dirty d bs acc)).
Proof.
  induction d as [|x d IH]; intros bs acc P; simpl.
  - split; [reflexivity|]. split; [intros t; now rewrite app_nil_r|exact P].
  - assert (P1 : pure (set_buf x lanebuf0 bs)) by (apply pure_set; [exact P|intros r []]).
    destruct (IH (set_buf x lanebuf0 bs) (acc ++ lb_buf (get_buf x bs)) P1) as (H1 & H2 & H3).
    split; [|split; [|exact H3]].
    + intros t. rewrite H1. destruct (N.eqb_spec t x) as [->|NE]; simpl.
      * rewrite get_set_same. now destruct (mem x d).
      * now rewrite get_set_other.
    + intros t. rewrite H2, proj_app, <- app_assoc. f_equal. destruct (N.eqb_spec t x) as [->|NE]; simpl.
      * rewrite get_set_same. simpl. rewrite proj_all by (intros r; apply P). now destruct (mem x d); rewrite ?app_nil_r.
      * rewrite (proj_none t x) by (auto; intros r; apply P). simpl. now rewrite get_set_other.
Qed.

(* ---- a driver for every order of events on one output ---- *)
Inductive cop := CAppend (t body : N) (ow : bool) | COpen | CDone.

Record cstate := {
  cs_c : cout;
  cs_inflight : option (list rec);
  cs_stream : list rec;                    (* everything handed to the channel so far *)
  cs_hist : list (N * (N * bool))          (* every append so far *)
}.
Definition cs0 : cstate := {| cs_c := cout0; cs_inflight := None; cs_stream := []; cs_hist := [] |}.

Definition try_write (s : cstate) : cstate :=
  match co_write (cs_c s) with
  | (c', Some r) => {| cs_c := c'; cs_inflight := Some r; cs_stream := cs_stream s ++ r; cs_hist := cs_hist s |}
  | (c', None) => {| cs_c := c'; cs_inflight := cs_inflight s; cs_stream := cs_stream s; cs_hist := cs_hist s |}
  end.

Definition cstep (s : cstate) (o : cop) : cstate :=
  match o with
  | CAppend t b ow =>
      try_write {| cs_c := co_append (cs_c s) t b ow; cs_inflight := cs_inflight s; cs_stream := cs_stream s;
                   cs_hist := cs_hist s ++ [(t, (b, ow))] |}
  | COpen =>
      match co_writer (cs_c s), cs_inflight s with
      | None, None =>
          try_write {| cs_c := co_replace_writer (cs_c s) []; cs_inflight := None; cs_stream := cs_stream s;
                       cs_hist := cs_hist s |}
      | _, _ => s
      end
  | CDone =>
      match cs_inflight s with
      | Some sent =>
          try_write {| cs_c := co_replace_writer (cs_c s) sent; cs_inflight := None; cs_stream := cs_stream s;
                       cs_hist := cs_hist s |}
      | None => s
      end
  end.

Definition appends (t : N) (h : list (N * (N * bool))) : list (N * bool) :=
  map snd (filter (fun e => fst e =? t) h).

(* per target: the appends split into a settled part and a trailing run of overwritable ones of which
   only the last is still in the buffer, past the offset *)
Definition TI (s : cstate) (t : N) : Prop :=
  let lb := get_buf t (co_bufs (cs_c s)) in
  let kept := firstn (lb_off lb) (lb_buf lb) in
  exists A' Atail tail,
    appends t (cs_hist s) = A' ++ Atail /\
    lb_buf lb = kept ++ tail /\ length kept = lb_off lb /\
    keeps A' (bodies (proj t (cs_stream s)) ++ bodies kept) /\
    ((Atail = [] /\ tail = []) \/
     (exists X b0, Atail = X ++ [(b0, true)] /\ all_ow X /\ tail = [{| r_target := t; r_body := b0 |}])).

Definition CI (s : cstate) : Prop :=
  pure (co_bufs (cs_c s)) /\
  (forall t, lb_buf (get_buf t (co_bufs (cs_c s))) <> [] -> mem t (co_dirty (cs_c s)) = true) /\
  (forall t, TI s t) /\
  (co_writer (cs_c s) <> None -> co_dirty (cs_c s) = []).

(* what TI gives once the buffer is flushed or read as a whole *)
Lemma TI_whole s t : TI s t ->
  keeps (appends t (cs_hist s))
        (bodies (proj t (cs_stream s)) ++ bodies (lb_buf (get_buf t (co_bufs (cs_c s))))).
Proof.
  intros (A' & Atail & tail & HA & HB & HL & HK & HT).
  set (kept := firstn _ _) in *. rewrite HA, HB. unfold bodies in *. rewrite map_app, app_assoc.
  destruct HT as [(-> & ->)|(X & b0 & -> & HX & ->)].
  - simpl. rewrite !app_nil_r. exact HK.
  - simpl. apply keeps_app; [exact HK|now apply keeps_all_ow|]. destruct X; discriminate.
Qed.

Definition CIpre (s : cstate) : Prop :=
  pure (co_bufs (cs_c s)) /\
  (forall t, lb_buf (get_buf t (co_bufs (cs_c s))) <> [] -> mem t (co_dirty (cs_c s)) = true) /\
  (forall t, TI s t).

Lemma CI_pre s : CI s -> CIpre s.
Proof. intros (H1 & H2 & H3 & _). now repeat split. Qed.

Lemma mem_app t a b : mem t (a ++ b) = mem t a || mem t b.
Proof. apply existsb_app. Qed.

Lemma appends_snoc_same t h b ow : appends t (h ++ [(t, (b, ow))]) = appends t h ++ [(b, ow)].
Proof. unfold appends. rewrite filter_app, map_app. simpl. now rewrite N.eqb_refl. Qed.

Lemma appends_snoc_other t t' h x : t <> t' -> appends t (h ++ [(t', x)]) = appends t h.
Proof.
  intros NE. unfold appends. rewrite filter_app, map_app. simpl.
  destruct (N.eqb_spec t' t); [congruence|]. simpl. now rewrite app_nil_r.
Qed.

Lemma firstn_app_exact {A} (a b : list A) : firstn (length a) (a ++ b) = a.
Proof. rewrite firstn_app, Nat.sub_diag, firstn_all. simpl. now rewrite app_nil_r. Qed.

Lemma In_firstn {A} n (l : list A) x : In x (firstn n l) -> In x l.
Proof.
  revert l. induction n as [|n IH]; intros [|h t] I; simpl in *; try contradiction.
  destruct I as [->|I]; [now left|right; now apply IH].
Qed.

Lemma all_ow_tail Atail tail t :
  ((Atail = [] /\ tail = []) \/
   (exists X b0, Atail = X ++ [(b0, true)] /\ all_ow X /\ tail = [{| r_target := t; r_body := b0 |}])) ->
  all_ow Atail.
Proof.
  intros [(-> & _)|(X & b0 & -> & HX & _)]; [constructor|]. apply Forall_app. split; [exact HX|repeat constructor].
Qed.

Lemma append_CIpre s t b ow : CIpre s ->
  CIpre {| cs_c := co_append (cs_c s) t b ow; cs_inflight := cs_inflight s; cs_stream := cs_stream s;
           cs_hist := cs_hist s ++ [(t, (b, ow))] |}.
Proof.
  intros (P & HD & HT). unfold CIpre, co_append. cbn [cs_c cs_stream cs_hist co_bufs co_dirty].
  set (lb := get_buf t (co_bufs (cs_c s))). set (kept := firstn (lb_off lb) (lb_buf lb)).
  set (r := {| r_target := t; r_body := b |}).
  split; [|split].
  - apply pure_set; [exact P|]. cbn [lb_buf]. intros x I. apply in_app_or in I as [I|[<-|[]]]; [|reflexivity].
    apply (P t). eapply In_firstn. exact I.
  - intros t' NE. rewrite mem_app. destruct (N.eq_dec t' t) as [->|Nt].
    + simpl. rewrite N.eqb_refl. now rewrite orb_true_r.
    + rewrite get_set_other in NE by assumption. now rewrite (HD t' NE).
  - intros t'. unfold TI. cbn [cs_c cs_stream cs_hist co_bufs].
    destruct (N.eq_dec t' t) as [->|Nt].
    + rewrite get_set_same, appends_snoc_same. cbn [lb_buf lb_off].
      destruct (HT t) as (A' & Atail & tail & HA & HB & HL & HK & HTl). fold lb in HB, HL, HK. fold kept in HB, HL, HK.
      pose proof (all_ow_tail _ _ _ HTl) as HOW.
      destruct ow.
      * (* overwritable: it sits past the offset *)
        rewrite firstn_app_exact. exists A', (Atail ++ [(b, true)]), [r].
        split; [now rewrite HA, app_assoc|]. split; [reflexivity|]. split; [reflexivity|]. split; [exact HK|].
        right. exists Atail, b. auto.
      * (* not overwritable: everything before it is settled *)
        rewrite (firstn_all (kept ++ [r])).
        exists (A' ++ Atail ++ [(b, false)]), [], [].
        split; [now rewrite HA, !app_assoc, app_nil_r|]. split; [now rewrite app_nil_r|]. split; [reflexivity|].
        split; [|now left]. unfold bodies in *.
        assert (G : keeps (A' ++ (Atail ++ [(b, false)]))
                          ((map r_body (proj t (cs_stream s)) ++ map r_body kept) ++ [b])).
        { apply keeps_app; [exact HK|now apply keeps_all_ow|destruct Atail; discriminate]. }
        rewrite map_app. simpl.
        rewrite (app_assoc (map r_body (proj t (cs_stream s))) (map r_body kept) [b]). exact G.
    + rewrite get_set_other by assumption. rewrite appends_snoc_other by assumption. apply HT.
Qed.

Lemma co_write_some c w : co_writer c = Some w -> co_dirty c <> [] ->
  co_write c = ({| co_writer := None; co_bufs := fst (drain_dirty (co_dirty c) (co_bufs c) []); co_dirty := [] |},
                Some (snd (drain_dirty (co_dirty c) (co_bufs c) []))).
Proof.
  intros HW ND. unfold co_write. rewrite HW. destruct (co_dirty c) as [|t [|t2 r]]; [congruence|reflexivity|].
  destruct (drain_dirty (t :: t2 :: r) (co_bufs c) []). reflexivity.
Qed.

Lemma try_write_CI s : CIpre s -> CI (try_write s).
Proof.
  intros (P & HD & HT). unfold try_write.
  destruct (co_writer (cs_c s)) as [w|] eqn:EW.
  2: { unfold co_write. rewrite EW. destruct s as [c i st h]. cbn in *.
       split; [exact P|]. split; [exact HD|]. split; [exact HT|]. intros NW. exfalso. apply NW. exact EW. }
  destruct (co_dirty (cs_c s)) as [|d0 dr] eqn:ED.
  { unfold co_write. rewrite EW, ED. destruct s as [c i st h]. cbn [cs_c] in *.
    split; [exact P|]. split; [cbn [cs_c]; rewrite ED; exact HD|]. split; [exact HT|]. intros _. exact ED. }
  rewrite (co_write_some _ w EW) by (rewrite ED; discriminate). rewrite ED.
  destruct (drain_dirty_spec (d0 :: dr) (co_bufs (cs_c s)) [] P) as (H1 & H2 & H3).
  set (dd := drain_dirty (d0 :: dr) (co_bufs (cs_c s)) []) in *.
  unfold CI. cbn [cs_c cs_stream cs_hist co_bufs co_dirty co_writer].
  split; [exact H3|]. split; [|split; [|reflexivity]].
  - intros t NE. rewrite H1 in NE. destruct (mem t (d0 :: dr)) eqn:EM; [simpl in NE; congruence|].
    specialize (HD t NE). congruence.
  - intros t. unfold TI. cbn [cs_c cs_stream cs_hist co_bufs]. rewrite H1, proj_app, H2. simpl proj at 2.
    destruct (mem t (d0 :: dr)) eqn:EM.
    + (* this target's buffer went to the channel *)
      exists (appends t (cs_hist s)), [], []. simpl. rewrite !app_nil_r. split; [reflexivity|].
      split; [reflexivity|]. split; [reflexivity|]. split; [|now left].
      unfold bodies. rewrite map_app. apply (TI_whole s t (HT t)).
    + rewrite app_nil_r. apply HT.
Qed.

Lemma cstep_CI s o : CI s -> CI (cstep s o).
Proof.
  intros H. destruct o as [t b ow| |]; simpl.
  - apply try_write_CI, append_CIpre, CI_pre, H.
  - destruct (co_writer (cs_c s)); [exact H|]. destruct (cs_inflight s); [exact H|].
    apply try_write_CI. apply CI_pre in H. exact H.
  - destruct (cs_inflight s); [|exact H]. apply try_write_CI. apply CI_pre in H. exact H.
Qed.

Lemma CI_cs0 : CI cs0.
Proof.
  split; [intros t r []|]. split; [intros t NE; simpl in NE; congruence|]. split; [|intros NW; reflexivity].
  intros t. exists [], [], []. simpl. repeat split; [constructor|now left].
Qed.

Definition crun (ops : list cop) : cstate := fold_left cstep ops cs0.

Lemma crun_CI ops : CI (crun ops).
Proof.
  unfold crun. assert (forall s, CI s -> CI (fold_left cstep ops s)) as G.
  { induction ops as [|o t IH]; intros s H; simpl; [exact H|]. apply IH. now apply cstep_CI. }
  apply G, CI_cs0.
Qed.

(* C14, ad hoc commands: for every order of appends, channel openings and write completions, and for
   every target: what has been handed to the channel for the target, followed by what is still
   buffered for it, is the sequence of commands appended for it, each once, in order, where a command
   may be missing only if it was overwritable and a later command for the same target was appended *)
Theorem adhoc_forwarding ops t :
  let s := crun ops in
  keeps (appends t (cs_hist s))
        (bodies (proj t (cs_stream s)) ++ bodies (lb_buf (get_buf t (co_bufs (cs_c s))))).
Proof. destruct (crun_CI ops) as (_ & _ & HT & _). apply TI_whole, HT. Qed.

(* whenever the writer is back and idle nothing is left behind in any buffer *)
Theorem adhoc_idle_all_sent ops t :
  let s := crun ops in
  co_writer (cs_c s) <> None ->
  lb_buf (get_buf t (co_bufs (cs_c s))) = [] /\ keeps (appends t (cs_hist s)) (bodies (proj t (cs_stream s))).
Proof.
  intros s NW. pose proof (adhoc_forwarding ops t) as HF. destruct (crun_CI ops) as (_ & HD & _ & HW).
  fold s in HF, HD, HW. specialize (HW NW).
  assert (lb_buf (get_buf t (co_bufs (cs_c s))) = []) as E.
  { destruct (lb_buf (get_buf t (co_bufs (cs_c s)))) eqn:EB; [reflexivity|].
    assert (mem t (co_dirty (cs_c s)) = true) as M by (apply HD; rewrite EB; discriminate).
    rewrite HW in M. discriminate. }
  split; [exact E|]. cbv zeta in HF. rewrite E in HF. simpl in HF. now rewrite app_nil_r in HF.
Qed.

(* everything on the channel for a target is addressed to that target and nothing else is *)
Theorem adhoc_stream_partition ops :
  let s := crun ops in
  forall r, In r (cs_stream s) -> In r (proj (r_target r) (cs_stream s)).
Proof. intros s r I. apply filter_In. split; [exact I|apply N.eqb_refl]. Qed.

(* the task-level model used for the correspondence (Model/NoCoalesce.v, [t_send] / [t_open] /
   [drain_output]) moves each output by exactly the steps of the driver above *)
Lemma start_write_is_try_write o st h :
  let s := {| cs_c := o_cout o; cs_inflight := o_inflight o; cs_stream := st; cs_hist := h |} in
  o_cout (start_write o) = cs_c (try_write s) /\ o_inflight (start_write o) = cs_inflight (try_write s).
Proof. unfold start_write, try_write. simpl. destruct (co_write (o_cout o)) as [c' [r|]]; auto. Qed.
