(* C05: a history in which everything published had first been handed to the store restores, at every crash
   point, a state that is never older than what a subscriber saw; the write task only produces such
   histories; the stored map is rebuilt exactly by the initialiser's stream of updates. *)
From SwimV Require Import Model.Persist.
Open Scope N_scope.

(* ---- lists ---- *)
Lemma lookup_update_same {A} l (x : A) xs : lookup l (update l x xs) = Some x.
Proof.
  induction xs as [|[k v] t IH]; cbn [update lookup].
  - now rewrite N.eqb_refl.
  - destruct (k =? l) eqn:E; cbn [lookup]; rewrite E; auto.
Qed.

Lemma lookup_update_other {A} l j (x : A) xs : j <> l -> lookup l (update j x xs) = lookup l xs.
Proof.
  intros Hn. induction xs as [|[k v] t IH]; cbn [update lookup].
  - destruct (j =? l) eqn:E; [apply N.eqb_eq in E; congruence|reflexivity].
  - destruct (k =? j) eqn:E; cbn [lookup].
    + apply N.eqb_eq in E. subst k. destruct (j =? l) eqn:E2; [apply N.eqb_eq in E2; congruence|reflexivity].
    + destruct (k =? l); auto.
Qed.

Lemma lookup_delete_other {A} l j (xs : list (N * A)) : j <> l -> lookup l (delete j xs) = lookup l xs.
Proof.
  intros Hn. induction xs as [|[k v] t IH]; cbn [delete lookup]; [reflexivity|].
  destruct (k =? j) eqn:E.
  - apply N.eqb_eq in E. subst k. destruct (j =? l) eqn:E2; [apply N.eqb_eq in E2; congruence|exact IH].
  - cbn [lookup]. destruct (k =? l); auto.
Qed.

Lemma replay_snoc l e : replay (l ++ [e]) = store_step (replay l) e.
Proof. unfold replay. now rewrite fold_left_app. Qed.

Lemma puts_app i a b : puts i (a ++ b) = puts i a ++ puts i b.
Proof. unfold puts. now rewrite flat_map_app. Qed.
Lemma mops_app i a b : mops i (a ++ b) = mops i a ++ mops i b.
Proof. unfold mops. now rewrite flat_map_app. Qed.

(* ---- the store holds the last value put, and the fold of the map operations ---- *)
Definition no_delete (i : N) (l : list lentry) : Prop := forall j, In (LDelete j) l -> j <> i.

Lemma replay_value i l : no_delete i l -> restored_value (replay l) i = last (puts i l) 0%Z.
Proof.
  induction l as [|e l IH] using rev_ind; intros Hd; [reflexivity|].
  assert (Hd' : no_delete i l) by (intros j Hj; apply Hd; apply in_or_app; now left).
  specialize (IH Hd'). rewrite replay_snoc, puts_app. unfold restored_value in *.
  destruct e; cbn [store_step c_vals puts flat_map]; rewrite ?app_nil_r; try exact IH.
  - destruct (item =? i) eqn:E.
    + apply N.eqb_eq in E. subst item. rewrite lookup_update_same. cbn [app]. now rewrite last_last.
    + rewrite app_nil_r. rewrite lookup_update_other; [exact IH|]. intros ->. now rewrite N.eqb_refl in E.
  - rewrite lookup_delete_other; [exact IH|]. apply Hd. apply in_or_app. right. now left.
Qed.

Lemma replay_map i l : restored_map (replay l) i = fold_left apply_mop (mops i l) [].
Proof.
  induction l as [|e l IH] using rev_ind; [reflexivity|].
  rewrite replay_snoc, mops_app, fold_left_app. unfold restored_map, cmap in *.
  destruct e; cbn [store_step c_maps mops flat_map fold_left]; rewrite ?app_nil_r; try exact IH.
  destruct (item =? i) eqn:E.
  - apply N.eqb_eq in E. subst item. rewrite lookup_update_same. cbn [app fold_left]. now rewrite <- IH.
  - cbn [fold_left]. rewrite lookup_update_other; [exact IH|]. intros ->. now rewrite N.eqb_refl in E.
Qed.

Lemma In_firstn {A} (x : A) n : forall l, In x (firstn n l) -> In x l.
Proof.
  induction n as [|n IH]; intros [|y l] H; cbn [firstn] in H; try contradiction.
  destruct H as [->|H]; [now left|right; auto].
Qed.

(* ---- well-formed histories ---- *)
Section Ok.
Variable persistent : N -> bool.

Lemma log_ok_from_app seen a : forall b,
  log_ok_from persistent seen (a ++ b) = log_ok_from persistent seen a && log_ok_from persistent (seen ++ a) b.
Proof.
  revert seen. induction a as [|e a IH]; intros seen b; cbn [app log_ok_from].
  - now rewrite app_nil_r.
  - rewrite IH, <- app_assoc. cbn [app]. now rewrite andb_assoc.
Qed.

(* a crash cuts the history anywhere: what remains is still well formed *)
Lemma log_ok_prefix n l : log_ok persistent l = true -> log_ok persistent (firstn n l) = true.
Proof.
  intros H. unfold log_ok in *. rewrite <- (firstn_skipn n l) in H. rewrite log_ok_from_app in H.
  now apply andb_prop in H.
Qed.

Lemma existsb_Zeqb x l : existsb (Z.eqb x) l = true -> In x l.
Proof.
  intros H. apply existsb_exists in H. destruct H as (y & Hy & E). apply Z.eqb_eq in E. now subst.
Qed.

Lemma mop_eqb_eq a b : mop_eqb a b = true -> a = b.
Proof.
  destruct a, b; cbn [mop_eqb]; intros H; try discriminate.
  - apply andb_prop in H. destruct H as [H1 H2]. apply Z.eqb_eq in H1, H2. now subst.
  - apply Z.eqb_eq in H. now subst.
  - reflexivity.
Qed.

Lemma sent_value_was_put_gen seen l r i x :
  log_ok_from persistent seen l = true -> persistent i = true -> In (LSentV r i x) l ->
  exists l1 l2, l = l1 ++ LSentV r i x :: l2 /\
    (In x (puts i (seen ++ l1)) \/ (x = 0%Z /\ puts i (seen ++ l1) = [])).
Proof.
  revert seen. induction l as [|e l IH]; intros seen H Hp Hin; [contradiction|].
  cbn [log_ok_from] in H. apply andb_prop in H. destruct H as [He Hl].
  destruct Hin as [->|Hin].
  - exists [], l. split; [reflexivity|]. rewrite app_nil_r. rewrite Hp in He. cbn [negb orb] in He.
    apply orb_prop in He. destruct He as [He|He]; [left; now apply existsb_Zeqb|right].
    destruct (puts i seen); [|discriminate]. apply Z.eqb_eq in He. auto.
  - destruct (IH _ Hl Hp Hin) as (l1 & l2 & -> & Hx). exists (e :: l1), l2. split; [reflexivity|].
    now rewrite <- app_assoc in Hx.
Qed.

Lemma sent_op_was_stored_gen seen l r i o :
  log_ok_from persistent seen l = true -> persistent i = true -> In (LSentM r i o) l ->
  exists l1 l2, l = l1 ++ LSentM r i o :: l2 /\ In o (mops i (seen ++ l1)).
Proof.
  revert seen. induction l as [|e l IH]; intros seen H Hp Hin; [contradiction|].
  cbn [log_ok_from] in H. apply andb_prop in H. destruct H as [He Hl].
  destruct Hin as [->|Hin].
  - exists [], l. split; [reflexivity|]. rewrite app_nil_r. rewrite Hp in He. cbn [negb orb] in He.
    apply existsb_exists in He. destruct He as (y & Hy & E). apply mop_eqb_eq in E. now subst.
  - destruct (IH _ Hl Hp Hin) as (l1 & l2 & -> & Hx). exists (e :: l1), l2. split; [reflexivity|].
    now rewrite <- app_assoc in Hx.
Qed.

(* whatever a subscriber was sent before the crash had been handed to the store before it was sent, and what
   the item comes back with is that value or one handed over later: never something older *)
Theorem restart_never_older_value l n r i x :
  log_ok persistent l = true -> persistent i = true -> no_delete i l ->
  In (LSentV r i x) (firstn n l) ->
  (exists before after,
     puts i (firstn n l) = before ++ x :: after /\
     restored_value (replay (firstn n l)) i = last (x :: after) 0%Z)
  \/ x = 0%Z.                     (* the default state, which nothing restored can be older than *)
Proof.
  intros Hok Hp Hd Hin. apply (log_ok_prefix n) in Hok.
  destruct (sent_value_was_put_gen [] _ _ _ _ Hok Hp Hin) as (l1 & l2 & E & [Hx|[Hx _]]); [|now right].
  left. cbn [app] in Hx.
  apply in_split in Hx. destruct Hx as (b & a & Hb).
  assert (Hputs : puts i (firstn n l) = b ++ x :: (a ++ puts i (LSentV r i x :: l2))).
  { rewrite E, puts_app, Hb, <- app_assoc. reflexivity. }
  exists b, (a ++ puts i (LSentV r i x :: l2)). split; [exact Hputs|].
  rewrite replay_value.
  - rewrite Hputs. clear. induction b as [|y b IH]; [reflexivity|].
    cbn [app]. destruct (b ++ x :: a ++ puts i (LSentV r i x :: l2)) eqn:Eb; [destruct b; discriminate|].
    cbn [last]. exact IH.
  - intros j Hj. apply Hd. eapply In_firstn. exact Hj.
Qed.

(* for a map: every operation a subscriber was sent is among those handed to the store before the crash, and
   the map comes back as exactly the fold of all of them *)
Theorem restart_never_older_map l n r i o :
  log_ok persistent l = true -> persistent i = true ->
  In (LSentM r i o) (firstn n l) ->
  In o (mops i (firstn n l)) /\
  restored_map (replay (firstn n l)) i = fold_left apply_mop (mops i (firstn n l)) [].
Proof.
  intros Hok Hp Hin. apply (log_ok_prefix n) in Hok. split; [|apply replay_map].
  destruct (sent_op_was_stored_gen [] _ _ _ _ Hok Hp Hin) as (l1 & l2 & E & Hx). cbn [app] in Hx.
  rewrite E, mops_app. apply in_or_app. now left.
Qed.

(* what is transient never reaches the store: it comes back at its default *)
Lemma transient_not_stored_gen seen l i :
  log_ok_from persistent seen l = true -> persistent i = false ->
  forall e, In e l -> match e with LPut j _ | LDelete j | LMap j _ => j <> i | _ => True end.
Proof.
  revert seen. induction l as [|e l IH]; intros seen H Hp e' Hin; [contradiction|].
  cbn [log_ok_from] in H. apply andb_prop in H. destruct H as [He Hl].
  destruct Hin as [<-|Hin]; [|eapply IH; eauto].
  destruct e; auto; intros ->; congruence.
Qed.

Lemma nothing_stored i l :
  (forall e, In e l -> match e with LPut j _ | LDelete j | LMap j _ => j <> i | _ => True end) ->
  puts i l = [] /\ mops i l = [].
Proof.
  induction l as [|e t IH]; intros H; [split; reflexivity|].
  destruct IH as [IH1 IH2]; [intros e' He'; apply H; now right|].
  specialize (H e (or_introl eq_refl)). unfold puts, mops in *. cbn [flat_map]. rewrite IH1, IH2.
  destruct e; try (split; reflexivity).
  - destruct (item =? i) eqn:E; [apply N.eqb_eq in E; congruence|split; reflexivity].
  - destruct (item =? i) eqn:E; [apply N.eqb_eq in E; congruence|split; reflexivity].
Qed.

Theorem transient_restarts_at_default l n i :
  log_ok persistent l = true -> persistent i = false ->
  restored_value (replay (firstn n l)) i = 0%Z /\ restored_map (replay (firstn n l)) i = [].
Proof.
  intros Hok Hp. apply (log_ok_prefix n) in Hok.
  pose proof (transient_not_stored_gen [] _ i Hok Hp) as Hnone.
  destruct (nothing_stored i _ Hnone) as [H1 H2]. split.
  - rewrite replay_value; [now rewrite H1|]. intros j Hj. exact (Hnone _ Hj).
  - rewrite replay_map. now rewrite H2.
Qed.

(* ---- the write task produces only well-formed histories ---- *)
Definition queued_ok (w : wtask) : Prop :=
  forall r i p, In (r, (i, p)) (w_queue w) -> persistent i = true ->
    match p with PVal v => In v (puts i (w_log w)) | PMap o => In o (mops i (w_log w)) end.

Lemma log_ok_snoc l e : log_ok persistent (l ++ [e]) = log_ok persistent l && log_ok_from persistent l [e].
Proof. unfold log_ok. rewrite log_ok_from_app. reflexivity. Qed.

Lemma take_first_spec r q ip q' : take_first r q = Some (ip, q') ->
  In (r, ip) q /\ forall x, In x q' -> In x q.
Proof.
  revert ip q'. induction q as [|[r' ip'] t IH]; intros ip q' H; [discriminate|].
  cbn [take_first] in H. destruct (r' =? r) eqn:E.
  - injection H as <- <-. apply N.eqb_eq in E. subst. split; [now left|]. intros x Hx. now right.
  - destruct (take_first r t) as [[x t']|] eqn:Et; [|discriminate]. injection H as <- <-.
    destruct (IH _ _ eq_refl) as [H1 H2]. split; [now right|]. intros y [<-|Hy]; [now left|right; auto].
Qed.

Lemma In_existsb_Z x l : In x l -> existsb (Z.eqb x) l = true.
Proof. intros H. apply existsb_exists. exists x. split; [exact H|apply Z.eqb_refl]. Qed.

Lemma mop_eqb_refl o : mop_eqb o o = true.
Proof. destruct o; cbn [mop_eqb]; rewrite ?Z.eqb_refl; reflexivity. Qed.

Lemma In_existsb_mop o l : In o l -> existsb (mop_eqb o) l = true.
Proof. intros H. apply existsb_exists. exists o. split; [exact H|apply mop_eqb_refl]. Qed.

Lemma wtask_step_inv w s :
  log_ok persistent (w_log w) = true -> queued_ok w ->
  log_ok persistent (w_log (wtask_step persistent w s)) = true /\ queued_ok (wtask_step persistent w s).
Proof.
  intros Hl Hq. destruct s as [i p remotes|r|r]; cbn [wtask_step].
  - destruct (persistent i) eqn:Hp; cbn [w_log w_queue].
    + split.
      * rewrite log_ok_snoc, Hl. cbn [andb log_ok_from]. destruct p; now rewrite Hp.
      * intros r j q Hin Hj. cbn [w_log w_queue] in *. apply in_app_or in Hin. destruct Hin as [Hin|Hin].
        -- specialize (Hq _ _ _ Hin Hj). destruct q; [rewrite puts_app|rewrite mops_app]; apply in_or_app; now left.
        -- apply in_map_iff in Hin. destruct Hin as (r' & E & _). injection E as _ <- <-.
           destruct p; [rewrite puts_app|rewrite mops_app]; apply in_or_app; right;
             cbn [puts mops flat_map]; rewrite N.eqb_refl; now left.
    + rewrite app_nil_r. split; [exact Hl|].
      intros r j q Hin Hj. cbn [w_log w_queue] in *. apply in_app_or in Hin. destruct Hin as [Hin|Hin]; [now apply (Hq r)|].
      apply in_map_iff in Hin. destruct Hin as (r' & E & _). injection E as _ <- <-. congruence.
  - destruct (take_first r (w_queue w)) as [[[i p] q']|] eqn:Et; [|now split].
    destruct (take_first_spec _ _ _ _ Et) as [Hin Hsub]. cbn [w_log w_queue]. split.
    + rewrite log_ok_snoc, Hl. cbn [andb log_ok_from]. rewrite andb_true_r. unfold entry_of. cbn [fst snd].
      destruct (persistent i) eqn:Hp.
      * specialize (Hq _ _ _ Hin Hp). destruct p; rewrite Hp; cbn [negb orb].
        -- rewrite In_existsb_Z by exact Hq. reflexivity.
        -- now apply In_existsb_mop.
      * destruct p; rewrite Hp; reflexivity.
    + intros r' j q Hq' Hj. cbn [w_log w_queue] in *. specialize (Hq _ _ _ (Hsub _ Hq') Hj).
      destruct q; [rewrite puts_app|rewrite mops_app]; apply in_or_app; now left.
  - destruct (take_first r (w_queue w)) as [[ip q']|] eqn:Et; [|now split].
    destruct (take_first_spec _ _ _ _ Et) as [Hin Hsub]. cbn [w_log w_queue]. split; [exact Hl|].
    intros r' j q Hq' Hj. cbn [w_log w_queue] in *. exact (Hq _ _ _ (Hsub _ Hq') Hj).
Qed.

Theorem write_task_history_ok ss : log_ok persistent (w_log (wtask_run persistent ss)) = true.
Proof.
  unfold wtask_run.
  assert (H : forall w, log_ok persistent (w_log w) = true -> queued_ok w ->
            log_ok persistent (w_log (fold_left (wtask_step persistent) ss w)) = true).
  { induction ss as [|s ss IH]; intros w Hl Hq; [exact Hl|]. cbn [fold_left].
    destruct (wtask_step_inv w s Hl Hq) as [Hl' Hq']. now apply IH. }
  apply H; [reflexivity|]. intros r i p [].
Qed.

(* ---- provenance: the store is only ever handed what the item itself reported ---- *)
Lemma existsb_app_l {A} (f : A -> bool) a b : existsb f a = true -> existsb f (a ++ b) = true.
Proof. intros H. rewrite existsb_app, H. reflexivity. Qed.

Lemma provenance_more cmds more l : provenance_ok cmds l = true -> provenance_ok (cmds ++ more) l = true.
Proof.
  unfold provenance_ok. rewrite !forallb_forall. intros H e Hin. specialize (H e Hin).
  destruct e; try exact H; now apply existsb_app_l.
Qed.

Lemma provenance_app cmds a b : provenance_ok cmds (a ++ b) = provenance_ok cmds a && provenance_ok cmds b.
Proof. unfold provenance_ok. apply forallb_app. Qed.

Lemma wtask_step_provenance cmds w s :
  provenance_ok cmds (w_log w) = true ->
  provenance_ok (cmds ++ handled [s]) (w_log (wtask_step persistent w s)) = true.
Proof.
  intros H. destruct s as [i p remotes|r|r]; cbn [wtask_step].
  - cbn [w_log]. rewrite provenance_app, (provenance_more _ _ _ H). cbn [andb].
    destruct (persistent i); [|reflexivity].
    destruct p as [v|o]; cbn [handled flat_map app provenance_ok forallb]; rewrite andb_true_r, existsb_app;
      apply orb_true_iff; right; cbn [existsb cmd_is_put cmd_is_mop]; rewrite N.eqb_refl.
    + now rewrite Z.eqb_refl.
    + now rewrite mop_eqb_refl.
  - destruct (take_first r (w_queue w)) as [[[i p] q']|]; cbn [w_log]; [|now apply provenance_more].
    rewrite provenance_app, (provenance_more _ _ _ H). unfold entry_of. cbn [fst snd]. now destruct p.
  - destruct (take_first r (w_queue w)) as [[ip q']|]; cbn [w_log]; now apply provenance_more.
Qed.

Theorem write_task_provenance ss : provenance_ok (handled ss) (w_log (wtask_run persistent ss)) = true.
Proof.
  unfold wtask_run.
  assert (H : forall cmds w, provenance_ok cmds (w_log w) = true ->
            provenance_ok (cmds ++ handled ss) (w_log (fold_left (wtask_step persistent) ss w)) = true).
  { induction ss as [|s ss IH]; intros cmds w Hw; cbn [fold_left].
    - now apply provenance_more.
    - replace (handled (s :: ss)) with (handled [s] ++ handled ss)
        by (unfold handled; cbn [flat_map]; now rewrite app_nil_r).
      rewrite app_assoc.
      apply IH. now apply wtask_step_provenance. }
  apply (H [] {| w_queue := []; w_log := [] |}). reflexivity.
Qed.

(* read at the store: a value found under an item's id after any crash was reported by that item *)
Theorem stored_value_was_reported cmds l n i :
  provenance_ok cmds l = true -> puts i (firstn n l) <> [] ->
  existsb (cmd_is_put i (restored_value (replay (firstn n l)) i)) cmds = true.
Proof.
  intros H Hne.
  assert (Hnd : no_delete i (firstn n l)).
  { intros j Hin. apply In_firstn in Hin. unfold provenance_ok in H. rewrite forallb_forall in H.
    specialize (H _ Hin). discriminate. }
  rewrite (replay_value i _ Hnd).
  assert (Hin : In (last (puts i (firstn n l)) 0%Z) (puts i (firstn n l))).
  { destruct (puts i (firstn n l)) as [|x t] eqn:E; [congruence|].
    destruct (exists_last (l := x :: t) ltac:(discriminate)) as (l' & a & ->). rewrite last_last.
    apply in_or_app. right. now left. }
  unfold puts in Hin. apply in_flat_map in Hin. destruct Hin as (e & He & Hv).
  apply In_firstn in He. unfold provenance_ok in H. rewrite forallb_forall in H. specialize (H _ He).
  destruct e as [j x|j|j o|r j x|r j o|r j|r j|r j|r|r]; try (now destruct Hv).
  destruct (j =? i) eqn:E; [|now destruct Hv]. apply N.eqb_eq in E. subst j.
  destruct Hv as [Hv|[]]. unfold puts. rewrite <- Hv. exact H.
Qed.

End Ok.

(* ---- the initialiser's stream of updates rebuilds the stored map ---- *)
Inductive zsorted : list (Z * Z) -> Prop :=
| zs_nil : zsorted []
| zs_one k v : zsorted [(k, v)]
| zs_cons k v k' v' t : (k < k')%Z -> zsorted ((k', v') :: t) -> zsorted ((k, v) :: (k', v') :: t).

Lemma zsorted_tail kv t : zsorted (kv :: t) -> zsorted t.
Proof. intros H. inversion H; subst; [constructor|assumption]. Qed.

Lemma zinsert_sorted k v m : zsorted m -> zsorted (zinsert k v m).
Proof.
  induction m as [|[k1 v1] t IH]; intros H; cbn [zinsert]; [constructor|].
  destruct (k1 =? k)%Z eqn:E.
  - apply Z.eqb_eq in E. subst k1. inversion H; subst; constructor; auto.
  - destruct (k <? k1)%Z eqn:L.
    + apply Z.ltb_lt in L. now constructor.
    + apply Z.ltb_ge in L. apply Z.eqb_neq in E. specialize (IH (zsorted_tail _ _ H)).
      destruct t as [|[k2 v2] t2]; cbn [zinsert] in *.
      * constructor; [lia|constructor].
      * inversion H; subst. destruct (k2 =? k)%Z eqn:E2.
        -- apply Z.eqb_eq in E2. subst k2. constructor; [lia|exact IH].
        -- destruct (k <? k2)%Z eqn:L2; constructor; try lia; exact IH.
Qed.

Lemma zremove_sorted k m : zsorted m -> zsorted (zremove k m).
Proof.
  induction m as [|[k1 v1] t IH]; intros H; cbn [zremove]; [constructor|].
  destruct (k1 =? k)%Z eqn:E; [exact (zsorted_tail _ _ H)|].
  specialize (IH (zsorted_tail _ _ H)).
  destruct t as [|[k2 v2] t2]; cbn [zremove] in *; [constructor|].
  inversion H; subst. destruct (k2 =? k)%Z eqn:E2.
  - destruct t2 as [|[k3 v3] t3]; [constructor|]. inversion H6; subst. constructor; [lia|assumption].
  - constructor; [assumption|exact IH].
Qed.

Lemma apply_mop_sorted m o : zsorted m -> zsorted (apply_mop m o).
Proof. destruct o; cbn [apply_mop]; auto using zinsert_sorted, zremove_sorted, zs_nil. Qed.

Lemma fold_mops_sorted ops : forall m, zsorted m -> zsorted (fold_left apply_mop ops m).
Proof. induction ops as [|o t IH]; intros m H; cbn [fold_left]; auto using apply_mop_sorted. Qed.

Definition all_below (m : list (Z * Z)) (k : Z) : Prop := forall k' v', In (k', v') m -> (k' < k)%Z.

Lemma zinsert_above k v m : all_below m k -> zinsert k v m = m ++ [(k, v)].
Proof.
  induction m as [|[k1 v1] t IH]; intros H; cbn [zinsert app]; [reflexivity|].
  assert (L : (k1 < k)%Z) by (apply (H k1 v1); now left).
  destruct (k1 =? k)%Z eqn:E; [apply Z.eqb_eq in E; lia|].
  destruct (k <? k1)%Z eqn:L2; [apply Z.ltb_lt in L2; lia|].
  f_equal. apply IH. intros k' v' Hin. apply (H k' v'). now right.
Qed.

Lemma zsorted_head_below k v t : zsorted ((k, v) :: t) -> forall k' v', In (k', v') t -> (k < k')%Z.
Proof.
  revert k v. induction t as [|[k1 v1] t IH]; intros k v H k' v' Hin; [contradiction|].
  inversion H; subst. destruct Hin as [E|Hin]; [injection E as <- <-; assumption|].
  specialize (IH _ _ H6 _ _ Hin). lia.
Qed.

Lemma rebuild_gen l : forall acc, zsorted (acc ++ l) ->
  fold_left (fun m kv => zinsert (fst kv) (snd kv) m) l acc = acc ++ l.
Proof.
  induction l as [|[k v] t IH]; intros acc H; cbn [fold_left fst snd]; [now rewrite app_nil_r|].
  rewrite zinsert_above.
  - rewrite IH; rewrite <- app_assoc; [reflexivity|exact H].
  - clear IH. induction acc as [|[k1 v1] a IHa]; intros k' v' Hin; [contradiction|].
    cbn [app] in H. destruct Hin as [E|Hin].
    + injection E as <- <-. apply (zsorted_head_below _ _ _ H k v). apply in_or_app. right. now left.
    + exact (IHa (zsorted_tail _ _ H) _ _ Hin).
Qed.

(* the stored map, streamed as one update per entry and applied to an empty map, is the stored map *)
Theorem rebuild_restores l i : rebuild (restored_map (replay l) i) = restored_map (replay l) i.
Proof.
  unfold rebuild. rewrite (rebuild_gen _ []); [reflexivity|]. cbn [app].
  rewrite replay_map. apply fold_mops_sorted. constructor.
Qed.

Example history_witness :
  let l := [LLinked 1 0; LPut 0 5%Z; LSentV 1 0 5%Z; LPut 0 7%Z; LMap 2 (MUpdate 1 4%Z); LSentM 1 2 (MUpdate 1 4%Z); LSentV 1 0 7%Z] in
  log_ok persistent_item l = true /\ no_delete 0 l /\
  restored_value (replay (firstn 4 l)) 0 = 7%Z /\ restored_map (replay l) 2 = [(1, 4)]%Z /\
  log_ok persistent_item [LSentV 1 0 5%Z; LPut 0 5%Z] = false.
Proof.
  cbn zeta. repeat split; try (vm_compute; reflexivity).
  intros j Hj. repeat (destruct Hj as [Hj|Hj]; [discriminate|]). contradiction.
Qed.
