(* C10 for the routed WARP messages between the runtime and an agent (swimos_messages::protocol,
   RawRequestMessageEncoder / RawRequestMessageDecoder and RawResponseMessageEncoder / RawResponseMessageDecoder):
   a frame is  origin(16) | node length(4) | lane length(4) | tag in the top three bits and body length in the low 61
   of 8 bytes | node | lane | body.  The decoder is stateless (nothing is consumed before a frame is complete), so the
   four facts of [frame_spec] give decoding under every fragmentation by [stateless_any_chunking]. *)
From SwimV Require Import Model.Codec Proofs.Streaming Proofs.CodecProofs.
From Coq Require Import Lia ZArith ZifyN ZifyNat ZifyBool.
Open Scope N_scope.
Ltac Zify.zify_post_hook ::= Z.div_mod_to_equations.

Lemma some_inj {A} (x y : A) : Some x = Some y -> x = y.
Proof. intros H. now injection H. Qed.

Definition P61 : N := 2305843009213693952.          (* 2 ^ OP_SHIFT *)
Lemma p61 : 2 ^ OP_SHIFT = P61.  Proof. reflexivity. Qed.

Lemma pow256_4 : 256 ^ N.of_nat 4 = 4294967296.  Proof. reflexivity. Qed.
Lemma unbe4 v : v < 4294967296 -> unbe (be 4 v) = v.
Proof. intros H. apply unbe_be_small. now rewrite pow256_4. Qed.

Definition hdr (origin : N) (node lane : bytes) (tagged : N) : bytes :=
  be 16 origin ++ be 4 (len node) ++ be 4 (len lane) ++ be 8 tagged.

Lemma len_hdr o n l t : len (hdr o n l t) = 32.
Proof. unfold hdr. rewrite !len_app, !len_be. reflexivity. Qed.

Lemma read_hdr origin node lane tagged tail :
  U128 origin -> len node < 4294967296 -> len lane < 4294967296 -> U64 tagged ->
  let b := hdr origin node lane tagged ++ tail in
  unbe (take 16 b) = origin /\ unbe (take 4 (drop 16 b)) = len node /\ unbe (take 4 (drop 20 b)) = len lane /\
  unbe (take 8 (drop 24 b)) = tagged /\ drop 32 b = tail.
Proof.
  intros Ho Hn Hl Ht b. subst b. unfold hdr. rewrite <- !app_assoc.
  assert (D16 : forall x, drop 16 (be 16 origin ++ x) = x) by (intros x; apply drop_n_app, len_be).
  assert (D4a : forall x, drop 4 (be 4 (len node) ++ x) = x) by (intros x; apply drop_n_app, len_be).
  assert (D4b : forall x, drop 4 (be 4 (len lane) ++ x) = x) by (intros x; apply drop_n_app, len_be).
  assert (D8 : forall x, drop 8 (be 8 tagged ++ x) = x) by (intros x; apply drop_n_app, len_be).
  split; [|split; [|split; [|split]]].
  - rewrite take_n_app by apply len_be. now apply unbe16.
  - rewrite D16, take_n_app by apply len_be. now apply unbe4.
  - replace 20 with (16 + 4) by reflexivity. rewrite <- drop_drop, D16, D4a, take_n_app by apply len_be. now apply unbe4.
  - replace 24 with (16 + 4 + 4) by reflexivity. rewrite <- !drop_drop, D16, D4a, D4b, take_n_app by apply len_be. now apply unbe8.
  - replace 32 with (16 + 4 + 4 + 8) by reflexivity. rewrite <- !drop_drop, D16, D4a, D4b, D8. reflexivity.
Qed.

Lemma drop_two (a b c : bytes) : drop (len a + len b) (a ++ b ++ c) = c.
Proof. rewrite <- drop_drop, drop_app_exact, drop_app_exact. reflexivity. Qed.

(* the decision the decoder takes once the frame is known to be complete and its names are ASCII *)
Definition proto_tail (is_req : bool) (origin : N) (node lane : bytes) (tag body_len : N) (b2 : bytes) : bytes * dres :=
  if is_req then
    if tag =? P_LINK then (b2, DSome (Req origin node lane OpLink))
    else if tag =? P_SYNC then (b2, DSome (Req origin node lane OpSync))
    else if tag =? P_UNLINK then (b2, DSome (Req origin node lane OpUnlink))
    else if tag =? P_COMMAND then (drop body_len b2, DSome (Req origin node lane (OpCommand (take body_len b2))))
    else (b2, DErr)
  else
    if tag =? P_LINKED then (b2, DSome (Resp origin node lane NLinked))
    else if tag =? P_SYNCED then (b2, DSome (Resp origin node lane NSynced))
    else if tag =? P_UNLINKED then
      (drop body_len b2, DSome (Resp origin node lane (NUnlinked (if body_len =? 0 then None else Some (take body_len b2)))))
    else if tag =? P_EVENT then (drop body_len b2, DSome (Resp origin node lane (NEvent (take body_len b2))))
    else (b2, DErr).

Section Proto.
  Variables (is_req : bool) (origin : N) (node lane body : bytes) (tag : N).
  Hypothesis (Ho : U128 origin) (Hn : len node < 4294967296) (Hl : len lane < 4294967296)
             (Hb : len body < P61) (Ht : tag < 8) (An : ascii node = true) (Al : ascii lane = true).
  Let tagged := len body + N.shiftl tag OP_SHIFT.
  Let frame := hdr origin node lane tagged ++ node ++ lane ++ body.

  Lemma tagged_u64 : U64 tagged.
  Proof. unfold tagged, U64. rewrite N.shiftl_mul_pow2, p61. unfold P61 in *. lia. Qed.
  Lemma tagged_mod : tagged mod 2 ^ OP_SHIFT = len body.
  Proof. unfold tagged. rewrite N.shiftl_mul_pow2, p61. unfold P61 in *. lia. Qed.
  Lemma tagged_div : tagged / 2 ^ OP_SHIFT = tag.
  Proof. unfold tagged. rewrite N.shiftl_mul_pow2, p61. unfold P61 in *. lia. Qed.

  Lemma len_frame : len frame = 32 + len node + len lane + len body.
  Proof. unfold frame. rewrite !len_app, len_hdr. lia. Qed.

  Lemma proto_complete rest :
    dec_proto is_req (frame ++ rest) = proto_tail is_req origin node lane tag (len body) (body ++ rest).
  Proof.
    set (tail := node ++ lane ++ body ++ rest).
    assert (E : frame ++ rest = hdr origin node lane tagged ++ tail) by (unfold frame, tail; now rewrite <- !app_assoc).
    rewrite E. unfold dec_proto. cbv zeta.
    destruct (read_hdr origin node lane tagged tail Ho Hn Hl tagged_u64) as (R1 & R2 & R3 & R4 & R5).
    rewrite R1, R2, R3, R4, R5, tagged_mod, tagged_div.
    assert (L : len (hdr origin node lane tagged ++ tail) = 32 + len node + len lane + len body + len rest).
    { rewrite len_app, len_hdr. unfold tail. rewrite !len_app. lia. }
    rewrite L.
    destruct (N.ltb_spec (32 + len node + len lane + len body + len rest) 32); [lia|].
    destruct (N.ltb_spec (32 + len node + len lane + len body + len rest) (32 + len node + len lane + len body)); [lia|].
    assert (T1 : take (len node) tail = node) by (unfold tail; apply take_app_exact).
    assert (T2 : take (len lane) (drop (len node) tail) = lane) by (unfold tail; rewrite drop_app_exact; apply take_app_exact).
    assert (T3 : drop (len node + len lane) tail = body ++ rest) by (unfold tail; apply drop_two).
    rewrite T1, An. cbn [negb]. rewrite T2, Al. cbn [negb]. rewrite T3. reflexivity.
  Qed.

  Lemma proto_partial p q : frame = p ++ q -> q <> [] -> dec_proto is_req p = (p, DNone).
  Proof.
    intros E Q. unfold dec_proto. destruct (N.ltb_spec (len p) 32) as [|L32]; [reflexivity|]. cbv zeta.
    unfold frame in E.
    destruct (split_prefix _ _ _ _ E) as (r & A & B); [rewrite len_hdr; exact L32|].
    subst p.
    destruct (read_hdr origin node lane tagged r Ho Hn Hl tagged_u64) as (R1 & R2 & R3 & R4 & R5).
    rewrite R2, R3, R4, tagged_mod.
    assert (len r < len node + len lane + len body).
    { apply (f_equal len) in B. rewrite !len_app in B. destruct q; [congruence|]. rewrite len_cons in B. lia. }
    rewrite len_app, len_hdr.
    destruct (N.ltb_spec (32 + len r) (32 + len node + len lane + len body)); [reflexivity|lia].
  Qed.

  Lemma frame_nonempty : frame <> [].
  Proof. intros E. apply (f_equal len) in E. rewrite len_frame, len_nil in E. lia. Qed.
End Proto.

Lemma proto_empty is_req : dec_proto is_req [] = ([], DNone).
Proof. reflexivity. Qed.

(* ---- requests ---- *)
Definition names_ok (origin : N) (node lane : bytes) : Prop :=
  U128 origin /\ len node < 4294967296 /\ len lane < 4294967296 /\ ascii node = true /\ ascii lane = true.

Definition valid_req (m : msg) : Prop :=
  match m with
  | Req origin node lane op =>
      names_ok origin node lane /\ match op with OpCommand body => len body < P61 | _ => True end
  | _ => False
  end.

Definition req_tag (op : reqop) : N :=
  match op with OpLink => P_LINK | OpSync => P_SYNC | OpUnlink => P_UNLINK | OpCommand _ => P_COMMAND end.
Definition req_body (op : reqop) : bytes := match op with OpCommand b => b | _ => [] end.

Lemma encode_req origin node lane op :
  encode CReq (Req origin node lane op) =
  Some (hdr origin node lane (len (req_body op) + N.shiftl (req_tag op) OP_SHIFT) ++ node ++ lane ++ req_body op).
Proof.
  destruct op; cbn [encode req_body req_tag]; unfold hdr; rewrite <- ?app_assoc, ?app_nil_r; reflexivity.
Qed.

Lemma req_frame_spec : frame_spec (dec_proto true) (encode CReq) valid_req.
Proof.
  split.
  - intros m e V E. destruct m; try contradiction. destruct V as [(Ho & Hn & Hl & An & Al) Hb].
    rewrite encode_req in E. apply some_inj in E. subst e.
    intros Z. apply (f_equal len) in Z. rewrite !len_app, len_hdr, len_nil in Z. lia.
  - intros m e rest V E. destruct m; try contradiction. destruct V as [(Ho & Hn & Hl & An & Al) Hb].
    rewrite encode_req in E. apply some_inj in E. subst e.
    rewrite proto_complete; auto.
    + destruct op; cbn [req_body req_tag proto_tail app len length]; try reflexivity.
      unfold proto_tail. cbn [N.eqb P_COMMAND P_LINK P_SYNC P_UNLINK Pos.eqb].
      now rewrite take_app_exact, drop_app_exact.
    + destruct op; cbn [req_body]; [reflexivity..|exact Hb].
    + destruct op; cbn [req_tag]; reflexivity.
  - intros m p q V E Q. destruct m; try contradiction. destruct V as [(Ho & Hn & Hl & An & Al) Hb].
    rewrite encode_req in E. apply some_inj in E.
    eapply proto_partial with (origin := origin) (node := node) (lane := lane) (body := req_body op) (tag := req_tag op) (q := q); try assumption.
    + destruct op; cbn [req_body]; [reflexivity..|exact Hb].
    + destruct op; cbn [req_tag]; reflexivity.
  - reflexivity.
Qed.

(* ---- responses ---- *)
Definition valid_resp (m : msg) : Prop :=
  match m with
  | Resp origin node lane op =>
      names_ok origin node lane /\
      match op with
      | NUnlinked (Some body) => body <> [] /\ len body < P61      (* an empty body is what `no body' decodes to *)
      | NEvent body => len body < P61
      | _ => True
      end
  | _ => False
  end.

Definition resp_tag (op : respop) : N :=
  match op with NLinked => P_LINKED | NSynced => P_SYNCED | NUnlinked _ => P_UNLINKED | NEvent _ => P_EVENT end.
Definition resp_body (op : respop) : bytes :=
  match op with NUnlinked (Some b) => b | NEvent b => b | _ => [] end.

Lemma encode_resp origin node lane op :
  encode CResp (Resp origin node lane op) =
  Some (hdr origin node lane (len (resp_body op) + N.shiftl (resp_tag op) OP_SHIFT) ++ node ++ lane ++ resp_body op).
Proof.
  destruct op as [| |[b|]|b]; cbn [encode resp_body resp_tag]; unfold hdr; rewrite <- ?app_assoc, ?app_nil_r; reflexivity.
Qed.

Lemma resp_body_small op : match op with
                           | NUnlinked (Some body) => body <> [] /\ len body < P61
                           | NEvent body => len body < P61
                           | _ => True
                           end -> len (resp_body op) < P61.
Proof. destruct op as [| |[b|]|b]; cbn [resp_body]; intros H; try reflexivity; tauto. Qed.

Lemma resp_frame_spec : frame_spec (dec_proto false) (encode CResp) valid_resp.
Proof.
  split.
  - intros m e V E. destruct m; try contradiction. destruct V as [(Ho & Hn & Hl & An & Al) Hb].
    rewrite encode_resp in E. apply some_inj in E. subst e.
    intros Z. apply (f_equal len) in Z. rewrite !len_app, len_hdr, len_nil in Z. lia.
  - intros m e rest V E. destruct m; try contradiction. destruct V as [(Ho & Hn & Hl & An & Al) Hb].
    rewrite encode_resp in E. apply some_inj in E. subst e.
    rewrite proto_complete; auto.
    + destruct op as [| |[b|]|b]; cbn [resp_body resp_tag app len length]; try reflexivity.
      * unfold proto_tail. cbn [N.eqb P_LINKED P_SYNCED P_UNLINKED P_EVENT Pos.eqb].
        rewrite take_app_exact, drop_app_exact. destruct Hb as [Hne _].
        destruct (N.eqb_spec (len b) 0) as [Z|]; [|reflexivity].
        destruct b; [congruence|]. rewrite len_cons in Z. lia.
      * unfold proto_tail. cbn [N.eqb P_LINKED P_SYNCED P_UNLINKED P_EVENT Pos.eqb].
        now rewrite take_app_exact, drop_app_exact.
    + now apply resp_body_small.
    + destruct op as [| |[b|]|b]; cbn [resp_tag]; reflexivity.
  - intros m p q V E Q. destruct m; try contradiction. destruct V as [(Ho & Hn & Hl & An & Al) Hb].
    rewrite encode_resp in E. apply some_inj in E.
    eapply proto_partial with (origin := origin) (node := node) (lane := lane) (body := resp_body op) (tag := resp_tag op) (q := q); try assumption.
    + now apply resp_body_small.
    + destruct op as [| |[b|]|b]; cbn [resp_tag]; reflexivity.
  - reflexivity.
Qed.

(* ---- under every fragmentation ---- *)
Theorem request_any_chunking : forall chunks ms all,
  Forall valid_req ms -> enc_all (encode CReq) ms = Some all -> concat chunks = all ->
  feed_items (fun _ b => stateless (dec_proto true b)) no_unread SHeader [] chunks = (ms, [], true).
Proof. exact (stateless_any_chunking _ _ _ req_frame_spec). Qed.

Theorem response_any_chunking : forall chunks ms all,
  Forall valid_resp ms -> enc_all (encode CResp) ms = Some all -> concat chunks = all ->
  feed_items (fun _ b => stateless (dec_proto false b)) no_unread SHeader [] chunks = (ms, [], true).
Proof. exact (stateless_any_chunking _ _ _ resp_frame_spec). Qed.

(* the decoder steps of the model for these two codecs are these stateless decoders *)
Lemma dstep_req s b : dstep CReq s b = stateless (dec_proto true b).  Proof. reflexivity. Qed.
Lemma dstep_resp s b : dstep CResp s b = stateless (dec_proto false b).  Proof. reflexivity. Qed.

Example proto_witness :
  valid_req (Req 7 [47; 110] [108] (OpCommand [1; 2; 3])) /\ valid_resp (Resp 7 [47; 110] [108] (NUnlinked (Some [9]))) /\
  exists e, encode CResp (Resp 7 [47; 110] [108] (NEvent [5; 6])) = Some e /\ len e = 37.
Proof.
  repeat split; try (vm_compute; reflexivity); try discriminate.
  eexists. split; [reflexivity|reflexivity].
Qed.
