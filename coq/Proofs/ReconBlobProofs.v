(* C09, blob literals: any byte string, of any length, written as '%' and padded base64 is read back as exactly
   those bytes, whatever follows it (as long as that cannot continue the literal). *)
From SwimV Require Import Model.ReconBlob.
From Coq Require Import Lia ZArith ZifyN ZifyNat ZifyBool.
Open Scope N_scope.
Ltac Zify.zify_post_hook ::= Z.div_mod_to_equations.

Arguments N.add : simpl never.
Arguments N.sub : simpl never.
Arguments N.mul : simpl never.
Arguments N.ltb : simpl never.
Arguments N.leb : simpl never.
Arguments N.eqb : simpl never.
Arguments N.div : simpl never.
Arguments N.modulo : simpl never.

Definition byte_list (bs : list N) : Prop := Forall (fun b => b < 256) bs.

(* ---- the alphabet (a finite sweep over the 64 digits) ---- *)
Definition sextets : list N := map N.of_nat (seq 0 64).
Definition digit_ok (v : N) : bool :=
  match b64_val (b64_char v) with Some w => (w =? v) && negb (b64_char v =? PAD) | None => false end.
Lemma digits_ok : forallb digit_ok sextets = true.
Proof. vm_compute. reflexivity. Qed.

Lemma in_sextets v : v < 64 -> In v sextets.
Proof.
  intros H. unfold sextets. apply in_map_iff. exists (N.to_nat v). split; [apply N2Nat.id|].
  apply in_seq. lia.
Qed.

Lemma b64_val_char v : v < 64 -> b64_val (b64_char v) = Some v /\ b64_char v <> PAD.
Proof.
  intros H. pose proof digits_ok as A. rewrite forallb_forall in A. specialize (A v (in_sextets v H)).
  unfold digit_ok in A. destruct (b64_val (b64_char v)) as [w|]; [|discriminate].
  apply andb_true_iff in A as [A1 A2]. apply N.eqb_eq in A1. apply negb_true_iff, N.eqb_neq in A2. now subst.
Qed.

Lemma pad_is_no_digit : b64_val PAD = None.
Proof. reflexivity. Qed.

(* ---- three byte_list at a time ---- *)
Lemma list_ind3 {A} (P : list A -> Prop) :
  P [] -> (forall a, P [a]) -> (forall a b, P [a; b]) ->
  (forall a b c rest, P rest -> P (a :: b :: c :: rest)) -> forall l, P l.
Proof.
  intros H0 H1 H2 H3.
  fix IH 1. intros l. destruct l as [|a [|b [|c rest]]]; [exact H0|apply H1|apply H2|apply H3, IH].
Qed.

Definition blob_follow_ok (rest : str) : Prop := match rest with [] => True | c :: _ => is_b64 c = false end.

Lemma blocks_stop_at rest acc f : blob_follow_ok rest -> b64_blocks f rest acc = (acc, rest).
Proof.
  intros Hr. destruct f as [|f]; [reflexivity|]. cbn [b64_blocks].
  destruct rest as [|c1 [|c2 [|c3 [|c4 r]]]]; try reflexivity.
  unfold blob_follow_ok, is_b64 in Hr. destruct (b64_val c1); [discriminate|reflexivity].
Qed.

Lemma final_none_at rest acc : blob_follow_ok rest -> b64_final rest acc = (BOk acc, rest).
Proof.
  intros Hr. unfold b64_final. destruct rest as [|c1 [|c2 [|c3 [|c4 r]]]]; try reflexivity.
  unfold blob_follow_ok, is_b64 in Hr. destruct (b64_val c1); [discriminate|reflexivity].
Qed.

Lemma encode_length bs : (length bs <= length (b64_encode bs))%nat.
Proof.
  induction bs as [| a | a b | a b c rest IH] using list_ind3; cbn [b64_encode length]; lia.
Qed.

(* the blocks, then the final block, of an encoding give back the bytes *)
Lemma read_encoding bs : byte_list bs -> forall rest acc f, blob_follow_ok rest -> (length bs <= f)%nat ->
  (let (acc', r1) := b64_blocks f (b64_encode bs ++ rest) acc in b64_final r1 acc') = (BOk (acc ++ bs), rest).
Proof.
  induction bs as [| a | a b | a b c more IH] using list_ind3; intros Hb rest acc f Hr Hf.
  - cbn [b64_encode app]. rewrite blocks_stop_at by exact Hr. rewrite final_none_at by exact Hr. now rewrite app_nil_r.
  - (* one byte: two digits and two pads *)
    inversion Hb as [|? ? Ha _]; subst.
    assert (H1 : a / 4 < 64) by lia. assert (H2 : (a mod 4) * 16 < 64) by lia.
    destruct (b64_val_char _ H1) as [V1 _]. destruct (b64_val_char _ H2) as [V2 _].
    cbn [b64_encode app].
    assert (Hs : forall f', b64_blocks f' (b64_char (a / 4) :: b64_char (a mod 4 * 16) :: PAD :: PAD :: rest) acc
                 = (acc, b64_char (a / 4) :: b64_char (a mod 4 * 16) :: PAD :: PAD :: rest)).
    { intros [|f']; [reflexivity|]. cbn [b64_blocks]. rewrite V1, V2, pad_is_no_digit. reflexivity. }
    rewrite Hs. unfold b64_final. rewrite V1, V2. rewrite N.eqb_refl.
    replace (a mod 4 * 16 mod 16 =? 0) with true by lia.
    replace (a / 4 * 4 + a mod 4 * 16 / 16) with a by lia. reflexivity.
  - (* two bytes: three digits and a pad *)
    inversion Hb as [|? ? Ha Hb']; subst. inversion Hb' as [|? ? Hbb _]; subst.
    assert (H1 : a / 4 < 64) by lia. assert (H2 : (a mod 4) * 16 + b / 16 < 64) by lia.
    assert (H3 : (b mod 16) * 4 < 64) by lia.
    destruct (b64_val_char _ H1) as [V1 _]. destruct (b64_val_char _ H2) as [V2 _]. destruct (b64_val_char _ H3) as [V3 N3].
    cbn [b64_encode app].
    assert (Hs : forall f', b64_blocks f' (b64_char (a / 4) :: b64_char (a mod 4 * 16 + b / 16) :: b64_char (b mod 16 * 4) :: PAD :: rest) acc
                 = (acc, b64_char (a / 4) :: b64_char (a mod 4 * 16 + b / 16) :: b64_char (b mod 16 * 4) :: PAD :: rest)).
    { intros [|f']; [reflexivity|]. cbn [b64_blocks]. rewrite V1, V2, V3, pad_is_no_digit. reflexivity. }
    rewrite Hs. unfold b64_final. rewrite V1, V2. rewrite N.eqb_refl.
    destruct (b64_char (b mod 16 * 4) =? PAD) eqn:E; [apply N.eqb_eq in E; congruence|]. rewrite V3.
    replace (b mod 16 * 4 mod 4 =? 0) with true by lia.
    replace (a / 4 * 4 + (a mod 4 * 16 + b / 16) / 16) with a by lia.
    replace ((a mod 4 * 16 + b / 16) mod 16 * 16 + b mod 16 * 4 / 4) with b by lia. reflexivity.
  - (* a full group of three bytes: one block, then the rest *)
    inversion Hb as [|? ? Ha Hb1]; subst. inversion Hb1 as [|? ? Hbb Hb2]; subst. inversion Hb2 as [|? ? Hc Hm]; subst.
    assert (H1 : a / 4 < 64) by lia. assert (H2 : (a mod 4) * 16 + b / 16 < 64) by lia.
    assert (H3 : (b mod 16) * 4 + c / 64 < 64) by lia. assert (H4 : c mod 64 < 64) by lia.
    destruct (b64_val_char _ H1) as [V1 _]. destruct (b64_val_char _ H2) as [V2 _].
    destruct (b64_val_char _ H3) as [V3 _]. destruct (b64_val_char _ H4) as [V4 _].
    destruct f as [|f]; [cbn [length] in Hf; lia|].
    cbn [b64_encode app b64_blocks]. rewrite V1, V2, V3, V4.
    replace (a / 4 * 4 + (a mod 4 * 16 + b / 16) / 16) with a by lia.
    replace ((a mod 4 * 16 + b / 16) mod 16 * 16 + (b mod 16 * 4 + c / 64) / 4) with b by lia.
    replace ((b mod 16 * 4 + c / 64) mod 4 * 64 + c mod 64) with c by lia.
    rewrite (IH Hm rest (acc ++ [a; b; c]) f Hr) by (cbn [length] in Hf; lia).
    now rewrite <- app_assoc.
Qed.

(* every byte string, of any length, printed as a blob literal is read back as exactly those bytes; what follows
   the literal is left alone *)
Theorem printed_blob_reads_back bs rest : byte_list bs -> blob_follow_ok rest ->
  blob_token (print_blob bs ++ rest) = (BOk bs, rest).
Proof.
  intros Hb Hr. unfold print_blob, blob_token. cbn [app]. change (37 =? 37) with true. cbv iota.
  apply (read_encoding bs Hb rest [] (length (b64_encode bs ++ rest)) Hr).
  rewrite app_length. pose proof (encode_length bs). lia.
Qed.

(* different byte strings never share a literal *)
Corollary print_blob_injective a b : byte_list a -> byte_list b -> print_blob a = print_blob b -> a = b.
Proof.
  intros Ha Hb H. pose proof (printed_blob_reads_back a [] Ha I) as Ra. pose proof (printed_blob_reads_back b [] Hb I) as Rb.
  rewrite H in Ra. rewrite Ra in Rb. now injection Rb.
Qed.

Example blob_witness :
  print_blob [1; 2; 3] = [37; 65; 81; 73; 68] /\                       (* %AQID *)
  print_blob [255] = [37; 47; 119; 61; 61] /\                           (* %/w== *)
  blob_token [37; 65; 81; 73; 68; 44; 49] = (BOk [1; 2; 3], [44; 49]) /\   (* %AQID,1 *)
  fst (blob_token [37; 81; 82; 61; 61]) = BBad /\                       (* %QR==: bits that belong to no byte are set *)
  blob_token [37] = (BOk [], []).
Proof. repeat split; vm_compute; reflexivity. Qed.
