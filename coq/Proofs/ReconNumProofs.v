(* C09 / C15, integer literals: an integer of any size written in decimal is read back as the same integer, whatever
   follows it (as long as that cannot continue a number); the kind a literal is read as depends on its number alone;
   comparing two literals without building values is comparing their numbers, and equal ones hash alike. *)
From SwimV Require Import Model.ReconNum.
From Coq Require Import Lia ZArith ZifyN ZifyNat ZifyBool.
Open Scope N_scope.
Ltac Zify.zify_post_hook ::= Z.div_mod_to_equations.

Arguments N.add : simpl never.
Arguments N.sub : simpl never.
Arguments N.mul : simpl never.
Arguments N.ltb : simpl never.
Arguments N.leb : simpl never.
Arguments N.eqb : simpl never.
Arguments N.pow : simpl never.
Arguments N.div : simpl never.
Arguments N.modulo : simpl never.

(* ---- digits ---- *)
Definition dstep (a c : N) : N := 10 * a + (c - 48).
Definition digits_val (ds : str) (a : N) : N := fold_left dstep ds a.

Lemma is_digit_spec c : is_digit c = true <-> 48 <= c <= 57.
Proof. unfold is_digit, in_range. lia. Qed.

Lemma digit_not_marks c : is_digit c = true -> float_mark c = false /\ is_b c = false /\ is_x c = false.
Proof. rewrite is_digit_spec. unfold float_mark, is_b, is_x. lia. Qed.

(* what may follow a number without continuing it *)
Definition follow_ok (rest : str) : Prop :=
  match rest with
  | [] => True
  | c :: _ => is_digit c = false /\ float_mark c = false /\ is_b c = false /\ is_x c = false
  end.

Lemma take_digits_app ds : Forall (fun c => is_digit c = true) ds ->
  forall rest acc seen, match rest with [] => True | c :: _ => is_digit c = false end ->
  take_digits dec_val 10 (ds ++ rest) acc seen = (digits_val ds acc, seen || negb (match ds with [] => true | _ => false end), rest).
Proof.
  induction 1 as [|d ds Hd _ IH]; intros rest acc seen Hr.
  - cbn [app digits_val fold_left negb]. rewrite orb_false_r. destruct rest as [|c t]; [reflexivity|].
    cbn [take_digits]. unfold dec_val. now rewrite Hr.
  - cbn [app take_digits]. unfold dec_val at 1. rewrite Hd. rewrite (IH rest _ true Hr).
    cbn [digits_val fold_left negb orb]. unfold dstep at 2. now rewrite orb_true_r.
Qed.

(* ---- writing ---- *)
Lemma pow10_succ l : 10 ^ N.of_nat (S l) = 10 * 10 ^ N.of_nat l.
Proof. rewrite Nat2N.inj_succ. apply N.pow_succ_r'. Qed.

Lemma dec_digits_S f n acc :
  dec_digits (S f) n acc = if n <? 10 then (48 + n mod 10) :: acc else dec_digits f (n / 10) ((48 + n mod 10) :: acc).
Proof. reflexivity. Qed.

Lemma dec_digits_spec f : forall n acc, n < 2 ^ N.of_nat f ->
  exists ds, dec_digits (S f) n acc = ds ++ acc /\ Forall (fun c => is_digit c = true) ds /\ ds <> [] /\
             forall a, digits_val ds a = a * 10 ^ N.of_nat (length ds) + n.
Proof.
  induction f as [|f IH]; intros n acc Hn.
  - change (2 ^ N.of_nat 0) with 1 in Hn. assert (n = 0) by lia. subst n.
    exists [48]. rewrite dec_digits_S. change (0 <? 10) with true. cbv iota. repeat split; try reflexivity; try discriminate.
    + constructor; [reflexivity|constructor].
    + intros a. cbn [digits_val fold_left length]. unfold dstep. change (10 ^ N.of_nat 1) with 10. lia.
  - rewrite dec_digits_S.
    assert (Hd : is_digit (48 + n mod 10) = true) by (apply is_digit_spec; lia).
    destruct (n <? 10) eqn:E.
    + exists [48 + n mod 10]. repeat split; try reflexivity; try discriminate.
      * constructor; [exact Hd|constructor].
      * intros a. cbn [digits_val fold_left length]. unfold dstep. change (10 ^ N.of_nat 1) with 10. lia.
    + assert (Hn' : n / 10 < 2 ^ N.of_nat f).
      { rewrite Nat2N.inj_succ, N.pow_succ_r' in Hn. lia. }
      destruct (IH (n / 10) ((48 + n mod 10) :: acc) Hn') as (ds & E1 & F & Hne & Hv).
      exists (ds ++ [48 + n mod 10]). repeat split.
      * rewrite E1. now rewrite <- app_assoc.
      * apply Forall_app. split; [exact F|]. constructor; [exact Hd|constructor].
      * destruct ds; discriminate.
      * intros a. unfold digits_val. rewrite fold_left_app. fold (digits_val ds a). rewrite Hv.
        cbn [fold_left]. unfold dstep. rewrite app_length. cbn [length]. rewrite Nat.add_1_r, pow10_succ. lia.
Qed.

Lemma print_nat_spec n :
  exists ds, print_nat n = ds /\ Forall (fun c => is_digit c = true) ds /\ ds <> [] /\ digits_val ds 0 = n.
Proof.
  unfold print_nat.
  destruct (dec_digits_spec (N.to_nat (N.size n)) n []) as (ds & E & F & Hne & Hv).
  { rewrite N2Nat.id. apply N.size_gt. }
  exists ds. rewrite E, app_nil_r. repeat split; auto. rewrite Hv. lia.
Qed.

(* ---- reading back ---- *)
Lemma digits_not_prefixed ds rest : Forall (fun c => is_digit c = true) ds -> ds <> [] -> follow_ok rest ->
  match ds ++ rest with
  | c0 :: c1 :: _ => (c0 =? 48) && is_b c1 = false /\ (c0 =? 48) && is_x c1 = false
  | _ => True
  end.
Proof.
  intros F Hne Hr. destruct ds as [|d0 [|d1 ds]]; [congruence| |].
  - cbn [app]. destruct rest as [|c t]; [exact I|]. destruct Hr as (_ & _ & Hb & Hx). rewrite Hb, Hx.
    now rewrite !andb_false_r.
  - cbn [app]. inversion F as [|? ? _ F1]; subst. inversion F1 as [|? ? H1 _]; subst.
    destruct (digit_not_marks _ H1) as (_ & Hb & Hx). rewrite Hb, Hx. now rewrite !andb_false_r.
Qed.

Definition sign_str (neg : bool) : str := if neg then [45] else [].

Lemma num_token_digits neg ds rest :
  Forall (fun c => is_digit c = true) ds -> ds <> [] -> follow_ok rest ->
  num_token (sign_str neg ++ ds ++ rest) = (NLit (classify neg (digits_val ds 0)), rest).
Proof.
  intros F Hne Hr.
  assert (Hhead : match rest with [] => True | c :: _ => is_digit c = false end).
  { destruct rest; [exact I|]. apply Hr. }
  assert (Hd0 : exists d0 t, ds = d0 :: t /\ is_digit d0 = true).
  { destruct ds as [|d0 t]; [congruence|]. inversion F; subst. now exists d0, t. }
  destruct Hd0 as (d0 & t & -> & Hd0).
  assert (Hnot45 : (d0 =? 45) = false) by (apply is_digit_spec in Hd0; lia).
  pose proof (take_digits_app (d0 :: t) F rest 0 false Hhead) as Ht. cbn [negb orb] in Ht.
  pose proof (digits_not_prefixed (d0 :: t) rest F Hne Hr) as Hp.
  (* the sign *)
  assert (Hsign : split_sign (sign_str neg ++ (d0 :: t) ++ rest) = (neg, (d0 :: t) ++ rest)).
  { unfold split_sign, sign_str. destruct neg; cbn [app]; [reflexivity|]. now rewrite Hnot45. }
  unfold num_token. rewrite Hsign. unfold num_body. cbv zeta. rewrite Ht.
  assert (Hdec : match rest with
                 | c :: _ => if float_mark c then (NOther, sign_str neg ++ (d0 :: t) ++ rest)
                             else (NLit (classify neg (digits_val (d0 :: t) 0)), rest)
                 | [] => (NLit (classify neg (digits_val (d0 :: t) 0)), [])
                 end = (NLit (classify neg (digits_val (d0 :: t) 0)), rest)).
  { destruct rest as [|c rs]; [reflexivity|]. destruct Hr as (_ & Hf & _). now rewrite Hf. }
  destruct ((d0 :: t) ++ rest) as [|c0 [|c1 tl]] eqn:El; try exact Hdec.
  destruct Hp as [Hb Hx]. rewrite Hb, Hx. exact Hdec.
Qed.

Lemma classify_value neg n : nz (classify neg n) = if neg then (- Z.of_N n)%Z else Z.of_N n.
Proof. unfold classify. destruct (n <=? U64_MAX), neg; try destruct (n <=? I64_MAX); reflexivity. Qed.

(* every integer, of any size, written in decimal is read back as that integer; what follows is left alone *)
Theorem printed_integer_reads_back z rest : follow_ok rest ->
  exists v, num_token (print_int z ++ rest) = (NLit v, rest) /\ nz v = z.
Proof.
  intros Hr. unfold print_int. destruct (z <? 0)%Z eqn:Ez.
  - destruct (print_nat_spec (Z.to_N (- z))) as (ds & -> & F & Hne & Hv).
    exists (classify true (digits_val ds 0)). split.
    + exact (num_token_digits true ds rest F Hne Hr).
    + rewrite classify_value, Hv. lia.
  - destruct (print_nat_spec (Z.to_N z)) as (ds & -> & F & Hne & Hv).
    exists (classify false (digits_val ds 0)). split.
    + exact (num_token_digits false ds rest F Hne Hr).
    + rewrite classify_value, Hv. lia.
Qed.

(* ... and as a whole text, blanks around it or not *)
Corollary printed_integer_is_an_integer_text z : exists v, int_of_text (print_int z) = Some v /\ nz v = z.
Proof.
  destruct (printed_integer_reads_back z [] I) as (v & E & Hv). exists v. split; [|exact Hv].
  unfold int_of_text. rewrite app_nil_r in E.
  assert (Hs : skip_blanks (print_int z) = print_int z).
  { unfold print_int. destruct (z <? 0)%Z; [reflexivity|].
    destruct (print_nat_spec (Z.to_N z)) as (ds & -> & F & Hne & _). destruct ds as [|d t]; [congruence|].
    inversion F as [|? ? Hd _]; subst. apply is_digit_spec in Hd. cbn [skip_blanks].
    replace ((d =? 32) || (d =? 9)) with false by lia. reflexivity. }
  rewrite Hs, E. reflexivity.
Qed.

(* ---- kinds ---- *)
Lemma classify_well_kinded neg n : well_kinded (classify neg n) = true.
Proof.
  unfold classify, well_kinded, fits_i64, fits_u64, U64_MAX, I64_MAX.
  destruct (n <=? 18446744073709551615) eqn:E1; destruct neg; cbn [nk nz];
    try destruct (n <=? 9223372036854775807) eqn:E2; cbn [nk nz]; lia.
Qed.

(* the kind of Value a literal becomes is decided by its number alone *)
Theorem literal_kind_by_number neg n :
  let v := classify neg n in
  let z := nz v in
  value_kind v =
    if ((- 2147483648 <=? z) && (z <=? 2147483647))%Z then VI32
    else if ((- 9223372036854775807 <=? z) && (z <=? 9223372036854775807))%Z then VI64
    else if ((0 <=? z) && (z <=? 18446744073709551615))%Z then VU64
    else if (z <? 0)%Z then VBigInt else VBigUint.
Proof.
  cbn zeta. unfold classify, value_kind, U64_MAX, I64_MAX.
  destruct (n <=? 18446744073709551615) eqn:E1; destruct neg; cbn [nk nz];
    try destruct (n <=? 9223372036854775807) eqn:E2; cbn [nk nz];
    repeat match goal with |- context [if ?b then _ else _] => destruct b eqn:? end; try reflexivity; lia.
Qed.

(* ---- comparing without parsing ---- *)
Theorem nv_eq_is_number_equality a b : well_kinded a = true -> well_kinded b = true ->
  nv_eq a b = (nz a =? nz b)%Z.
Proof.
  unfold well_kinded, nv_eq, fits_i64, fits_u64. destruct a as [ka x], b as [kb y]. cbn [nk nz].
  destruct ka, kb; intros Ha Hb; lia.
Qed.

Theorem equal_numbers_hash_alike a b : well_kinded a = true -> well_kinded b = true ->
  nv_eq a b = true -> nv_hash_key a = nv_hash_key b.
Proof.
  intros Ha Hb H. rewrite (nv_eq_is_number_equality a b Ha Hb) in H. apply Z.eqb_eq in H.
  unfold well_kinded, fits_i64, fits_u64 in Ha, Hb. unfold nv_hash_key, fits_i128.
  destruct a as [ka x], b as [kb y]. cbn [nk nz] in *. subst y.
  destruct ka, kb; repeat match goal with |- context [if ?c then _ else _] => destruct c eqn:? end;
    try reflexivity; lia.
Qed.

Lemma num_token_well_kinded inp v rest : num_token inp = (NLit v, rest) -> well_kinded v = true.
Proof.
  unfold num_token. destruct (split_sign inp) as [neg r]. unfold num_body. cbv zeta. intros H.
  repeat match type of H with
         | context [match ?e with _ => _ end] => destruct e eqn:?
         | context [if ?e then _ else _] => destruct e eqn:?
         end; try discriminate; injection H as <- _; apply classify_well_kinded.
Qed.

(* two spellings of integers, compared as keys: equal exactly when they denote the same integer, and then
   they hash alike *)
Theorem integer_keys_compare_by_number a b x y :
  int_of_text a = Some x -> int_of_text b = Some y ->
  nv_eq x y = (nz x =? nz y)%Z /\ (nv_eq x y = true -> nv_hash_key x = nv_hash_key y).
Proof.
  intros Ea Eb.
  assert (W : forall t v, int_of_text t = Some v -> well_kinded v = true).
  { intros t v. unfold int_of_text. destruct (num_token (skip_blanks t)) as [tok r] eqn:E.
    destruct tok as [v0|]; [|discriminate]. destruct (skip_blanks r); [|discriminate].
    intros H. injection H as <-. now apply (num_token_well_kinded _ _ _ E). }
  pose proof (W _ _ Ea) as Wx. pose proof (W _ _ Eb) as Wy. split.
  - now apply nv_eq_is_number_equality.
  - now apply equal_numbers_hash_alike.
Qed.

Example integer_witness :
  print_int (-120) = [45; 49; 50; 48] /\
  int_of_text [48; 120; 70; 102] = Some {| nk := KUInt; nz := 255 |} /\          (* 0xFf *)
  int_of_text [45; 48; 98; 49; 48; 49] = Some {| nk := KInt; nz := -5 |} /\       (* -0b101 *)
  int_of_text [49; 46; 53] = None /\                                               (* 1.5 *)
  value_kind (classify true 9223372036854775808) = VBigInt /\                      (* -2^63 is read as a big integer *)
  nv_eq {| nk := KInt; nz := 5 |} {| nk := KBigUint; nz := 5 |} = true.
Proof. repeat split; vm_compute; reflexivity. Qed.
