(* Proofs for the text-token layer of Recon (Model/ReconText.v): every text - every list of Unicode
   scalar values - printed by write_string_literal is read back exactly by the tokenizer, whatever
   follows it. *)
From SwimV Require Import Model.ReconText.
From Coq Require Import ZifyBool ZifyN.
Open Scope N_scope.

Definition special (c : N) : bool := (c <? 32) || (c =? 34) || (c =? 92).

Lemma needs_escape_cons c t : needs_escape (c :: t) = special c || needs_escape t.
Proof. reflexivity. Qed.

(* ---- the finite part: control characters ---- *)
Definition ctrl_ok (c : N) : bool :=
  (* scanning: starts with a backslash, no quote or backslash after the second position *)
  match escape_char c with
  | [a; _] => a =? 92
  | [a; u; d1; d2; d3; d4] =>
      (a =? 92) && (u =? 117) &&
      negb (d1 =? 34) && negb (d1 =? 92) && negb (d2 =? 34) && negb (d2 =? 92) &&
      negb (d3 =? 34) && negb (d3 =? 92) && negb (d4 =? 34) && negb (d4 =? 92)
  | _ => false
  end.

Fixpoint usteps (st : estate) (s : str) : estate * list N * bool :=
  match s with
  | [] => (st, [], false)
  | c :: t =>
      let (st', out) := ustep st c in
      let '(st'', outs, f) := usteps st' t in
      (st'', match out with Some x => x :: outs | None => outs end, (is_failed st' && negb (is_failed st)) || f)
  end.

Lemma uscan_usteps s : forall st failed acc,
  uscan st failed s acc =
  let '(_, outs, f) := usteps st s in (failed || f, rev acc ++ outs).
Proof.
  induction s as [|c t IH]; intros st failed acc; simpl.
  - now rewrite orb_false_r, app_nil_r.
  - destruct (ustep st c) as [st' out]. rewrite IH. destruct (usteps st' t) as [[st'' outs] f].
    rewrite orb_assoc. destruct out; simpl; [|reflexivity]. now rewrite <- app_assoc.
Qed.

Lemma usteps_app a b st :
  usteps st (a ++ b) =
  let '(st1, o1, f1) := usteps st a in
  let '(st2, o2, f2) := usteps st1 b in (st2, o1 ++ o2, f1 || f2).
Proof.
  revert st. induction a as [|c t IH]; intros st; simpl.
  - destruct (usteps st b) as [[st2 o2] f2]. reflexivity.
  - destruct (ustep st c) as [st' out]. rewrite IH.
    destruct (usteps st' t) as [[st1 o1] f1]. destruct (usteps st1 b) as [[st2 o2] f2].
    rewrite orb_assoc. destruct out; reflexivity.
Qed.

(* every character below 32, the quote and the backslash: the escape reads back as the character *)
Definition special_ok (c : N) : bool :=
  ctrl_ok c &&
  match usteps ENone (escape_char c) with
  | (ENone, [x], false) => x =? c
  | _ => false
  end.

Lemma specials_ok_sweep : forallb special_ok (34 :: 92 :: map N.of_nat (seq 0 32)) = true.
Proof. vm_compute. reflexivity. Qed.

Lemma special_ok_all c : special c = true -> special_ok c = true.
Proof.
  intros H. pose proof specials_ok_sweep as S. rewrite forallb_forall in S. apply S.
  unfold special in H. destruct (N.eqb_spec c 34) as [E1|N1]; [left; now rewrite E1|].
  destruct (N.eqb_spec c 92) as [E2|N2]; [right; left; now rewrite E2|].
  right. right. apply in_map_iff. exists (N.to_nat c). split; [apply N2Nat.id|].
  apply in_seq. rewrite !orb_false_r in H. apply N.ltb_lt in H. lia.
Qed.

Lemma escape_plain c : special c = false -> escape_char c = [c].
Proof.
  unfold special, escape_char. intros H. apply orb_false_iff in H as (H & H3). apply orb_false_iff in H as (H1 & H2).
  rewrite H2, H3. apply N.ltb_ge in H1.
  destruct (N.eqb_spec c 13); [lia|]. destruct (N.eqb_spec c 10); [lia|]. destruct (N.eqb_spec c 9); [lia|].
  destruct (N.eqb_spec c 8); [lia|]. destruct (N.eqb_spec c 12); [lia|].
  destruct (N.ltb_spec c 32); [lia|reflexivity].
Qed.

(* ---- scanning the body of the literal ---- *)
Lemma scan_plain c rest acc : (c =? 34) = false -> (c =? 92) = false ->
  scan_literal (c :: rest) acc = scan_literal rest (c :: acc).
Proof. intros H1 H2. simpl. now rewrite H1, H2. Qed.

Lemma scan_escape_char c rest acc :
  scan_literal (escape_char c ++ rest) acc = scan_literal rest (rev (escape_char c) ++ acc).
Proof.
  destruct (special c) eqn:ES.
  - pose proof (special_ok_all c ES) as HO. unfold special_ok in HO. apply andb_prop in HO as (HC & _).
    unfold ctrl_ok in HC. destruct (escape_char c) as [|e0 [|e1 [|e2 [|e3 [|e4 [|e5 [|e6 r]]]]]]]; try discriminate.
    + apply N.eqb_eq in HC. subst e0. reflexivity.
    + repeat (apply andb_prop in HC as (HC & ?)).
      repeat match goal with H : negb _ = true |- _ => apply negb_true_iff in H end.
      apply N.eqb_eq in HC. subst e0.
      match goal with H : (e1 =? 117) = true |- _ => apply N.eqb_eq in H; subst e1 end.
      cbn [app]. cbn [scan_literal]. cbn [N.eqb Pos.eqb].
      repeat match goal with H : (_ =? _) = false |- _ => rewrite H; clear H end. reflexivity.
  - rewrite (escape_plain c ES). unfold special in ES. apply orb_false_iff in ES as (ES & H3).
    apply orb_false_iff in ES as (_ & H2). simpl. now rewrite H2, H3.
Qed.

Lemma scan_escaped t : forall rest acc,
  scan_literal (escape_text t ++ 34 :: rest) acc = Some (rev acc ++ escape_text t, rest).
Proof.
  induction t as [|c t IH]; intros rest acc; simpl.
  - now rewrite app_nil_r.
  - rewrite <- app_assoc, scan_escape_char, IH, rev_app_distr, rev_involutive, <- app_assoc. reflexivity.
Qed.

Lemma scan_unescaped t : needs_escape t = false -> forall rest acc,
  scan_literal (t ++ 34 :: rest) acc = Some (rev acc ++ t, rest).
Proof.
  induction t as [|c t IH]; intros NE rest acc; simpl.
  - now rewrite app_nil_r.
  - rewrite needs_escape_cons in NE. apply orb_false_iff in NE as (Hc & Ht). unfold special in Hc.
    apply orb_false_iff in Hc as (Hc & H3). apply orb_false_iff in Hc as (_ & H2). rewrite H2, H3.
    rewrite IH by assumption. simpl. now rewrite <- app_assoc.
Qed.

(* ---- un-escaping ---- *)
Lemma usteps_escape_char c : usteps ENone (escape_char c) = (ENone, [c], false).
Proof.
  destruct (special c) eqn:ES.
  - pose proof (special_ok_all c ES) as HO. unfold special_ok in HO. apply andb_prop in HO as (_ & HO).
    destruct (usteps ENone (escape_char c)) as [[st outs] f]. destruct st; try discriminate.
    destruct outs as [|x [|y r]]; try discriminate. destruct f; [discriminate|]. apply N.eqb_eq in HO. now subst.
  - rewrite (escape_plain c ES). unfold special in ES. apply orb_false_iff in ES as (_ & H3). simpl. now rewrite H3.
Qed.

Lemma usteps_escape_text t : usteps ENone (escape_text t) = (ENone, t, false).
Proof.
  induction t as [|c t IH]; [reflexivity|]. simpl. rewrite usteps_app, usteps_escape_char, IH. reflexivity.
Qed.

Lemma unescape_escape t : unescape (escape_text t) = Some t.
Proof. unfold unescape. rewrite uscan_usteps, usteps_escape_text. reflexivity. Qed.

Lemma escape_has_backslash t : needs_escape t = true -> existsb (N.eqb 92) (escape_text t) = true.
Proof.
  induction t as [|c t IH]; [discriminate|]. rewrite needs_escape_cons. simpl. rewrite existsb_app.
  destruct (special c) eqn:ES; simpl.
  - intros _. pose proof (special_ok_all c ES) as HO. unfold special_ok in HO. apply andb_prop in HO as (HC & _).
    unfold ctrl_ok in HC. destruct (escape_char c) as [|e0 [|e1 [|e2 [|e3 [|e4 [|e5 [|e6 r]]]]]]]; try discriminate.
    + apply N.eqb_eq in HC. subst e0. reflexivity.
    + repeat (apply andb_prop in HC as (HC & ?)). apply N.eqb_eq in HC. subst e0. reflexivity.
  - intros H. rewrite (IH H). apply orb_true_r.
Qed.

Lemma no_backslash t : needs_escape t = false -> existsb (N.eqb 92) t = false.
Proof.
  induction t as [|c t IH]; [reflexivity|]. rewrite needs_escape_cons. intros H. apply orb_false_iff in H as (Hc & Ht).
  cbn [existsb]. rewrite (IH Ht). unfold special in Hc. apply orb_false_iff in Hc as (_ & H3). now rewrite (N.eqb_sym 92 c), H3.
Qed.

(* ---- the theorems ---- *)
Definition quoted (t : str) : str := [34] ++ (if needs_escape t then escape_text t else t) ++ [34].

Theorem quoted_reads_back t rest : text_token (quoted t ++ rest) = (TokText t, rest).
Proof.
  unfold quoted. cbn [app text_token N.eqb Pos.eqb]. rewrite <- app_assoc. cbn [app].
  destruct (needs_escape t) eqn:NE.
  - rewrite scan_escaped. cbn [rev app]. unfold resolve_escapes. rewrite (escape_has_backslash t NE), unescape_escape. reflexivity.
  - rewrite (scan_unescaped t NE). cbn [rev app]. unfold resolve_escapes. rewrite (no_backslash t NE). reflexivity.
Qed.

Lemma take_ident_all t : forall rest acc, forallb is_identifier_char t = true ->
  match rest with [] => True | c :: _ => is_identifier_char c = false end ->
  take_ident (t ++ rest) acc = (rev acc ++ t, rest).
Proof.
  induction t as [|c t IH]; intros rest acc HA HR; simpl.
  - rewrite app_nil_r. destruct rest as [|c r]; [reflexivity|]. simpl. now rewrite HR.
  - simpl in HA. apply andb_prop in HA as (Hc & Ht). rewrite Hc, IH by assumption. simpl. now rewrite <- app_assoc.
Qed.

Theorem identifier_reads_back t rest : is_identifier t = true ->
  match rest with [] => True | c :: _ => is_identifier_char c = false end ->
  text_token (t ++ rest) = (TokText t, rest).
Proof.
  unfold is_identifier. intros HI HR. destruct (str_eqb t s_true || str_eqb t s_false) eqn:EB; [discriminate|].
  apply orb_false_iff in EB as (E1 & E2). destruct t as [|c t]; [discriminate|].
  apply andb_prop in HI as (Hs & Ht). cbn [app text_token].
  assert ((c =? 34) = false) as ->.
  { destruct (N.eqb_spec c 34) as [->|]; [|reflexivity]. vm_compute in Hs. discriminate. }
  rewrite Hs, take_ident_all by assumption. cbn [rev app]. now rewrite E1, E2.
Qed.

(* the printed form of any text reads back as that text *)
Theorem text_roundtrip t rest :
  match rest with [] => True | c :: _ => is_identifier_char c = false end ->
  text_token (write_string_literal t ++ rest) = (TokText t, rest).
Proof.
  intros HR. unfold write_string_literal. destruct (is_identifier t) eqn:EI.
  - now apply identifier_reads_back.
  - apply quoted_reads_back.
Qed.

(* a \u escape that names a surrogate is rejected (it used to panic) *)
Example surrogate_escape_rejected : text_token [34; 92; 117; 100; 56; 48; 48; 34] = (TokBadEscape, []).
Proof. vm_compute. reflexivity. Qed.

(* ---- C15: spellings of text keys ---- *)
Lemma str_eqb_refl s : str_eqb s s = true.
Proof. induction s as [|c t IH]; simpl; [reflexivity|]. now rewrite N.eqb_refl. Qed.

Lemma str_eqb_eq a b : str_eqb a b = true <-> a = b.
Proof.
  revert b. induction a as [|x a IH]; intros [|y b]; simpl; split; intros H; try discriminate; auto.
  - apply andb_prop in H as (H1 & H2). apply N.eqb_eq in H1. apply IH in H2. now subst.
  - inversion H; subst. rewrite N.eqb_refl. now apply IH.
Qed.

Lemma skip_blanks_printed t : skip_blanks (write_string_literal t) = write_string_literal t.
Proof.
  unfold write_string_literal. destruct (is_identifier t) eqn:EI; [|reflexivity].
  unfold is_identifier in EI. destruct (str_eqb t s_true || str_eqb t s_false); [discriminate|].
  destruct t as [|c r]; [discriminate|]. apply andb_prop in EI as (Hs & _). simpl.
  destruct (N.eqb_spec c 32) as [->|]; [vm_compute in Hs; discriminate|].
  destruct (N.eqb_spec c 9) as [->|]; [vm_compute in Hs; discriminate|]. reflexivity.
Qed.

Lemma key_token_printed t : key_token (write_string_literal t) = KText t.
Proof.
  unfold key_token. rewrite skip_blanks_printed.
  pose proof (text_roundtrip t [] I) as H. rewrite app_nil_r in H. rewrite H. reflexivity.
Qed.

Lemma key_token_quoted t : key_token (quoted t) = KText t.
Proof.
  unfold key_token. assert (skip_blanks (quoted t) = quoted t) as -> by reflexivity.
  pose proof (quoted_reads_back t []) as H. rewrite app_nil_r in H. rewrite H. reflexivity.
Qed.

(* the printed form of two texts compares equal exactly when the texts are equal: keys that differ only
   in spelling are one key, distinct keys are never merged *)
Theorem printed_texts_compare_as_texts t1 t2 :
  text_key_eq (write_string_literal t1) (write_string_literal t2) = str_eqb t1 t2.
Proof. unfold text_key_eq. now rewrite !key_token_printed. Qed.

Theorem quoted_and_printed_agree t : text_key_eq (quoted t) (write_string_literal t) = true.
Proof. unfold text_key_eq. rewrite key_token_quoted, key_token_printed. apply str_eqb_refl. Qed.
