(* Proofs about Model/Route.v *)
From SwimV Require Import Model.Route.
Open Scope N_scope.

Lemma str_eqb_eq a b : str_eqb a b = true <-> a = b.
Proof.
  revert b; induction a as [|x a IH]; intros [|y b]; simpl; split; intros H;
    try reflexivity; try discriminate.
  - apply andb_true_iff in H as [H1 H2]. apply N.eqb_eq in H1. apply IH in H2. now subst.
  - inversion H; subst. rewrite N.eqb_refl. simpl. now apply IH.
Qed.

Lemma str_eqb_refl a : str_eqb a a = true.
Proof. now apply str_eqb_eq. Qed.

(* ------------------------------------------------------------------------------------------ *)
(* percent-encoding: a finite sweep over all 256 byte values, lifted to every byte string *)

Definition byte_ok (b : N) : bool :=
  if keep_raw b then negb (b =? PERCENT) && negb (b =? SLASH) && is_path_char b
  else is_hex (hex_upper (b / 16)) && is_hex (hex_upper (b mod 16))
       && (16 * hex_val (hex_upper (b / 16)) + hex_val (hex_upper (b mod 16)) =? b).

Definition all_bytes : list N := map N.of_nat (seq 0 256).

Lemma all_bytes_ok : forallb byte_ok all_bytes = true.
Proof. vm_compute. reflexivity. Qed.

Lemma in_all_bytes b : b < 256 -> In b all_bytes.
Proof.
  intros H. unfold all_bytes. apply in_map_iff. exists (N.to_nat b). split.
  - apply N2Nat.id.
  - apply in_seq. lia.
Qed.

Lemma byte_ok_all b : b < 256 -> byte_ok b = true.
Proof.
  intros H. pose proof all_bytes_ok as A. rewrite forallb_forall in A. apply A. now apply in_all_bytes.
Qed.

Definition bytes (s : str) : Prop := Forall (fun b => b < 256) s.

Lemma decode_enc_byte b rest : b < 256 -> pct_decode (enc_byte b ++ rest) = b :: pct_decode rest.
Proof.
  intros H. pose proof (byte_ok_all b H) as K. unfold byte_ok in K. unfold enc_byte.
  destruct (keep_raw b) eqn:EK.
  - apply andb_true_iff in K as [K _]. apply andb_true_iff in K as [K1 _].
    apply negb_true_iff in K1. simpl. now rewrite K1.
  - apply andb_true_iff in K as [K K3]. apply andb_true_iff in K as [K1 K2].
    apply N.eqb_eq in K3. cbn [app pct_decode]. rewrite N.eqb_refl, K1, K2. cbn [andb].
    now rewrite K3.
Qed.

Theorem decode_encode s : bytes s -> pct_decode (pct_encode s) = s.
Proof.
  induction s as [|b s IH]; intros H; [reflexivity|]. inversion H; subst.
  unfold pct_encode. cbn [flat_map]. rewrite decode_enc_byte by assumption. f_equal. now apply IH.
Qed.

Lemma encode_nonempty s : s <> [] -> pct_encode s <> [].
Proof.
  destruct s as [|b s]; [congruence|]. intros _. unfold pct_encode. cbn [flat_map].
  unfold enc_byte. destruct (keep_raw b); discriminate.
Qed.

Lemma encode_no_slash s : bytes s -> ~ In SLASH (pct_encode s).
Proof.
  induction s as [|b s IH]; intros H; [simpl; tauto|]. inversion H; subst.
  unfold pct_encode. cbn [flat_map]. intros I. apply in_app_or in I as [I|I]; [|now apply IH].
  pose proof (byte_ok_all b H2) as K. unfold byte_ok in K. unfold enc_byte in I.
  destruct (keep_raw b) eqn:EK.
  - apply andb_true_iff in K as [K _]. apply andb_true_iff in K as [_ K2].
    apply negb_true_iff, N.eqb_neq in K2. destruct I as [I|[]]. congruence.
  - assert (forall d, d < 16 -> hex_upper d <> SLASH) as HU.
    { intros d Hd. unfold hex_upper, SLASH. destruct (d <? 10) eqn:E; [|apply N.ltb_ge in E]; lia. }
    destruct I as [I|[I|[I|[]]]].
    + discriminate.
    + apply (HU (b / 16)); auto. apply N.div_lt_upper_bound; lia.
    + apply (HU (b mod 16)); auto. apply N.mod_lt. lia.
Qed.

(* ------------------------------------------------------------------------------------------ *)
(* unapply_parts inverts the per-segment rendering that apply performs *)

Definition render_seg (m : list (str * str)) (s : seg) : option str :=
  if s_param s then
    match lookup (s_text s) m with
    | Some (c :: v) => Some (pct_encode (c :: v))
    | _ => None
    end
  else Some (s_text s).

Fixpoint render_all (m : list (str * str)) (segs : list seg) : option (list str) :=
  match segs with
  | [] => Some []
  | s :: rest =>
      match render_seg m s, render_all m rest with
      | Some x, Some xs => Some (x :: xs)
      | _, _ => None
      end
  end.

Fixpoint bind_params (m : list (str * str)) (segs : list seg) (acc : list (str * str)) :=
  match segs with
  | [] => acc
  | s :: rest =>
      if s_param s then
        match lookup (s_text s) m with
        | Some v => bind_params m rest (bind (s_text s) v acc)
        | None => bind_params m rest acc
        end
      else bind_params m rest acc
  end.

Definition values_are_bytes (m : list (str * str)) : Prop := Forall (fun kv => bytes (snd kv)) m.

Lemma lookup_bytes k m v : values_are_bytes m -> lookup k m = Some v -> bytes v.
Proof.
  induction m as [|[k' v'] t IH]; simpl; [discriminate|]. intros H. inversion H; subst.
  destruct (str_eqb k k'); [intros E; inversion E; subst; auto | now apply IH].
Qed.

Theorem unapply_parts_inverts m segs : forall parts acc,
  values_are_bytes m -> render_all m segs = Some parts ->
  unapply_parts parts segs acc = Some (bind_params m segs acc).
Proof.
  induction segs as [|s rest IH]; intros parts acc Hb H.
  - simpl in H. inversion H; subst. reflexivity.
  - cbn [render_all] in H. destruct (render_seg m s) as [x|] eqn:ER; [|discriminate].
    destruct (render_all m rest) as [xs|] eqn:EA; [|discriminate]. inversion H; subst; clear H.
    cbn [unapply_parts bind_params]. unfold render_seg in ER. destruct (s_param s).
    + destruct (lookup (s_text s) m) as [[|c v]|] eqn:EL; try discriminate.
      inversion ER; subst; clear ER.
      change (enc_byte c ++ pct_encode v) with (pct_encode (c :: v)).
      rewrite decode_encode by (eapply lookup_bytes; eauto). apply IH; auto.
    + inversion ER; subst. rewrite str_eqb_refl. apply IH; auto.
Qed.

(* matching never binds a parameter to the empty string *)
Definition no_empty (m : list (str * str)) : Prop := Forall (fun kv => snd kv <> []) m.

Lemma bind_no_empty k v m : v <> [] -> no_empty m -> no_empty (bind k v m).
Proof.
  intros Hv. induction m as [|[k' v'] t IH]; simpl; intros H.
  - constructor; auto.
  - inversion H; subst. destruct (str_eqb k k'); constructor; auto. now apply IH.
Qed.

Theorem unapply_never_binds_empty segs : forall parts acc r,
  no_empty acc -> unapply_parts parts segs acc = Some r -> no_empty r.
Proof.
  induction segs as [|s rest IH]; intros [|part parts] acc r Ha H; simpl in H; try discriminate.
  - inversion H; subst; auto.
  - destruct (s_param s).
    + destruct (pct_decode part) as [|c d] eqn:ED; [discriminate|].
      eapply IH; [|exact H]. apply bind_no_empty; [discriminate|auto].
    + destruct (str_eqb (pct_decode part) (pct_decode (s_text s))); [|discriminate]. eapply IH; eauto.
Qed.

(* ------------------------------------------------------------------------------------------ *)
(* ambiguity detection is complete: two patterns that match a common list of path parts are
   reported as ambiguous *)

Theorem common_match_is_ambiguous : forall parts sp sq a1 a2 r1 r2,
  unapply_parts parts sp a1 = Some r1 -> unapply_parts parts sq a2 = Some r2 ->
  amb_segs sp sq = true.
Proof.
  induction parts as [|part parts IH]; intros [|x sp] [|y sq] a1 a2 r1 r2 H1 H2;
    simpl in *; try discriminate; auto.
  destruct (s_param x) eqn:EX; destruct (s_param y) eqn:EY; simpl.
  - destruct (pct_decode part); [discriminate|]. eapply IH; eauto.
  - destruct (pct_decode part) as [|c0 d0] eqn:ED; [discriminate|].
    destruct (str_eqb (c0 :: d0) (pct_decode (s_text y))); [|discriminate]. eapply IH; eauto.
  - destruct (str_eqb (pct_decode part) (pct_decode (s_text x))); [|discriminate].
    destruct (pct_decode part); [discriminate|]. eapply IH; eauto.
  - destruct (str_eqb (pct_decode part) (pct_decode (s_text x))) eqn:E1; [|discriminate].
    destruct (str_eqb (pct_decode part) (pct_decode (s_text y))) eqn:E2; [|discriminate].
    apply str_eqb_eq in E1, E2. rewrite <- E1, <- E2, str_eqb_refl. simpl. eapply IH; eauto.
Qed.

Theorem ambiguity_complete p q sc path r1 r2 :
  unapply_uri p sc path = Some r1 -> unapply_uri q sc path = Some r2 ->
  p_abs p = p_abs q -> are_ambiguous p q = true.
Proof.
  unfold unapply_uri, are_ambiguous. intros H1 H2 HA.
  destruct (scheme_mismatch p sc); [discriminate|]. destruct (scheme_mismatch q sc); [discriminate|].
  rewrite <- HA in H2. destruct (p_abs p).
  - destruct (split_slash path) as [|[|c f] rest]; try discriminate.
    eapply common_match_is_ambiguous; eauto.
  - eapply common_match_is_ambiguous; eauto.
Qed.

(* an absolute and a relative pattern never match the same URI path *)
Lemma pct_decode_nil s : pct_decode s = [] -> s = [].
Proof.
  destruct s as [|c rest]; auto. simpl. destruct (c =? PERCENT); [|discriminate].
  destruct rest as [|h [|l r]]; try discriminate. destruct (is_hex h && is_hex l); discriminate.
Qed.

Definition segs_nonempty (p : pattern) : Prop := Forall (fun y => s_text y <> []) (p_segs p).

Theorem abs_rel_disjoint p q sc path r1 r2 :
  segs_nonempty q -> p_abs p = true -> p_abs q = false ->
  unapply_uri p sc path = Some r1 -> unapply_uri q sc path = Some r2 -> False.
Proof.
  unfold unapply_uri, segs_nonempty. intros W A B H1 H2. rewrite A in H1. rewrite B in H2.
  destruct (scheme_mismatch p sc); [discriminate|]. destruct (scheme_mismatch q sc); [discriminate|].
  destruct (split_slash path) as [|[|c f] rest] eqn:ES; try discriminate.
  destruct (p_segs q) as [|y sq]; [simpl in H2; discriminate|].
  inversion W; subst. simpl in H2. destruct (s_param y); [discriminate|].
  destruct (pct_decode (s_text y)) eqn:ED; [|simpl in H2; discriminate].
  apply pct_decode_nil in ED. contradiction.
Qed.

(* Route table determinism: if build accepted the routes (no two distinct ones ambiguous), then at
   most one of them matches any given URI. *)
Theorem route_table_deterministic (routes : list pattern) sc path :
  (forall p, In p routes -> segs_nonempty p) ->
  (forall p q, In p routes -> In q routes -> p <> q -> are_ambiguous p q = false) ->
  forall p q r1 r2, In p routes -> In q routes -> p <> q ->
  unapply_uri p sc path = Some r1 -> unapply_uri q sc path = Some r2 -> False.
Proof.
  intros W Hamb p q r1 r2 Ip Iq NE H1 H2.
  destruct (p_abs p) eqn:EP; destruct (p_abs q) eqn:EQ.
  - pose proof (ambiguity_complete p q sc path r1 r2 H1 H2) as A. rewrite EP, EQ in A.
    rewrite (Hamb p q Ip Iq NE) in A. specialize (A eq_refl). discriminate.
  - exact (abs_rel_disjoint p q sc path r1 r2 (W q Iq) EP EQ H1 H2).
  - exact (abs_rel_disjoint q p sc path r2 r1 (W p Ip) EQ EP H2 H1).
  - pose proof (ambiguity_complete p q sc path r1 r2 H1 H2) as A. rewrite EP, EQ in A.
    rewrite (Hamb p q Ip Iq NE) in A. specialize (A eq_refl). discriminate.
Qed.

(* non-vacuity: a parsed pattern, its applied route and the inverse *)
Example route_example :
  match parse [47; 120; 47; 58; 105; 100] (* "/x/:id" *) with
  | inl p =>
      segs_nonempty p /\
      apply p [([105; 100], [97; 126; 47])] = inl [47; 120; 47; 97; 126; 37; 50; 70] /\
      unapply_str p [47; 120; 47; 97; 126; 37; 50; 70] = Some [([105; 100], [97; 126; 47])]
  | inr _ => False
  end.
Proof.
  vm_compute. split; [|split; reflexivity]. repeat constructor; discriminate.
Qed.

(* ------------------------------------------------------------------------------------------ *)
(* apply followed by unapply (after the URI has been split into scheme and path) *)

Fixpoint join (first absolute : bool) (parts : list str) : str :=
  match parts with
  | [] => []
  | x :: rest => (if negb first || absolute then [SLASH] else []) ++ x ++ join false absolute rest
  end.

Lemma apply_segs_render m absolute segs : forall first parts,
  render_all m segs = Some parts -> apply_segs segs first absolute m = (join first absolute parts, []).
Proof.
  induction segs as [|s rest IH]; intros first parts H.
  - simpl in H. inversion H; subst. reflexivity.
  - cbn [render_all] in H. destruct (render_seg m s) as [x|] eqn:ER; [|discriminate].
    destruct (render_all m rest) as [xs|] eqn:EA; [|discriminate]. inversion H; subst; clear H.
    cbn [apply_segs join]. rewrite (IH false xs eq_refl). unfold render_seg in ER.
    destruct (s_param s).
    + destruct (lookup (s_text s) m) as [[|c v]|]; try discriminate. inversion ER; subst. reflexivity.
    + inversion ER; subst. reflexivity.
Qed.

Lemma split_aux_part cur part rest :
  ~ In SLASH part ->
  split_slash_aux cur (part ++ SLASH :: rest) = (rev cur ++ part) :: split_slash_aux [] rest.
Proof.
  revert cur. induction part as [|c part IH]; intros cur H; simpl.
  - unfold SLASH. simpl. now rewrite app_nil_r.
  - destruct (c =? SLASH) eqn:E; [apply N.eqb_eq in E; subst; exfalso; apply H; now left|].
    rewrite IH by (intros I; apply H; now right). simpl. now rewrite <- app_assoc.
Qed.

Lemma split_aux_last cur part :
  ~ In SLASH part -> split_slash_aux cur part = [rev cur ++ part].
Proof.
  revert cur. induction part as [|c part IH]; intros cur H; simpl.
  - now rewrite app_nil_r.
  - destruct (c =? SLASH) eqn:E; [apply N.eqb_eq in E; subst; exfalso; apply H; now left|].
    rewrite IH by (intros I; apply H; now right). simpl. now rewrite <- app_assoc.
Qed.

Lemma split_join_tail parts : Forall (fun x => ~ In SLASH x) parts ->
  forall x, ~ In SLASH x -> split_slash_aux [] (x ++ join false true parts) = x :: parts
                           /\ split_slash_aux [] (x ++ join false false parts) = x :: parts.
Proof.
  induction parts as [|y rest IH]; intros H x Hx.
  - simpl. rewrite !app_nil_r. split; now apply split_aux_last.
  - inversion H; subst. cbn [join negb orb]. simpl app.
    destruct (IH H3 y H2) as [A B]. split; rewrite split_aux_part by assumption; simpl; f_equal; auto.
Qed.

Lemma split_join_abs parts : parts <> [] -> Forall (fun x => ~ In SLASH x) parts ->
  split_slash (join true true parts) = [] :: parts.
Proof.
  destruct parts as [|x rest]; [congruence|]. intros _ H. inversion H; subst.
  unfold split_slash. cbn [join negb orb]. simpl app.
  change (SLASH :: x ++ join false true rest) with ([] ++ SLASH :: (x ++ join false true rest)).
  rewrite split_aux_part by (simpl; tauto). simpl. f_equal. now apply split_join_tail.
Qed.

Lemma split_join_rel parts : parts <> [] -> Forall (fun x => ~ In SLASH x) parts ->
  split_slash (join true false parts) = parts.
Proof.
  destruct parts as [|x rest]; [congruence|]. intros _ H. inversion H; subst.
  unfold split_slash. cbn [join negb orb]. simpl app. now apply split_join_tail.
Qed.

Lemma render_no_slash m segs parts :
  values_are_bytes m -> Forall (fun s => ~ In SLASH (s_text s)) segs ->
  render_all m segs = Some parts -> Forall (fun x => ~ In SLASH x) parts.
Proof.
  intros Hb. revert parts. induction segs as [|s rest IH]; intros parts Hs H.
  - simpl in H. inversion H; subst. constructor.
  - inversion Hs; subst. cbn [render_all] in H.
    destruct (render_seg m s) as [x|] eqn:ER; [|discriminate].
    destruct (render_all m rest) as [xs|] eqn:EA; [|discriminate]. inversion H; subst; clear H.
    constructor; [|apply IH; auto]. unfold render_seg in ER. destruct (s_param s).
    + destruct (lookup (s_text s) m) as [[|c v]|] eqn:EL; try discriminate. inversion ER; subst.
      apply (encode_no_slash (c :: v)). eapply lookup_bytes; eauto.
    + inversion ER; subst. assumption.
Qed.

Lemma scheme_mismatch_self p : scheme_mismatch p (p_scheme p) = false.
Proof. unfold scheme_mismatch. destruct (p_scheme p); auto. now rewrite str_eqb_refl. Qed.

(* The round trip, from the applied route's (scheme, path) split onwards.  The remaining step -
   RouteUri parsing [pre ++ body] into exactly (p_scheme p, body) - is covered by the
   correspondence check and holds only for URI-clean patterns (known finding C18-F1). *)
Theorem apply_unapply_after_split p m parts :
  values_are_bytes m -> p_segs p <> [] -> Forall (fun s => ~ In SLASH (s_text s)) (p_segs p) ->
  render_all m (p_segs p) = Some parts ->
  let body := join true (p_abs p) parts in
  apply p m = inl ((match p_scheme p with Some sc => sc ++ [COLON] | None => [] end) ++ body) /\
  unapply_uri p (p_scheme p) body = Some (bind_params m (p_segs p) []).
Proof.
  intros Hb Hne Hs Hr body. split.
  - unfold apply. rewrite (apply_segs_render m (p_abs p) (p_segs p) true parts Hr). reflexivity.
  - unfold unapply_uri. rewrite scheme_mismatch_self.
    assert (parts <> []) as Pne.
    { destruct (p_segs p); [congruence|]. cbn [render_all] in Hr.
      destruct (render_seg m s); [|discriminate]. destruct (render_all m l); [|discriminate].
      inversion Hr; discriminate. }
    pose proof (render_no_slash m _ _ Hb Hs Hr) as Hns. unfold body. destruct (p_abs p).
    + rewrite split_join_abs by assumption. now apply unapply_parts_inverts.
    + rewrite split_join_rel by assumption. now apply unapply_parts_inverts.
Qed.

(* and when some parameter is missing or empty, apply refuses *)
Lemma apply_segs_missing m absolute segs : forall first,
  render_all m segs = None -> snd (apply_segs segs first absolute m) <> [].
Proof.
  induction segs as [|s rest IH]; intros first H; [discriminate|].
  cbn [render_all] in H. cbn [apply_segs]. unfold render_seg in H.
  destruct (apply_segs rest false absolute m) as [tail miss'] eqn:ET.
  destruct (s_param s).
  - destruct (lookup (s_text s) m) as [[|c v]|]; simpl; try discriminate.
    destruct (render_all m rest) eqn:ER; [discriminate|]. specialize (IH false eq_refl).
    rewrite ET in IH. exact IH.
  - simpl. destruct (render_all m rest) eqn:ER; [discriminate|]. specialize (IH false eq_refl).
    rewrite ET in IH. exact IH.
Qed.
