(* C18: the RouteUri parse of an applied route is exactly (scheme, path) - the step of the apply / unapply round
   trip that Proofs/RouteProofs.v left to the correspondence check.  It holds for patterns inside the URI grammar
   (literal segments made of path characters, a well-formed scheme); patterns outside it are known finding C18-F1. *)
From SwimV Require Import Model.Route Proofs.RouteProofs.
Open Scope N_scope.

(* a string of path characters / percent triples is consumed whole by take_path_chars, whatever follows *)
Definition pchars (t : str) : Prop :=
  forall rest, take_path_chars (t ++ rest) = (t ++ fst (take_path_chars rest), snd (take_path_chars rest)).

Lemma pchars_nil : pchars [].
Proof. intros rest. cbn. now destruct (take_path_chars rest). Qed.

Lemma pchars_app a b : pchars a -> pchars b -> pchars (a ++ b).
Proof. intros Ha Hb rest. rewrite <- app_assoc, Ha, Hb. cbn [fst snd]. now rewrite app_assoc. Qed.

Lemma pchars_char c : is_path_char c = true -> pchars [c].
Proof. intros H rest. cbn [app take_path_chars]. rewrite H. now destruct (take_path_chars rest). Qed.

Lemma pchars_lit t : forallb is_path_char t = true -> pchars t.
Proof.
  induction t as [|c t IH]; cbn [forallb]; intros H; [apply pchars_nil|]. apply andb_true_iff in H as [H1 H2].
  change (c :: t) with ([c] ++ t). apply pchars_app; [now apply pchars_char|now apply IH].
Qed.

Definition enc_byte_ok (b : N) : bool :=
  if keep_raw b then is_path_char b
  else negb (is_path_char PERCENT) && is_hex (hex_upper (b / 16)) && is_hex (hex_upper (b mod 16)).

Lemma enc_bytes_ok : forallb enc_byte_ok all_bytes = true.
Proof. vm_compute. reflexivity. Qed.

Lemma pchars_enc_byte b : b < 256 -> pchars (enc_byte b).
Proof.
  intros Hb. pose proof enc_bytes_ok as H. rewrite forallb_forall in H. specialize (H b (in_all_bytes b Hb)).
  unfold enc_byte_ok, enc_byte in *. destruct (keep_raw b); [now apply pchars_char|].
  apply andb_true_iff in H as [H H3]. apply andb_true_iff in H as [H1 H2]. apply negb_true_iff in H1.
  intros rest. cbn [app take_path_chars]. rewrite H1. change (PERCENT =? PERCENT) with true. cbn iota. rewrite H2, H3. cbn [andb].
  now destruct (take_path_chars rest).
Qed.

Lemma pchars_encode v : bytes v -> pchars (pct_encode v).
Proof.
  unfold bytes, pct_encode. induction v as [|b v IH]; cbn [flat_map]; intros H; [apply pchars_nil|].
  inversion H; subst. apply pchars_app; [now apply pchars_enc_byte|now apply IH].
Qed.

Lemma take_at_slash rest : take_path_chars (SLASH :: rest) = ([], SLASH :: rest).
Proof. reflexivity. Qed.

(* a rendered part: the literal text of a segment inside the grammar, or an encoded value *)
Definition part_ok (t : str) : Prop := pchars t /\ t <> [].

Lemma take_part t rest : pchars t -> take_path_chars (t ++ SLASH :: rest) = (t, SLASH :: rest).
Proof. intros H. rewrite H, take_at_slash. cbn. now rewrite app_nil_r. Qed.

Lemma take_part_end t : pchars t -> take_path_chars t = (t, []).
Proof. intros H. rewrite <- (app_nil_r t) at 1. rewrite H. cbn. now rewrite app_nil_r. Qed.

(* "/p1/p2/..." is consumed whole by more_segments given enough fuel *)
Definition tail_of (ps : list str) : str := flat_map (fun p => SLASH :: p) ps.

Lemma more_segments_all ps : Forall part_ok ps -> forall f, (length ps <= f)%nat ->
  more_segments f (tail_of ps) = (tail_of ps, []).
Proof.
  induction 1 as [|p ps [Hp Hne] _ IH]; intros f Hf.
  - destruct f; reflexivity.
  - destruct f as [|f]; [cbn in Hf; lia|]. cbn [tail_of flat_map app more_segments]. change (SLASH =? SLASH) with true. cbn iota.
    fold (tail_of ps). destruct ps as [|q qs].
    + cbn [tail_of flat_map]. rewrite app_nil_r, (take_part_end p Hp). destruct f; cbn; now rewrite app_nil_r.
    + cbn [tail_of flat_map app]. rewrite (take_part p _ Hp). fold (tail_of qs).
      change (SLASH :: q ++ tail_of qs) with (tail_of (q :: qs)).
      rewrite IH by (cbn in *; lia). reflexivity.
Qed.

Lemma tail_length ps : (length ps <= length (tail_of ps))%nat.
Proof. unfold tail_of. induction ps as [|p ps IH]; cbn [flat_map length app]; [lia|]. rewrite app_length. lia. Qed.

Lemma path_segments_all p ps : part_ok p -> Forall part_ok ps ->
  path_segments (p ++ tail_of ps) = Some (p ++ tail_of ps, []).
Proof.
  intros [Hp Hne] Hps. unfold path_segments. destruct ps as [|q qs].
  - cbn [tail_of flat_map]. rewrite app_nil_r, (take_part_end p Hp). destruct p; [congruence|]. cbn. now rewrite app_nil_r.
  - cbn [tail_of flat_map app]. rewrite (take_part p _ Hp). destruct p as [|c p']; [congruence|].
    change (SLASH :: q ++ flat_map (fun p0 => SLASH :: p0) qs) with (tail_of (q :: qs)).
    rewrite more_segments_all; [reflexivity|exact Hps|apply tail_length].
Qed.

Lemma join_false parts a : join false a parts = tail_of parts.
Proof. induction parts as [|p ps IH]; cbn; [reflexivity|]. now rewrite IH. Qed.

Lemma first_not_slash p : part_ok p -> match p with c :: _ => (c =? SLASH) = false | [] => False end.
Proof.
  intros [Hp Hne]. destruct p as [|c p]; [congruence|]. destruct (c =? SLASH) eqn:E; [|reflexivity].
  apply N.eqb_eq in E. subst c. specialize (Hp []). cbn in Hp. discriminate.
Qed.

(* the path of the route: absolute or relative *)
Lemma uri_path_join absolute parts : parts <> [] -> Forall part_ok parts ->
  uri_path (join true absolute parts) = Some (join true absolute parts, []).
Proof.
  intros Hne HF. destruct parts as [|p ps]; [congruence|]. inversion HF as [|? ? Hp Hps]; subst.
  cbn [join negb orb]. rewrite join_false. destruct absolute; cbn [app].
  - cbn [uri_path]. change (SLASH =? SLASH) with true. cbn iota. now rewrite (path_segments_all p ps Hp Hps).
  - pose proof (first_not_slash p Hp) as Hc. destruct p as [|c p']; [contradiction|]. cbn [app uri_path]. rewrite Hc.
    change (c :: p' ++ tail_of ps) with ((c :: p') ++ tail_of ps). now rewrite (path_segments_all _ ps Hp Hps).
Qed.

(* the scheme *)
Definition scheme_ok (sc : str) : bool :=
  match sc with c :: a => is_alpha c && forallb is_scheme_char a | [] => false end.

Lemma take_while_scheme a rest : forallb is_scheme_char a = true ->
  take_while is_scheme_char (a ++ COLON :: rest) = (a, COLON :: rest).
Proof.
  induction a as [|c a IH]; cbn [forallb app take_while]; intros H; [reflexivity|].
  apply andb_true_iff in H as [H1 H2]. rewrite H1, (IH H2). reflexivity.
Qed.

Lemma uri_scheme_ok sc body : scheme_ok sc = true -> uri_scheme (sc ++ COLON :: body) = Some (sc, body).
Proof.
  destruct sc as [|c a]; cbn [scheme_ok]; [discriminate|]. intros H. apply andb_true_iff in H as [H1 H2].
  cbn [app uri_scheme]. rewrite H1, (take_while_scheme a body H2). change (COLON =? COLON) with true. reflexivity.
Qed.

(* ---- the theorem ---- *)
Definition lit_ok (s : seg) : Prop := s_param s = true \/ forallb is_path_char (s_text s) = true.

Lemma render_parts_ok m segs : values_are_bytes m -> Forall lit_ok segs -> Forall (fun s => s_text s <> []) segs ->
  forall parts, render_all m segs = Some parts -> Forall part_ok parts.
Proof.
  intros Hb. induction segs as [|s rest IH]; intros HL HN parts Hr; cbn [render_all] in Hr.
  - injection Hr as <-. constructor.
  - destruct (render_seg m s) as [x|] eqn:ER; [|discriminate]. destruct (render_all m rest) as [xs|] eqn:EA; [|discriminate].
    injection Hr as <-. inversion HL as [|? ? Hl HL']; subst. inversion HN as [|? ? Hn HN']; subst.
    constructor; [|now apply IH]. unfold render_seg in ER. destruct (s_param s) eqn:Ep.
    + destruct (lookup (s_text s) m) as [[|c v]|] eqn:El; try discriminate. injection ER as <-.
      split; [exact (pchars_encode (c :: v) (lookup_bytes _ _ _ Hb El))|]. apply (encode_nonempty (c :: v)). discriminate.
    + injection ER as <-. destruct Hl as [Hl|Hl]; [congruence|]. split; [now apply pchars_lit|exact Hn].
Qed.

Theorem applied_route_parses p m parts :
  values_are_bytes m -> p_segs p <> [] -> Forall lit_ok (p_segs p) -> Forall (fun s => s_text s <> []) (p_segs p) ->
  render_all m (p_segs p) = Some parts ->
  let body := join true (p_abs p) parts in
  match p_scheme p with
  | Some sc => scheme_ok sc = true
  | None => uri_scheme body = None
  end ->
  parse_uri ((match p_scheme p with Some sc => sc ++ [COLON] | None => [] end) ++ body) = Some (p_scheme p, body).
Proof.
  intros Hb Hne HL HN Hr body Hsc.
  assert (Pne : parts <> []).
  { destruct (p_segs p); [congruence|]. cbn [render_all] in Hr.
    destruct (render_seg m s); [|discriminate]. destruct (render_all m l); [|discriminate]. injection Hr as <-. discriminate. }
  pose proof (render_parts_ok m _ Hb HL HN parts Hr) as HP.
  pose proof (uri_path_join (p_abs p) parts Pne HP) as Hpath. fold body in Hpath.
  unfold parse_uri. destruct (p_scheme p) as [sc|].
  - rewrite <- app_assoc. cbn [app]. rewrite (uri_scheme_ok sc body Hsc), Hpath. reflexivity.
  - cbn [app]. rewrite Hsc, Hpath. reflexivity.
Qed.

(* an absolute pattern without a scheme never looks like it had one *)
Lemma absolute_has_no_scheme parts : uri_scheme (join true true parts) = None.
Proof. destruct parts; reflexivity. Qed.

(* ... and neither does a relative one whose first segment is a parameter: a parameter value is written with its
   colons escaped, so nothing in front of the first slash can be taken for a scheme *)
Definition colon_ok (b : N) : bool := negb (keep_raw b) || negb (b =? COLON).
Lemma colon_bytes_ok : forallb colon_ok all_bytes = true.
Proof. vm_compute. reflexivity. Qed.

Lemma enc_byte_no_colon b : b < 256 -> ~ In COLON (enc_byte b).
Proof.
  intros H. pose proof colon_bytes_ok as A. rewrite forallb_forall in A. specialize (A b (in_all_bytes b H)).
  unfold colon_ok in A. unfold enc_byte. destruct (keep_raw b) eqn:EK.
  - cbn [negb orb] in A. apply negb_true_iff, N.eqb_neq in A. intros [I|[]]. congruence.
  - assert (HU : forall d, d < 16 -> hex_upper d <> COLON).
    { intros d Hd. unfold hex_upper, COLON. destruct (d <? 10) eqn:E; [apply N.ltb_lt in E|apply N.ltb_ge in E]; lia. }
    intros [I|[I|[I|[]]]].
    + discriminate.
    + apply (HU (b / 16)); [apply N.div_lt_upper_bound; lia|exact I].
    + apply (HU (b mod 16)); [apply N.mod_lt; lia|exact I].
Qed.

Lemma encode_no_colon v : bytes v -> ~ In COLON (pct_encode v).
Proof.
  induction v as [|b v IH]; intros H; [cbn; tauto|]. inversion H; subst.
  unfold pct_encode. cbn [flat_map]. intros I. apply in_app_or in I as [I|I]; [now apply (enc_byte_no_colon b)|now apply IH].
Qed.

(* what take_while leaves in front: a character of [t], the slash after it, or nothing - never a colon *)
Lemma scheme_scan_stops_before_colon t : ~ In COLON t -> forall R, (R = [] \/ exists R', R = SLASH :: R') ->
  match snd (take_while is_scheme_char (t ++ R)) with [] => True | d :: _ => d <> COLON end.
Proof.
  induction t as [|c t IH]; intros Hn R HR.
  - cbn [app]. destruct HR as [->|[R' ->]]; [exact I|]. cbn [take_while]. change (is_scheme_char SLASH) with false.
    cbn [snd]. discriminate.
  - cbn [app take_while]. destruct (is_scheme_char c).
    + destruct (take_while is_scheme_char (t ++ R)) as [a b] eqn:E. cbn [snd].
      assert (Hn' : ~ In COLON t) by (intros I; apply Hn; now right).
      specialize (IH Hn' R HR). now rewrite E in IH.
    + cbn [snd]. intros ->. apply Hn. now left.
Qed.

Lemma join_rest_shape ps : join false false ps = [] \/ exists R', join false false ps = SLASH :: R'.
Proof. destruct ps as [|x rest]; [now left|right]. cbn [join negb orb app]. eexists. reflexivity. Qed.

Lemma relative_first_part_has_no_scheme p1 ps : ~ In COLON p1 -> uri_scheme (join true false (p1 :: ps)) = None.
Proof.
  intros Hn. cbn [join negb orb app].
  destruct p1 as [|c t].
  - cbn [app]. destruct (join_rest_shape ps) as [->|[R' ->]]; reflexivity.
  - cbn [app uri_scheme]. destruct (is_alpha c); [|reflexivity].
    assert (Hn' : ~ In COLON t) by (intros I; apply Hn; now right).
    pose proof (scheme_scan_stops_before_colon t Hn' (join false false ps) (join_rest_shape ps)) as H.
    destruct (take_while is_scheme_char (t ++ join false false ps)) as [a r]. cbn [snd] in H.
    destruct r as [|d r']; [reflexivity|]. destruct (d =? COLON) eqn:E; [apply N.eqb_eq in E; congruence|reflexivity].
Qed.

(* so the premise about the scheme is automatic for a relative, scheme-less pattern that begins with a parameter *)
Theorem relative_leading_parameter_has_no_scheme m s segs parts :
  values_are_bytes m -> s_param s = true -> render_all m (s :: segs) = Some parts ->
  uri_scheme (join true false parts) = None.
Proof.
  intros Hb Hp Hr. cbn [render_all] in Hr.
  destruct (render_seg m s) as [x|] eqn:ER; [|discriminate]. destruct (render_all m segs) as [xs|]; [|discriminate].
  injection Hr as <-. apply relative_first_part_has_no_scheme.
  unfold render_seg in ER. rewrite Hp in ER.
  destruct (lookup (s_text s) m) as [[|c v]|] eqn:El; try discriminate. injection ER as <-.
  change (enc_byte c ++ pct_encode v) with (pct_encode (c :: v)).
  apply encode_no_colon. exact (lookup_bytes _ _ _ Hb El).
Qed.

(* the whole round trip: apply, then RouteUri parsing and matching, returns the parameter values *)
Theorem apply_unapply_str p m parts route :
  values_are_bytes m -> p_segs p <> [] -> Forall (fun s => ~ In SLASH (s_text s)) (p_segs p) ->
  Forall lit_ok (p_segs p) -> Forall (fun s => s_text s <> []) (p_segs p) ->
  render_all m (p_segs p) = Some parts ->
  match p_scheme p with
  | Some sc => scheme_ok sc = true
  | None => uri_scheme (join true (p_abs p) parts) = None
  end ->
  apply p m = inl route -> unapply_str p route = Some (bind_params m (p_segs p) []).
Proof.
  intros Hb Hne Hs HL HN Hr Hsc Ha.
  destruct (apply_unapply_after_split p m parts Hb Hne Hs Hr) as [E1 E2]. rewrite E1 in Ha. injection Ha as <-.
  unfold unapply_str. rewrite (applied_route_parses p m parts Hb Hne HL HN Hr Hsc). exact E2.
Qed.
