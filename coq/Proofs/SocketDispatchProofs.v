(* The socket task's tables (node -> lane -> downlink writers, with their clean-up) deliver every arriving
   response envelope to exactly the downlinks registered for its node and lane whose reader is still there - the
   tables refine a plain registration list - for every sequence of attachments, departures, arriving and
   outgoing messages. *)
From SwimV Require Import Model.SocketDispatch.
Open Scope N_scope.

Lemma lookup_put {A} k k' (v : A) m : lookup k (put k' v m) = if k =? k' then Some v else lookup k m.
Proof.
  induction m as [|[a x] m IH]; cbn; [reflexivity|]. destruct (k' =? a) eqn:E.
  - apply N.eqb_eq in E. subst a. cbn. destruct (k =? k'); reflexivity.
  - cbn. destruct (k =? a) eqn:E2.
    + apply N.eqb_eq in E2. subst a. rewrite N.eqb_sym in E. now rewrite E.
    + exact IH.
Qed.

Lemma lookup_del {A} k k' (m : list (N * A)) : lookup k (del k' m) = if k =? k' then None else lookup k m.
Proof.
  induction m as [|[a x] m IH]; cbn; [now destruct (k =? k')|]. destruct (k' =? a) eqn:E.
  - apply N.eqb_eq in E. subst a. rewrite IH. destruct (k =? k'); reflexivity.
  - cbn. destruct (k =? a) eqn:E2.
    + apply N.eqb_eq in E2. subst a. rewrite N.eqb_sym in E. now rewrite E.
    + exact IH.
Qed.

(* ---- the table operations ---- *)
Lemma tget_tset t n l v n' l' : tget (tset t n l v) n' l' = if (n' =? n) && (l' =? l) then v else tget t n' l'.
Proof.
  unfold tget, tset, lanes_of. rewrite lookup_put. destruct (n' =? n) eqn:En; cbn [andb]; [|reflexivity].
  apply N.eqb_eq in En. subst n'. rewrite lookup_put. destruct (l' =? l); reflexivity.
Qed.

(* removing an address - and with its last lane the node - loses no other address *)
Lemma tget_tdrop t n l n' l' : tget (tdrop t n l) n' l' = if (n' =? n) && (l' =? l) then [] else tget t n' l'.
Proof.
  unfold tdrop. destruct (del l (lanes_of t n)) as [|e rest] eqn:Ed.
  - unfold tget, lanes_of. rewrite lookup_del. destruct (n' =? n) eqn:En; cbn [andb]; [|reflexivity].
    apply N.eqb_eq in En. subst n'. cbn [lookup].
    pose proof (lookup_del l' l (lanes_of t n)) as H. rewrite Ed in H. cbn [lookup] in H. unfold lanes_of in H.
    destruct (l' =? l); [reflexivity|]. now rewrite <- H.
  - rewrite <- Ed. unfold tget, lanes_of. rewrite lookup_put. destruct (n' =? n) eqn:En; cbn [andb]; [|reflexivity].
    apply N.eqb_eq in En. subst n'. fold (lanes_of t n). rewrite lookup_del. destruct (l' =? l); reflexivity.
Qed.

Definition live (s : sock) (d : N) : bool := negb (memN d (s_gone s)).
Definition at_addr (n l : N) (da : N * (N * N)) : bool := (fst (snd da) =? n) && (snd (snd da) =? l).

Definition abs (s : sock) : ospec :=
  {| o_addr := s_addr s; o_gone := s_gone s; o_routes := s_routes s; o_stopped := s_stopped s; o_senders := s_senders s |}.

Lemma owed_alt s n l : owed s n l = filter (live s) (map fst (filter (at_addr n l) (s_addr s))).
Proof.
  unfold owed. induction (s_addr s) as [|da m IH]; cbn; [reflexivity|]. unfold at_addr at 1.
  destruct ((fst (snd da) =? n) && (snd (snd da) =? l)); cbn.
  - unfold live at 1. destruct (negb (memN (fst da) (s_gone s))); cbn; now rewrite IH.
  - exact IH.
Qed.

(* the tables hold, for every address, the downlinks attached there (possibly some that have gone and have not
   been noticed yet); those still there are exactly the ones owed *)
Definition TInv (s : sock) : Prop := forall n l, filter (live s) (tget (s_subs s) n l) = owed s n l.

Lemma tinv0 : TInv sock0.
Proof. intros n l. reflexivity. Qed.

Lemma filter_filter {A} (f g : A -> bool) l : filter f (filter g l) = filter (fun x => g x && f x) l.
Proof. induction l as [|x l IH]; cbn; [reflexivity|]. destruct (g x); cbn; [destruct (f x); now rewrite IH|exact IH]. Qed.

Lemma filter_idem {A} (f : A -> bool) l : filter f (filter f l) = filter f l.
Proof. rewrite filter_filter. apply filter_ext. intros x. now destruct (f x). Qed.

Lemma live_set_subs s t : live (set_subs s t) = live s.
Proof. reflexivity. Qed.
Lemma owed_set_subs s t n l : owed (set_subs s t) n l = owed s n l.
Proof. reflexivity. Qed.

(* one step: same deliveries as the specification, same abstract state, invariant kept *)
Lemma sstep_refines plane s o : TInv s ->
  snd (sstep plane s o) = snd (expected plane (abs s) o)
  /\ abs (fst (sstep plane s o)) = fst (expected plane (abs s) o)
  /\ TInv (fst (sstep plane s o)).
Proof.
  intros HT. unfold sstep, expected. cbn [abs o_stopped]. destruct (s_stopped s) eqn:Es.
  { cbn [fst snd]. split; [reflexivity|]. split; [unfold abs; now rewrite Es|exact HT]. }
  destruct o as [d n l|d|q|p| |n p|d q|d]; cbn [fst snd abs o_addr o_gone o_routes o_stopped o_senders].
  - (* attach *)
    split; [reflexivity|]. split; [reflexivity|].
    intros n' l'. cbn [s_subs]. rewrite tget_tset, owed_alt. cbn [s_addr].
    rewrite filter_app, map_app. cbn [filter map]. unfold at_addr at 2. cbn [fst snd]. rewrite filter_app.
    change (live {| s_subs := tset (s_subs s) n l (tget (s_subs s) n l ++ [d]); s_routes := s_routes s;
                    s_addr := s_addr s ++ [(d, (n, l))]; s_gone := s_gone s; s_stopped := false; s_senders := s_senders s |}) with (live s).
    rewrite <- owed_alt, <- HT. rewrite (N.eqb_sym n n'), (N.eqb_sym l l').
    destruct ((n' =? n) && (l' =? l)) eqn:E.
    + apply andb_true_iff in E as [E1 E2]. apply N.eqb_eq in E1, E2. subst n' l'. now rewrite filter_app.
    + cbn [map filter]. now rewrite app_nil_r.
  - (* a downlink goes away *)
    split; [reflexivity|]. split; [reflexivity|].
    intros n l. cbn [s_subs]. rewrite owed_alt. cbn [s_addr].
    assert (Hl : forall x, live {| s_subs := s_subs s; s_routes := s_routes s; s_addr := s_addr s; s_gone := d :: s_gone s; s_stopped := false; s_senders := s_senders s |} x
                           = (live s x && negb (x =? d))).
    { intros x. unfold live. cbn [s_gone memN existsb]. destruct (x =? d); cbn; [now rewrite andb_false_r|now rewrite andb_true_r]. }
    rewrite (filter_ext _ _ Hl), (filter_ext _ _ Hl). rewrite <- !filter_filter. rewrite <- owed_alt, HT. reflexivity.
  - (* a request arrives *)
    destruct (memN (q_node q) plane); cbn [fst snd]; (split; [reflexivity|]); (split; [reflexivity|]); exact HT.
  - (* a response arrives *)
    pose proof (HT (p_node p) (p_lane p)) as Hhere.
    set (ds := tget (s_subs s) (p_node p) (p_lane p)) in *.
    change (filter (fun d => negb (memN d (s_gone s))) ds) with (filter (live s) ds).
    assert (Hout : map (fun d => DResp d p) (filter (live s) ds) =
                   map (fun d => DResp d p)
                       (map fst (filter (fun da => (fst (snd da) =? p_node p) && (snd (snd da) =? p_lane p) && negb (memN (fst da) (s_gone s))) (s_addr s)))).
    { rewrite Hhere. reflexivity. }
    destruct (Nat.eqb (length (filter (live s) ds)) (length ds)) eqn:Elen.
    + cbn [fst snd]. split; [exact Hout|]. split; [reflexivity|exact HT].
    + destruct (filter (live s) ds) as [|d0 lv'] eqn:Elv.
      * (* nobody is left at that address: the lane entry goes, and the node entry with its last lane *)
        cbn [fst snd]. split; [exact Hout|]. split; [reflexivity|].
        intros n l. rewrite live_set_subs, owed_set_subs. cbn [set_subs s_subs]. rewrite tget_tdrop.
        destruct ((n =? p_node p) && (l =? p_lane p)) eqn:E; [|apply HT].
        apply andb_true_iff in E as [E1 E2]. apply N.eqb_eq in E1, E2. subst n l. rewrite <- Hhere. reflexivity.
      * cbn [fst snd]. split; [exact Hout|]. split; [reflexivity|].
        intros n l. rewrite live_set_subs, owed_set_subs. cbn [set_subs s_subs]. rewrite tget_tset.
        destruct ((n =? p_node p) && (l =? p_lane p)) eqn:E; [|apply HT].
        apply andb_true_iff in E as [E1 E2]. apply N.eqb_eq in E1, E2. subst n l.
        rewrite <- Hhere. fold ds. rewrite <- Elv. apply filter_idem.
  - split; [reflexivity|]. split; [reflexivity|]. exact HT.
  - split; [reflexivity|]. split; [reflexivity|exact HT].
  - split; [|split; [reflexivity|exact HT]].
    assert (H : match lookup d (s_addr s) with Some _ => true | None => false end = memN d (map fst (s_addr s))).
    { induction (s_addr s) as [|[k v] m IH]; cbn; [reflexivity|]. destruct (d =? k); [reflexivity|exact IH]. }
    destruct (lookup d (s_addr s)); rewrite <- H; cbn; [destruct (memN d (s_gone s)); reflexivity|reflexivity].
  - (* a send-only client: no table, no registration changes *)
    split; [reflexivity|]. split; [reflexivity|]. exact HT.
Qed.

Theorem socket_tables_refine_registrations plane ops : forall s, TInv s ->
  srun plane s ops = spec_run plane (abs s) ops.
Proof.
  induction ops as [|o ops IH]; intros s HT; cbn [srun spec_run]; [reflexivity|].
  destruct (sstep_refines plane s o HT) as (H1 & H2 & H3).
  destruct (sstep plane s o) as [s' out]. destruct (expected plane (abs s) o) as [a' out']. cbn [fst snd] in *.
  subst. f_equal. now apply IH.
Qed.

Lemma sexec_inv plane ops : forall s, TInv s -> TInv (sexec plane s ops).
Proof.
  unfold sexec. induction ops as [|o ops IH]; intros s HT; cbn [fold_left]; [exact HT|].
  apply IH. now apply (sstep_refines plane s o HT).
Qed.

(* an arriving response envelope reaches exactly the downlinks attached for its node and lane whose reader is
   still there, in attachment order, unchanged - and nobody else *)
Theorem response_reaches_exactly_the_owed plane ops p :
  let s := sexec plane sock0 ops in
  s_stopped s = false ->
  snd (sstep plane s (OInResp p)) = map (fun d => DResp d p) (owed s (p_node p) (p_lane p)).
Proof.
  intros s Hs. pose proof (sexec_inv plane ops sock0 tinv0) as HT. fold s in HT.
  destruct (sstep_refines plane s (OInResp p) HT) as (H1 & _). rewrite H1.
  unfold expected. cbn [abs o_stopped]. rewrite Hs. reflexivity.
Qed.

(* a downlink attached to another address never sees it *)
Theorem response_is_not_misdelivered plane ops p d :
  let s := sexec plane sock0 ops in
  In (DResp d p) (snd (sstep plane s (OInResp p))) ->
  In (d, (p_node p, p_lane p)) (s_addr s) /\ memN d (s_gone s) = false.
Proof.
  intros s Hin. destruct (s_stopped s) eqn:Hs.
  { unfold sstep in Hin. rewrite Hs in Hin. contradiction. }
  unfold s in Hin. rewrite (response_reaches_exactly_the_owed plane ops p Hs) in Hin. fold s in Hin.
  apply in_map_iff in Hin as (d' & E & Hin). injection E as ->. unfold owed in Hin.
  apply in_map_iff in Hin as ([d' [n l]] & E & Hin). cbn in E. subst d'. apply filter_In in Hin as [Hin Hc]. cbn in Hc.
  apply andb_true_iff in Hc as [Hc Hg]. apply andb_true_iff in Hc as [Hn Hl]. apply N.eqb_eq in Hn, Hl. subst.
  split; [exact Hin|]. now apply negb_true_iff in Hg.
Qed.

(* a request envelope reaches the agent of its node and no other endpoint; without such an agent it is answered
   not-found (commands are dropped) *)
Theorem request_goes_to_its_node plane s q : s_stopped s = false ->
  snd (sstep plane s (OInReq q)) =
  if memN (q_node q) plane then [DReq (q_node q) q]
  else match q_kind q with QCommand => [] | _ => [DFrame (FNotFound (q_node q) (q_lane q))] end.
Proof. intros Hs. unfold sstep. rewrite Hs. destruct (memN (q_node q) plane); reflexivity. Qed.

(* after a frame that is not an envelope nothing is delivered anywhere any more *)
Theorem invalid_frame_is_never_delivered plane s o : s_stopped s = true -> snd (sstep plane s o) = [].
Proof. intros Hs. unfold sstep. now rewrite Hs. Qed.

(* what agents and downlinks send leaves unchanged, one frame per message, in the order it was given *)
Theorem outgoing_messages_leave_unchanged plane s d q :
  s_stopped s = false -> lookup d (s_addr s) <> None -> memN d (s_gone s) = false ->
  snd (sstep plane s (ODlSend d q)) = [DFrame (FReq q)].
Proof. intros Hs Ha Hg. unfold sstep. rewrite Hs. cbn. destruct (lookup d (s_addr s)); [now rewrite Hg|congruence]. Qed.

(* the same for a send-only client: every request it writes leaves the socket unchanged (it is filed under no
   address, so no response is ever owed to it) *)
Theorem sender_messages_leave_unchanged plane s d q :
  s_stopped s = false -> memN d (s_senders s) = true -> memN d (s_gone s) = false ->
  snd (sstep plane s (ODlSend d q)) = [DFrame (FReq q)].
Proof.
  intros Hs Ha Hg. unfold sstep. rewrite Hs. cbn. destruct (lookup d (s_addr s)); [now rewrite Hg|].
  now rewrite Ha, Hg.
Qed.

Lemma attach_sender_registers plane s d :
  s_stopped s = false -> memN d (s_senders (fst (sstep plane s (OAttachSender d)))) = true.
Proof. intros Hs. unfold sstep. rewrite Hs. cbn. now rewrite N.eqb_refl. Qed.

(* non-vacuity: the clean-up case - two lanes of one node, the only downlink of one has gone *)
Lemma cleanup_witness :
  let p1 := {| p_kind := PEvent; p_node := 1; p_lane := 0; p_body := Some 901 |} in
  let p2 := {| p_kind := PEvent; p_node := 1; p_lane := 1; p_body := Some 902 |} in
  srun [] sock0 [OAttach 1 1 0; OAttach 2 1 1; ODrop 1; OInResp p1; OInResp p2] = [[]; []; []; []; [DResp 2 p2]].
Proof. vm_compute. reflexivity. Qed.
